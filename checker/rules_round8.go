package main

// Rules added for the eighth round of seeded changes.

import (
	"fmt"
	"go/token"
	"go/types"
	"sort"
	"strings"

	"golang.org/x/tools/go/ssa"
)

// R-CTORID (C15, C11, C02, C03): a constructor puts each argument where it belongs.
//
// The exported constructors of package ast build a node from their
// arguments. Whatever they do to one argument on its way into a field
// (range clamping, conversion, quoting), the value stored in a field never
// mixes two different parameters of the same type: `NewAny(first, last)`
// swapping its bounds when they come in descending order, or `NewBinary`
// exchanging its operands for some operators, builds the tree of another
// path — `.**{3 to 1}` selects what `.**{1 to 3}` selects, `a && b`
// evaluates b first.
var ruleCtorID = &Rule{
	Name: "R-CTORID", NeedSSA: true,
	Doc: "in every exported constructor New… of package ast, the value stored into a field of the node it allocates (directly or through the composite literal) derives, by data flow through conversions, arithmetic and merges, from at most one of the constructor's parameters of any one type: bounds or operands are never exchanged or merged on the way in, so the tree built for a spelling has its parts where the spelling has them",
	Run: func(p *Prog) *RuleOut {
		out := newOut("R-CTORID")
		var fns []*ssa.Function
		for fn := range p.AllFns {
			if fnPkgPath(fn) == pkgAST && fn.Blocks != nil && fn.Signature.Recv() == nil && fn.Object() != nil && fn.Object().Exported() && strings.HasPrefix(fn.Name(), "New") {
				fns = append(fns, fn)
			}
		}
		sortFuncs(fns)
		nstore := 0
		for _, fn := range fns {
			if len(fn.Params) < 2 {
				continue
			}
			// parameters a value derives from (data flow only)
			var from func(v ssa.Value, seen map[ssa.Value]bool, acc map[*ssa.Parameter]bool, depth int)
			from = func(v ssa.Value, seen map[ssa.Value]bool, acc map[*ssa.Parameter]bool, depth int) {
				if v == nil || seen[v] || depth > 12 {
					return
				}
				seen[v] = true
				switch x := v.(type) {
				case *ssa.Parameter:
					acc[x] = true
				case *ssa.Phi:
					for _, e := range x.Edges {
						from(e, seen, acc, depth+1)
					}
				case *ssa.Convert:
					from(x.X, seen, acc, depth+1)
				case *ssa.ChangeType:
					from(x.X, seen, acc, depth+1)
				case *ssa.ChangeInterface:
					from(x.X, seen, acc, depth+1)
				case *ssa.MakeInterface:
					from(x.X, seen, acc, depth+1)
				case *ssa.UnOp:
					if x.Op == token.MUL {
						// a field of the node under construction read back
						// (`n.first, n.last = n.last, n.first`): what was stored there
						if fa, ok := x.X.(*ssa.FieldAddr); ok {
							if al, ok := fa.X.(*ssa.Alloc); ok {
								for _, r := range *al.Referrers() {
									ofa, ok := r.(*ssa.FieldAddr)
									if !ok || ofa.Field != fa.Field {
										continue
									}
									for _, r2 := range *ofa.Referrers() {
										if st, ok := r2.(*ssa.Store); ok && st.Addr == ssa.Value(ofa) {
											from(st.Val, seen, acc, depth+1)
										}
									}
								}
							}
							return
						}
						// a spill slot of a parameter
						if al, ok := x.X.(*ssa.Alloc); ok {
							for _, r := range *al.Referrers() {
								if st, ok := r.(*ssa.Store); ok && st.Addr == ssa.Value(al) {
									from(st.Val, seen, acc, depth+1)
								}
							}
						}
						return
					}
					from(x.X, seen, acc, depth+1)
				case *ssa.BinOp:
					from(x.X, seen, acc, depth+1)
					from(x.Y, seen, acc, depth+1)
				case *ssa.Extract:
					from(x.Tuple, seen, acc, depth+1)
				case *ssa.Call:
					for _, a := range x.Call.Args {
						from(a, seen, acc, depth+1)
					}
				}
			}
			ord := ordinals{}
			for _, b := range fn.Blocks {
				for _, ins := range b.Instrs {
					st, ok := ins.(*ssa.Store)
					if !ok {
						continue
					}
					fa, ok := st.Addr.(*ssa.FieldAddr)
					if !ok {
						continue
					}
					if _, isAlloc := fa.X.(*ssa.Alloc); !isAlloc {
						continue
					}
					nstore++
					acc := map[*ssa.Parameter]bool{}
					from(st.Val, map[ssa.Value]bool{}, acc, 0)
					// two parameters of one type?
					byType := map[string][]string{}
					for q := range acc {
						k := q.Type().String()
						byType[k] = append(byType[k], q.Name())
					}
					bad := ""
					var ks []string
					for k := range byType {
						ks = append(ks, k)
					}
					sort.Strings(ks)
					for _, k := range ks {
						if len(byType[k]) > 1 {
							sort.Strings(byType[k])
							bad = strings.Join(byType[k], " and ")
						}
					}
					if bad != "" {
						out.viol(fmt.Sprintf("%s: field %s mixes two arguments #%d", fnName(fn), fieldName(fa), ord.next(fieldName(fa))), p.pos(st.Pos()), fnName(fn),
							"the value stored in field "+fieldName(fa)+" derives from the parameters "+bad+", which have the same type: the constructor exchanges or merges its arguments, so the node built for a spelling has its bounds or operands in other places than the spelling")
					}
				}
			}
		}
		out.Counts["field_stores_in_constructors"] = nstore
		out.Floors["field_stores_in_constructors"] = 5
		if len(out.Obs) == 0 {
			out.ok("constructors keep their arguments apart", "path/ast", "", fmt.Sprintf("%d field stores in %d constructors, none mixes two parameters of one type", nstore, len(fns)))
		}
		return out
	},
}

var _ = types.Typ

func init() { register(ruleCtorID) }

// R-OPERANDORDER (C01, C13): left stays left.
//
// `execMathOp(left, right, op)` takes its two operands apart by
// representation and hands them to the integer or double arithmetic, to the
// overflow predicate, or to itself after a conversion. Whatever the arm, the
// first operand handed on comes from `left` and the second from `right`:
// swapped, `+` and `*` still agree and `-`, `/`, `%` compute `r op l` — or the
// overflow predicate judges another operation than the one carried out.
var ruleOperandOrder = &Rule{
	Name: "R-OPERANDORDER", NeedSSA: true,
	Doc: "in every function of package exec that has two operand parameters of one type and an ast.BinaryOperator parameter, each call that hands two operands and an operator on (to the integer or double arithmetic, the overflow predicate, or the function itself) passes as first operand a value derived from the first operand parameter only and as second a value derived from the second only (through type assertions, conversions and the number's own conversion methods): exchanged operands leave + and * right and turn −, / and % round, or make the overflow test judge a different operation",
	Run: func(p *Prog) *RuleOut {
		out := newOut("R-OPERANDORDER")
		bi := p.A.Enums["BinaryOperator"]
		if bi == nil {
			out.undecided("BinaryOperator", "-", "", "anchor unresolved")
			return out
		}
		// operand parameter positions of a function: the two parameters of one
		// type besides the operator
		operands := func(fn *ssa.Function) (l, r, op int) {
			l, r, op = -1, -1, -1
			if fn == nil {
				return
			}
			byType := map[string][]int{}
			for i, q := range fn.Params {
				if types.Identical(q.Type(), bi.Type) {
					op = i
					continue
				}
				switch t := q.Type().Underlying().(type) {
				case *types.Basic:
					if t.Info()&types.IsNumeric == 0 {
						continue
					}
				case *types.Interface:
					if t.NumMethods() != 0 {
						continue
					}
				default:
					continue
				}
				byType[q.Type().String()] = append(byType[q.Type().String()], i)
			}
			for _, idx := range byType {
				if len(idx) == 2 {
					l, r = idx[0], idx[1]
				}
			}
			return
		}
		var from func(v ssa.Value, seen map[ssa.Value]bool, acc map[*ssa.Parameter]bool, depth int)
		from = func(v ssa.Value, seen map[ssa.Value]bool, acc map[*ssa.Parameter]bool, depth int) {
			if v == nil || seen[v] || depth > 12 {
				return
			}
			seen[v] = true
			switch x := v.(type) {
			case *ssa.Parameter:
				acc[x] = true
			case *ssa.Phi:
				for _, e := range x.Edges {
					from(e, seen, acc, depth+1)
				}
			case *ssa.Convert:
				from(x.X, seen, acc, depth+1)
			case *ssa.ChangeType:
				from(x.X, seen, acc, depth+1)
			case *ssa.ChangeInterface:
				from(x.X, seen, acc, depth+1)
			case *ssa.MakeInterface:
				from(x.X, seen, acc, depth+1)
			case *ssa.TypeAssert:
				from(x.X, seen, acc, depth+1)
			case *ssa.Extract:
				from(x.Tuple, seen, acc, depth+1)
			case *ssa.UnOp:
				from(x.X, seen, acc, depth+1)
			case *ssa.Call:
				// a conversion method of the operand (Int64, Float64, String)
				if len(x.Call.Args) == 1 {
					from(x.Call.Args[0], seen, acc, depth+1)
				}
			}
		}
		n := 0
		ord := ordinals{}
		for _, fn := range p.execFuncs() {
			l, r, op := operands(fn)
			if l < 0 || op < 0 {
				continue
			}
			L, R := fn.Params[l], fn.Params[r]
			for _, c := range p.allCalls(fn) {
				cl, cr, cop := operands(c.Call.StaticCallee())
				if cl < 0 || cop < 0 || cl >= len(c.Call.Args) || cr >= len(c.Call.Args) {
					continue
				}
				n++
				key := fmt.Sprintf("%s hands its operands to %s #%d", fnName(fn), c.Call.StaticCallee().Name(), ord.next(fnName(fn)+c.Call.StaticCallee().Name()))
				a1, a2 := map[*ssa.Parameter]bool{}, map[*ssa.Parameter]bool{}
				from(c.Call.Args[cl], map[ssa.Value]bool{}, a1, 0)
				from(c.Call.Args[cr], map[ssa.Value]bool{}, a2, 0)
				switch {
				case a1[R] || a2[L]:
					out.viol(key, p.pos(c.Pos()), fnName(fn), fmt.Sprintf("the first operand handed on derives from %s or the second from %s: the operands are exchanged on this arm, so −, / and %% compute the mirrored operation (or the overflow test judges another operation than the one carried out)", R.Name(), L.Name()))
				default:
					out.ok(key, p.pos(c.Pos()), fnName(fn), "left first, right second")
				}
			}
		}
		out.Counts["operand_forwarding_calls"] = n
		out.Floors["operand_forwarding_calls"] = 1
		return out
	},
}

func init() { register(ruleOperandOrder) }

// R-UNWRAPTHREAD (C07, C09, C10, C15, C01): the "do not unwrap again" travels with the step.
//
// The dispatcher hands every step a flag saying whether an array it meets may
// be unwrapped for it. When a step has just unwrapped an array it re-applies
// itself to the elements with that flag false, so lax mode opens exactly one
// level. The flag is a decision already taken by the caller: a function that
// received it and hands its own node on to a helper that also takes it must
// pass what it received (or false) — re-deriving it from the mode
// (`exec.autoUnwrap()`) loses the "not again", and `.*` on `[[{"a":1}]]`
// opens two levels.
var ruleUnwrapThread = &Rule{
	Name: "R-UNWRAPTHREAD", NeedSSA: true,
	Doc: "the unwrap flag of the dispatcher is threaded: starting from the dispatcher's bool parameter, a bool parameter of a callee is threaded when a caller passes a threaded parameter into it together with its own node; a bool parameter is unwrap-like when, in its function, the branch where it is true re-applies the function's own node; wherever a function that has a threaded parameter hands its own node to a callee with a threaded or unwrap-like bool parameter, the argument is the function's own threaded parameter or the constant false — never a value computed afresh — so lax unwrapping is decided once per step; a function of the Executor that, where its bool parameter is true, opens the arrays among the results of an evaluation does so where the lax predicate answered true, or every caller's argument is false in strict mode",
	Run: func(p *Prog) *RuleOut {
		out := newOut("R-UNWRAPTHREAD")
		disp := p.ssaOf(p.A.Dispatcher)
		if disp == nil {
			out.undecided("dispatcher", "-", "", "anchor unresolved")
			return out
		}
		type pk struct {
			fn  *ssa.Function
			idx int
		}
		isBool := func(t types.Type) bool {
			b, ok := t.Underlying().(*types.Basic)
			return ok && b.Kind() == types.Bool
		}
		threaded := map[pk]bool{}
		for i, q := range disp.Params {
			if isBool(q.Type()) {
				threaded[pk{disp, i}] = true
			}
		}
		// own node of a function: its node-typed parameter
		ownNodeArg := func(fn *ssa.Function, c *ssa.Call) bool {
			for _, a := range c.Call.Args {
				if q := p.ownNodeParam(a, 0); q != nil && q.Parent() == fn {
					return true
				}
			}
			return false
		}
		// unwrap-like parameters
		unwrapLike := map[pk]bool{}
		for _, fn := range p.execFuncs() {
			for i, q := range fn.Params {
				if !isBool(q.Type()) {
					continue
				}
				for _, c := range p.allCalls(fn) {
					if c.Block() == nil || !ownNodeArg(fn, c) || !isMethodOfExecutor(p, c.Call.StaticCallee()) {
						continue
					}
					for _, f := range factsAt(c.Block()) {
						if f.Cond == ssa.Value(q) && f.Truth {
							unwrapLike[pk{fn, i}] = true
						}
					}
				}
			}
		}
		// propagate threadedness top-down
		for changed := true; changed; {
			changed = false
			for _, fn := range p.execFuncs() {
				for _, c := range p.allCalls(fn) {
					g := c.Call.StaticCallee()
					if g == nil || g.Blocks == nil || fnPkgPath(g) != pkgExec || !ownNodeArg(fn, c) {
						continue
					}
					for j, a := range c.Call.Args {
						q, ok := a.(*ssa.Parameter)
						if !ok || q.Parent() != fn || j >= len(g.Params) || !isBool(g.Params[j].Type()) {
							continue
						}
						if threaded[pk{fn, paramIndex(q)}] && !threaded[pk{g, j}] {
							threaded[pk{g, j}] = true
							changed = true
						}
					}
				}
			}
		}
		n := 0
		ord := ordinals{}
		for _, fn := range p.execFuncs() {
			var own []*ssa.Parameter
			for i, q := range fn.Params {
				if threaded[pk{fn, i}] {
					own = append(own, q)
				}
			}
			if len(own) == 0 {
				continue
			}
			for _, c := range p.allCalls(fn) {
				g := c.Call.StaticCallee()
				if g == nil || g.Blocks == nil || fnPkgPath(g) != pkgExec || !ownNodeArg(fn, c) {
					continue
				}
				for j, a := range c.Call.Args {
					if j >= len(g.Params) || !isBool(g.Params[j].Type()) || !(threaded[pk{g, j}] || unwrapLike[pk{g, j}]) {
						continue
					}
					n++
					key := fmt.Sprintf("%s passes the unwrap decision to %s #%d", fnName(fn), g.Name(), ord.next(fnName(fn)+g.Name()))
					good := isConstBool(a, false)
					for _, q := range own {
						if a == ssa.Value(q) {
							good = true
						}
					}
					if good {
						out.ok(key, p.pos(c.Pos()), fnName(fn), "its own parameter, or false")
					} else {
						out.viol(key, p.pos(c.Pos()), fnName(fn), "the function was told whether it may unwrap ("+own[0].Name()+") but hands its own node on with "+trunc(a.String(), 50)+" instead: the \"do not unwrap again\" of a step that has just unwrapped an array is lost, and lax mode opens nested arrays more than one level")
					}
				}
			}
		}
		// a different node (the next step) is handed to the dispatcher with a
		// fresh decision: the path's mode, nothing else
		dIdx := -1
		for i, q := range disp.Params {
			if isBool(q.Type()) {
				dIdx = i
			}
		}
		nn := 0
		for _, fn := range p.execFuncs() {
			for _, c := range callsTo(fn, disp) {
				if ownNodeArg(fn, c) || dIdx < 0 || dIdx >= len(c.Call.Args) {
					continue
				}
				nn++
				key := fmt.Sprintf("%s starts another node with the mode's unwrap decision #%d", fnName(fn), ord.next(fnName(fn)+"/next"))
				a := c.Call.Args[dIdx]
				fc, isCall := a.(*ssa.Call)
				switch {
				case isCall && p.modePredicate(fc.Call.StaticCallee()) == "lax":
					out.ok(key, p.pos(c.Pos()), fnName(fn), "the lax-mode predicate")
				default:
					isThreaded := false
					if q, ok := a.(*ssa.Parameter); ok && q.Parent() == fn && threaded[pk{fn, paramIndex(q)}] {
						isThreaded = true
					}
					if isThreaded {
						out.ok(key, p.pos(c.Pos()), fnName(fn), "the decision the function was handed for this node")
					} else {
						out.viol(key, p.pos(c.Pos()), fnName(fn), "a node other than the function's own is evaluated with the unwrap flag "+trunc(a.String(), 40)+" instead of the path's mode: in lax mode an array that this step produces (the value of a variable, a literal) is not unwrapped for the step that follows")
					}
				}
			}
		}
		// … and not through a helper that hard-codes "do not unwrap" for the
		// node it is handed (`executeItemUnwrapTargetArray(ctx, node, value,
		// found)` calls the traversal with false: right for the caller's own
		// node, which has just been unwrapped, wrong for the node that follows)
		// parameters a function hands to the dispatcher as the unwrap decision
		feeds := map[pk]bool{}
		for _, h := range p.execFuncs() {
			for _, c3 := range callsTo(h, disp) {
				if dIdx < 0 || dIdx >= len(c3.Call.Args) {
					continue
				}
				if q, ok := c3.Call.Args[dIdx].(*ssa.Parameter); ok && q.Parent() == h {
					feeds[pk{h, paramIndex(q)}] = true
				}
			}
		}
		noUnwrapFor := func(g *ssa.Function) bool {
			if g == nil || g.Blocks == nil || fnPkgPath(g) != pkgExec {
				return false
			}
			for _, q := range g.Params {
				if isBool(q.Type()) {
					return false // it has a decision of its own to be told
				}
			}
			for _, c2 := range p.allCalls(g) {
				h := c2.Call.StaticCallee()
				if h == nil || fnPkgPath(h) != pkgExec || !ownNodeArg(g, c2) {
					continue
				}
				for j, a := range c2.Call.Args {
					if j < len(h.Params) && isBool(h.Params[j].Type()) && (threaded[pk{h, j}] || unwrapLike[pk{h, j}] || feeds[pk{h, j}]) && isConstBool(a, false) {
						return true
					}
				}
			}
			return false
		}
		for _, fn := range p.execFuncs() {
			// the same decision handed to a function that passes it on to the
			// dispatcher (`executeAnyItem(ctx, node.Next(), …, exec.autoUnwrap())`)
			for _, c := range p.allCalls(fn) {
				g := c.Call.StaticCallee()
				if c.Call.IsInvoke() || g == nil || g == disp || fnPkgPath(g) != pkgExec || ownNodeArg(fn, c) {
					continue
				}
				var other ssa.Value
				for _, a := range c.Call.Args {
					if types.Identical(a.Type(), p.A.Node) && !isNilConst(a) {
						other = a
					}
				}
				if other == nil {
					continue
				}
				for j, a := range c.Call.Args {
					if j >= len(g.Params) || !feeds[pk{g, j}] {
						continue
					}
					nn++
					key := fmt.Sprintf("%s starts another node with the mode's unwrap decision #%d", fnName(fn), ord.next(fnName(fn)+"/next"))
					fc, isCall := a.(*ssa.Call)
					q, isParam := a.(*ssa.Parameter)
					switch {
					case isCall && p.modePredicate(fc.Call.StaticCallee()) == "lax":
						out.ok(key, p.pos(c.Pos()), fnName(fn), "the lax-mode predicate, handed to "+g.Name())
					case isParam && q.Parent() == fn && (threaded[pk{fn, paramIndex(q)}] || feeds[pk{fn, paramIndex(q)}]):
						out.ok(key, p.pos(c.Pos()), fnName(fn), "the decision the function was handed for this node")
					default:
						out.viol(key, p.pos(c.Pos()), fnName(fn), "a node other than the function's own is handed to "+g.Name()+" with the unwrap flag "+trunc(a.String(), 40)+" instead of the path's mode: in lax mode an array among the elements this step produces is not unwrapped for the step that follows")
					}
				}
			}
			for _, c := range p.allCalls(fn) {
				g := c.Call.StaticCallee()
				if c.Call.IsInvoke() || !noUnwrapFor(g) || ownNodeArg(fn, c) {
					continue
				}
				// a node is handed over, and it is not the caller's own
				var other ssa.Value
				for _, a := range c.Call.Args {
					if types.Identical(a.Type(), p.A.Node) && !isNilConst(a) {
						other = a
					}
				}
				if other == nil {
					continue
				}
				nn++
				key := fmt.Sprintf("%s starts another node with the mode's unwrap decision #%d", fnName(fn), ord.next(fnName(fn)+"/next"))
				out.viol(key, p.pos(c.Pos()), fnName(fn), "a node other than the function's own ("+trunc(other.String(), 40)+") is handed to "+g.Name()+", which evaluates the node it is given with the unwrap flag false: in lax mode an array among the elements this step produces is not unwrapped for the step that follows")
			}
		}
		out.Counts["next_node_dispatches"] = nn
		out.Counts["threaded_unwrap_arguments"] = n
		out.Floors["threaded_unwrap_arguments"] = 3
		p.resultUnwrapIsLax(out)
		return out
	},
}

// resultUnwrapIsLax: a function of the Executor with a bool parameter q that,
// where q is true, opens the arrays among the items an evaluation produced
// (a type test for []any) unwraps results. That happens in lax mode only:
// either the place also lies where the lax predicate answered true, or every
// caller's argument for q is false in strict mode (the constant false, the lax
// predicate's answer, a conjunction with it, or the caller's own parameter
// that is held to the same).
func (p *Prog) resultUnwrapIsLax(out *RuleOut) {
	isLaxFact := func(f Fact) bool {
		c, ok := f.Cond.(*ssa.Call)
		return ok && f.Truth && p.modePredicate(c.Call.StaticCallee()) == "lax"
	}
	type site struct {
		fn *ssa.Function
		q  *ssa.Parameter
	}
	var sites []site
	guardedInside := map[*ssa.Function]bool{}
	for _, fn := range p.execFuncs() {
		if !isMethodOfExecutor(p, fn) || fn.Blocks == nil {
			continue
		}
		for _, q := range fn.Params {
			if bt, ok := q.Type().Underlying().(*types.Basic); !ok || bt.Kind() != types.Bool {
				continue
			}
			found, allLax := false, true
			for _, b := range fn.Blocks {
				onQ, lax := false, false
				for _, f := range factsAt(b) {
					if f.Cond == ssa.Value(q) && f.Truth {
						onQ = true
					}
					if isLaxFact(f) {
						lax = true
					}
				}
				if !onQ {
					continue
				}
				for _, ins := range b.Instrs {
					// the opening handed to a helper of the Executor that is
					// given the items and no node (`exec.unwrapSequence(ctx,
					// seq.list, found)`)
					if c, ok := ins.(*ssa.Call); ok {
						if g := c.Call.StaticCallee(); g != nil && g != fn && !c.Call.IsInvoke() && isMethodOfExecutor(p, g) && opensResultArrays(p, g) {
							found = true
							if !lax {
								allLax = false
							}
						}
						continue
					}
					ta, ok := ins.(*ssa.TypeAssert)
					if !ok {
						continue
					}
					if sl, ok := ta.AssertedType.Underlying().(*types.Slice); ok && types.IsInterface(sl.Elem()) {
						// only where the tested value is an element of a result
						// list (not the function's own item parameter)
						if _, isParam := ta.X.(*ssa.Parameter); isParam {
							continue
						}
						found = true
						if !lax {
							allLax = false
						}
					}
				}
			}
			if found {
				sites = append(sites, site{fn, q})
				if allLax {
					guardedInside[fn] = true
				}
			}
		}
	}
	var laxOnly func(v ssa.Value, at *ssa.BasicBlock, depth int) string
	laxOnly = func(v ssa.Value, at *ssa.BasicBlock, depth int) string {
		if depth > 4 {
			return "too deep to follow"
		}
		if isConstBool(v, false) {
			return ""
		}
		switch x := v.(type) {
		case *ssa.Call:
			if p.modePredicate(x.Call.StaticCallee()) == "lax" {
				return ""
			}
		case *ssa.Phi:
			for i, e := range x.Edges {
				pred := x.Block().Preds[i]
				viaLax := false
				for _, f := range edgeFacts(pred, succIndex(pred, x.Block())) {
					if isLaxFact(f) {
						viaLax = true
					}
				}
				if viaLax {
					continue
				}
				if why := laxOnly(e, pred, depth+1); why != "" {
					return why
				}
			}
			return ""
		case *ssa.Parameter:
			fn := x.Parent()
			if fn == nil || !isMethodOfExecutor(p, fn) {
				return "parameter " + x.Name()
			}
			n := 0
			for _, caller := range p.execFuncs() {
				for _, c := range callsTo(caller, fn) {
					n++
					pi := paramIndex(x)
					if pi >= len(c.Call.Args) {
						return "call at " + p.pos(c.Pos())
					}
					if why := laxOnly(c.Call.Args[pi], c.Block(), depth+1); why != "" {
						return why
					}
				}
			}
			if n == 0 {
				return "parameter " + x.Name() + " of a function without callers in the package"
			}
			return ""
		}
		if at != nil {
			for _, f := range factsAt(at) {
				if isLaxFact(f) {
					return ""
				}
			}
		}
		if isConstBool(v, true) {
			return "the constant true at " + p.pos(at.Instrs[0].Pos())
		}
		return trunc(v.String(), 40)
	}
	n := 0
	for _, s := range sites {
		n++
		key := fnName(s.fn) + " unwraps results in lax mode only"
		if guardedInside[s.fn] {
			out.ok(key, p.pos(s.fn.Pos()), fnName(s.fn), "the arrays among the results are opened where "+s.q.Name()+" is true and the lax predicate answered true")
			continue
		}
		bad := ""
		for _, caller := range p.execFuncs() {
			for _, c := range callsTo(caller, s.fn) {
				pi := paramIndex(s.q)
				if pi >= len(c.Call.Args) {
					continue
				}
				if why := laxOnly(c.Call.Args[pi], c.Block(), 0); why != "" && bad == "" {
					bad = fnName(caller) + " at " + p.pos(c.Pos()) + " passes " + why
				}
			}
		}
		if bad == "" {
			out.ok(key, p.pos(s.fn.Pos()), fnName(s.fn), "every caller's argument for "+s.q.Name()+" is false in strict mode")
		} else {
			out.viol(key, p.pos(s.fn.Pos()), fnName(s.fn), "the arrays among the results of an evaluation are opened whenever "+s.q.Name()+" is true, and "+bad+", which can be true in strict mode: a strict path treats a one-element array as the element (an operand that is an array is no longer an error)")
		}
	}
	out.Counts["result_unwrappers"] = n
	out.Floors["result_unwrappers"] = 1
}

func init() { register(ruleUnwrapThread) }

// R-SCRATCHSTATUS (C06, C07, C11, C01): the status of a side evaluation is not the answer.
//
// A step that first evaluates an operand into a list of its own (the operand
// of a unary operator, the sequence a strict Exists collects, the result to
// unwrap) gets back a status that says whether *that* evaluation found
// something. What the step itself returns is decided afterwards — from the
// items, from the continuation. Only a failure is passed on as it is. A
// `found` left over from the side evaluation makes Exists answer true for
// `-$.a` on a document without `a`; a `not found` from it makes a strict
// Exists answer false where Query returns items.
var ruleScratchStatus = &Rule{
	Name: "R-SCRATCHSTATUS", NeedSSA: true,
	Doc: "in every status function of the executor the status returned never flows (through merges) from the status of an evaluation call whose list argument is a list of the function's own making rather than the function's collector, nor from the status result of a helper that passes such a status on beside a value (`item, res, err := exec.operand(…)`), except on a branch where that status is known to be `failed`: the outcome of a side evaluation is not the outcome of the step",
	Run: func(p *Prog) *RuleOut {
		out := newOut("R-SCRATCHSTATUS")
		failedK := constOf(p.A.StatusFailed)
		isList := func(t types.Type) bool {
			pt, ok := t.(*types.Pointer)
			return ok && pt.Elem() == types.Type(p.A.ValueList)
		}
		n := 0
		// helpers that pass the status of a side evaluation on to their caller
		// beside a value (`item, ok, res, err := exec.execSingleItem(…)`): result index
		leaky := map[*ssa.Function]int{}
		for pass := 0; pass < 3; pass++ {
			for _, fn := range p.execFuncs() {
				// (status, error), or a value beside such a pair: `execOperand(…) (any, resultStatus, error)`
				sIdx := -1
				if p.pairKind(fn.Signature) == "status" {
					sIdx = 0
				} else if rs := fn.Signature.Results(); rs.Len() >= 3 && lastIsError(fn.Signature) && types.Identical(rs.At(rs.Len()-2).Type(), p.A.StatusType) {
					sIdx = rs.Len() - 2
				}
				if sIdx < 0 {
					continue
				}
				// helpers first (twice, for a helper behind a helper), then the
				// status functions, which are the steps
				if (pass < 2) != (sIdx > 0) {
					continue
				}
				// a helper that hands the list it evaluated into back to its caller
				// hands back the evaluation, status included: the caller judges it
				handedBack := func(a ssa.Value) bool {
					for _, r := range returnsOf(fn) {
						for i, rv := range r.Results {
							if i != sIdx && stripConvPlain(rv) == a {
								return true
							}
						}
					}
					return false
				}
				coll := p.collectorParam(fn)
				// side evaluations: status calls with a list argument that is not the collector
				side := map[ssa.Value]*ssa.Call{}
				for _, c := range p.allCalls(fn) {
					if li, isLeaky := leaky[c.Call.StaticCallee()]; isLeaky && !c.Call.IsInvoke() {
						if sv := extractOf(c, li); sv != nil {
							side[sv] = c
						}
						continue
					}
					if p.pairKind(calleeSig(c)) != "status" {
						continue
					}
					own := false
					for _, a := range c.Call.Args {
						if !isList(a.Type()) || isNilConst(a) {
							continue
						}
						if coll != nil && a == ssa.Value(coll) {
							continue
						}
						if sIdx > 0 && handedBack(a) {
							continue
						}
						// a phi that may be the collector (`if found == nil && strict { found = newList() }`) is the collector's business
						if ph, ok := a.(*ssa.Phi); ok {
							isColl, fresh := false, false
							for _, e := range ph.Edges {
								if coll != nil && e == ssa.Value(coll) {
									isColl = true
								}
								switch e.(type) {
								case *ssa.Call, *ssa.Alloc:
									fresh = true
								}
							}
							// the collector, or a list made for the occasion when there is
							// none: in the second case the evaluation is a side evaluation
							if isColl && !fresh {
								continue
							}
						}
						own = true
					}
					if own {
						if sv := extractOf(c, 0); sv != nil {
							side[sv] = c
						}
					}
				}
				if len(side) == 0 {
					continue
				}
				if pass != 0 {
					n += len(side)
				}
				bad := ""
				var check func(v ssa.Value, fs []Fact, at string, seen map[ssa.Value]bool, depth int)
				check = func(v ssa.Value, fs []Fact, at string, seen map[ssa.Value]bool, depth int) {
					v = stripConvPlain(v)
					if seen[v] || depth > 6 || bad != "" {
						return
					}
					seen[v] = true
					if c, ok := side[v]; ok {
						if p.statusFact(fs, v, failedK) != 1 {
							bad = "the return at " + at + " hands back the status of " + calleeName(&c.Call) + " (" + p.pos(c.Pos()) + "), which evaluated into a list of the function's own"
						}
						return
					}
					if ph, ok := v.(*ssa.Phi); ok {
						for i, e := range ph.Edges {
							pred := ph.Block().Preds[i]
							check(e, edgeFacts(pred, succIndex(pred, ph.Block())), at, seen, depth+1)
						}
					}
				}
				for _, r := range returnsOf(fn) {
					if len(r.Results) == 0 {
						continue
					}
					check(r.Results[sIdx], factsAt(r.Instr.Block()), p.pos(r.Instr.Pos()), map[ssa.Value]bool{}, 0)
				}
				if sIdx > 0 {
					// a helper is no step: where it passes such a status on, its
					// callers are held to the rule for that result
					if bad != "" {
						leaky[fn] = sIdx
					}
					continue
				}
				key := fnName(fn) + ": the status of a side evaluation is not returned"
				if bad == "" {
					out.ok(key, p.pos(fn.Pos()), fnName(fn), fmt.Sprintf("%d evaluation(s) into a list of its own; only their failure is passed on", len(side)))
				} else {
					out.viol(key, p.pos(fn.Pos()), fnName(fn), bad+": what that evaluation found (or did not find) becomes the answer of the step, so the existence check disagrees with the query")
				}
			}
		}
		out.Counts["side_evaluations"] = n
		out.Counts["helpers_passing_a_side_status_on"] = len(leaky)
		out.Floors["side_evaluations"] = 2
		return out
	},
}

func init() { register(ruleScratchStatus) }

// R-CHECKEDVALUE (C16): the number that was measured is the number returned.
//
// `.decimal(p,s)` rounds to the scale, then counts the digits of the result
// against the precision. The count has to be taken of the value that is
// returned: counted before the rounding, 99.5 has two digits, passes
// `.decimal(2,0)` and comes back as 100.
var ruleCheckedValue = &Rule{
	Name: "R-CHECKEDVALUE", NeedSSA: true,
	Doc: "in every function of package exec returning (float64, error) that formats a double with strconv.FormatFloat to examine its digits, each success return that the formatting call dominates returns the very value that was formatted: the digits counted against the declared precision are those of the rounded result, not of the argument before rounding",
	Run: func(p *Prog) *RuleOut {
		out := newOut("R-CHECKEDVALUE")
		n := 0
		for _, fn := range p.execFuncs() {
			if fn.Signature.Results().Len() != 2 || !lastIsError(fn.Signature) || !isFloat64(fn.Signature.Results().At(0).Type()) {
				continue
			}
			var fmts []*ssa.Call
			for _, c := range p.allCalls(fn) {
				if calleeQualified(&c.Call) == "strconv.FormatFloat" && len(c.Call.Args) > 0 {
					fmts = append(fmts, c)
				}
			}
			if len(fmts) == 0 {
				continue
			}
			bad := ""
			nret := 0
			for _, r := range returnsOf(fn) {
				if !isNilConst(stripConv(r.Results[1])) {
					continue
				}
				v := stripConv(r.Results[0])
				if _, isC := v.(*ssa.Const); isC {
					continue
				}
				for _, c := range fmts {
					if !(c.Block() == r.Instr.Block() || c.Block().Dominates(r.Instr.Block())) {
						continue
					}
					nret++
					if !sameValue(c.Call.Args[0], v) && bad == "" {
						bad = "the return at " + p.pos(r.Instr.Pos()) + " hands back " + trunc(v.String(), 40) + " while the digits examined at " + p.pos(c.Pos()) + " are those of " + trunc(c.Call.Args[0].String(), 40)
					}
				}
			}
			n += nret
			key := fnName(fn) + ": the value examined is the value returned"
			switch {
			case bad != "":
				out.viol(key, p.pos(fn.Pos()), fnName(fn), bad+": a value that grows a digit when it is rounded passes the precision check and is returned outside the declared precision")
			case nret > 0:
				out.ok(key, p.pos(fn.Pos()), fnName(fn), fmt.Sprintf("%d success return(s) behind the digit count return the counted value", nret))
			}
		}
		out.Counts["returns_behind_a_digit_count"] = n
		out.Floors["returns_behind_a_digit_count"] = 1
		return out
	},
}

func init() { register(ruleCheckedValue) }

// R-ADDRKEY (C15, C05, C19): an address is not an identity.
//
// The executor takes the address of a container for one purpose: the id that
// `.keyvalue()` derives from the distance to its base object. Addresses of
// JSON values do not identify them — every empty `[]any` that encoding/json
// produces shares one address, and a Go program may use one map at two places
// of a document. Used as a map key or compared for equality ("already
// visited", "a cycle") an address makes the evaluation skip or reject
// ordinary documents: `$.**` on `[[],[]]` loses a node or fails.
var ruleAddrKey = &Rule{
	Name: "R-ADDRKEY", NeedSSA: true,
	Doc: "in package exec a value derived from the address of a document value (reflect.Value.Pointer / UnsafePointer, or a module function that returns one) flows only into arithmetic, ordered comparisons and stores: it is never the key of a map lookup or update nor an operand of == / != with anything but a constant — containers are not identified by where they live",
	Run: func(p *Prog) *RuleOut {
		out := newOut("R-ADDRKEY")
		isAddrCall := func(c *ssa.Call) bool {
			if g := c.Call.StaticCallee(); g != nil && g.Signature.Recv() != nil && (g.Name() == "Pointer" || g.Name() == "UnsafePointer" || g.Name() == "UnsafeAddr") {
				if nt, ok := g.Signature.Recv().Type().(*types.Named); ok && nt.Obj().Pkg() != nil && nt.Obj().Pkg().Path() == "reflect" {
					return true
				}
			}
			return false
		}
		// module functions that return an address
		addrFns := map[*ssa.Function]bool{}
		for changed := true; changed; {
			changed = false
			for _, fn := range p.execFuncs() {
				if addrFns[fn] || fn.Signature.Results().Len() != 1 {
					continue
				}
				if bt, ok := fn.Signature.Results().At(0).Type().Underlying().(*types.Basic); !ok || bt.Info()&types.IsInteger == 0 {
					continue
				}
				for _, r := range returnsOf(fn) {
					v := stripConvPlain(r.Results[0])
					for i := 0; i < 4; i++ {
						if cv, ok := v.(*ssa.Convert); ok {
							v = cv.X
						}
					}
					if c, ok := v.(*ssa.Call); ok && (isAddrCall(c) || addrFns[c.Call.StaticCallee()]) {
						addrFns[fn] = true
						changed = true
					}
				}
			}
		}
		n := 0
		ord := ordinals{}
		for _, fn := range p.execFuncs() {
			for _, c := range p.allCalls(fn) {
				if !isAddrCall(c) && !addrFns[c.Call.StaticCallee()] {
					continue
				}
				n++
				bad := ""
				seen := map[ssa.Value]bool{}
				var visit func(v ssa.Value, depth int)
				visit = func(v ssa.Value, depth int) {
					if seen[v] || depth > 8 || bad != "" {
						return
					}
					seen[v] = true
					for _, r := range *v.Referrers() {
						switch x := r.(type) {
						case *ssa.Convert:
							visit(x, depth+1)
						case *ssa.ChangeType:
							visit(x, depth+1)
						case *ssa.Phi:
							visit(x, depth+1)
						case *ssa.MakeInterface:
							visit(x, depth+1)
						case *ssa.Lookup:
							if x.Index == v {
								bad = "the key of the map lookup at " + p.pos(x.Pos())
							}
						case *ssa.MapUpdate:
							if x.Key == v {
								bad = "the key of the map update at " + p.pos(x.Pos())
							}
						case *ssa.BinOp:
							if x.Op == token.EQL || x.Op == token.NEQ {
								other := x.Y
								if other == v {
									other = x.X
								}
								if _, isC := other.(*ssa.Const); !isC {
									bad = "compared for equality at " + p.pos(x.Pos())
								}
							}
						}
					}
				}
				visit(c, 0)
				key := fmt.Sprintf("%s: address of a document value #%d", fnName(fn), ord.next(fnName(fn)))
				if bad == "" {
					out.ok(key, p.pos(c.Pos()), fnName(fn), "used for arithmetic and ordered comparison only")
				} else {
					out.viol(key, p.pos(c.Pos()), fnName(fn), "the address is "+bad+": containers are taken to be the same value because they live at the same place, but every empty array decoded from JSON shares one address and a Go value may occur twice in a document — ordinary documents are skipped or rejected")
				}
			}
		}
		out.Counts["address_takings"] = n
		out.Floors["address_takings"] = 1
		return out
	},
}

func init() { register(ruleAddrKey) }

// opensResultArrays: g takes a slice of items and no node, and tests an
// element for being an array.
func opensResultArrays(p *Prog, g *ssa.Function) bool {
	if g.Blocks == nil {
		return false
	}
	hasSlice := false
	for _, q := range g.Params {
		if types.Identical(q.Type(), types.Type(p.A.Node)) {
			return false
		}
		if sl, ok := q.Type().Underlying().(*types.Slice); ok && types.IsInterface(sl.Elem()) {
			hasSlice = true
		}
	}
	if !hasSlice {
		return false
	}
	for _, b := range g.Blocks {
		for _, ins := range b.Instrs {
			if ta, ok := ins.(*ssa.TypeAssert); ok {
				if _, isParam := ta.X.(*ssa.Parameter); isParam {
					continue
				}
				if sl, ok := ta.AssertedType.Underlying().(*types.Slice); ok && types.IsInterface(sl.Elem()) {
					return true
				}
			}
		}
	}
	return false
}
