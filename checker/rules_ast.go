package main

// Rules on the numeric literal nodes of package ast (C03, C13).

import (
	"fmt"
	"go/token"
	"go/types"
	"strings"

	"golang.org/x/tools/go/ssa"
)

// R-FOLD: a sign is folded into a numeric literal only for a bare literal.
var ruleFold = &Rule{
	Name: "R-FOLD", NeedSSA: true,
	Doc: "the constructor that folds a unary sign into a numeric literal (ast function taking a UnaryOperator and a Node and returning a Node) returns anything other than a freshly built unary node only on paths where the operand is known to have no accessor chain (`node.Next() == nil`): `+1.5.floor()` keeps its unary node, because the sign applies to the value of the whole chain",
	Run: func(p *Prog) *RuleOut {
		out := newOut("R-FOLD")
		ui := p.A.Enums["UnaryOperator"]
		var fold *ssa.Function
		for fn := range p.AllFns {
			if fnPkgPath(fn) != pkgAST || fn.Blocks == nil || fn.Signature.Recv() != nil || len(fn.Params) != 2 || fn.Signature.Results().Len() != 1 {
				continue
			}
			if ui != nil && types.Identical(fn.Params[0].Type(), ui.Type) && types.Identical(fn.Params[1].Type(), types.Type(p.A.Node)) && types.Identical(fn.Signature.Results().At(0).Type(), types.Type(p.A.Node)) {
				fold = fn
			}
		}
		if fold == nil {
			out.undecided("sign-folding constructor", "-", "", "anchor unresolved: no func(UnaryOperator, Node) Node in package ast")
			return out
		}
		nodeP := fold.Params[1]
		n := 0
		for _, r := range returnsOf(fold) {
			n++
			v := stripConv(r.Results[0])
			if mi, ok := v.(*ssa.MakeInterface); ok {
				v = mi.X
			}
			key := fmt.Sprintf("%s returns %s", fnName(fold), trunc(v.String(), 50))
			// a fresh unary node built from both parameters
			if c, ok := v.(*ssa.Call); ok && c.Call.StaticCallee() != nil && fnPkgPath(c.Call.StaticCallee()) == pkgAST {
				usesBoth := 0
				for _, a := range c.Call.Args {
					if a == ssa.Value(fold.Params[0]) || stripConv(a) == ssa.Value(nodeP) {
						usesBoth++
					}
				}
				if usesBoth == 2 {
					out.ok(key, p.pos(r.Instr.Pos()), fnName(fold), "a unary node over the operand")
					continue
				}
			}
			// otherwise: only where Next() of the operand is nil
			bare := false
			for _, f := range factsAt(r.Instr.Block()) {
				bo, ok := f.Cond.(*ssa.BinOp)
				if !ok || (bo.Op != token.EQL && bo.Op != token.NEQ) || !isNilConst(bo.Y) {
					continue
				}
				c, ok := bo.X.(*ssa.Call)
				if !ok {
					continue
				}
				var recv ssa.Value
				switch {
				case c.Call.IsInvoke() && c.Call.Method.Name() == "Next":
					recv = c.Call.Value
				case c.Call.StaticCallee() != nil && c.Call.StaticCallee().Name() == "Next" && len(c.Call.Args) == 1:
					recv = c.Call.Args[0]
				}
				if recv == nil || !derivesFrom(recv, nodeP, 0) {
					continue
				}
				if (bo.Op == token.EQL) == f.Truth {
					bare = true
				}
			}
			// what is returned instead of a unary node is the operand itself or a
			// literal built for it — never a part of the operand: returning the
			// operand of the operand drops two operators from the tree
			// (`-(-$)` on [1, 2.5] would no longer apply minus to each element)
			if u, ok := v.(*ssa.UnOp); ok && u.Op == token.MUL && bare {
				if fa, ok := u.X.(*ssa.FieldAddr); ok && derivesFrom(fa.X, nodeP, 0) {
					out.viol(key, p.pos(r.Instr.Pos()), fnName(fold), "a field of the operand ("+fieldName(fa)+") is returned in place of the unary node: an operator written in the path disappears from the tree, together with its check that the operand is numeric and its unwrapping of arrays")
					continue
				}
			}
			if bare {
				out.ok(key, p.pos(r.Instr.Pos()), fnName(fold), "only for a literal without an accessor chain")
			} else {
				out.viol(key, p.pos(r.Instr.Pos()), fnName(fold), "the sign is dropped or folded although the literal may head an accessor chain: `+1.5.floor()` parses to `(1.5).floor()` and loses its unary node")
			}
		}
		out.Counts["returns_of_the_folding_constructor"] = n
		out.Floors["returns_of_the_folding_constructor"] = 3
		return out
	},
}

// R-NUMLIT: the canonical text of a numeric literal is always canonical.
var ruleNumLit = &Rule{
	Name: "R-NUMLIT", NeedSSA: true,
	Doc: "a field of a literal node that an accessor parses while discarding the parse error (the stated belief `this text always parses`) is written only with the output of a canonical formatter (strconv.Format*, json.Marshal) of a number that was parsed successfully: nothing concatenates or copies text into it, so Int()/Float() cannot silently return 0",
	Run: func(p *Prog) *RuleOut {
		out := newOut("R-NUMLIT")
		// fields parsed with the error discarded
		type fld struct {
			owner *types.Named
			idx   int
			name  string
		}
		believed := map[fld]string{}
		for fn := range p.AllFns {
			if fnPkgPath(fn) != pkgAST || fn.Blocks == nil {
				continue
			}
			for _, b := range fn.Blocks {
				for _, ins := range b.Instrs {
					c, ok := ins.(*ssa.Call)
					if !ok || !strings.HasPrefix(calleeQualified(&c.Call), "strconv.Parse") || len(c.Call.Args) == 0 {
						continue
					}
					if ev := extractOf(c, 1); ev != nil && len(*ev.Referrers()) > 0 {
						continue // the error is looked at
					}
					if u, ok := c.Call.Args[0].(*ssa.UnOp); ok && u.Op == token.MUL {
						if fa, ok := u.X.(*ssa.FieldAddr); ok {
							if o := namedOf(fa.X.Type()); o != nil {
								believed[fld{o, fa.Field, fieldName(fa)}] = fnName(fn)
							}
						}
					}
				}
			}
		}
		out.Counts["fields_parsed_with_the_error_discarded"] = len(believed)
		out.Floors["fields_parsed_with_the_error_discarded"] = 1
		n := 0
		ord := ordinals{}
		var fns []*ssa.Function
		for fn := range p.AllFns {
			if inModule(fn) && fn.Blocks != nil {
				fns = append(fns, fn)
			}
		}
		sortFuncs(fns)
		for _, fn := range fns {
			for _, b := range fn.Blocks {
				for _, ins := range b.Instrs {
					st, ok := ins.(*ssa.Store)
					if !ok {
						continue
					}
					fa, ok := st.Addr.(*ssa.FieldAddr)
					if !ok {
						continue
					}
					o := namedOf(fa.X.Type())
					reader, ok := believed[fld{o, fa.Field, fieldName(fa)}]
					if o == nil || !ok {
						continue
					}
					n++
					key := fmt.Sprintf("%s writes %s.%s #%d", fnName(fn), o.Obj().Name(), fieldName(fa), ord.next(fnName(fn)))
					if why := canonicalNumberText(st.Val, 0); why == "" {
						out.ok(key, p.pos(st.Pos()), fnName(fn), "output of a canonical formatter")
					} else {
						out.viol(key, p.pos(st.Pos()), fnName(fn), "the text that "+reader+" parses while ignoring the error is written with "+why+": a literal such as `--5` makes the accessor return 0 silently")
					}
				}
			}
		}
		out.Counts["writes_of_believed_fields"] = n
		out.Floors["writes_of_believed_fields"] = 2
		return out
	},
}

// canonicalNumberText: "" if v is the output of strconv.Format* / json.Marshal
// (possibly converted to string, or a phi of such); otherwise what it is.
func canonicalNumberText(v ssa.Value, depth int) string {
	if depth > 5 {
		return "a value too deep to follow"
	}
	switch x := v.(type) {
	case *ssa.Convert:
		return canonicalNumberText(x.X, depth+1)
	case *ssa.ChangeType:
		return canonicalNumberText(x.X, depth+1)
	case *ssa.Extract:
		if c, ok := x.Tuple.(*ssa.Call); ok && x.Index == 0 {
			return canonicalNumberText(c, depth+1)
		}
	case *ssa.Call:
		q := calleeQualified(&x.Call)
		if strings.HasPrefix(q, "strconv.Format") || strings.HasPrefix(q, "strconv.Append") || q == "encoding/json.Marshal" || q == "strconv.Itoa" {
			return ""
		}
		return "the result of " + q
	case *ssa.Phi:
		for _, e := range x.Edges {
			if w := canonicalNumberText(e, depth+1); w != "" {
				return w
			}
		}
		return ""
	case *ssa.BinOp:
		return "a concatenation (" + trunc(x.String(), 40) + ")"
	}
	return trunc(v.String(), 50)
}

func init() { register(ruleFold, ruleNumLit) }

// derivesFrom: v is q, or a type assertion, embedded-field selection, load or
// conversion of a value that derives from q (the same node seen through its
// concrete type).
func derivesFrom(v ssa.Value, q *ssa.Parameter, depth int) bool {
	if depth > 8 {
		return false
	}
	switch x := v.(type) {
	case *ssa.Parameter:
		return x == q
	case *ssa.TypeAssert:
		return derivesFrom(x.X, q, depth+1)
	case *ssa.Extract:
		if ta, ok := x.Tuple.(*ssa.TypeAssert); ok && x.Index == 0 {
			return derivesFrom(ta.X, q, depth+1)
		}
	case *ssa.UnOp:
		if x.Op == token.MUL {
			return derivesFrom(x.X, q, depth+1)
		}
	case *ssa.FieldAddr:
		return derivesFrom(x.X, q, depth+1)
	case *ssa.Field:
		return derivesFrom(x.X, q, depth+1)
	case *ssa.ChangeInterface:
		return derivesFrom(x.X, q, depth+1)
	case *ssa.MakeInterface:
		return derivesFrom(x.X, q, depth+1)
	case *ssa.ChangeType:
		return derivesFrom(x.X, q, depth+1)
	case *ssa.Phi:
		for _, e := range x.Edges {
			if !derivesFrom(e, q, depth+1) {
				return false
			}
		}
		return len(x.Edges) > 0
	}
	return false
}
