package main

import (
	"fmt"
	"go/types"
	"sort"
	"strings"

	"golang.org/x/tools/go/ssa"
)

// recovering decides discharge (e): fn registers, before any call, a deferred
// function literal that calls recover() and, when the recovered value is not
// nil, stores into fn's named error result an error built with a `%w`-wrapped
// module sentinel. Returns the sentinel name.
func (p *Prog) recovering(fn *ssa.Function) (bool, string) {
	if fn == nil || len(fn.Blocks) == 0 || fn.Recover == nil {
		return false, ""
	}
	entry := fn.Blocks[0]
	for _, ins := range entry.Instrs {
		switch x := ins.(type) {
		case *ssa.Defer:
			mc, ok := x.Call.Value.(*ssa.MakeClosure)
			if !ok {
				// a named function deferred directly, handed the address of the
				// named error result: `defer recoverX(&res, &err)`
				if sc := x.Call.StaticCallee(); sc != nil && inModule(sc) && sc.Blocks != nil {
					return p.namedRecovers(fn, x, sc)
				}
				return false, ""
			}
			cl := mc.Fn.(*ssa.Function)
			return p.closureRecovers(fn, mc, cl)
		case ssa.CallInstruction:
			return false, "" // a call precedes the defer
		case *ssa.Panic:
			return false, ""
		}
	}
	return false, ""
}

// repanics: the recovery handler contains a panic of its own (it re-raises
// some of the values it recovers, e.g. runtime errors).
func repanics(h *ssa.Function) bool {
	for _, b := range h.Blocks {
		for _, ins := range b.Instrs {
			if _, ok := ins.(*ssa.Panic); ok {
				return true
			}
		}
	}
	return false
}

func (p *Prog) closureRecovers(fn *ssa.Function, mc *ssa.MakeClosure, cl *ssa.Function) (bool, string) {
	var rec *ssa.Call
	for _, b := range cl.Blocks {
		for _, ins := range b.Instrs {
			if c, ok := ins.(*ssa.Call); ok {
				if bi, ok := c.Call.Value.(*ssa.Builtin); ok && bi.Name() == "recover" {
					rec = c
				}
			}
		}
	}
	if rec == nil {
		return false, ""
	}
	if repanics(cl) {
		return false, "" // the handler lets some recovered values through
	}
	// the named error result of fn must be among the captured variables and
	// be assigned a sentinel-wrapping error on the r != nil branch.
	res := fn.Signature.Results()
	if res.Len() == 0 || !isErrorType(res.At(res.Len()-1).Type()) {
		return false, ""
	}
	errName := res.At(res.Len() - 1).Name()
	if errName == "" {
		return false, ""
	}
	for _, b := range cl.Blocks {
		// on the branch where recover() != nil
		okBranch := false
		for _, f := range factsAt(b) {
			_, _, _, notNil := typeFacts([]Fact{f}, rec)
			if notNil {
				okBranch = true
			}
		}
		if !okBranch {
			continue
		}
		for _, ins := range b.Instrs {
			st, ok := ins.(*ssa.Store)
			if !ok {
				continue
			}
			fv, ok := st.Addr.(*ssa.FreeVar)
			if !ok || fv.Name() != errName {
				continue
			}
			// bound to fn's result variable?
			idx := -1
			for i, x := range cl.FreeVars {
				if x == fv {
					idx = i
				}
			}
			if idx < 0 || idx >= len(mc.Bindings) {
				continue
			}
			if a, ok := mc.Bindings[idx].(*ssa.Alloc); !ok || a.Comment != errName {
				continue
			}
			if s := p.errorfSentinel(st.Val); s != "" {
				return true, s
			}
		}
	}
	return false, ""
}

// namedRecovers: the deferred named function calls recover() itself and, on
// the branch where the recovered value is not nil, stores a sentinel-wrapping
// error through the pointer parameter that the defer statement binds to the
// address of fn's named error result.
func (p *Prog) namedRecovers(fn *ssa.Function, d *ssa.Defer, rf *ssa.Function) (bool, string) {
	res := fn.Signature.Results()
	if res.Len() == 0 || !isErrorType(res.At(res.Len()-1).Type()) || res.At(res.Len()-1).Name() == "" {
		return false, ""
	}
	errName := res.At(res.Len() - 1).Name()
	errIdx := -1
	for i, a := range d.Call.Args {
		if al, ok := a.(*ssa.Alloc); ok && al.Comment == errName {
			errIdx = i
		}
	}
	if errIdx < 0 || errIdx >= len(rf.Params) {
		return false, ""
	}
	errP := rf.Params[errIdx]
	if repanics(rf) {
		return false, ""
	}
	var rec *ssa.Call
	for _, b := range rf.Blocks {
		for _, ins := range b.Instrs {
			if c, ok := ins.(*ssa.Call); ok {
				if bi, ok := c.Call.Value.(*ssa.Builtin); ok && bi.Name() == "recover" {
					rec = c
				}
			}
		}
	}
	if rec == nil {
		return false, ""
	}
	for _, b := range rf.Blocks {
		okBranch := false
		for _, f := range factsAt(b) {
			if _, _, _, notNil := typeFacts([]Fact{f}, rec); notNil {
				okBranch = true
			}
		}
		if !okBranch {
			continue
		}
		for _, ins := range b.Instrs {
			if st, ok := ins.(*ssa.Store); ok && st.Addr == ssa.Value(errP) {
				if s := p.errorfSentinel(st.Val); s != "" {
					return true, s
				}
			}
		}
	}
	return false, ""
}

func isErrorType(t types.Type) bool {
	return types.Identical(t, types.Universe.Lookup("error").Type())
}

// errorfSentinel: v is the result of fmt.Errorf whose format starts with %w
// and whose first variadic argument is a module-level sentinel variable;
// returns "pkg.Name" of that sentinel.
func (p *Prog) errorfSentinel(v ssa.Value) string {
	c, ok := v.(*ssa.Call)
	if !ok {
		return ""
	}
	sh := p.shapeOf(c)
	if sh.Kind != "errorf" || !strings.HasPrefix(sh.Text, "%w") || len(sh.Sentinels) == 0 {
		return ""
	}
	return sh.Sentinels[0]
}

func constString(c *ssa.Const) string {
	if c.Value == nil {
		return ""
	}
	s := c.Value.ExactString()
	if len(s) >= 2 && s[0] == '"' {
		var out string
		if _, err := fmt.Sscanf(s, "%q", &out); err == nil {
			return out
		}
	}
	return s
}

// variadicArgs recovers the elements of a `slice t[:]` of a `new [n]any
// (varargs)` array in order.
func variadicArgs(v ssa.Value) []ssa.Value {
	sl, ok := v.(*ssa.Slice)
	if !ok {
		return nil
	}
	al, ok := sl.X.(*ssa.Alloc)
	if !ok {
		return nil
	}
	byIdx := map[int64]ssa.Value{}
	max := int64(-1)
	for _, ref := range *al.Referrers() {
		ia, ok := ref.(*ssa.IndexAddr)
		if !ok {
			continue
		}
		i, ok := constInt(ia.Index)
		if !ok {
			continue
		}
		for _, r2 := range *ia.Referrers() {
			if st, ok := r2.(*ssa.Store); ok && st.Addr == ia {
				byIdx[i] = st.Val
				if i > max {
					max = i
				}
			}
		}
	}
	var out []ssa.Value
	for i := int64(0); i <= max; i++ {
		out = append(out, byIdx[i])
	}
	return out
}

func loadedGlobal(v ssa.Value) *ssa.Global {
	v = stripConv(v)
	if mi, ok := v.(*ssa.MakeInterface); ok {
		v = stripConv(mi.X)
	}
	if u, ok := v.(*ssa.UnOp); ok {
		if g, ok := u.X.(*ssa.Global); ok {
			return g
		}
	}
	return nil
}

// PanicSite is one construct that can raise a run-time panic explicitly.
type PanicSite struct {
	Fn    *ssa.Function
	Instr ssa.Instruction
	Kind  string // panic | must-call | type-assertion
	What  string
}

func panicSites(fn *ssa.Function) []PanicSite {
	var out []PanicSite
	for _, b := range fn.Blocks {
		for _, ins := range b.Instrs {
			switch x := ins.(type) {
			case *ssa.Panic:
				out = append(out, PanicSite{fn, ins, "panic", "panic(" + describe(x.X) + ")"})
			case *ssa.TypeAssert:
				if !x.CommaOk {
					out = append(out, PanicSite{fn, ins, "type-assertion", describe(x.X) + ".(" + typeStr(x.AssertedType) + ")"})
				}
			case ssa.CallInstruction:
				if sc := x.Common().StaticCallee(); sc != nil && !inModule(sc) && strings.HasPrefix(sc.Name(), "Must") {
					out = append(out, PanicSite{fn, ins, "must-call", calleeQualified(x.Common())})
				}
			}
		}
	}
	return out
}

func describe(v ssa.Value) string {
	switch x := v.(type) {
	case *ssa.MakeInterface:
		return describe(x.X)
	case *ssa.Call:
		if q := calleeQualified(&x.Call); q != "" {
			return q + "(…)"
		}
	case *ssa.Parameter:
		return x.Name()
	case *ssa.Const:
		return trunc(x.String(), 40)
	}
	return v.Name()
}

// Tabled exceptions of R-PANIC: one symbol each.
var panicExceptions = map[string]string{
	"(path/exec.kvBaseObject).OffsetOf": "the distance between two addresses of one process cannot exceed 2^63 on any supported platform",
	"(*path/ast.RegexNode).Regexp":      "the pattern and flags were validated with regexp/syntax when the node was built (ast.NewRegex); R-REGEXFLAGS checks that the validator's flags and the compiler's inline flags agree for all 32 flag sets",
}

// panicException: the tabled exceptions. The regexp one is structural: any
// regexp.MustCompile in a method of *ast.RegexNode compiles the node's own
// validated pattern (R-REGEXFLAGS decides that the validated inputs are the
// stored ones), wherever the method is called from.
func (p *Prog) panicException(fn *ssa.Function, s PanicSite) (string, bool) {
	if why, ok := panicExceptions[fnName(fn)]; ok {
		return why, true
	}
	if c, ok := s.Instr.(*ssa.Call); ok && calleeQualified(&c.Call) == "regexp.MustCompile" && fn.Signature.Recv() != nil {
		if n := namedOf(fn.Signature.Recv().Type()); n != nil && n.Obj().Name() == "RegexNode" && n.Obj().Pkg() != nil && n.Obj().Pkg().Path() == pkgAST {
			return panicExceptions["(*path/ast.RegexNode).Regexp"], true
		}
	}
	return "", false
}

// dischargeSite tries the local discharges (a)/(a') for a panic site.
func (p *Prog) dischargeSite(s PanicSite) (bool, string) {
	switch s.Kind {
	case "panic":
		// (a) infeasible: the block is reached only when an enum-typed value
		// differs from every constant it can take.
		fs := factsAt(s.Instr.Block())
		tried := map[ssa.Value]bool{}
		for _, f := range fs {
			bo, ok := f.Cond.(*ssa.BinOp)
			if !ok {
				continue
			}
			for _, v := range []ssa.Value{bo.X, bo.Y} {
				if tried[v] {
					continue
				}
				tried[v] = true
				ei := p.enumOf(v.Type())
				if ei == nil {
					continue
				}
				excl, eq := excludedConsts(fs, v)
				if eq != nil {
					continue
				}
				uni := p.enumUniverse(v, ei, 0)
				covered := true
				var missing []string
				for k := range uni {
					if !excl[k] {
						covered = false
						if c := ei.byVal(k); c != nil {
							missing = append(missing, c.Name())
						}
					}
				}
				if covered {
					return true, fmt.Sprintf("infeasible: the switch on %s lists every one of the %d constants it can take", typeStr(v.Type()), len(uni))
				}
				sort.Strings(missing)
				_ = missing
			}
		}
		// (a'') infeasible by type: reached only when an interface value is
		// not of a type that every possible dynamic type satisfies.
		for _, f := range fs {
			ex, ok := f.Cond.(*ssa.Extract)
			if !ok || f.Truth {
				continue
			}
			ta, ok := ex.Tuple.(*ssa.TypeAssert)
			if !ok || ex.Index != 1 {
				continue
			}
			ts := p.dynTypes(ta.X)
			if ts.Top || len(ts.Types) == 0 {
				continue
			}
			_, isNot, _, _ := typeFacts(fs, ta.X)
			all := true
			for _, t := range ts.Types {
				hit := false
				for _, n := range isNot {
					if types.Identical(t, n) || (types.IsInterface(n) && types.Implements(t, n.Underlying().(*types.Interface))) {
						hit = true
					}
				}
				if !hit {
					all = false
				}
			}
			if all {
				return true, "infeasible: every dynamic type that reaches " + describe(ta.X) + " (" + strings.Join(ts.strings(), ", ") + ") is handled before this branch"
			}
		}
	case "type-assertion":
		ta := s.Instr.(*ssa.TypeAssert)
		ts := p.dynTypes(ta.X)
		if ts.Top || len(ts.Types) == 0 {
			return false, "dynamic type of the operand is not bounded: " + ts.Why
		}
		for _, t := range ts.Types {
			if types.IsInterface(ta.AssertedType) {
				if !types.Implements(t, ta.AssertedType.Underlying().(*types.Interface)) {
					return false, "operand may hold " + typeStr(t)
				}
			} else if !types.Identical(t, ta.AssertedType) {
				return false, "operand may hold " + typeStr(t)
			}
		}
		return true, "operand can only hold " + strings.Join(ts.strings(), ", ")
	}
	return false, ""
}

// rulePanic builds R-PANIC for a root set.
func rulePanic(name, doc string, rootsOf func(p *Prog) []*ssa.Function, wantSentinel string, minRoots int) *Rule {
	return &Rule{
		Name: name, NeedSSA: true, Doc: doc,
		Run: func(p *Prog) *RuleOut {
			out := newOut(name)
			roots := rootsOf(p)
			out.Counts["roots"] = len(roots)
			out.Floors["roots"] = minRoots
			// reachability that does not descend below a recovering function
			rec := map[*ssa.Function]string{}
			for fn := range p.AllFns {
				if inModule(fn) {
					if ok, s := p.recovering(fn); ok {
						rec[fn] = s
					}
				}
			}
			cut := p.reachCut(roots, rec)
			full := p.reachFrom(roots)
			nsites, ncovered := 0, 0
			for _, fn := range moduleFuncs(full.Set) {
				for _, s := range panicSites(fn) {
					nsites++
					key := fmt.Sprintf("%s: %s", fnName(fn), s.What)
					site := p.pos(s.Instr.Pos())
					if _, isRec := rec[fn]; !cut.Set[fn] || isRec {
						ncovered++
						out.ok(key, site, fnName(fn), "below a recovering root: the panic is converted into the documented error")
						continue
					}
					if why, ok := p.panicException(fn, s); ok {
						out.excepted(key, site, fnName(fn), why)
						continue
					}
					if fnPkgPath(fn) == pkgExec {
						// judged per call context by the abstract interpreter (E2)
						if e, err := p.exhEngine(); err == nil {
							if ctxs := e.feasibleContexts(s.Instr.Block()); len(ctxs) == 0 {
								out.ok(key, site, fnName(fn), fmt.Sprintf("infeasible in all %d call contexts of the function (node shapes from the grammar, documented item types)", len(e.contexts(fn, e.depthCap))))
								continue
							} else {
								var w []string
								for i, c := range ctxs {
									if i < 3 {
										w = append(w, e.describeCtx(c, s.Instr.Block()))
									}
								}
								if ok, why := p.dischargeSite(s); ok {
									out.ok(key, site, fnName(fn), why)
									continue
								}
								out.viol(key, site, fnName(fn), "reachable "+s.Kind+": a document or path can crash the caller instead of yielding an error", append(w, cut.path(p, fn)...)...)
								continue
							}
						}
					}
					if ok, why := p.dischargeSite(s); ok {
						out.ok(key, site, fnName(fn), why)
						continue
					} else if why != "" {
						out.viol(key, site, fnName(fn), "reachable "+s.Kind+" ("+why+")", cut.path(p, fn)...)
						continue
					}
					out.viol(key, site, fnName(fn), "reachable "+s.Kind+": an input can crash the caller instead of yielding an error", cut.path(p, fn)...)
				}
			}
			for fn, s := range rec {
				if full.Set[fn] {
					key := "recovering root " + fnName(fn)
					if wantSentinel != "" && s != wantSentinel {
						out.viol(key, p.pos(fn.Pos()), fnName(fn), "recovered panics are reported with "+s+", expected "+wantSentinel)
					} else {
						out.ok(key, p.pos(fn.Pos()), fnName(fn), "defers recover() before any call and reports "+s)
					}
				}
			}
			out.Counts["panic_sites_reachable"] = nsites
			out.Counts["sites_below_recover"] = ncovered
			out.Counts["module_functions_reachable"] = len(moduleFuncs(full.Set))
			return out
		},
	}
}

// reachCut: like reachFrom but recovering functions are not expanded.
func (p *Prog) reachCut(roots []*ssa.Function, rec map[*ssa.Function]string) *Reach {
	return p.reachFromCut(roots, func(f *ssa.Function) bool { _, ok := rec[f]; return ok })
}
