package main

// R-EARLYEXIT (C06): the existence shortcut answers "found" only where the
// collecting evaluation would produce an item.
//
// Throughout the executor, `if next == nil && found == nil { return OK }` cuts
// an evaluation short when nobody collects items and nothing follows. It is
// the twin of handing the item to the continuation. The shortcut is sound only
// if, on the same path with a collector, the continuation would actually be
// reached: otherwise Exists says true where Query returns nothing. From the
// other successor of the shortcut's test, every path (phis resolved along the
// path, conditions on them evaluated) must reach a call that receives the
// collector (the continuation) or an append to it before it returns or goes
// round a loop.

import (
	"fmt"
	"go/token"
	"go/types"

	"golang.org/x/tools/go/ssa"
)

// earlyExitExceptions: shortcuts whose twin produces for a reason outside the
// control-flow graph. Keyed by function.
var earlyExitExceptions = map[string]string{
	"(*path/exec.Executor).executeKeyValueMethod": "the loop over the object's keys runs at least once: the function returns `not found` for an empty object before the shortcut (len(obj) == 0)",
	"path/exec.executeKeyValueMethod":             "the loop over the object's keys runs at least once: the function returns `not found` for an empty object before the shortcut (len(obj) == 0)",
}

var ruleEarlyExit = &Rule{
	Name: "R-EARLYEXIT", NeedSSA: true,
	Doc: "every `return OK, nil` taken because there is no collector and no next node (found == nil) has a twin: from the other successor of its test, every path reaches a call that receives the collector, or an append to it, before returning or re-entering a loop (phis resolved along the path); otherwise Exists reports true where a complete evaluation yields no item",
	Run: func(p *Prog) *RuleOut {
		out := newOut("R-EARLYEXIT")
		okK := constOf(p.A.StatusConsts["statusOK"])
		n := 0
		ord := ordinals{}
		for _, fn := range p.execFuncs() {
			if p.pairKind(fn.Signature) != "status" {
				continue
			}
			var coll *ssa.Parameter
			for _, q := range fn.Params {
				if pt, ok := q.Type().(*types.Pointer); ok && pt.Elem() == types.Type(p.A.ValueList) {
					coll = q
				}
			}
			if coll == nil {
				continue
			}
			for _, b := range fn.Blocks {
				r, ok := b.Instrs[len(b.Instrs)-1].(*ssa.Return)
				if !ok || b == fn.Recover || len(r.Results) != 2 {
					continue
				}
				if k, isC := constInt(stripConv(unspill(b, r, r.Results[0]))); !isC || k != okK || !isNilConst(stripConv(unspill(b, r, r.Results[1]))) {
					continue
				}
				// the governing test: the closest dominating condition `found == nil`
				var test *ssa.BasicBlock
				var other *ssa.BasicBlock
				for cur := b; cur != nil && test == nil; cur = cur.Idom() {
					if len(cur.Preds) != 1 {
						continue
					}
					pr := cur.Preds[0]
					iff, ok := pr.Instrs[len(pr.Instrs)-1].(*ssa.If)
					if !ok {
						continue
					}
					// the edge taken implies a nil collector (the test may be a
					// named predicate: existenceOnly(next, found))
					switch {
					case pr.Succs[0] == cur && impliesNilCollector(iff.Cond, coll):
						test, other = pr, pr.Succs[1]
					case pr.Succs[1] == cur && func() bool { t, u := collTruth(iff.Cond, coll, false, nil, 0); return u && t == triTrue }():
						test, other = pr, pr.Succs[0]
					}
				}
				if test == nil {
					continue // an unconditional success, not a shortcut
				}
				// a success reported after the continuation already ran is not a shortcut
				after := false
				for _, b2 := range fn.Blocks {
					for _, ins := range b2.Instrs {
						c, ok := ins.(*ssa.Call)
						if !ok || !(b2 == b || b2.Dominates(b)) || tinyPredicate(c.Call.StaticCallee()) {
							continue
						}
						for _, a := range c.Call.Args {
							if a == ssa.Value(coll) {
								after = true
							}
						}
					}
				}
				if after {
					continue
				}
				// the `next == nil` half of the test may sit before it: take the
				// false successor of the first test of the && chain
				if len(test.Preds) == 1 {
					pp := test.Preds[0]
					if iff, ok := pp.Instrs[len(pp.Instrs)-1].(*ssa.If); ok && pp.Succs[0] == test {
						if bo, ok := iff.Cond.(*ssa.BinOp); ok && bo.Op == token.EQL && isNilConst(bo.Y) && pp.Succs[1] == other {
							_ = bo
						}
					}
				}
				n++
				key := fmt.Sprintf("%s: existence shortcut #%d", fnName(fn), ord.next(fnName(fn)))
				if why, ok := earlyExitExceptions[fnName(fn)]; ok && p.emptyMapReturnsNotFound(fn, test) {
					out.excepted(key, p.pos(r.Pos()), fnName(fn), why+" (checked: a test len(map) == 0 returning not-found dominates the shortcut)")
					continue
				}
				if bad := p.twinProduces(fn, other, test, coll); bad == "" {
					out.ok(key, p.pos(r.Pos()), fnName(fn), "with a collector the same path hands the item on")
				} else {
					out.viol(key, p.pos(r.Pos()), fnName(fn), "the shortcut answers `found` although with a collector "+bad+": Exists can report true where Query returns no item")
				}
			}
		}
		out.Counts["existence_shortcuts"] = n
		out.Floors["existence_shortcuts"] = 3
		return out
	},
}

// twinProduces walks from start; "" if every path produces before leaving.
func (p *Prog) twinProduces(fn *ssa.Function, start, from *ssa.BasicBlock, coll *ssa.Parameter) string {
	bad := ""
	budget := 3000
	produces := func(ins ssa.Instruction) bool {
		c, ok := ins.(*ssa.Call)
		if !ok || tinyPredicate(c.Call.StaticCallee()) {
			return false // a named test of the collector hands nothing on
		}
		for _, a := range c.Call.Args {
			if a == ssa.Value(coll) {
				return true
			}
		}
		return false
	}
	type envT map[*ssa.Phi]ssa.Value
	resolve := func(v ssa.Value, env envT) ssa.Value {
		for i := 0; i < 8; i++ {
			ph, ok := v.(*ssa.Phi)
			if !ok {
				return v
			}
			nv, ok := env[ph]
			if !ok {
				return v
			}
			v = nv
		}
		return v
	}
	var walk func(b, prev *ssa.BasicBlock, env envT, on map[*ssa.BasicBlock]bool)
	walk = func(b, prev *ssa.BasicBlock, env envT, on map[*ssa.BasicBlock]bool) {
		if bad != "" {
			return
		}
		if budget <= 0 {
			bad = "the paths are too many to follow (undecided)"
			return
		}
		budget--
		if on[b] {
			bad = "a path goes round the loop at " + p.pos(firstPos(b)) + " without handing anything on"
			return
		}
		nenv := make(envT, len(env)+2)
		for k, v := range env {
			nenv[k] = v
		}
		for i, pr := range b.Preds {
			if pr != prev {
				continue
			}
			for _, ins := range b.Instrs {
				ph, ok := ins.(*ssa.Phi)
				if !ok {
					break
				}
				nenv[ph] = resolve(ph.Edges[i], env)
			}
		}
		non := make(map[*ssa.BasicBlock]bool, len(on)+1)
		for k := range on {
			non[k] = true
		}
		non[b] = true
		for _, ins := range b.Instrs {
			if produces(ins) {
				return
			}
			switch x := ins.(type) {
			case *ssa.Return:
				if b == fn.Recover {
					return
				}
				// an error exit is not a silent "nothing": only non-failed exits count
				rv := stripConv(resolve(unspill(b, x, x.Results[0]), nenv))
				if k, isC := constInt(rv); isC && k == constOf(p.A.StatusFailed) {
					return
				}
				if ex, ok := rv.(*ssa.Extract); ok {
					if c, ok := ex.Tuple.(*ssa.Call); ok && p.alwaysFails(calledFunc(c), 0) {
						return // reports a failure (through a suppression helper or a function that only fails)
					}
				}
				bad = "the path to the return at " + p.pos(x.Pos()) + " hands nothing on"
				return
			case *ssa.Panic:
				return
			case *ssa.If:
				t, e := true, true
				c := resolve(x.Cond, nenv)
				if k, ok := c.(*ssa.Const); ok && k.Value != nil {
					if k.Value.ExactString() == "true" {
						e = false
					} else {
						t = false
					}
				}
				if u, ok := c.(*ssa.UnOp); ok && u.Op == token.NOT {
					if k, ok := resolve(u.X, nenv).(*ssa.Const); ok && k.Value != nil {
						if k.Value.ExactString() == "true" {
							t = false
						} else {
							e = false
						}
					}
				}
				// the collector is not nil on the twin path
				switch tv, _ := collTruth(x.Cond, coll, false, func(v ssa.Value) ssa.Value { return resolve(v, nenv) }, 0); tv {
				case triTrue:
					e = false
				case triFalse:
					t = false
				}
				for si, s := range b.Succs {
					if (si == 0 && !t) || (si == 1 && !e) {
						continue
					}
					walk(s, b, nenv, non)
				}
				return
			case *ssa.Jump:
				walk(b.Succs[0], b, nenv, non)
				return
			}
		}
	}
	walk(start, from, envT{}, map[*ssa.BasicBlock]bool{})
	return bad
}

func init() { register(ruleEarlyExit) }

// calledFunc: the function a call invokes when that is known statically: a
// static callee, or a function literal bound to a local.
func calledFunc(c *ssa.Call) *ssa.Function {
	if f := c.Call.StaticCallee(); f != nil {
		return f
	}
	switch v := c.Call.Value.(type) {
	case *ssa.MakeClosure:
		f, _ := v.Fn.(*ssa.Function)
		return f
	case *ssa.Function:
		return v
	}
	return nil
}

// alwaysFails: every return of the status-returning function reports failure:
// the constant failed status, or the result of a suppression helper or of
// another function that always fails.
func (p *Prog) alwaysFails(fn *ssa.Function, depth int) bool {
	if fn == nil || fn.Blocks == nil || depth > 3 || p.pairKind(fn.Signature) != "status" {
		return false
	}
	for _, g := range p.gates() {
		if g.Fn == fn {
			return true
		}
	}
	n := 0
	for _, r := range expandedReturns(fn) {
		n++
		v := stripConv(r.Results[0])
		if k, isC := constInt(v); isC && k == constOf(p.A.StatusFailed) {
			continue
		}
		if ex, ok := v.(*ssa.Extract); ok {
			if c, ok := ex.Tuple.(*ssa.Call); ok && p.alwaysFails(calledFunc(c), depth+1) {
				continue
			}
		}
		return false
	}
	return n > 0
}
