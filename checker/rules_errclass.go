package main

import (
	"fmt"
	"go/token"
	"go/types"
	"sort"
	"strings"

	"golang.org/x/tools/go/ssa"
)

// ordinalKey builds "fn: <class> error #n" keys, stable under line changes.
type ordinals map[string]int

func (o ordinals) next(k string) int { o[k]++; return o[k] }

var ruleErrSites = &Rule{
	Name: "R-ERRSITES", NeedSSA: true,
	Doc: "every error-construction site of package exec (outside init) is fmt.Errorf with a constant format that begins with %w bound to one of the three exec sentinels (ErrVerbose, ErrExecution, ErrInvalid)",
	Run: func(p *Prog) *RuleOut {
		out := newOut("R-ERRSITES")
		e := p.errors()
		ord := ordinals{}
		n := 0
		for _, fn := range p.execFuncs() {
			if isInit(fn) {
				continue
			}
			for _, b := range fn.Blocks {
				for _, ins := range b.Instrs {
					c, ok := ins.(*ssa.Call)
					if !ok {
						continue
					}
					q := calleeQualified(&c.Call)
					if q != "fmt.Errorf" && q != "errors.New" {
						continue
					}
					n++
					cls := p.classNames(e.callClasses(c, 0, nil))
					key := fmt.Sprintf("%s: error site #%d", fnName(fn), ord.next(fnName(fn)))
					good := len(cls) == 1 && (cls[0] == "Verbose" || cls[0] == "Hard" || cls[0] == "Ctx" || cls[0] == "Invalid")
					if !good && p.isErrCtor(fn) {
						// a constructor helper that is handed the sentinel
						// (`argErr(class error, format string, …)`): judged where it
						// is called
						ncall, badAt := 0, ""
						for _, g := range p.execFuncs() {
							for _, cc := range p.allCalls(g) {
								if cc.Call.StaticCallee() != fn {
									continue
								}
								ncall++
								ccls := p.classNames(e.classify(cc, nil, map[ssa.Value]bool{}))
								allGood := len(ccls) > 0
								for _, k := range ccls {
									if k != "Verbose" && k != "Hard" && k != "Ctx" && k != "Invalid" {
										allGood = false
									}
								}
								if !allGood && badAt == "" {
									badAt = p.pos(cc.Pos()) + " (class " + strings.Join(ccls, ",") + ")"
								}
							}
						}
						if ncall > 0 && badAt == "" {
							out.ok(key, p.pos(c.Pos()), fnName(fn), fmt.Sprintf("a constructor helper: each of its %d calls hands it an exec sentinel to wrap", ncall))
							continue
						}
						if badAt != "" {
							out.viol(key, p.pos(c.Pos()), fnName(fn), "the constructor helper is called at "+badAt+" with something other than an exec sentinel to wrap: callers cannot classify the error with errors.Is(err, exec.ErrExecution)")
							continue
						}
					}
					if good {
						out.ok(key, p.pos(c.Pos()), fnName(fn), "class "+cls[0])
					} else {
						out.viol(key, p.pos(c.Pos()), fnName(fn), "error is not built with %w of an exec sentinel (class "+strings.Join(cls, ",")+"): callers cannot classify it with errors.Is(err, exec.ErrExecution)")
					}
				}
			}
		}
		out.Counts["error_sites"] = n
		out.Floors["error_sites"] = 20
		return out
	},
}

// R-ERRCLASS: classes that can reach the entry points.
var ruleErrClass = &Rule{
	Name: "R-ERRCLASS", NeedSSA: true,
	Doc: "the error result of Query/First/Exists/Match can only be nil, an error wrapping ErrExecution (suppressible, hard or cancellation), or NULL from Exists/Match; a foreign (unwrapped stdlib) error or a bare error is a violation. ErrInvalid sources are handed to R-EXH, which must show each of them unreachable for parser-produced paths",
	Run: func(p *Prog) *RuleOut {
		out := newOut("R-ERRCLASS")
		e := p.errors()
		for _, name := range p.A.EntryOrder {
			fn := p.ssaOf(p.A.Entry[name])
			rs := e.ret[fn]
			if fn == nil || rs == nil {
				out.undecided("exec."+name, "-", "", "no summary")
				continue
			}
			set := rs[len(rs)-1]
			allowed := map[string]bool{"nil": true, "Verbose": true, "Hard": true, "Ctx": true, "Invalid": true}
			if name == "Exists" || name == "Match" {
				allowed["NULL"] = true
			}
			byClass := map[string][]*ErrSrc{}
			for s := range set {
				byClass[s.Class] = append(byClass[s.Class], s)
			}
			for _, cls := range sortedKeys(boolKeys(byClass)) {
				srcs := byClass[cls]
				sort.Slice(srcs, func(i, j int) bool { return p.srcDesc(srcs[i]) < p.srcDesc(srcs[j]) })
				key := fmt.Sprintf("exec.%s may return class %s", name, cls)
				if allowed[cls] {
					out.ok(key, p.pos(fn.Pos()), fnName(fn), fmt.Sprintf("%d source site(s)", len(srcs)))
					continue
				}
				var w []string
				for _, s := range srcs {
					w = append(w, p.srcDesc(s))
				}
				out.viol(key, p.pos(fn.Pos()), fnName(fn), "an error that does not wrap exec.ErrExecution (nor is NULL where allowed) can leave this entry point", w...)
			}
			out.Counts["sources reaching "+name] = len(set)
			out.Floors["sources reaching "+name] = 13
		}
		return out
	},
}

func boolKeys[T any](m map[string]T) map[string]bool {
	o := map[string]bool{}
	for k := range m {
		o[k] = true
	}
	return o
}

// --- gates ------------------------------------------------------------------------

// gateInfo describes a suppression helper.
type gateInfo struct {
	Fn          *ssa.Function
	RequiresIs  bool // suppresses only when errors.Is(err, ErrVerbose)
	Description string
}

// gates finds the suppression helpers structurally: methods of *Executor with
// signature (error) (status, error) all of whose returns are (failed, param)
// or (failed, nil), the latter only where the verbose field is false.
func (p *Prog) gates() []gateInfo {
	var out []gateInfo
	for _, fn := range p.execFuncs() {
		if !isMethodOfExecutor(p, fn) || p.pairKind(fn.Signature) != "status" || len(fn.Params) != 2 || !isErrorType(fn.Params[1].Type()) {
			continue
		}
		ok := true
		requiresIs := true
		nNil := 0
		for _, r := range expandedReturns(fn) {
			if k, isC := constInt(stripConv(r.Results[0])); !isC || k != constOf(p.A.StatusFailed) {
				ok = false
				break
			}
			ev := stripConv(r.Results[1])
			switch {
			case ev == ssa.Value(fn.Params[1]):
			case isNilConst(ev):
				nNil++
				fs := r.Facts
				if !p.verboseFact(fs, false) {
					ok = false
				}
				if !p.errorsIsFact(fs, fn.Params[1], true) {
					requiresIs = false
				}
			default:
				ok = false
			}
		}
		if ok && nNil > 0 {
			d := "suppresses its argument whenever verbose is off (argument must be a suppressible error)"
			if requiresIs {
				d = "suppresses its argument only when verbose is off and errors.Is(err, ErrVerbose)"
			}
			out = append(out, gateInfo{fn, requiresIs, d})
		}
	}
	return out
}

// verboseFact: the facts contain "verbose field == want".
func (p *Prog) verboseFact(fs []Fact, want bool) bool {
	for _, f := range fs {
		if u, ok := f.Cond.(*ssa.UnOp); ok && u.Op == token.MUL {
			if fld, _ := p.execFieldOf(u.X); fld == p.A.VerboseField && f.Truth == want {
				return true
			}
		}
		if u, ok := f.Cond.(*ssa.UnOp); ok && u.Op == token.NOT {
			if l, ok := u.X.(*ssa.UnOp); ok && l.Op == token.MUL {
				if fld, _ := p.execFieldOf(l.X); fld == p.A.VerboseField && f.Truth != want {
					return true
				}
			}
		}
	}
	return false
}

// errorsIsFact: the facts contain errors.Is(v, ErrVerbose) == want.
func (p *Prog) errorsIsFact(fs []Fact, v ssa.Value, want bool) bool {
	for _, f := range fs {
		c, ok := f.Cond.(*ssa.Call)
		if !ok || calleeQualified(&c.Call) != "errors.Is" || len(c.Call.Args) != 2 {
			continue
		}
		if !sameValue(c.Call.Args[0], v) {
			continue
		}
		if g := loadedGlobal(c.Call.Args[1]); g != nil && g.Object() == p.A.ErrVerbose && f.Truth == want {
			return true
		}
	}
	return false
}

var ruleGate = &Rule{
	Name: "R-GATE", NeedSSA: true,
	Doc: "suppressible errors leave an evaluator function only through a gate: the error operand of every return of every (status|outcome, error) function is nil, both results of a call to such a function or to a suppression helper, a non-suppressible error, or a suppressible error built on the branch where the verbose field is true; the helper that suppresses unconditionally is only ever handed suppressible errors; the general helper suppresses only errors.Is(err, ErrVerbose)",
	Run: func(p *Prog) *RuleOut {
		out := newOut("R-GATE")
		e := p.errors()
		gs := p.gates()
		isGate := map[*ssa.Function]*gateInfo{}
		for i := range gs {
			isGate[gs[i].Fn] = &gs[i]
			out.ok("gate "+fnName(gs[i].Fn), p.pos(gs[i].Fn.Pos()), fnName(gs[i].Fn), gs[i].Description)
		}
		out.Counts["gates"] = len(gs)
		out.Floors["gates"] = 2
		nIs := 0
		for _, g := range gs {
			if g.RequiresIs {
				nIs++
			}
		}
		out.Counts["gates_checking_errors.Is"] = nIs
		out.Floors["gates_checking_errors.Is"] = 1
		// arguments of the unconditional gate
		ncalls := 0
		ord := ordinals{}
		for _, fn := range p.execFuncs() {
			for _, b := range fn.Blocks {
				for _, ins := range b.Instrs {
					c, ok := ins.(*ssa.Call)
					if !ok {
						continue
					}
					g := isGate[c.Call.StaticCallee()]
					if g == nil {
						continue
					}
					ncalls++
					if g.RequiresIs {
						continue
					}
					arg := c.Call.Args[1]
					set := e.classify(arg, factsAt(b), map[ssa.Value]bool{})
					key := fmt.Sprintf("%s hands %s a suppressible error #%d", fnName(fn), g.Fn.Name(), ord.next(fnName(fn)))
					var badw []string
					for s := range set {
						// ErrInvalid sources are "cannot happen" branches; each
						// of them is an obligation of R-EXH (shown unreachable
						// or reported there), not of this rule.
						if s.Class != "Verbose" && s.Class != "Invalid" {
							badw = append(badw, p.srcDesc(s))
						}
					}
					sort.Strings(badw)
					if len(badw) == 0 {
						out.ok(key, p.pos(c.Pos()), fnName(fn), "argument can only be a suppressible error")
					} else {
						out.viol(key, p.pos(c.Pos()), fnName(fn), "an error that is not suppressible (or may be nil) is handed to the helper that suppresses unconditionally under WithSilent", badw...)
					}
				}
			}
		}
		out.Counts["gate_call_sites"] = ncalls
		out.Floors["gate_call_sites"] = 10
		// returns of pair functions
		nret := 0
		for _, fn := range p.execFuncs() {
			if p.pairKind(fn.Signature) == "" || isGate[fn] != nil {
				continue
			}
			rord := 0
			for _, r := range returnsOf(fn) {
				nret++
				rord++
				probs := p.ungated(fn, r.Results[1], factsAt(r.Instr.Block()), isGate, map[ssa.Value]bool{}, 0)
				if len(probs) > 0 {
					key := fmt.Sprintf("%s returns an ungated suppressible error (%s)", fnName(fn), shapeBrief(p, r.Results[1]))
					out.viol(key, p.pos(r.Instr.Pos()), fnName(fn), "a suppressible error can leave this function although WithSilent is in force: "+probs[0], probs...)
				}
			}
		}
		out.Counts["returns_examined"] = nret
		out.Floors["returns_examined"] = 50
		return out
	},
}

// ungated lists origins of the error operand that are suppressible errors not
// passing a gate.
func (p *Prog) ungated(fn *ssa.Function, ev ssa.Value, fs []Fact, isGate map[*ssa.Function]*gateInfo, seen map[ssa.Value]bool, depth int) []string {
	ev = stripConv(ev)
	if seen[ev] || depth > 6 {
		return nil
	}
	seen[ev] = true
	e := p.errors()
	if isNilConst(ev) {
		return nil
	}
	if isNil, _ := nilFact(fs, ev); isNil {
		return nil
	}
	switch x := ev.(type) {
	case *ssa.Phi:
		var out []string
		for i, ed := range x.Edges {
			pred := x.Block().Preds[i]
			out = append(out, p.ungated(fn, ed, edgeFacts(pred, succIndex(pred, x.Block())), isGate, seen, depth)...)
		}
		return out
	case *ssa.Parameter:
		// judged at the call sites: every caller must hand over a gated value
		var out []string
		n := p.CG.Nodes[fn]
		if n == nil {
			return nil
		}
		pi := paramIndex(x)
		for _, ed := range n.In {
			a := argAt(ed, pi)
			if a == nil || !inModule(ed.Caller.Func) {
				continue
			}
			out = append(out, p.ungated(ed.Caller.Func, a, factsAt(ed.Site.Block()), isGate, seen, depth+1)...)
		}
		return out
	}
	if c, idx := callOf(ev); c != nil {
		sig := calleeSig(c)
		if sig != nil && p.pairKind(sig) != "" && idx == 1 {
			return nil // the callee is itself subject to this rule (or is a gate)
		}
		// a module helper of another shape (value, ok, error): judge the
		// errors it returns where it returns them
		if h := c.Call.StaticCallee(); h != nil && inModule(h) && h.Blocks != nil && sig != nil && lastIsError(sig) && idx == sig.Results().Len()-1 && !p.isErrCtor(h) {
			var out []string
			for _, r := range returnsOf(h) {
				out = append(out, p.ungated(h, r.Results[len(r.Results)-1], factsAt(r.Instr.Block()), isGate, seen, depth+1)...)
			}
			return out
		}
	}
	if p.verboseFact(fs, true) {
		return nil // returned where errors are known to be reported, wherever it was built
	}
	var out []string
	for s := range e.classify(ev, fs, map[ssa.Value]bool{}) {
		if s.Class != "Verbose" {
			continue
		}
		// built here on the verbose branch?
		if s.Instr != nil && s.Instr.Parent() == fn {
			if p.verboseFact(factsAt(s.Instr.Block()), true) {
				continue
			}
		}
		out = append(out, p.srcDesc(s))
	}
	sort.Strings(out)
	return out
}

// --- R-HARD ---------------------------------------------------------------------------

func (p *Prog) classesAtReturnOn(b *ssa.BasicBlock, e *errEngine) (errSet, *ssa.Return) {
	// follow unconditional jumps to the return
	seen := map[*ssa.BasicBlock]bool{}
	for b != nil && !seen[b] {
		seen[b] = true
		last := b.Instrs[len(b.Instrs)-1]
		if r, ok := last.(*ssa.Return); ok {
			ev := unspill(b, r, r.Results[len(r.Results)-1])
			// handed to a suppression helper: the class is that of the argument
			if c, idx := callOf(ev); c != nil && idx == 1 {
				for _, g := range p.gates() {
					if c.Call.StaticCallee() == g.Fn && len(c.Call.Args) == 2 {
						return e.classify(c.Call.Args[1], factsAt(b), map[ssa.Value]bool{}), r
					}
				}
			}
			return e.classify(ev, factsAt(b), map[ssa.Value]bool{}), r
		}
		if _, ok := last.(*ssa.Jump); ok {
			b = b.Succs[0]
			continue
		}
		return nil, nil
	}
	return nil, nil
}

// isUseTZValue: v is a load of the useTZ field, or a bool parameter that
// receives such a load at every call site.
func (p *Prog) isUseTZValue(v ssa.Value, depth int) bool {
	if depth > 4 {
		return false
	}
	switch x := v.(type) {
	case *ssa.UnOp:
		if x.Op == token.MUL {
			f, _ := p.execFieldOf(x.X)
			return f == p.A.UseTZField
		}
	case *ssa.Parameter:
		n := p.CG.Nodes[x.Parent()]
		if n == nil || len(n.In) == 0 {
			return false
		}
		pi := paramIndex(x)
		for _, e := range n.In {
			a := argAt(e, pi)
			if a == nil || !p.isUseTZValue(a, depth+1) {
				return false
			}
		}
		return true
	}
	return false
}

var ruleHard = &Rule{
	Name: "R-HARD", NeedSSA: true,
	Doc: "non-suppressible errors stay non-suppressible at the anchorable raise points: the ctx.Done() arm of every poll returns an error wrapping ErrExecution and ctx.Err(); the miss branch of the lookup in the variables map and every branch taken when the WithTZ option is off return an error built directly on ErrExecution (never ErrVerbose, never nil)",
	Run: func(p *Prog) *RuleOut {
		out := newOut("R-HARD")
		e := p.errors()
		// (1) polls
		npoll := 0
		for _, fn := range p.execFuncs() {
			sel := pollOf(fn)
			if sel == nil {
				continue
			}
			helper := p.pairKind(fn.Signature) != "status"
			npoll++
			key := "poll arm of " + fnName(fn)
			// the block taken when the Done case fires: select index == 0..n: find
			// the If comparing extract #0 of the select with the Done state's index
			done := -1
			for i, st := range sel.States {
				if c, ok := st.Chan.(*ssa.Call); ok && c.Call.IsInvoke() && c.Call.Method.Name() == "Done" {
					done = i
				}
			}
			var target *ssa.BasicBlock
			for _, b := range fn.Blocks {
				iff, ok := b.Instrs[len(b.Instrs)-1].(*ssa.If)
				if !ok {
					continue
				}
				bo, ok := iff.Cond.(*ssa.BinOp)
				if !ok || bo.Op != token.EQL {
					continue
				}
				ex, ok := bo.X.(*ssa.Extract)
				if !ok || ex.Tuple != ssa.Value(sel) || ex.Index != 0 {
					continue
				}
				if k, ok := constInt(bo.Y); ok && int(k) == done {
					target = b.Succs[0]
				}
			}
			if target == nil {
				out.undecided(key, p.pos(sel.Pos()), fnName(fn), "cannot find the branch of the ctx.Done() case")
				continue
			}
			set, ret := p.classesAtReturnOn(target, e)
			if ret == nil {
				out.viol(key, p.pos(sel.Pos()), fnName(fn), "the ctx.Done() case does not return")
				continue
			}
			cls := p.classNames(set)
			stOK := false
			if k, ok := constInt(unspill(ret.Block(), ret, ret.Results[0])); ok && len(ret.Results) == 2 && k == constOf(p.A.StatusFailed) {
				stOK = true
			}
			if helper && len(ret.Results) == 1 {
				stOK = true // a poll helper returns the error alone; R-POLL checks that its callers return it with the failed status
			}
			if len(cls) == 1 && cls[0] == "Ctx" && stOK {
				out.ok(key, p.pos(ret.Pos()), fnName(fn), "returns (failed, error wrapping ErrExecution and ctx.Err())")
			} else {
				out.viol(key, p.pos(ret.Pos()), fnName(fn), "on cancellation the poll returns class "+strings.Join(cls, ",")+" (status failed: "+fmt.Sprint(stOK)+"); expected failed with %w ErrExecution and %w ctx.Err()")
			}
		}
		out.Counts["polls"] = npoll
		out.Floors["polls"] = 1
		// (2) variables map miss
		nvar := 0
		for _, fn := range p.execFuncs() {
			for _, b := range fn.Blocks {
				for _, ins := range b.Instrs {
					lk, ok := ins.(*ssa.Lookup)
					if !ok || !lk.CommaOk {
						continue
					}
					u, ok := lk.X.(*ssa.UnOp)
					if !ok {
						continue
					}
					if f, _ := p.execFieldOf(u.X); f != p.A.VarsField {
						continue
					}
					nvar++
					key := "unknown variable in " + fnName(fn)
					okV := extractOf2(lk, 1)
					var miss *ssa.BasicBlock
					for _, b2 := range fn.Blocks {
						if iff, ok := b2.Instrs[len(b2.Instrs)-1].(*ssa.If); ok && okV != nil && iff.Cond == okV {
							miss = b2.Succs[1]
						}
					}
					if miss == nil {
						out.undecided(key, p.pos(lk.Pos()), fnName(fn), "cannot find the miss branch of the lookup")
						continue
					}
					set, ret := p.classesAtReturnOn(miss, e)
					cls := p.classNames(set)
					if ret != nil && len(cls) == 1 && cls[0] == "Hard" {
						out.ok(key, p.pos(ret.Pos()), fnName(fn), "a missing variable is a non-suppressible error")
					} else {
						out.viol(key, p.pos(lk.Pos()), fnName(fn), "a missing variable yields class "+strings.Join(cls, ",")+" instead of a non-suppressible ErrExecution error")
					}
				}
			}
		}
		out.Counts["variable_lookups"] = nvar
		out.Floors["variable_lookups"] = 1
		// (3) useTZ tests
		ntz := 0
		ord := ordinals{}
		for _, fn := range p.execFuncs() {
			for _, b := range fn.Blocks {
				iff, ok := b.Instrs[len(b.Instrs)-1].(*ssa.If)
				if !ok || !p.isUseTZValue(iff.Cond, 0) {
					continue
				}
				ntz++
				key := fmt.Sprintf("%s: time zone required #%d", fnName(fn), ord.next(fnName(fn)))
				set, ret := p.classesAtReturnOn(b.Succs[1], e)
				cls := p.classNames(set)
				if ret != nil && len(cls) == 1 && cls[0] == "Hard" {
					out.ok(key, p.pos(ret.Pos()), fnName(fn), "without WithTZ the cast/comparison fails with a non-suppressible error")
				} else {
					out.viol(key, p.pos(iff.Pos()), fnName(fn), "with WithTZ off this branch yields class "+strings.Join(cls, ",")+" instead of a non-suppressible ErrExecution error")
				}
			}
		}
		out.Counts["useTZ_tests"] = ntz
		out.Floors["useTZ_tests"] = 1
		return out
	},
}

func extractOf2(v ssa.Value, idx int) ssa.Value {
	for _, r := range *v.Referrers() {
		if e, ok := r.(*ssa.Extract); ok && e.Index == idx {
			return e
		}
	}
	return nil
}

var _ = types.Identical

func init() {
	register(ruleErrSites, ruleErrClass, ruleGate, ruleHard)
}

// --- R-VERBOSEUSE: the suppression flag decides only how a failure is reported ---------------------

var ruleVerboseUse = &Rule{
	Name: "R-VERBOSEUSE", NeedSSA: true,
	Doc: "the suppression flag is read only (a) to be saved and restored, (b) by the entry points' post-processing, or (c) by a branch from which every reachable return reports failure (status failed / outcome unknown): it decides how a failure is reported, never what is evaluated, so a run that succeeds returns the same result with and without WithSilent",
	Run: func(p *Prog) *RuleOut {
		out := newOut("R-VERBOSEUSE")
		vf := p.A.VerboseField
		entry := p.entrySet()
		failedK, unknownK := constOf(p.A.StatusFailed), constOf(p.A.PredUnknown)
		n := 0
		ord := ordinals{}
		var fns []*ssa.Function
		for fn := range p.AllFns {
			if fnPkgPath(fn) == pkgExec && fn.Blocks != nil {
				fns = append(fns, fn)
			}
		}
		sortFuncs(fns)
		for _, fn := range fns {
			for _, b := range fn.Blocks {
				for _, ins := range b.Instrs {
					u, ok := ins.(*ssa.UnOp)
					if !ok || u.Op != token.MUL {
						continue
					}
					if f, _ := p.execFieldOf(u.X); f != vf {
						continue
					}
					n++
					key := fmt.Sprintf("%s reads the suppression flag #%d", fnName(fn), ord.next(fnName(fn)))
					if entry[fn] {
						out.ok(key, p.pos(u.Pos()), fnName(fn), "entry point post-processing")
						continue
					}
					// every use: a store that saves it, or a branch condition
					bad := ""
					var branches []*ssa.BasicBlock
					var follow func(v ssa.Value, depth int)
					follow = func(v ssa.Value, depth int) {
						if depth > 5 || bad != "" {
							return
						}
						for _, r := range *v.Referrers() {
							switch x := r.(type) {
							case *ssa.If:
								branches = append(branches, x.Block())
							case *ssa.UnOp:
								if x.Op == token.NOT {
									follow(x, depth+1)
								} else {
									bad = "used in " + x.String()
								}
							case *ssa.Phi:
								follow(x, depth+1)
							case *ssa.Store:
								// a save: into a local cell, or (restore) back into the field
							case *ssa.Defer, *ssa.MakeClosure:
								// handed to the deferred restorer
							case *ssa.Call:
								if x.Call.StaticCallee() != nil && inModule(x.Call.StaticCallee()) {
									// handed to a restorer method: judged by R-STATE-VERBOSE
									continue
								}
								bad = "passed to " + calleeName(&x.Call)
							case *ssa.DebugRef:
							default:
								bad = fmt.Sprintf("used by %T", r)
							}
						}
					}
					follow(u, 0)
					if bad != "" {
						out.viol(key, p.pos(u.Pos()), fnName(fn), "the suppression flag flows into the computation ("+bad+")")
						continue
					}
					kind := p.pairKind(fn.Signature)
					okAll := true
					why := ""
					for _, bb := range branches {
						seen := map[*ssa.BasicBlock]bool{}
						var walk func(x *ssa.BasicBlock)
						walk = func(x *ssa.BasicBlock) {
							if seen[x] || !okAll {
								return
							}
							seen[x] = true
							if r, ok := x.Instrs[len(x.Instrs)-1].(*ssa.Return); ok && x != fn.Recover {
								good := false
								if len(r.Results) > 0 {
									if k, isC := constInt(stripConv(unspill(x, r, r.Results[0]))); isC {
										good = (kind == "status" && k == failedK) || (kind == "pred" && k == unknownK)
									}
								}
								if !good {
									okAll = false
									why = "return at " + p.pos(r.Pos()) + " is reachable from the branch on the flag and does not report a failure"
								}
							}
							for _, s := range x.Succs {
								walk(s)
							}
						}
						for _, s := range bb.Succs {
							walk(s)
						}
					}
					if okAll {
						if len(branches) == 0 {
							out.ok(key, p.pos(u.Pos()), fnName(fn), "saved for a later restore")
						} else {
							out.ok(key, p.pos(u.Pos()), fnName(fn), "every return reachable from the branch reports a failure: the flag only chooses between (failed, err) and (failed, nil)")
						}
					} else {
						out.viol(key, p.pos(u.Pos()), fnName(fn), "evaluation depends on whether errors are suppressed: "+why+"; a run that succeeds can return different results with and without WithSilent")
					}
				}
			}
		}
		out.Counts["reads_of_the_suppression_flag"] = n
		out.Floors["reads_of_the_suppression_flag"] = 1
		return out
	},
}

func init() { register(ruleVerboseUse) }
