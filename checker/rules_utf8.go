package main

// R-RUNEERR and R-NARROW (C02, C03, C04): the lexer's view of a character.
//
// utf8.DecodeRune reports a malformed sequence as (RuneError, 1) and a
// well-formed U+FFFD as (RuneError, 3): rejecting on the rune alone rejects a
// legal character that the printer writes as it is. And a character is a rune:
// converted to a byte without a range test, U+0120 becomes ' ' and U+010A a
// line feed, so the class of a character depends on its low eight bits.

import (
	"fmt"
	"go/token"
	"go/types"

	"golang.org/x/tools/go/ssa"
)

var ruleRuneErr = &Rule{
	Name: "R-RUNEERR", NeedSSA: true,
	Doc: "in package parser, wherever the rune returned by utf8.DecodeRune / DecodeRuneInString is compared with utf8.RuneError and the true branch reports an error (a call of an Error method or an error constructor), the branch is also conditioned on the width being 1: a well-formed U+FFFD decodes to (RuneError, 3) and must be accepted",
	Run: func(p *Prog) *RuleOut {
		out := newOut("R-RUNEERR")
		n := 0
		for fn := range p.AllFns {
			if fnPkgPath(fn) != pkgParser || fn.Blocks == nil {
				continue
			}
			ord := 0
			for _, b := range fn.Blocks {
				for _, ins := range b.Instrs {
					bo, ok := ins.(*ssa.BinOp)
					if !ok || (bo.Op != token.EQL && bo.Op != token.NEQ) {
						continue
					}
					ex, ok := bo.X.(*ssa.Extract)
					if !ok || ex.Index != 0 {
						continue
					}
					c, ok := ex.Tuple.(*ssa.Call)
					if !ok {
						continue
					}
					if q := calleeQualified(&c.Call); q != "unicode/utf8.DecodeRune" && q != "unicode/utf8.DecodeRuneInString" {
						continue
					}
					if k, ok := constInt(bo.Y); !ok || k != 0xFFFD {
						continue
					}
					n++
					ord++
					key := fmt.Sprintf("%s: RuneError test #%d", fnName(fn), ord)
					width := extractOf(c, 1)
					// blocks where the test holds and an error is reported
					bad := ""
					for _, b2 := range fn.Blocks {
						holds, widthOne := false, false
						for _, f := range factsAt(b2) {
							if f.Cond == ssa.Value(bo) && f.Truth == (bo.Op == token.EQL) {
								holds = true
							}
							if w, ok := f.Cond.(*ssa.BinOp); ok && width != nil && w.X == width {
								if k, ok := constInt(w.Y); ok {
									if (w.Op == token.EQL && f.Truth && k == 1) || (w.Op == token.LEQ && f.Truth && k == 1) || (w.Op == token.LSS && f.Truth && k == 2) || (w.Op == token.GTR && !f.Truth && k == 1) || (w.Op == token.NEQ && !f.Truth && k == 1) {
										widthOne = true
									}
								}
							}
						}
						if !holds || widthOne {
							continue
						}
						for _, i2 := range b2.Instrs {
							c2, ok := i2.(*ssa.Call)
							if !ok {
								continue
							}
							sc := c2.Call.StaticCallee()
							if sc != nil && (sc.Name() == "Error" || sc.Name() == "Errorf" || p.isErrCtor(sc)) || calleeQualified(&c2.Call) == "fmt.Errorf" || calleeQualified(&c2.Call) == "errors.New" {
								bad = p.pos(c2.Pos())
							}
						}
					}
					if bad == "" {
						out.ok(key, p.pos(bo.Pos()), fnName(fn), "an error is reported only where the width is 1 as well (a malformed sequence)")
					} else {
						out.viol(key, p.pos(bo.Pos()), fnName(fn), "the error at "+bad+" is reported for any rune equal to utf8.RuneError, whatever the width: a correctly encoded U+FFFD (width 3) is rejected although the printer writes it unescaped")
					}
				}
			}
		}
		out.Counts["rune_error_tests"] = n
		out.Floors["rune_error_tests"] = 1
		return out
	},
}

var ruleNarrow = &Rule{
	Name: "R-NARROW", NeedSSA: true,
	Doc: "in packages parser and ast no character (a value of type rune, or an int derived from one) is converted to an 8-bit integer unless the branch facts bound it below 256 (a dominating test ch < utf8.RuneSelf, ch < 256, ch <= 0xff or an equality with an ASCII constant): otherwise characters that agree in their low eight bits are classified alike (or the range of the converted expression, evaluated from the exact value ranges of the pure character functions in it, lies below the limit); and the lexer never shifts, multiplies or adds in an 8- or 16-bit type unless the result is bounded below that type's limit (a code point put together digit by digit)",
	Run: func(p *Prog) *RuleOut {
		out := newOut("R-NARROW")
		n, nrune := 0, 0
		for fn := range p.AllFns {
			// the lexer, and the part of package ast that reads text character
			// by character (the like_regex flag letters)
			if (fnPkgPath(fn) != pkgParser && fnPkgPath(fn) != pkgAST) || fn.Blocks == nil {
				continue
			}
			ord := 0
			for _, b := range fn.Blocks {
				for _, ins := range b.Instrs {
					// shifting, multiplying or adding in an 8- or 16-bit type: a
					// code point accumulated digit by digit (`cu = cu<<4 |
					// uint16(d)` over up to six digits) loses what does not fit,
					// unless the value is known to stay below the type's limit
					if bo, ok := ins.(*ssa.BinOp); ok && fnPkgPath(fn) == pkgParser && (bo.Op == token.SHL || bo.Op == token.MUL || bo.Op == token.ADD) {
						if bt, ok := bo.Type().Underlying().(*types.Basic); ok && (bt.Kind() == types.Uint8 || bt.Kind() == types.Int8 || bt.Kind() == types.Uint16 || bt.Kind() == types.Int16) {
							if _, isK := constInt(bo); !isK {
								n++
								lim := int64(256)
								if bt.Kind() == types.Uint16 || bt.Kind() == types.Int16 {
									lim = 65536
								}
								if iv, ok := p.narrowRange(bo, b, nil, 0); !ok || iv.lo < 0 || iv.hi >= lim {
									ord++
									out.viol(fmt.Sprintf("%s: character narrowed to a byte #%d", fnName(fn), ord), p.pos(bo.Pos()), fnName(fn), "a value is shifted, multiplied or added up in the type "+bt.Name()+" and nothing bounds the result below its limit: a code point put together digit by digit loses its high bits, so `\\u{1F600}` denotes another character")
								}
								continue
							}
						}
					}
					// a rune masked down to a byte or a 16-bit unit
					if bo, ok := ins.(*ssa.BinOp); ok && bo.Op == token.AND {
						if bt, ok := bo.Type().Underlying().(*types.Basic); ok && bt.Kind() == types.Int32 {
							for _, side := range []ssa.Value{bo.X, bo.Y} {
								if k, isK := constInt(side); isK && (k == 0x7f || k == 0xff || k == 0xffff) {
									n++
									ord++
									out.viol(fmt.Sprintf("%s: character narrowed to a byte #%d", fnName(fn), ord), p.pos(bo.Pos()), fnName(fn), fmt.Sprintf("a rune is masked with %#x: the bits of a code point above that are dropped, so `\\u{1F600}` or `\\u{e0001}` denotes another character", k))
								}
							}
						}
						continue
					}
					cv, ok := ins.(*ssa.Convert)
					if !ok {
						continue
					}
					if bt, ok := cv.X.Type().Underlying().(*types.Basic); ok && bt.Kind() == types.Int32 {
						nrune++
					}
					dt, ok := cv.Type().Underlying().(*types.Basic)
					if !ok || (dt.Kind() != types.Uint8 && dt.Kind() != types.Int8 && dt.Kind() != types.Uint16 && dt.Kind() != types.Int16) {
						continue
					}
					st, ok := cv.X.Type().Underlying().(*types.Basic)
					if !ok || st.Info()&types.IsInteger == 0 || st.Kind() == types.Uint8 || st.Kind() == types.Int8 {
						continue
					}
					if (dt.Kind() == types.Uint16 || dt.Kind() == types.Int16) && (st.Kind() == types.Uint16 || st.Kind() == types.Int16) {
						continue
					}
					if _, isC := cv.X.(*ssa.Const); isC {
						continue
					}
					n++
					bounded := false
					for _, f := range factsAt(b) {
						c, ok := f.Cond.(*ssa.BinOp)
						if !ok || !sameValue(c.X, cv.X) {
							continue
						}
						k, ok := constInt(c.Y)
						if !ok {
							continue
						}
						lim := int64(256)
						if dt.Kind() == types.Uint16 || dt.Kind() == types.Int16 {
							lim = 65536
						}
						switch {
						case c.Op == token.LSS && f.Truth && k <= lim,
							c.Op == token.LEQ && f.Truth && k <= lim-1,
							c.Op == token.GEQ && !f.Truth && k <= lim,
							c.Op == token.GTR && !f.Truth && k <= lim-1,
							c.Op == token.EQL && f.Truth && k >= 0 && k <= lim-1:
							bounded = true
						}
					}
					// … or a named character test that holds here and accepts
					// nothing at or above the limit (`isHex(c)`: computed
					// exactly over every code point, as in R-CHARCLASS)
					if !bounded {
						lim := int64(256)
						if dt.Kind() == types.Uint16 || dt.Kind() == types.Int16 {
							lim = 65536
						}
						for _, f := range factsAt(b) {
							pc, ok := f.Cond.(*ssa.Call)
							if !ok || !f.Truth || pc.Call.IsInvoke() || len(pc.Call.Args) != 1 || !sameValue(pc.Call.Args[0], cv.X) {
								continue
							}
							if acc, ok := p.ccAccepted(pc.Call.StaticCallee()); ok && len(acc) > 0 && acc[0].lo >= 0 && acc[len(acc)-1].hi < lim {
								bounded = true
							}
						}
					}
					// … or the value is computed from digit values: the range of
					// the expression, from the exact ranges of the pure character
					// functions in it and the tests that hold here, lies below the
					// limit (`byte(merge(c1, c2))` with c1, c2 the values of two
					// hexadecimal digits, both tested >= 0)
					if !bounded {
						lim := int64(256)
						if dt.Kind() == types.Uint16 || dt.Kind() == types.Int16 {
							lim = 65536
						}
						if iv, ok := p.narrowRange(cv.X, b, nil, 0); ok && iv.lo >= 0 && iv.hi < lim {
							bounded = true
						}
					}
					if bounded {
						continue
					}
					ord++
					out.viol(fmt.Sprintf("%s: character narrowed to a byte #%d", fnName(fn), ord), p.pos(cv.Pos()), fnName(fn), "a "+st.Name()+" is converted to "+dt.Name()+" where nothing bounds it below 256: U+0120 becomes ' ', U+010A a line feed, and the lexer treats characters alike that differ above the low byte")
				}
			}
		}
		out.Counts["narrowing_conversions_in_the_lexer"] = n
		out.Counts["conversions_of_runes"] = nrune
		if len(out.Obs) == 0 {
			out.ok("characters are not narrowed", "path/parser", "", fmt.Sprintf("%d conversions to an 8-bit integer, each behind a range test", n))
		}
		return out
	},
}

func init() { register(ruleRuneErr, ruleNarrow) }

// R-TOKENRANGE (C03, C04): a character is its own token only below the range
// in which goyacc numbers the named tokens.
//
// The generated parser gives the named tokens (TO_P, ANY_P, …) numbers from
// pathPrivate = 57344 = U+E000 upwards, in the Unicode private use area, and
// treats any other number as the character it is. A lexer that passes an
// unrecognised character through as its own token therefore turns a raw
// U+E002 in the input into the keyword `to`. Every token value the lexer
// returns is a constant, or the result of another scanning method, or a
// character that the branch facts bound below pathPrivate.
var ruleTokenRange = &Rule{
	Name: "R-TOKENRANGE", NeedSSA: true,
	Doc: "every token value returned by the lexer's Lex method and by the scanning methods whose first result it passes on is a constant, the first result of another such method, or a character bounded below pathPrivate (the first named-token number, U+E000) by the branch facts at the return — equal to a constant, or less than a constant ≤ pathPrivate: a raw private-use character must not be read as the keyword whose token number it happens to be",
	Run: func(p *Prog) *RuleOut {
		out := newOut("R-TOKENRANGE")
		pk := p.Pkgs[pkgParser]
		priv := int64(0)
		if c, ok := pk.Types.Scope().Lookup("pathPrivate").(*types.Const); ok {
			priv = constOf(c)
		}
		if priv == 0 {
			out.undecided("pathPrivate", "-", "", "anchor unresolved: constant pathPrivate of the generated parser")
			return out
		}
		lexT, _ := lookupNamed(pk.Types, "lexer")
		var lex *ssa.Function
		for fn := range p.AllFns {
			if fnPkgPath(fn) == pkgParser && fn.Blocks != nil && fn.Name() == "Lex" && fn.Signature.Recv() != nil && namedOf(fn.Signature.Recv().Type()) == lexT {
				lex = fn
			}
		}
		if lex == nil {
			out.undecided("Lex", "-", "", "anchor unresolved: (*lexer).Lex")
			return out
		}
		isRune := func(t types.Type) bool { b, ok := t.Underlying().(*types.Basic); return ok && b.Kind() == types.Int32 }
		scope := map[*ssa.Function]bool{}
		var order []*ssa.Function
		var addFn func(fn *ssa.Function)
		bounded := func(v ssa.Value, fs []Fact) bool {
			for _, f := range fs {
				bo, ok := f.Cond.(*ssa.BinOp)
				if !ok || !sameValue(bo.X, v) {
					continue
				}
				k, ok := constInt(bo.Y)
				if !ok {
					continue
				}
				switch {
				case bo.Op == token.EQL && f.Truth && k < priv,
					bo.Op == token.LSS && f.Truth && k <= priv,
					bo.Op == token.LEQ && f.Truth && k < priv,
					bo.Op == token.GEQ && !f.Truth && k <= priv,
					bo.Op == token.GTR && !f.Truth && k < priv:
					return true
				}
			}
			return false
		}
		nret := 0
		var judge func(fn *ssa.Function, v ssa.Value, fs []Fact, depth int) string
		judge = func(fn *ssa.Function, v ssa.Value, fs []Fact, depth int) string {
			if depth > 6 {
				return "too deep"
			}
			if bounded(v, fs) {
				return ""
			}
			switch x := v.(type) {
			case *ssa.Const:
				return ""
			case *ssa.Convert:
				return judge(fn, x.X, fs, depth+1)
			case *ssa.Extract:
				if c, ok := x.Tuple.(*ssa.Call); ok && x.Index == 0 {
					if sc := c.Call.StaticCallee(); sc != nil && fnPkgPath(sc) == pkgParser && sc.Blocks != nil && sc.Signature.Results().Len() >= 2 && isRune(sc.Signature.Results().At(0).Type()) {
						addFn(sc)
						return ""
					}
				}
			case *ssa.Parameter:
				// a token handed in by the callers (scanString(STRING_P)): fine if
				// every caller passes a constant
				if n := p.CG.Nodes[fn]; n != nil && len(n.In) > 0 {
					all := true
					idx := paramIndex(x)
					for _, e := range n.In {
						c, ok := e.Site.(*ssa.Call)
						if !ok || c.Call.StaticCallee() != fn || idx >= len(c.Call.Args) {
							all = false
							break
						}
						if _, isC := c.Call.Args[idx].(*ssa.Const); !isC {
							// … or a character already bounded where it is handed over
							if c.Block() == nil || judge(c.Parent(), c.Call.Args[idx], factsAt(c.Block()), depth+2) != "" {
								all = false
							}
						}
					}
					if all {
						return ""
					}
				}
			case *ssa.Call:
				// a classifier returning the token (identToken): judged by its own returns
				if sc := x.Call.StaticCallee(); sc != nil && fnPkgPath(sc) == pkgParser && sc.Blocks != nil && sc.Signature.Results().Len() == 1 && isRune(sc.Signature.Results().At(0).Type()) && sc.Name() != "next" && sc.Name() != "peek" {
					addFn(sc)
					return ""
				}
			case *ssa.Phi:
				for i, e := range x.Edges {
					pred := x.Block().Preds[i]
					efs := edgeFacts(pred, succIndex(pred, x.Block()))
					if bounded(e, efs) {
						continue
					}
					if why := judge(fn, e, efs, depth+1); why != "" {
						return why
					}
				}
				return ""
			}
			if bounded(v, fs) {
				return ""
			}
			return "the character " + v.Name() + " is returned as its own token with nothing bounding it below U+E000"
		}
		addFn = func(fn *ssa.Function) {
			if scope[fn] {
				return
			}
			scope[fn] = true
			order = append(order, fn)
		}
		addFn(lex)
		for i := 0; i < len(order); i++ {
			fn := order[i]
			bad := ""
			for _, r := range expandedReturns(fn) {
				if len(r.Results) == 0 {
					continue
				}
				nret++
				if why := judge(fn, r.Results[0], r.Facts, 0); why != "" && bad == "" {
					bad = why + " (return at " + p.pos(r.Instr.Pos()) + ")"
				}
			}
			key := fnName(fn) + ": token values"
			if bad == "" {
				out.ok(key, p.pos(fn.Pos()), fnName(fn), "constants, results of other scanning methods, or characters below U+E000")
			} else {
				out.viol(key, p.pos(fn.Pos()), fnName(fn), bad+fmt.Sprintf(": a raw character from U+E000 on (the generated parser numbers its named tokens from %d) is read as the keyword with that number — `$[1 \\ue002 2]` parses as `$[1 to 2]`", priv))
			}
		}
		out.Counts["token_returns_examined"] = nret
		out.Floors["token_returns_examined"] = 3
		return out
	},
}

func init() { register(ruleTokenRange) }

type ivl struct{ lo, hi int64 }

// narrowRange: an interval that contains v at block at (nil: no branch facts),
// with the parameters in env bound to intervals. Constants, the exact value
// ranges of pure one-character functions of the module (as in R-CHARCLASS),
// +, -, <<const, |, & over non-negative operands, merges, calls of one-block
// helpers, narrowed by the comparisons with constants that dominate at.
func (p *Prog) narrowRange(v ssa.Value, at *ssa.BasicBlock, env map[*ssa.Parameter]ivl, depth int) (ivl, bool) {
	if depth > 8 {
		return ivl{}, false
	}
	iv, ok := p.narrowRange0(v, at, env, depth)
	if !ok {
		return iv, false
	}
	if at != nil {
		for _, f := range factsAt(at) {
			c, isB := f.Cond.(*ssa.BinOp)
			if !isB || !sameValue(c.X, v) {
				continue
			}
			k, isK := constInt(c.Y)
			if !isK {
				continue
			}
			op := c.Op
			if !f.Truth {
				switch op {
				case token.LSS:
					op = token.GEQ
				case token.LEQ:
					op = token.GTR
				case token.GTR:
					op = token.LEQ
				case token.GEQ:
					op = token.LSS
				case token.EQL:
					op = token.NEQ
				case token.NEQ:
					op = token.EQL
				}
			}
			switch op {
			case token.LSS:
				iv.hi = min(iv.hi, k-1)
			case token.LEQ:
				iv.hi = min(iv.hi, k)
			case token.GTR:
				iv.lo = max(iv.lo, k+1)
			case token.GEQ:
				iv.lo = max(iv.lo, k)
			case token.EQL:
				iv.lo, iv.hi = max(iv.lo, k), min(iv.hi, k)
			}
		}
	}
	return iv, iv.lo <= iv.hi
}

func (p *Prog) narrowRange0(v ssa.Value, at *ssa.BasicBlock, env map[*ssa.Parameter]ivl, depth int) (ivl, bool) {
	if k, ok := constInt(v); ok {
		return ivl{k, k}, true
	}
	const big = int64(1) << 40
	switch x := v.(type) {
	case *ssa.Parameter:
		iv, ok := env[x]
		return iv, ok
	case *ssa.Convert:
		// widening integer conversions of a non-negative value keep it
		st, ok1 := x.X.Type().Underlying().(*types.Basic)
		dt, ok2 := x.Type().Underlying().(*types.Basic)
		if !ok1 || !ok2 || st.Info()&types.IsInteger == 0 || dt.Info()&types.IsInteger == 0 {
			return ivl{}, false
		}
		if dt.Kind() == types.Uint8 || dt.Kind() == types.Int8 || dt.Kind() == types.Uint16 || dt.Kind() == types.Int16 {
			return ivl{}, false
		}
		iv, ok := p.narrowRange(x.X, at, env, depth+1)
		if !ok || iv.lo < 0 || iv.hi > 0x7fffffff {
			return ivl{}, false
		}
		return iv, true
	case *ssa.Phi:
		var out ivl
		for i, e := range x.Edges {
			iv, ok := p.narrowRange(e, nil, env, depth+1)
			if !ok {
				return ivl{}, false
			}
			if i == 0 {
				out = iv
			} else {
				out.lo, out.hi = min(out.lo, iv.lo), max(out.hi, iv.hi)
			}
		}
		return out, len(x.Edges) > 0
	case *ssa.BinOp:
		l, ok1 := p.narrowRange(x.X, at, env, depth+1)
		r, ok2 := p.narrowRange(x.Y, at, env, depth+1)
		if !ok1 || !ok2 {
			return ivl{}, false
		}
		small := func(i ivl) bool { return i.lo >= 0 && i.hi < big }
		mid := func(i ivl) bool { return i.lo > -big && i.hi < big }
		switch x.Op {
		case token.ADD:
			return ivl{l.lo + r.lo, l.hi + r.hi}, mid(l) && mid(r)
		case token.SUB:
			return ivl{l.lo - r.hi, l.hi - r.lo}, mid(l) && mid(r)
		case token.SHL:
			if r.lo == r.hi && r.lo >= 0 && r.lo < 16 && small(l) {
				return ivl{l.lo << uint(r.lo), l.hi << uint(r.lo)}, true
			}
		case token.OR:
			if small(l) && small(r) {
				m := int64(1)
				for m <= max(l.hi, r.hi) {
					m <<= 1
				}
				return ivl{max(l.lo, r.lo), m - 1}, true
			}
		case token.AND:
			if small(l) && small(r) {
				return ivl{0, min(l.hi, r.hi)}, true
			}
		}
		return ivl{}, false
	case *ssa.Call:
		g := x.Call.StaticCallee()
		if g == nil || x.Call.IsInvoke() || !inModule(g) || g.Blocks == nil || !ccPure(g) {
			return ivl{}, false
		}
		// a pure function of one character: its exact range over every input
		if len(g.Params) == 1 {
			if bt, ok := g.Signature.Results().At(0).Type().Underlying().(*types.Basic); ok && bt.Info()&types.IsInteger != 0 {
				e := &ccEval{p: p}
				full := ccFull()
				if f, err := e.run(g, []ccPW{ccIdent(full)}, full, 0); err == nil && len(f) > 0 {
					var dom ccSet
					out := ivl{1 << 62, -(1 << 62)}
					for _, q := range f {
						dom = append(dom, ccPiece{lo: q.lo, hi: q.hi})
						for _, c := range []int64{q.lo, q.hi} {
							val := q.a*c + q.b
							out.lo, out.hi = min(out.lo, val), max(out.hi, val)
						}
					}
					if dom.size() == full.size() {
						return out, true
					}
				}
			}
		}
		// a one-block helper over integers: its result with the parameters
		// bound to the ranges of the arguments
		if len(g.Blocks) == 1 && len(x.Call.Args) == len(g.Params) {
			sub := map[*ssa.Parameter]ivl{}
			for i, a := range x.Call.Args {
				iv, ok := p.narrowRange(a, at, env, depth+1)
				if !ok {
					return ivl{}, false
				}
				sub[g.Params[i]] = iv
			}
			if ret, ok := g.Blocks[0].Instrs[len(g.Blocks[0].Instrs)-1].(*ssa.Return); ok && len(ret.Results) == 1 {
				return p.narrowRange(ret.Results[0], nil, sub, depth+1)
			}
		}
	}
	return ivl{}, false
}

// rangeAtBlock: like narrowRange, but a block several branches lead to takes
// the union over its ways in of what each way's tests allow (`case r < ' ' ||
// r == 0x7f:`); a value nothing else is known about starts as any 32-bit int.
func (p *Prog) rangeAtBlock(v ssa.Value, b *ssa.BasicBlock) (ivl, bool) {
	w := v
	if cv, ok := v.(*ssa.Convert); ok {
		// the tests speak about the value before it is narrowed for writing
		if iv, ok := p.rangeAtBlock(cv.X, b); ok {
			return iv, true
		}
	}
	base, ok := p.narrowRange0(w, nil, nil, 0)
	if !ok {
		base = ivl{-(1 << 31), 1<<31 - 1}
	}
	one := func(fs []Fact) (ivl, bool) { return narrowByFacts(base, w, fs) }
	if len(b.Preds) <= 1 {
		return one(factsAt(b))
	}
	var out ivl
	n := 0
	for _, pr := range b.Preds {
		iv, ok := one(edgeFacts(pr, succIndex(pr, b)))
		if !ok {
			continue // this way in is closed
		}
		if n == 0 {
			out = iv
		} else {
			out.lo, out.hi = min(out.lo, iv.lo), max(out.hi, iv.hi)
		}
		n++
	}
	return out, n > 0
}

func narrowByFacts(iv ivl, v ssa.Value, fs []Fact) (ivl, bool) {
	for _, f := range fs {
		c, isB := f.Cond.(*ssa.BinOp)
		if !isB || !sameValue(c.X, v) {
			continue
		}
		k, isK := constInt(c.Y)
		if !isK {
			continue
		}
		op := c.Op
		if !f.Truth {
			switch op {
			case token.LSS:
				op = token.GEQ
			case token.LEQ:
				op = token.GTR
			case token.GTR:
				op = token.LEQ
			case token.GEQ:
				op = token.LSS
			case token.EQL:
				op = token.NEQ
			case token.NEQ:
				op = token.EQL
			}
		}
		switch op {
		case token.LSS:
			iv.hi = min(iv.hi, k-1)
		case token.LEQ:
			iv.hi = min(iv.hi, k)
		case token.GTR:
			iv.lo = max(iv.lo, k+1)
		case token.GEQ:
			iv.lo = max(iv.lo, k)
		case token.EQL:
			iv.lo, iv.hi = max(iv.lo, k), min(iv.hi, k)
		}
	}
	return iv, iv.lo <= iv.hi
}
