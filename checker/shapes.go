package main

// Return-shape classification: what each Return of a function hands back, in
// semantic terms (nil, fresh allocation, error wrapping which sentinels, the
// result of which callee, a load of which field).

import (
	"go/token"
	"go/types"
	"sort"
	"strings"

	"golang.org/x/tools/go/ssa"
)

// RetSite is one Return with spill slots looked through.
type RetSite struct {
	Instr   *ssa.Return
	Results []ssa.Value
}

// returnsOf lists the returns of fn. For functions with defers, go/ssa spills
// results into the named-result Allocs (`*t0 = v; rundefers; return *t0`): the
// stored values are recovered from the same block. The synthetic recover block
// is skipped.
func returnsOf(fn *ssa.Function) []RetSite {
	var out []RetSite
	for _, b := range fn.Blocks {
		if b == fn.Recover {
			continue
		}
		r, ok := b.Instrs[len(b.Instrs)-1].(*ssa.Return)
		if !ok {
			continue
		}
		rs := RetSite{Instr: r}
		for _, v := range r.Results {
			rs.Results = append(rs.Results, unspill(b, r, v))
		}
		out = append(out, rs)
	}
	return out
}

func unspill(b *ssa.BasicBlock, before ssa.Instruction, v ssa.Value) ssa.Value {
	u, ok := v.(*ssa.UnOp)
	if !ok || u.Op != token.MUL {
		return v
	}
	a, ok := u.X.(*ssa.Alloc)
	if !ok {
		return v
	}
	// last store to a in this block before the load
	var last ssa.Value
	for _, ins := range b.Instrs {
		if ins == u {
			break
		}
		if st, ok := ins.(*ssa.Store); ok && st.Addr == a {
			last = st.Val
		}
	}
	if last != nil {
		return last
	}
	// single-predecessor chain: look upwards
	cur := b
	seen := map[*ssa.BasicBlock]bool{}
	for len(cur.Preds) == 1 && !seen[cur] {
		seen[cur] = true
		cur = cur.Preds[0]
		for i := len(cur.Instrs) - 1; i >= 0; i-- {
			if st, ok := cur.Instrs[i].(*ssa.Store); ok && st.Addr == a {
				return st.Val
			}
		}
	}
	return v
}

// Shape is the semantic description of a returned value.
type Shape struct {
	Kind      string   // nil | const | alloc | errorf | call | load | param | global | phi | other
	Sentinels []string // errorf: wrapped sentinels ("pkg.Name"), in order
	Passes    []ssa.Value
	Callee    string // call: qualified callee
	Index     int    // call: result index
	Field     string // load: Type.field
	Text      string
	Val       ssa.Value
}

func (s Shape) String() string {
	switch s.Kind {
	case "errorf":
		t := "errorf[" + strings.Join(s.Sentinels, ",")
		if len(s.Passes) > 0 {
			t += ",+wrapped"
		}
		return t + "]"
	case "call":
		return "call:" + s.Callee
	case "load":
		return "load:" + s.Field
	case "const":
		return "const:" + s.Text
	}
	return s.Kind
}

func (p *Prog) shapeOf(v ssa.Value) Shape {
	v0 := v
	v = stripConv(v)
	if mi, ok := v.(*ssa.MakeInterface); ok {
		in := p.shapeOf(mi.X)
		in.Val = v0
		return in
	}
	switch x := v.(type) {
	case *ssa.Const:
		if x.Value == nil {
			return Shape{Kind: "nil", Val: v0}
		}
		return Shape{Kind: "const", Text: x.Value.ExactString(), Val: v0}
	case *ssa.Alloc:
		return Shape{Kind: "alloc", Val: v0}
	case *ssa.MakeSlice, *ssa.MakeMap:
		return Shape{Kind: "alloc", Val: v0}
	case *ssa.Parameter:
		return Shape{Kind: "param", Text: x.Name(), Val: v0}
	case *ssa.Phi:
		return Shape{Kind: "phi", Val: v0}
	case *ssa.Extract:
		if c, ok := x.Tuple.(*ssa.Call); ok {
			return Shape{Kind: "call", Callee: calleeName(&c.Call), Index: x.Index, Val: v0}
		}
	case *ssa.Call:
		if sh, ok := p.errCtorShape(x, v0); ok {
			return sh
		}
		if calleeQualified(&x.Call) == "fmt.Errorf" && len(x.Call.Args) >= 1 {
			sh := Shape{Kind: "errorf", Val: v0}
			format := formatPrefix(x.Call.Args[0])
			sh.Text = format
			var args []ssa.Value
			if len(x.Call.Args) > 1 {
				args = errorfArgs(x.Call.Args[1])
			}
			// verbs in order
			verbs := formatVerbs(format)
			for i, a := range args {
				if a == nil || i >= len(verbs) {
					continue
				}
				if verbs[i] != 'w' {
					continue
				}
				if g := loadedGlobal(a); g != nil && g.Pkg != nil {
					sh.Sentinels = append(sh.Sentinels, g.Pkg.Pkg.Name()+"."+g.Name())
				} else {
					sh.Passes = append(sh.Passes, a)
				}
			}
			return sh
		}
		if calleeQualified(&x.Call) == "errors.New" {
			return Shape{Kind: "errorf", Text: "errors.New", Val: v0}
		}
		return Shape{Kind: "call", Callee: calleeName(&x.Call), Index: 0, Val: v0}
	case *ssa.UnOp:
		if x.Op == token.MUL {
			if g, ok := x.X.(*ssa.Global); ok && g.Pkg != nil {
				return Shape{Kind: "global", Text: g.Pkg.Pkg.Name() + "." + g.Name(), Val: v0}
			}
			if fa, ok := x.X.(*ssa.FieldAddr); ok {
				t := fa.X.Type()
				if pt, ok := t.Underlying().(*types.Pointer); ok {
					t = pt.Elem()
				}
				if st, ok := t.Underlying().(*types.Struct); ok {
					tn := typeStr(t)
					return Shape{Kind: "load", Field: tn + "." + st.Field(fa.Field).Name(), Val: v0}
				}
			}
			if a, ok := x.X.(*ssa.Alloc); ok && a.Heap {
				// `&T{...}` then load? no: loads of a local
				return Shape{Kind: "other", Text: "load of local " + a.Comment, Val: v0}
			}
		}
	}
	return Shape{Kind: "other", Text: v.String(), Val: v0}
}

func calleeName(c *ssa.CallCommon) string {
	if f := c.StaticCallee(); f != nil {
		return fnName(f)
	}
	if c.IsInvoke() {
		return "invoke " + c.Method.Name()
	}
	return "dynamic " + c.Value.Name()
}

// formatVerbs returns the verb letter of each argument-consuming directive.
func formatVerbs(f string) []byte {
	var out []byte
	for i := 0; i < len(f); i++ {
		if f[i] != '%' {
			continue
		}
		i++
		for i < len(f) && strings.ContainsRune("+-# 0123456789.[]*", rune(f[i])) {
			i++
		}
		if i < len(f) && f[i] != '%' {
			out = append(out, f[i])
		}
	}
	return out
}

// passesValue: the errorf shape wraps (with %w or %v) the given value.
func (p *Prog) errorfMentions(sh Shape, v ssa.Value) bool {
	// wrapped through %w (also when the Errorf sits in a constructor helper
	// and v is one of the helper's arguments)
	for _, a := range sh.Passes {
		a = stripConv(a)
		if mi, ok := a.(*ssa.MakeInterface); ok {
			a = mi.X
		}
		if sameValue(a, v) {
			return true
		}
	}
	c, ok := stripConv(sh.Val).(*ssa.Call)
	if !ok || len(c.Call.Args) < 2 || calleeQualified(&c.Call) != "fmt.Errorf" {
		return false
	}
	for _, a := range variadicArgs(c.Call.Args[1]) {
		if a == nil {
			continue
		}
		a = stripConv(a)
		if mi, ok := a.(*ssa.MakeInterface); ok {
			a = mi.X
		}
		if sameValue(a, v) {
			return true
		}
	}
	return false
}

// nilFact: what the facts say about "v != nil".
func nilFact(fs []Fact, v ssa.Value) (isNil, notNil bool) {
	_, _, isNil, notNil = typeFacts(fs, v)
	return
}

func sortedKeys(m map[string]bool) []string {
	var ks []string
	for k := range m {
		ks = append(ks, k)
	}
	sort.Strings(ks)
	return ks
}

// formatPrefix: the constant text a format argument starts with: the constant
// itself, or the constant left end of a concatenation ("%w: " + format).
func formatPrefix(v ssa.Value) string {
	for i := 0; i < 6; i++ {
		switch x := v.(type) {
		case *ssa.Const:
			return constString(x)
		case *ssa.BinOp:
			if x.Op != token.ADD {
				return ""
			}
			v = x.X
		default:
			return ""
		}
	}
	return ""
}

// errorfArgs: the leading elements of the variadic argument slice of an
// Errorf call: a slice literal, or append(literal, rest...).
func errorfArgs(v ssa.Value) []ssa.Value {
	if c, ok := v.(*ssa.Call); ok {
		if bi, ok := c.Call.Value.(*ssa.Builtin); ok && bi.Name() == "append" && len(c.Call.Args) >= 1 {
			return variadicArgs(c.Call.Args[0])
		}
	}
	return variadicArgs(v)
}

// errCtorShape: the call goes to a small module function whose only return is
// a fmt.Errorf (an error-constructor helper such as verbosef or wrapErr). The
// shape is that Errorf's, with the helper's parameters replaced by the
// arguments of this call, so a sentinel handed in as an argument counts as a
// sentinel and a wrapped error handed in counts as passed on.
func (p *Prog) errCtorShape(c *ssa.Call, v0 ssa.Value) (Shape, bool) {
	sc := c.Call.StaticCallee()
	if sc == nil || !inModule(sc) || sc.Blocks == nil || len(sc.Blocks) != 1 || sc.Signature.Results().Len() != 1 || !isErrorType(sc.Signature.Results().At(0).Type()) {
		return Shape{}, false
	}
	ret, ok := sc.Blocks[0].Instrs[len(sc.Blocks[0].Instrs)-1].(*ssa.Return)
	if !ok || len(ret.Results) != 1 {
		return Shape{}, false
	}
	inner, ok := stripConv(ret.Results[0]).(*ssa.Call)
	if !ok || calleeQualified(&inner.Call) != "fmt.Errorf" {
		return Shape{}, false
	}
	in := p.shapeOf(inner)
	if in.Kind != "errorf" {
		return Shape{}, false
	}
	out := Shape{Kind: "errorf", Text: in.Text, Val: v0, Sentinels: append([]string{}, in.Sentinels...)}
	for _, pass := range in.Passes {
		q, isParam := stripConv(pass).(*ssa.Parameter)
		if mi, ok := stripConv(pass).(*ssa.MakeInterface); ok {
			q, isParam = stripConv(mi.X).(*ssa.Parameter)
		}
		if !isParam {
			out.Passes = append(out.Passes, pass)
			continue
		}
		for i, fq := range sc.Params {
			if fq != q || i >= len(c.Call.Args) {
				continue
			}
			a := c.Call.Args[i]
			if g := loadedGlobal(a); g != nil && g.Pkg != nil {
				// sentinels keep the order of the verbs: a parameter that comes
				// first in the format comes first here
				out.Sentinels = append([]string{g.Pkg.Pkg.Name() + "." + g.Name()}, out.Sentinels...)
			} else {
				out.Passes = append(out.Passes, a)
			}
		}
	}
	return out, true
}

// isErrCtor: fn is an error-constructor helper (see errCtorShape).
func (p *Prog) isErrCtor(fn *ssa.Function) bool {
	if fn == nil || !inModule(fn) || fn.Blocks == nil || len(fn.Blocks) != 1 || fn.Signature.Results().Len() != 1 || !isErrorType(fn.Signature.Results().At(0).Type()) {
		return false
	}
	ret, ok := fn.Blocks[0].Instrs[len(fn.Blocks[0].Instrs)-1].(*ssa.Return)
	if !ok || len(ret.Results) != 1 {
		return false
	}
	inner, ok := stripConv(ret.Results[0]).(*ssa.Call)
	return ok && calleeQualified(&inner.Call) == "fmt.Errorf"
}
