package main

// Return-shape classification: what each Return of a function hands back, in
// semantic terms (nil, fresh allocation, error wrapping which sentinels, the
// result of which callee, a load of which field).

import (
	"go/token"
	"go/types"
	"sort"
	"strings"

	"golang.org/x/tools/go/ssa"
)

// RetSite is one Return with spill slots looked through.
type RetSite struct {
	Instr   *ssa.Return
	Results []ssa.Value
}

// returnsOf lists the returns of fn. For functions with defers, go/ssa spills
// results into the named-result Allocs (`*t0 = v; rundefers; return *t0`): the
// stored values are recovered from the same block. The synthetic recover block
// is skipped.
func returnsOf(fn *ssa.Function) []RetSite {
	var out []RetSite
	for _, b := range fn.Blocks {
		if b == fn.Recover {
			continue
		}
		r, ok := b.Instrs[len(b.Instrs)-1].(*ssa.Return)
		if !ok {
			continue
		}
		rs := RetSite{Instr: r}
		for _, v := range r.Results {
			rs.Results = append(rs.Results, unspill(b, r, v))
		}
		out = append(out, rs)
	}
	return out
}

func unspill(b *ssa.BasicBlock, before ssa.Instruction, v ssa.Value) ssa.Value {
	u, ok := v.(*ssa.UnOp)
	if !ok || u.Op != token.MUL {
		return v
	}
	a, ok := u.X.(*ssa.Alloc)
	if !ok {
		return v
	}
	// last store to a in this block before the load
	var last ssa.Value
	for _, ins := range b.Instrs {
		if ins == u {
			break
		}
		if st, ok := ins.(*ssa.Store); ok && st.Addr == a {
			last = st.Val
		}
	}
	if last != nil {
		return last
	}
	// single-predecessor chain: look upwards
	cur := b
	seen := map[*ssa.BasicBlock]bool{}
	for len(cur.Preds) == 1 && !seen[cur] {
		seen[cur] = true
		cur = cur.Preds[0]
		for i := len(cur.Instrs) - 1; i >= 0; i-- {
			if st, ok := cur.Instrs[i].(*ssa.Store); ok && st.Addr == a {
				return st.Val
			}
		}
	}
	return v
}

// Shape is the semantic description of a returned value.
type Shape struct {
	Kind      string   // nil | const | alloc | errorf | call | load | param | global | phi | other
	Sentinels []string // errorf: wrapped sentinels ("pkg.Name"), in order
	Passes    []ssa.Value
	Callee    string // call: qualified callee
	Index     int    // call: result index
	Field     string // load: Type.field
	Text      string
	Val       ssa.Value
}

func (s Shape) String() string {
	switch s.Kind {
	case "errorf":
		t := "errorf[" + strings.Join(s.Sentinels, ",")
		if len(s.Passes) > 0 {
			t += ",+wrapped"
		}
		return t + "]"
	case "call":
		return "call:" + s.Callee
	case "load":
		return "load:" + s.Field
	case "const":
		return "const:" + s.Text
	}
	return s.Kind
}

func (p *Prog) shapeOf(v ssa.Value) Shape {
	v0 := v
	v = stripConv(v)
	if mi, ok := v.(*ssa.MakeInterface); ok {
		in := p.shapeOf(mi.X)
		in.Val = v0
		return in
	}
	switch x := v.(type) {
	case *ssa.Const:
		if x.Value == nil {
			return Shape{Kind: "nil", Val: v0}
		}
		return Shape{Kind: "const", Text: x.Value.ExactString(), Val: v0}
	case *ssa.Alloc:
		return Shape{Kind: "alloc", Val: v0}
	case *ssa.MakeSlice, *ssa.MakeMap:
		return Shape{Kind: "alloc", Val: v0}
	case *ssa.Parameter:
		return Shape{Kind: "param", Text: x.Name(), Val: v0}
	case *ssa.Phi:
		return Shape{Kind: "phi", Val: v0}
	case *ssa.Extract:
		if c, ok := x.Tuple.(*ssa.Call); ok {
			return Shape{Kind: "call", Callee: calleeName(&c.Call), Index: x.Index, Val: v0}
		}
	case *ssa.Call:
		if calleeQualified(&x.Call) == "fmt.Errorf" && len(x.Call.Args) >= 1 {
			sh := Shape{Kind: "errorf", Val: v0}
			format := ""
			if fc, ok := x.Call.Args[0].(*ssa.Const); ok {
				format = constString(fc)
			}
			sh.Text = format
			var args []ssa.Value
			if len(x.Call.Args) > 1 {
				args = variadicArgs(x.Call.Args[1])
			}
			// verbs in order
			verbs := formatVerbs(format)
			for i, a := range args {
				if a == nil || i >= len(verbs) {
					continue
				}
				if verbs[i] != 'w' {
					continue
				}
				if g := loadedGlobal(a); g != nil && g.Pkg != nil {
					sh.Sentinels = append(sh.Sentinels, g.Pkg.Pkg.Name()+"."+g.Name())
				} else {
					sh.Passes = append(sh.Passes, a)
				}
			}
			return sh
		}
		if calleeQualified(&x.Call) == "errors.New" {
			return Shape{Kind: "errorf", Text: "errors.New", Val: v0}
		}
		return Shape{Kind: "call", Callee: calleeName(&x.Call), Index: 0, Val: v0}
	case *ssa.UnOp:
		if x.Op == token.MUL {
			if g, ok := x.X.(*ssa.Global); ok && g.Pkg != nil {
				return Shape{Kind: "global", Text: g.Pkg.Pkg.Name() + "." + g.Name(), Val: v0}
			}
			if fa, ok := x.X.(*ssa.FieldAddr); ok {
				t := fa.X.Type()
				if pt, ok := t.Underlying().(*types.Pointer); ok {
					t = pt.Elem()
				}
				if st, ok := t.Underlying().(*types.Struct); ok {
					tn := typeStr(t)
					return Shape{Kind: "load", Field: tn + "." + st.Field(fa.Field).Name(), Val: v0}
				}
			}
			if a, ok := x.X.(*ssa.Alloc); ok && a.Heap {
				// `&T{...}` then load? no: loads of a local
				return Shape{Kind: "other", Text: "load of local " + a.Comment, Val: v0}
			}
		}
	}
	return Shape{Kind: "other", Text: v.String(), Val: v0}
}

func calleeName(c *ssa.CallCommon) string {
	if f := c.StaticCallee(); f != nil {
		return fnName(f)
	}
	if c.IsInvoke() {
		return "invoke " + c.Method.Name()
	}
	return "dynamic " + c.Value.Name()
}

// formatVerbs returns the verb letter of each argument-consuming directive.
func formatVerbs(f string) []byte {
	var out []byte
	for i := 0; i < len(f); i++ {
		if f[i] != '%' {
			continue
		}
		i++
		for i < len(f) && strings.ContainsRune("+-# 0123456789.[]*", rune(f[i])) {
			i++
		}
		if i < len(f) && f[i] != '%' {
			out = append(out, f[i])
		}
	}
	return out
}

// passesValue: the errorf shape wraps (with %w or %v) the given value.
func (p *Prog) errorfMentions(sh Shape, v ssa.Value) bool {
	c, ok := stripConv(sh.Val).(*ssa.Call)
	if !ok || len(c.Call.Args) < 2 {
		return false
	}
	for _, a := range variadicArgs(c.Call.Args[1]) {
		if a == nil {
			continue
		}
		a = stripConv(a)
		if mi, ok := a.(*ssa.MakeInterface); ok {
			a = mi.X
		}
		if sameValue(a, v) {
			return true
		}
	}
	return false
}

// nilFact: what the facts say about "v != nil".
func nilFact(fs []Fact, v ssa.Value) (isNil, notNil bool) {
	_, _, isNil, notNil = typeFacts(fs, v)
	return
}

func sortedKeys(m map[string]bool) []string {
	var ks []string
	for k := range m {
		ks = append(ks, k)
	}
	sort.Strings(ks)
	return ks
}
