package main

// E4: save/restore typestate on the fields of exec.Executor.

import (
	"fmt"
	"go/token"
	"go/types"
	"sort"
	"strings"

	"golang.org/x/tools/go/ssa"
)

// execFieldOf: addr is (a sub-field of) field f of an *Executor; returns the
// first-level field and the Executor pointer value.
func (p *Prog) execFieldOf(addr ssa.Value) (*types.Var, ssa.Value) {
	for {
		fa, ok := addr.(*ssa.FieldAddr)
		if !ok {
			return nil, nil
		}
		if n := namedOf(fa.X.Type()); n == p.A.Executor {
			if _, isPtr := fa.X.Type().Underlying().(*types.Pointer); isPtr {
				return p.A.ExecStruct.Field(fa.Field), fa.X
			}
		}
		addr = fa.X
	}
}

// wholeField: addr is exactly the first-level field (not a sub-field).
func (p *Prog) wholeField(addr ssa.Value) bool {
	fa, ok := addr.(*ssa.FieldAddr)
	return ok && namedOf(fa.X.Type()) == p.A.Executor
}

type execStore struct {
	Fn    *ssa.Function
	Store *ssa.Store // nil for a store made through a mutator helper
	Field *types.Var
	Recv  ssa.Value
	At    ssa.Instruction // the store, or the call of the mutator helper
	Val   ssa.Value       // the value stored (nil when a helper computes it)
}

func (p *Prog) execStores(fn *ssa.Function) []execStore {
	var out []execStore
	for _, b := range fn.Blocks {
		for _, ins := range b.Instrs {
			st, ok := ins.(*ssa.Store)
			if !ok {
				continue
			}
			if f, recv := p.execFieldOf(st.Addr); f != nil {
				out = append(out, execStore{fn, st, f, recv, st, st.Val})
			}
		}
	}
	return out
}

// mutatorFields: fn is a plain helper of package exec that does nothing but
// store into fields of the Executor it is handed (`func (exec *Executor)
// setBaseObject(obj any, id int) { exec.baseObject = kvBaseObject{…} }`):
// loop-free, no results, no calls of Executor methods other than such
// helpers, every call site a plain call from package exec. A call of it
// counts, in the caller, as a store into those fields. Returns the fields.
var mutatorMemo = map[*ssa.Function][]*types.Var{}

func (p *Prog) mutatorFields(fn *ssa.Function) []*types.Var {
	if fn == nil {
		return nil
	}
	if r, ok := mutatorMemo[fn]; ok {
		return r
	}
	mutatorMemo[fn] = nil
	if fn.Blocks == nil || fnPkgPath(fn) != pkgExec || fn.Parent() != nil || fn.Synthetic != "" || fn.Signature.Results().Len() != 0 || len(fn.Blocks) > 6 || !isMethodOfExecutor(p, fn) {
		return nil
	}
	var recvP *ssa.Parameter
	for _, q := range fn.Params {
		if namedOf(q.Type()) == p.A.Executor {
			recvP = q
		}
	}
	if recvP == nil {
		return nil
	}
	seen := map[*types.Var]bool{}
	var fields []*types.Var
	for _, b := range fn.Blocks {
		for _, pr := range b.Preds {
			if b.Dominates(pr) {
				return nil
			}
		}
		for _, ins := range b.Instrs {
			switch x := ins.(type) {
			case *ssa.Store:
				f, recv := p.execFieldOf(x.Addr)
				if f == nil {
					if _, local := x.Addr.(*ssa.Alloc); local {
						continue
					}
					if fa, ok := x.Addr.(*ssa.FieldAddr); ok {
						if _, local := fa.X.(*ssa.Alloc); local {
							continue
						}
					}
					return nil
				}
				if recv != ssa.Value(recvP) {
					return nil
				}
				if !seen[f] {
					seen[f] = true
					fields = append(fields, f)
				}
			case ssa.CallInstruction:
				if _, isDefer := x.(*ssa.Defer); isDefer {
					return nil
				}
				if _, isGo := x.(*ssa.Go); isGo {
					return nil
				}
				g := x.Common().StaticCallee()
				if x.Common().IsInvoke() || g == nil {
					return nil
				}
				if isMethodOfExecutor(p, g) {
					return nil
				}
			case *ssa.MapUpdate, *ssa.Send, *ssa.Panic:
				return nil
			}
		}
	}
	if len(fields) == 0 {
		return nil
	}
	n := p.CG.Nodes[fn]
	if n == nil || len(n.In) == 0 {
		return nil
	}
	for _, e := range n.In {
		c, ok := e.Site.(*ssa.Call)
		if !ok || c.Call.StaticCallee() != fn || fnPkgPath(e.Caller.Func) != pkgExec {
			return nil
		}
	}
	mutatorMemo[fn] = fields
	return fields
}

// execStoresV: the stores of fn into Executor fields, those made through
// mutator helpers included (as the helper's call, with no value).
func (p *Prog) execStoresV(fn *ssa.Function) []execStore {
	out := p.execStores(fn)
	for _, b := range fn.Blocks {
		for _, ins := range b.Instrs {
			c, ok := ins.(*ssa.Call)
			if !ok || c.Call.IsInvoke() {
				continue
			}
			g := c.Call.StaticCallee()
			fields := p.mutatorFields(g)
			if len(fields) == 0 {
				continue
			}
			// a setter handed a value: keep the value, so that a call which
			// restores the field is recognised as one
			var val ssa.Value
			if sf, sq := p.fieldSetter(g); sf != nil {
				for i, q := range g.Params {
					if q == sq && i < len(c.Call.Args) {
						val = c.Call.Args[i]
					}
				}
			}
			var recv ssa.Value
			for i, q := range g.Params {
				if namedOf(q.Type()) == p.A.Executor && i < len(c.Call.Args) {
					recv = c.Call.Args[i]
				}
			}
			for _, f := range fields {
				out = append(out, execStore{fn, nil, f, recv, c, val})
			}
		}
	}
	return out
}

// traceSaved resolves v (in fn) back to a load of an Executor field, through
// local cells, closure bindings and deferred-call arguments. It returns the
// load instruction and the function it sits in.
func (p *Prog) traceSaved(fn *ssa.Function, v ssa.Value, via ssa.Instruction, depth int) (*ssa.UnOp, *types.Var) {
	if depth > 6 {
		return nil, nil
	}
	switch x := v.(type) {
	case *ssa.UnOp:
		if x.Op != token.MUL {
			return nil, nil
		}
		if f, _ := p.execFieldOf(x.X); f != nil && p.wholeField(x.X) {
			return x, f
		}
		switch a := x.X.(type) {
		case *ssa.Alloc:
			return p.traceCell(a, depth)
		case *ssa.FreeVar:
			par := a.Parent().Parent()
			if par == nil {
				return nil, nil
			}
			idx := -1
			for i, fv := range a.Parent().FreeVars {
				if fv == a {
					idx = i
				}
			}
			for _, b := range par.Blocks {
				for _, ins := range b.Instrs {
					if mc, ok := ins.(*ssa.MakeClosure); ok && mc.Fn == a.Parent() && idx >= 0 {
						if cell, ok := mc.Bindings[idx].(*ssa.Alloc); ok {
							return p.traceCell(cell, depth)
						}
					}
				}
			}
		}
	case *ssa.Parameter:
		// parameter of a function literal invoked by a defer/call in its parent
		par := x.Parent().Parent()
		if par == nil {
			return nil, nil
		}
		pi := paramIndex(x)
		for _, b := range par.Blocks {
			for _, ins := range b.Instrs {
				ci, ok := ins.(ssa.CallInstruction)
				if !ok {
					continue
				}
				if callee, ok := ci.Common().Value.(*ssa.Function); ok && callee == x.Parent() && pi < len(ci.Common().Args) {
					return p.traceSaved(par, ci.Common().Args[pi], ins, depth+1)
				}
				// … the literal being a closure (it captures the receiver)
				if mc, ok := ci.Common().Value.(*ssa.MakeClosure); ok && mc.Fn == ssa.Value(x.Parent()) && pi < len(ci.Common().Args) {
					return p.traceSaved(par, ci.Common().Args[pi], ins, depth+1)
				}
			}
		}
	}
	return nil, nil
}

func (p *Prog) traceCell(a *ssa.Alloc, depth int) (*ssa.UnOp, *types.Var) {
	var got *ssa.UnOp
	var gf *types.Var
	n := 0
	for _, b := range a.Parent().Blocks {
		for _, ins := range b.Instrs {
			if st, ok := ins.(*ssa.Store); ok && st.Addr == a {
				n++
				l, f := p.traceSaved(a.Parent(), st.Val, ins, depth+1)
				if l == nil {
					return nil, nil
				}
				got, gf = l, f
			}
		}
	}
	if n != 1 {
		return nil, nil
	}
	return got, gf
}

// before: instruction a is executed before b on every path reaching b.
func before(a, b ssa.Instruction) bool {
	if a.Block() == b.Block() {
		return instrIndex(a.Block(), a) < instrIndex(b.Block(), b)
	}
	return a.Block().Dominates(b.Block())
}

// restorersIn finds, inside function r (a function literal), stores that
// write the saved value of an Executor field back into that field.
type restorer struct {
	Fn    *ssa.Function // the literal
	Field *types.Var
	Load  *ssa.UnOp // the saving load, in the enclosing function
}

func (p *Prog) restorersOf(lit *ssa.Function) []restorer {
	var out []restorer
	for _, s := range p.execStores(lit) {
		if !p.wholeField(s.Store.Addr) {
			continue
		}
		l, f := p.traceSaved(lit, s.Store.Val, s.Store, 0)
		if l != nil && f == s.Field {
			out = append(out, restorer{lit, s.Field, l})
		}
	}
	return out
}

// fieldSetter: fn does nothing but store one of its parameters into a whole
// field of the Executor (a named "restore" method or function). Returns the
// field and the parameter.
func (p *Prog) fieldSetter(fn *ssa.Function) (*types.Var, *ssa.Parameter) {
	if fn == nil || fn.Blocks == nil || len(fn.Blocks) != 1 || fnPkgPath(fn) != pkgExec || fn.Parent() != nil {
		return nil, nil
	}
	var f *types.Var
	var q *ssa.Parameter
	for _, ins := range fn.Blocks[0].Instrs {
		switch x := ins.(type) {
		case *ssa.Store:
			sf, _ := p.execFieldOf(x.Addr)
			par, isPar := x.Val.(*ssa.Parameter)
			if sf == nil || !p.wholeField(x.Addr) || !isPar || f != nil {
				return nil, nil
			}
			f, q = sf, par
		case *ssa.FieldAddr, *ssa.Return, *ssa.DebugRef, *ssa.UnOp:
		default:
			return nil, nil
		}
	}
	return f, q
}

// setterRestores: call (a plain call or a defer) invokes a field setter for f
// with a value that traces back to a saving load of f in fn.
func (p *Prog) setterRestores(fn *ssa.Function, ci ssa.CallInstruction, f *types.Var, isSave func(*ssa.UnOp) bool) bool {
	sc := ci.Common().StaticCallee()
	sf, sq := p.fieldSetter(sc)
	if sf == nil || sf != f {
		return false
	}
	idx := -1
	for i, q := range sc.Params {
		if q == sq {
			idx = i
		}
	}
	if idx < 0 || idx >= len(ci.Common().Args) {
		return false
	}
	l, lf := p.traceSaved(fn, ci.Common().Args[idx], ci, 0)
	return l != nil && lf == f && isSave(l)
}

// isMethodOfExecutor: f is a method of *Executor, or a plain function of
// package exec that takes the *Executor as one of its parameters (the same
// thing written the other way round).
func isMethodOfExecutor(p *Prog, f *ssa.Function) bool {
	if f == nil {
		return false
	}
	if f.Signature.Recv() != nil {
		return namedOf(f.Signature.Recv().Type()) == p.A.Executor
	}
	if fnPkgPath(f) != pkgExec || f.Parent() != nil {
		return false
	}
	for i := 0; i < f.Signature.Params().Len(); i++ {
		if pt, ok := f.Signature.Params().At(i).Type().(*types.Pointer); ok && namedOf(pt) == p.A.Executor {
			return true
		}
	}
	return false
}

// fieldReadInConstArm: the Executor field loaded in the arm of the value
// switch over ast.Constant that handles the named constant (e.g. ConstRoot →
// the field holding `$`).
func (p *Prog) fieldReadInConstArm(constName string) *types.Var {
	ei := p.A.Enums["Constant"]
	c := ei.byName(constName)
	if c == nil {
		return nil
	}
	want, _ := constInt(ssa.NewConst(c.Val(), c.Type()))
	sp := p.SSAPkg[pkgExec]
	var found *types.Var
	for _, m := range sortedMembers(sp) {
		fn, ok := m.(*ssa.Function)
		if !ok {
			continue
		}
		_ = fn
	}
	for fn := range p.AllFns {
		if fnPkgPath(fn) != pkgExec || fn.Blocks == nil {
			continue
		}
		for _, b := range fn.Blocks {
			fs := factsAt(b)
			hit := false
			for _, f := range fs {
				bo, ok := f.Cond.(*ssa.BinOp)
				if !ok || bo.Op != token.EQL || !f.Truth {
					continue
				}
				if p.enumOf(bo.X.Type()) == ei {
					if k, ok := constInt(bo.Y); ok && k == want {
						hit = true
					}
				}
			}
			if !hit {
				continue
			}
			for _, ins := range b.Instrs {
				if u, ok := ins.(*ssa.UnOp); ok && u.Op == token.MUL {
					if f, _ := p.execFieldOf(u.X); f != nil {
						// must flow into a call argument
						for _, r := range *u.Referrers() {
							if _, ok := r.(ssa.CallInstruction); ok {
								found = f
							}
						}
					}
				}
			}
		}
	}
	return found
}

func sortedMembers(sp *ssa.Package) []ssa.Member {
	var names []string
	for n := range sp.Members {
		names = append(names, n)
	}
	sort.Strings(names)
	var out []ssa.Member
	for _, n := range names {
		out = append(out, sp.Members[n])
	}
	return out
}

// stateAnalysis classifies every store to an Executor field.
type stateClass struct {
	Fn     *ssa.Function
	Field  *types.Var
	Class  string // constructor | option | init | counter | defer-restore | explicit-restore | restorer-helper | restorer-literal | unclassified
	Detail string
	Site   token.Pos
	OK     bool
}

func (p *Prog) classifyState() []stateClass {
	var out []stateClass
	entry := p.entrySet()
	var fns []*ssa.Function
	for fn := range p.AllFns {
		if fnPkgPath(fn) == pkgExec && fn.Blocks != nil {
			fns = append(fns, fn)
		}
	}
	sort.Slice(fns, func(i, j int) bool { return fns[i].String() < fns[j].String() })
	for _, fn := range fns {
		stores := p.execStoresV(fn)
		if len(stores) == 0 {
			continue
		}
		byField := map[*types.Var][]execStore{}
		var order []*types.Var
		for _, s := range stores {
			if byField[s.Field] == nil {
				order = append(order, s.Field)
			}
			byField[s.Field] = append(byField[s.Field], s)
		}
		for _, f := range order {
			ss := byField[f]
			sc := stateClass{Fn: fn, Field: f, Site: ss[0].At.Pos()}
			switch {
			case p.allFreshRecv(fn, ss):
				sc.Class, sc.OK, sc.Detail = "constructor", true, "the Executor is allocated in this function"
			case fn.Parent() != nil && isOptionCtor(p, fn.Parent()):
				sc.Class, sc.OK, sc.Detail = "option", true, "function literal returned by exported option constructor "+fn.Parent().Name()
			case fn.Parent() != nil:
				// a function literal: must be a restorer (validated from the
				// enclosing function's side)
				rs := p.restorersOf(fn)
				ok := false
				for _, r := range rs {
					if r.Field == f {
						ok = true
					}
				}
				// … or the complement of a flag the enclosing function set
				// only where the saved value differed from it
				if !ok {
					par := fn.Parent()
					var pss []execStore
					for _, ps := range p.execStores(par) {
						if ps.Field == f {
							pss = append(pss, ps)
						}
					}
					isSaveIn := func(l *ssa.UnOp) bool {
						if l.Op != token.MUL || !p.wholeField(l.X) {
							return false
						}
						lf, _ := p.execFieldOf(l.X)
						if lf != f {
							return false
						}
						for _, ps := range pss {
							if !before(l, ps.At) {
								return false
							}
						}
						return true
					}
					for _, b := range par.Blocks {
						for _, ins := range b.Instrs {
							if mc, isMC := ins.(*ssa.MakeClosure); isMC && mc.Fn == ssa.Value(fn) && len(pss) > 0 && p.complementRestorer(par, mc, f, pss, isSaveIn) {
								ok = true
							}
						}
					}
				}
				if ok {
					sc.Class, sc.OK, sc.Detail = "restorer-literal", true, "writes back the value of the field loaded by "+fn.Parent().Name()
				} else {
					sc.Class, sc.Detail = "unclassified", "function literal writes the field with something other than its saved value"
				}
			default:
				if sf, _ := p.fieldSetter(fn); sf == f {
					// a named restorer: judged at its call sites, each of which
					// must hand it a value saved from the same field
					bad := ""
					if n := p.CG.Nodes[fn]; n != nil {
						for _, e := range n.In {
							if e.Site == nil {
								continue
							}
							caller := e.Caller.Func
							if !p.setterRestores(caller, e.Site, f, func(*ssa.UnOp) bool { return true }) {
								bad = fnName(caller) + " at " + p.pos(e.Site.Pos())
							}
						}
						if len(n.In) == 0 {
							bad = "never called"
						}
					}
					if bad == "" {
						sc.Class, sc.OK, sc.Detail = "restorer-method", true, "stores its argument into the field; every call site hands it the value saved from that field"
					} else {
						sc.Class, sc.Detail = "unclassified", "a setter of the field is called with something other than its saved value ("+bad+")"
					}
				} else if mf := p.mutatorFields(fn); len(mf) > 0 {
					sc.Class, sc.OK, sc.Detail = "mutator-helper", true, fmt.Sprintf("does nothing but store into the field; each of its %d call site(s) is judged as the store it stands for", len(p.CG.Nodes[fn].In))
				} else if p.isBoundRestorerMethod(fn, f) {
					sc.Class, sc.OK, sc.Detail = "restorer-method", true, "method of a restorer value: every method value of it is built with the field's saved value"
				} else {
					p.classifyNamed(fn, f, ss, entry, &sc)
				}
			}
			out = append(out, sc)
		}
	}
	return out
}

func isOptionCtor(p *Prog, fn *ssa.Function) bool { return isOptionCtorD(p, fn, 0) }

// isOptionCtorD: fn returns an exec.Option and is exported, or is an
// unexported helper that only option constructors call
// (`func WithSilent() Option { return setVerbose(false) }`).
func isOptionCtorD(p *Prog, fn *ssa.Function, depth int) bool {
	if fn == nil || fn.Object() == nil || fn.Signature.Results().Len() != 1 || depth > 3 {
		return false
	}
	n, ok := fn.Signature.Results().At(0).Type().(*types.Named)
	if !ok || n.Obj().Name() != "Option" || n.Obj().Pkg() == nil || n.Obj().Pkg().Path() != pkgExec {
		return false
	}
	if fn.Object().Exported() {
		return true
	}
	nd := p.CG.Nodes[fn]
	if nd == nil || len(nd.In) == 0 {
		return false
	}
	for _, e := range nd.In {
		c, ok := e.Site.(*ssa.Call)
		if !ok || c.Call.StaticCallee() != fn || !isOptionCtorD(p, e.Caller.Func, depth+1) {
			return false
		}
	}
	return true
}

func (p *Prog) allFreshRecv(fn *ssa.Function, ss []execStore) bool {
	for _, s := range ss {
		if _, ok := s.Recv.(*ssa.Alloc); !ok {
			return false
		}
	}
	return true
}

func (p *Prog) classifyNamed(fn *ssa.Function, f *types.Var, ss []execStore, entry map[*ssa.Function]bool, sc *stateClass) {
	// counter: f = f + const
	allCounter := true
	for _, s := range ss {
		bo, ok := s.Val.(*ssa.BinOp)
		if !ok || bo.Op != token.ADD {
			allCounter = false
			break
		}
		l, lf := p.traceSaved(fn, bo.X, s.At, 0)
		if _, isC := bo.Y.(*ssa.Const); !isC || l == nil || lf != f {
			allCounter = false
		}
	}
	if allCounter {
		sc.Class, sc.OK, sc.Detail = "counter", true, "monotone counter (f = f + const): tabled exception, identifiers only need to be fresh"
		return
	}
	// init: every caller is an exported entry point and the stores precede
	// every call to a method of Executor
	if n := p.CG.Nodes[fn]; n != nil && len(n.In) > 0 {
		all := true
		for _, e := range n.In {
			if entry[e.Caller.Func] {
				continue
			}
			// … or an adapter that only the entry points call and that calls
			// nothing of the Executor before this function
			// (`execute`/`exists` in front of a shared `queryRoot`)
			cn := p.CG.Nodes[e.Caller.Func]
			viaAdapter := cn != nil && len(cn.In) > 0
			if viaAdapter {
				for _, e2 := range cn.In {
					if !entry[e2.Caller.Func] {
						viaAdapter = false
					}
				}
				if site, ok := e.Site.(ssa.Instruction); ok {
					for _, b := range e.Caller.Func.Blocks {
						for _, ins := range b.Instrs {
							if ci, ok := ins.(ssa.CallInstruction); ok && ins != site && isMethodOfExecutor(p, ci.Common().StaticCallee()) && !before(site, ins) {
								viaAdapter = false
							}
						}
					}
				} else {
					viaAdapter = false
				}
			}
			if !viaAdapter {
				all = false
			}
		}
		if all {
			okOrder := true
			for _, s := range ss {
				for _, b := range fn.Blocks {
					for _, ins := range b.Instrs {
						if ci, ok := ins.(ssa.CallInstruction); ok && isMethodOfExecutor(p, ci.Common().StaticCallee()) {
							if !before(s.At, ins) {
								okOrder = false
							}
						}
					}
				}
			}
			if okOrder {
				sc.Class, sc.OK, sc.Detail = "init", true, "called only from the exported entry points; stores precede the first evaluation call"
				return
			}
		}
	}
	// the saving load: a load of f before the first mutation
	var saves []*ssa.UnOp
	for _, b := range fn.Blocks {
		for _, ins := range b.Instrs {
			if u, ok := ins.(*ssa.UnOp); ok && u.Op == token.MUL && p.wholeField(u.X) {
				if lf, _ := p.execFieldOf(u.X); lf == f {
					before1 := true
					for _, s := range ss {
						if !before(u, s.At) {
							before1 = false
						}
					}
					if before1 {
						saves = append(saves, u)
					}
				}
			}
		}
	}
	if len(saves) == 0 {
		sc.Class, sc.Detail = "unclassified", "the field is overwritten without its previous value being saved first"
		return
	}
	isSave := func(l *ssa.UnOp) bool {
		for _, s := range saves {
			if s == l {
				return true
			}
		}
		return false
	}
	// restorer-returning helper
	rets := returnsOf(fn)
	if len(rets) > 0 && fn.Signature.Results().Len() == 1 {
		all := true
		nclos := 0
		for _, r := range rets {
			// nothing to undo on a way out that did not touch the field
			// (`if exec.f == val { return func() {} }`)
			if isNoopFunc(r.Results[0]) {
				untouched := true
				for _, s := range ss {
					if s.At.Block() == r.Instr.Block() || s.At.Block().Dominates(r.Instr.Block()) {
						untouched = false
					}
				}
				if untouched {
					continue
				}
			}
			mc, ok := r.Results[0].(*ssa.MakeClosure)
			if !ok {
				all = false
				break
			}
			nclos++
			good := false
			for _, rs := range p.restorersOf(mc.Fn.(*ssa.Function)) {
				if rs.Field == f && isSave(rs.Load) {
					good = true
				}
			}
			if !good && p.boundRestorer(fn, mc, f, isSave) {
				good = true
			}
			if !good && p.complementRestorer(fn, mc, f, ss, isSave) {
				good = true
			}
			if !good {
				all = false
			}
		}
		if all && nclos > 0 {
			// every caller defers the result at once
			bad := p.callersNotDeferring(fn)
			if len(bad) == 0 {
				sc.Class, sc.OK, sc.Detail = "restorer-helper", true, "returns a closure restoring the saved value; every call site defers it immediately or calls it on every path to a return"
			} else {
				sc.Class, sc.Detail = "restorer-helper", "call site does not defer the returned restorer immediately: "+strings.Join(bad, "; ")
			}
			return
		}
	}
	// defer-restore in the same function
	var defers []*ssa.Defer
	for _, b := range fn.Blocks {
		for _, ins := range b.Instrs {
			d, ok := ins.(*ssa.Defer)
			if !ok {
				continue
			}
			if p.setterRestores(fn, d, f, isSave) {
				defers = append(defers, d)
				continue
			}
			var lit *ssa.Function
			switch v := d.Call.Value.(type) {
			case *ssa.Function:
				lit = v
			case *ssa.MakeClosure:
				lit = v.Fn.(*ssa.Function)
			}
			if lit == nil {
				continue
			}
			for _, rs := range p.restorersOf(lit) {
				if rs.Field == f && isSave(rs.Load) {
					defers = append(defers, d)
				}
			}
		}
	}
	if len(defers) > 0 {
		for _, s := range ss {
			covered := false
			for _, d := range defers {
				if before(d, s.At) {
					covered = true
					continue
				}
				// mutation first, defer right after: same block, no call or
				// return in between
				if d.Block() == s.At.Block() {
					i, j := instrIndex(d.Block(), s.At), instrIndex(d.Block(), d)
					clean := i < j
					for k := i + 1; k < j && clean; k++ {
						switch d.Block().Instrs[k].(type) {
						case ssa.CallInstruction, *ssa.Return, *ssa.Panic:
							clean = false
						}
					}
					if clean {
						covered = true
					}
				}
			}
			if !covered {
				sc.Class, sc.Detail = "defer-restore", "a mutation of the field is not covered by the deferred restore (an exit or a call lies between them)"
				return
			}
		}
		sc.Class, sc.OK, sc.Detail = "defer-restore", true, "previous value loaded first; a deferred literal writes it back on every exit, including error exits and panics"
		return
	}
	// explicit restore on every exit
	if bad := p.exitsWithoutRestore(fn, f, ss, saves); len(bad) == 0 {
		sc.Class, sc.OK, sc.Detail = "explicit-restore", true, "every path from the mutation to a return stores the saved value back"
	} else {
		sc.Class, sc.Detail = "explicit-restore", "exit without restoring the field: "+strings.Join(bad, "; ")
	}
}

// callersNotDeferring: call sites of helper whose result is not deferred
// immediately (`defer helper(...)()`).
func (p *Prog) callersNotDeferring(helper *ssa.Function) []string {
	var bad []string
	n := p.CG.Nodes[helper]
	if n == nil {
		return []string{"no call-graph node"}
	}
	for _, e := range n.In {
		call, ok := e.Site.(*ssa.Call)
		if !ok {
			bad = append(bad, p.pos(e.Site.Pos())+" (not a plain call)")
			continue
		}
		good := false
		blk := call.Block()
		i := instrIndex(blk, call)
		if i+1 < len(blk.Instrs) {
			if d, ok := blk.Instrs[i+1].(*ssa.Defer); ok && d.Call.Value == call {
				good = true
			}
		}
		if !good && calledOnEveryExit(call) {
			good = true
		}
		if !good {
			bad = append(bad, fnName(e.Caller.Func)+" at "+p.pos(call.Pos()))
		}
	}
	sort.Strings(bad)
	return bad
}

// calledOnEveryExit: the function value returned by call is invoked on every
// path from the call to every return of the enclosing function, and is used
// for nothing else (explicit `restore := helper(); …; restore()`).
func calledOnEveryExit(call *ssa.Call) bool {
	// the values that stand for the restorer: the call itself, and a merge
	// of it with a function that does nothing (`restore := func() {}; if c {
	// restore = helper() }; …; restore()`)
	vals := map[ssa.Value]bool{call: true}
	for _, r := range *call.Referrers() {
		switch x := r.(type) {
		case *ssa.Call:
			if x.Call.Value != ssa.Value(call) {
				return false // passed on
			}
		case *ssa.Phi:
			for _, e := range x.Edges {
				if e != ssa.Value(call) && !isNoopFunc(e) {
					return false
				}
			}
			for _, pr := range *x.Referrers() {
				if c, ok := pr.(*ssa.Call); !ok || c.Call.Value != ssa.Value(x) {
					if _, dbg := pr.(*ssa.DebugRef); !dbg {
						return false
					}
				}
			}
			vals[x] = true
		case *ssa.DebugRef:
		default:
			return false // stored, deferred conditionally …
		}
	}
	seen := map[*ssa.BasicBlock]bool{}
	ok := true
	var walk func(b *ssa.BasicBlock, from int)
	walk = func(b *ssa.BasicBlock, from int) {
		for i := from; i < len(b.Instrs); i++ {
			switch x := b.Instrs[i].(type) {
			case *ssa.Call:
				if vals[x.Call.Value] {
					return // restored on this path
				}
			case *ssa.Return:
				ok = false
				return
			case *ssa.Panic:
				return
			}
		}
		for _, s := range b.Succs {
			if !seen[s] {
				seen[s] = true
				walk(s, 0)
			}
		}
	}
	walk(call.Block(), instrIndex(call.Block(), call)+1)
	return ok
}

// exitsWithoutRestore: forward dataflow "field is dirty" from the mutating
// stores; a store of a saved value cleans it.
func (p *Prog) exitsWithoutRestore(fn *ssa.Function, f *types.Var, ss []execStore, saves []*ssa.UnOp) []string {
	isMut := map[ssa.Instruction]bool{}
	for _, s := range ss {
		isMut[s.At] = true
	}
	isRestore := func(st *ssa.Store) bool {
		if sf, _ := p.execFieldOf(st.Addr); sf != f || !p.wholeField(st.Addr) {
			return false
		}
		l, lf := p.traceSaved(fn, st.Val, st, 0)
		if l == nil || lf != f {
			return false
		}
		for _, s := range saves {
			if s == l {
				return true
			}
		}
		return false
	}
	isSaveFn := func(l *ssa.UnOp) bool {
		for _, s := range saves {
			if s == l {
				return true
			}
		}
		return false
	}
	in := map[*ssa.BasicBlock]bool{}
	outD := map[*ssa.BasicBlock]bool{}
	changed := true
	var bad []string
	for iter := 0; changed && iter < 100; iter++ {
		changed = false
		for _, b := range fn.Blocks {
			d := false
			for _, pr := range b.Preds {
				if outD[pr] {
					d = true
				}
			}
			in[b] = d
			for _, ins := range b.Instrs {
				if st, ok := ins.(*ssa.Store); ok {
					if isRestore(st) {
						d = false
					} else if isMut[st] {
						d = true
					}
				}
				if c, ok := ins.(*ssa.Call); ok {
					if p.setterRestores(fn, c, f, isSaveFn) {
						d = false
					} else if isMut[c] {
						d = true
					}
				}
			}
			if outD[b] != d {
				outD[b] = d
				changed = true
			}
		}
	}
	for _, b := range fn.Blocks {
		if b == fn.Recover {
			continue
		}
		d := in[b]
		for _, ins := range b.Instrs {
			switch x := ins.(type) {
			case *ssa.Store:
				if isRestore(x) {
					d = false
				} else if isMut[x] {
					d = true
				}
			case *ssa.Call:
				if p.setterRestores(fn, x, f, isSaveFn) {
					d = false
				} else if isMut[x] {
					d = true
				}
			case *ssa.Return:
				if d {
					bad = append(bad, "return at "+p.pos(x.Pos()))
				}
			case *ssa.Panic:
				if d {
					bad = append(bad, "panic at "+p.pos(x.Pos()))
				}
			}
		}
	}
	return bad
}

func ruleStateFor(name string, doc string, fieldFilter func(p *Prog, f *types.Var) bool, floorFields int) *Rule {
	return &Rule{Name: name, NeedSSA: true, Doc: doc, Run: func(p *Prog) *RuleOut {
		out := newOut(name)
		fields := map[string]bool{}
		for _, sc := range p.classifyState() {
			if fieldFilter != nil && !fieldFilter(p, sc.Field) {
				continue
			}
			key := fmt.Sprintf("%s writes Executor.%s [%s]", fnName(sc.Fn), sc.Field.Name(), sc.Class)
			if sc.OK {
				out.ok(key, p.pos(sc.Site), fnName(sc.Fn), sc.Detail)
				if sc.Class == "defer-restore" || sc.Class == "restorer-helper" || sc.Class == "explicit-restore" {
					fields[sc.Field.Name()] = true
				}
			} else {
				out.viol(key, p.pos(sc.Site), fnName(sc.Fn), "evaluation context is not restored on every exit: "+sc.Detail)
			}
		}
		out.Counts["context_fields_saved_and_restored"] = len(fields)
		out.Floors["context_fields_saved_and_restored"] = floorFields
		out.note("context fields with a save/restore discipline: %s", strings.Join(sortedKeys(fields), ", "))
		return out
	}}
}

var ruleState = ruleStateFor("R-STATE",
	"every store to a field of exec.Executor is a constructor/option/entry initialisation, the monotone id counter, or a mutation whose previous value was loaded first and is written back on every exit (deferred literal, restorer-returning helper deferred at every call site, or explicit stores on all paths)",
	nil, 5)

var ruleStateVerbose = ruleStateFor("R-STATE-VERBOSE",
	"the verbose (error suppression) field is cleared only between a save and a deferred restore, and set nowhere else but constructor and option",
	func(p *Prog, f *types.Var) bool { return f == p.A.VerboseField }, 1)

// R-INITONLY: `$`, the variables, the options and the path never change
// during an evaluation.
var ruleInitOnly = &Rule{
	Name: "R-INITONLY", NeedSSA: true,
	Doc: "the fields holding `$` (read in the ConstRoot arm), the variables, the useTZ option and the path are stored only by the constructor, option closures and the entry adapters before the first evaluation call",
	Run: func(p *Prog) *RuleOut {
		out := newOut("R-INITONLY")
		initOnly := map[*types.Var]string{}
		if f := p.fieldReadInConstArm("ConstRoot"); f != nil {
			initOnly[f] = "holds `$`"
		} else {
			out.undecided("field holding $", "-", "", "anchor unresolved: no Executor field is read in the ConstRoot arm")
		}
		initOnly[p.A.VarsField] = "variables (WithVars)"
		initOnly[p.A.UseTZField] = "WithTZ option"
		for i := 0; i < p.A.ExecStruct.NumFields(); i++ {
			f := p.A.ExecStruct.Field(i)
			if pt, ok := f.Type().(*types.Pointer); ok && pt.Elem() == types.Type(p.A.ASTType) {
				initOnly[f] = "the parsed path"
			}
		}
		out.Counts["init_only_fields"] = len(initOnly)
		out.Floors["init_only_fields"] = 4
		n := 0
		for _, sc := range p.classifyState() {
			why, ok := initOnly[sc.Field]
			if !ok {
				continue
			}
			n++
			key := fmt.Sprintf("%s writes Executor.%s (%s)", fnName(sc.Fn), sc.Field.Name(), why)
			switch sc.Class {
			case "constructor", "option", "init":
				out.ok(key, p.pos(sc.Site), fnName(sc.Fn), sc.Class+": "+sc.Detail)
			default:
				out.viol(key, p.pos(sc.Site), fnName(sc.Fn), "a field that must stay fixed for the whole evaluation is written during it ("+sc.Class+")")
			}
		}
		out.Counts["stores_to_init_only_fields"] = n
		out.Floors["stores_to_init_only_fields"] = 3
		return out
	},
}

// --- R-SCOPE: the continuation never runs while @ is rebound ---------------------------------

// ownNodeParam: v is (an assertion / conversion / merge of) a node-typed
// parameter of fn, i.e. the very step fn is executing, not one of its children.
func (p *Prog) ownNodeParam(v ssa.Value, depth int) *ssa.Parameter {
	if depth > 8 {
		return nil
	}
	switch x := v.(type) {
	case *ssa.Parameter:
		t := x.Type()
		if types.Identical(t, types.Type(p.A.Node)) || types.Implements(t, p.A.NodeIface) {
			return x
		}
	case *ssa.TypeAssert:
		return p.ownNodeParam(x.X, depth+1)
	case *ssa.Extract:
		if ta, ok := x.Tuple.(*ssa.TypeAssert); ok && x.Index == 0 {
			return p.ownNodeParam(ta.X, depth+1)
		}
	case *ssa.ChangeInterface:
		return p.ownNodeParam(x.X, depth+1)
	case *ssa.MakeInterface:
		return p.ownNodeParam(x.X, depth+1)
	case *ssa.ChangeType:
		return p.ownNodeParam(x.X, depth+1)
	case *ssa.Phi:
		for _, e := range x.Edges {
			if q := p.ownNodeParam(e, depth+1); q != nil {
				return q
			}
		}
	}
	return nil
}

// instrsFrom lists the instructions reachable from (after) start in fn's CFG,
// not going past an instruction for which stop returns true.
func instrsFrom(start ssa.Instruction, stop func(ssa.Instruction) bool) []ssa.Instruction {
	var out []ssa.Instruction
	seen := map[*ssa.BasicBlock]bool{}
	var walk func(b *ssa.BasicBlock, from int)
	walk = func(b *ssa.BasicBlock, from int) {
		for i := from; i < len(b.Instrs); i++ {
			ins := b.Instrs[i]
			if stop(ins) {
				return
			}
			out = append(out, ins)
		}
		for _, s := range b.Succs {
			if !seen[s] {
				seen[s] = true
				walk(s, 0)
			}
		}
	}
	b := start.Block()
	for i, ins := range b.Instrs {
		if ins == start {
			walk(b, i+1)
		}
	}
	return out
}

var ruleScope = &Rule{
	Name: "R-SCOPE", NeedSSA: true,
	Doc: "while the field holding @ is rebound (from the store of a new item until the store that writes the saved value back, or until the function returns when the restore is deferred) no status-returning evaluation receives the function's own node: that call would evaluate the rest of the outer chain, which must see the outer @",
	Run: func(p *Prog) *RuleOut {
		out := newOut("R-SCOPE")
		cur := p.fieldReadInConstArm("ConstCurrent")
		if cur == nil {
			out.undecided("field holding @", "-", "", "anchor unresolved: no Executor field is read in the ConstCurrent arm")
			return out
		}
		regions, calls := 0, 0
		check := func(fn *ssa.Function, start ssa.Instruction, how string) {
			regions++
			ins := instrsFrom(start, func(i ssa.Instruction) bool {
				st, ok := i.(*ssa.Store)
				if !ok {
					return false
				}
				if f, _ := p.execFieldOf(st.Addr); f != cur {
					return false
				}
				ld, _ := p.traceSaved(fn, st.Val, st, 0)
				return ld != nil
			})
			key := fmt.Sprintf("%s rebinds @ (%s)", fnName(fn), how)
			var bad []string
			for _, i := range ins {
				c, ok := i.(*ssa.Call)
				if !ok {
					continue
				}
				sig := calleeSig(c)
				if sig == nil || len(p.moduleCallees(c)) == 0 {
					continue
				}
				calls++
				if p.pairKind(sig) != "status" {
					continue
				}
				for _, a := range c.Call.Args {
					if q := p.ownNodeParam(a, 0); q != nil {
						bad = append(bad, fmt.Sprintf("%s: %s receives the step's own node %s while @ still denotes the inner item", p.pos(c.Pos()), calleeName(&c.Call), q.Name()))
					}
				}
			}
			if len(bad) > 0 {
				out.viol(key, p.pos(start.Pos()), fnName(fn), "the rest of the chain is evaluated inside the rebound region, so steps after the filter see the filter's item as @: "+bad[0], bad...)
			} else {
				out.ok(key, p.pos(start.Pos()), fnName(fn), fmt.Sprintf("%d instructions in the rebound region, no continuation among them", len(ins)))
			}
		}
		for _, sc := range p.classifyState() {
			if sc.Field != cur || sc.Fn.Parent() != nil {
				continue
			}
			switch sc.Class {
			case "defer-restore", "explicit-restore", "unclassified":
				for _, s := range p.execStores(sc.Fn) {
					if s.Field != cur {
						continue
					}
					if ld, _ := p.traceSaved(sc.Fn, s.Store.Val, s.Store, 0); ld != nil {
						continue // the restore itself
					}
					check(sc.Fn, s.Store, sc.Class)
				}
			case "restorer-helper":
				// the region lies in the callers: from the helper call to their exits
				if n := p.CG.Nodes[sc.Fn]; n != nil {
					for _, ed := range n.In {
						if ed.Site != nil && inModule(ed.Caller.Func) {
							check(ed.Caller.Func, ed.Site, "through "+fnName(sc.Fn))
						}
					}
				}
			}
		}
		out.Counts["rebound_regions"] = regions
		out.Floors["rebound_regions"] = 1
		out.Counts["module_calls_in_regions"] = calls
		out.Floors["module_calls_in_regions"] = 1
		return out
	},
}

// moduleCallees: resolved callees of c that belong to the module.
func (p *Prog) moduleCallees(c ssa.CallInstruction) []*ssa.Function {
	var out []*ssa.Function
	for _, f := range p.calleesOf(c) {
		if inModule(f) {
			out = append(out, f)
		}
	}
	return out
}

// boundRestorer: mc is a method value `r.restore` whose receiver r is a small
// struct built in fn; the method stores one field of its receiver into the
// Executor field f, and fn fills that field of r with a value saved from f.
func (p *Prog) boundRestorer(fn *ssa.Function, mc *ssa.MakeClosure, f *types.Var, isSave func(*ssa.UnOp) bool) bool {
	w, ok := mc.Fn.(*ssa.Function)
	if !ok || len(mc.Bindings) != 1 || w.Synthetic == "" {
		return false
	}
	// the method behind the bound wrapper
	var m *ssa.Function
	for _, b := range w.Blocks {
		for _, ins := range b.Instrs {
			if c, ok := ins.(ssa.CallInstruction); ok && c.Common().StaticCallee() != nil {
				m = c.Common().StaticCallee()
			}
		}
	}
	if m == nil || m.Blocks == nil || len(m.Params) == 0 {
		return false
	}
	recvP := m.Params[0]
	// in m: exactly one store into the Executor field f, of a field of the receiver
	k := -1
	for _, st := range p.execStores(m) {
		if st.Field != f || !p.wholeField(st.Store.Addr) || k >= 0 {
			return false
		}
		k = receiverField(st.Store.Val, recvP)
		if k < 0 {
			return false
		}
	}
	if k < 0 {
		return false
	}
	// in fn: the receiver is a struct whose field k was given a saved value of f
	var a *ssa.Alloc
	switch x := mc.Bindings[0].(type) {
	case *ssa.UnOp:
		a, _ = x.X.(*ssa.Alloc)
	case *ssa.Alloc:
		a = x
	}
	if a == nil {
		return false
	}
	for _, r := range *a.Referrers() {
		fa, ok := r.(*ssa.FieldAddr)
		if !ok || fa.Field != k {
			continue
		}
		for _, r2 := range *fa.Referrers() {
			if st, ok := r2.(*ssa.Store); ok && st.Addr == fa {
				if l, lf := p.traceSaved(fn, st.Val, st, 0); l != nil && lf == f && isSave(l) {
					return true
				}
			}
		}
	}
	return false
}

// receiverField: v is the value of field #k of the (value or pointer)
// receiver parameter q; returns k or -1.
func receiverField(v ssa.Value, q *ssa.Parameter) int {
	switch x := v.(type) {
	case *ssa.Field:
		if x.X == ssa.Value(q) {
			return x.Field
		}
	case *ssa.UnOp:
		if x.Op != token.MUL {
			return -1
		}
		fa, ok := x.X.(*ssa.FieldAddr)
		if !ok {
			return -1
		}
		if fa.X == ssa.Value(q) {
			return fa.Field // pointer receiver
		}
		// value receiver spilled into a local
		if al, ok := fa.X.(*ssa.Alloc); ok {
			for _, r := range *al.Referrers() {
				if st, ok := r.(*ssa.Store); ok && st.Addr == al && st.Val == ssa.Value(q) {
					return fa.Field
				}
			}
		}
	}
	return -1
}

// isBoundRestorerMethod: every use of m in package exec is as a method value
// accepted by boundRestorer for field f (and there is at least one).
func (p *Prog) isBoundRestorerMethod(m *ssa.Function, f *types.Var) bool {
	n := 0
	for _, fn := range p.execFuncs() {
		for _, b := range fn.Blocks {
			for _, ins := range b.Instrs {
				mc, ok := ins.(*ssa.MakeClosure)
				if !ok {
					continue
				}
				w, ok := mc.Fn.(*ssa.Function)
				if !ok || w.Synthetic == "" {
					continue
				}
				uses := false
				for _, wb := range w.Blocks {
					for _, wi := range wb.Instrs {
						if c, ok := wi.(ssa.CallInstruction); ok && c.Common().StaticCallee() == m {
							uses = true
						}
					}
				}
				if !uses {
					continue
				}
				if !p.boundRestorer(fn, mc, f, func(*ssa.UnOp) bool { return true }) {
					return false
				}
				n++
			}
		}
	}
	// direct calls of the method would bypass the check
	if node := p.CG.Nodes[m]; node != nil {
		for _, e := range node.In {
			if e.Caller.Func.Synthetic == "" {
				return false
			}
		}
	}
	return n > 0
}

// isNoopFunc: v is a function (or closure over one) whose body only returns.
func isNoopFunc(v ssa.Value) bool {
	if mc, ok := v.(*ssa.MakeClosure); ok {
		v = mc.Fn
	}
	fn, ok := v.(*ssa.Function)
	if !ok || len(fn.Blocks) != 1 || fn.Signature.Results().Len() != 0 {
		return false
	}
	for _, ins := range fn.Blocks[0].Instrs {
		switch ins.(type) {
		case *ssa.Return, *ssa.DebugRef:
		default:
			return false
		}
	}
	return true
}

// complementRestorer: the field is a bool, fn stores its bool parameter q into
// it only where a saving load of the field was found to differ from q, and the
// closure stores !q: for two truth values "differs from q" is "equals !q", so
// the closure writes the saved value back.
func (p *Prog) complementRestorer(fn *ssa.Function, mc *ssa.MakeClosure, f *types.Var, ss []execStore, isSave func(*ssa.UnOp) bool) bool {
	if bt, ok := f.Type().Underlying().(*types.Basic); !ok || bt.Kind() != types.Bool {
		return false
	}
	lit, ok := mc.Fn.(*ssa.Function)
	if !ok || len(lit.Blocks) != 1 {
		return false
	}
	// a parameter, or a load of the cell a captured parameter was spilled into
	paramOf := func(v ssa.Value) *ssa.Parameter {
		if q, ok := v.(*ssa.Parameter); ok {
			return q
		}
		return spilledParam(v)
	}
	// the closure: one store into f, of the negation of a captured parameter of fn
	var q *ssa.Parameter
	n := 0
	for _, st := range p.execStores(lit) {
		if st.Field != f || st.Store == nil || !p.wholeField(st.Store.Addr) {
			return false
		}
		n++
		u, ok := st.Store.Val.(*ssa.UnOp)
		if !ok || u.Op != token.NOT {
			return false
		}
		x := u.X
		if l, ok := x.(*ssa.UnOp); ok && l.Op == token.MUL {
			x = l.X // captured by reference
		}
		fv, ok := x.(*ssa.FreeVar)
		if !ok {
			return false
		}
		for i, v := range lit.FreeVars {
			if v != fv || i >= len(mc.Bindings) {
				continue
			}
			switch b := mc.Bindings[i].(type) {
			case *ssa.Parameter:
				q = b
			case *ssa.Alloc:
				for _, r := range *b.Referrers() {
					if stc, ok := r.(*ssa.Store); ok && stc.Addr == ssa.Value(b) {
						if pq, ok := stc.Val.(*ssa.Parameter); ok {
							q = pq
						}
					}
				}
				// the cell is written once, by the spill
				nst := 0
				for _, r := range *b.Referrers() {
					if stc, ok := r.(*ssa.Store); ok && stc.Addr == ssa.Value(b) {
						nst++
					}
				}
				if nst != 1 {
					return false
				}
			}
		}
	}
	if n != 1 || q == nil || q.Parent() != fn {
		return false
	}
	// fn: every store into f stores q, behind `saved == q` found false
	for _, s := range ss {
		if s.Store == nil || paramOf(s.Store.Val) != q {
			return false
		}
		differs := false
		for _, fa := range factsAt(s.At.Block()) {
			bo, ok := fa.Cond.(*ssa.BinOp)
			if !ok || (bo.Op != token.EQL && bo.Op != token.NEQ) || (bo.Op == token.EQL) == fa.Truth {
				continue
			}
			x, y := bo.X, bo.Y
			if paramOf(y) != q {
				x, y = y, x
			}
			if l, ok := x.(*ssa.UnOp); ok && paramOf(y) == q && isSave(l) {
				differs = true
			}
		}
		if !differs {
			return false
		}
	}
	return len(ss) > 0
}
