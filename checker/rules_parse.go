package main

import (
	"fmt"
	"go/token"
	"go/types"
	"sort"
	"strconv"
	"strings"

	"golang.org/x/tools/go/ssa"
)

// callsTo returns the static calls to callee inside fn.
func callsTo(fn, callee *ssa.Function) []*ssa.Call {
	var out []*ssa.Call
	for _, b := range fn.Blocks {
		for _, ins := range b.Instrs {
			if c, ok := ins.(*ssa.Call); ok && c.Call.StaticCallee() == callee {
				out = append(out, c)
			}
		}
	}
	return out
}

func extractOf(c *ssa.Call, idx int) ssa.Value {
	for _, r := range *c.Referrers() {
		if e, ok := r.(*ssa.Extract); ok && e.Index == idx {
			return e
		}
	}
	return nil
}

// ruleParseResult: R-PARSE-RESULT.
var ruleParseResult = &Rule{
	Name:    "R-PARSE-RESULT",
	NeedSSA: true,
	Doc: "Parse returns (tree, nil) or (nil, error wrapping the sentinel) and nothing else: return shapes of parser.Parse, ast.New, path.Parse, MustParse, Scan, UnmarshalBinary/Text; " +
		"the lexer's result field is only ever filled from ast.New, whose failure records an error; the generated parser calls the result setter",
	Run: func(p *Prog) *RuleOut {
		out := newOut("R-PARSE-RESULT")
		pParse := p.ssaFunc(pkgParser, "Parse")
		if pParse == nil {
			out.undecided("parser.Parse", "-", "", "anchor unresolved")
			return out
		}
		// --- parser.Parse -----------------------------------------------------
		nret := 0
		for _, r := range returnsOf(pParse) {
			nret++
			if len(r.Results) != 2 {
				out.viol("parser.Parse return arity", p.pos(r.Instr.Pos()), fnName(pParse), "unexpected result count")
				continue
			}
			v, e := p.shapeOf(r.Results[0]), p.shapeOf(r.Results[1])
			key := fmt.Sprintf("parser.Parse returns (%s, %s)", v, e)
			site := p.pos(r.Instr.Pos())
			switch {
			case v.Kind == "nil" && e.Kind == "errorf" && len(e.Sentinels) > 0 && e.Sentinels[0] == "parser.ErrParse":
				out.ok(key, site, fnName(pParse), "failure: nil tree and an error wrapping ErrParse")
			case v.Kind == "load" && strings.HasSuffix(v.Field, ".result") && e.Kind == "nil":
				// must be on the no-errors branch
				if noErrorsFact(factsAt(r.Instr.Block())) {
					out.ok(key, site, fnName(pParse), "success: the stored tree, on the branch where no error was recorded")
				} else {
					out.viol(key, site, fnName(pParse), "the success return is not guarded by the test that no lexer/parser error was recorded")
				}
			default:
				out.viol(key, site, fnName(pParse), "Parse may return a shape other than (nil, ErrParse-wrapped) or (tree, nil)")
			}
		}
		out.Counts["parser.Parse returns"] = nret
		out.Floors["parser.Parse returns"] = 2

		// --- the result field: filled only from ast.New, failure recorded -----
		astNew := p.ssaFunc(pkgAST, "New")
		lexT, _ := lookupNamed(p.Pkgs[pkgParser].Types, "lexer")
		if astNew == nil || lexT == nil {
			out.undecided("ast.New / lexer", "-", "", "anchor unresolved")
			return out
		}
		var setters []*ssa.Function
		nstores := 0
		for fn := range p.AllFns {
			if fnPkgPath(fn) != pkgParser || fn.Blocks == nil {
				continue
			}
			for _, b := range fn.Blocks {
				for _, ins := range b.Instrs {
					st, ok := ins.(*ssa.Store)
					if !ok {
						continue
					}
					fa, ok := st.Addr.(*ssa.FieldAddr)
					if !ok || namedOf(fa.X.Type()) != lexT || fieldName(fa) != "result" {
						continue
					}
					nstores++
					key := fnName(fn) + " stores lexer.result"
					ex, ok := st.Val.(*ssa.Extract)
					var call *ssa.Call
					if ok {
						call, _ = ex.Tuple.(*ssa.Call)
					}
					if call == nil || call.Call.StaticCallee() != astNew || ex.Index != 0 {
						out.viol(key, p.pos(ins.Pos()), fnName(fn), "the parse result is stored from something other than the first result of ast.New")
						continue
					}
					errV := extractOf(call, 1)
					recorded := false
					if errV != nil {
						for _, b2 := range fn.Blocks {
							_, notNil := nilFact(factsAt(b2), errV)
							if !notNil {
								continue
							}
							for _, i2 := range b2.Instrs {
								if recordsError(i2, lexT) {
									recorded = true
								}
							}
						}
					}
					if recorded {
						out.ok(key, p.pos(ins.Pos()), fnName(fn), "value is ast.New's tree; on ast.New's error branch an error is recorded")
						setters = append(setters, fn)
					} else {
						out.viol(key, p.pos(ins.Pos()), fnName(fn), "ast.New's error is not recorded in the lexer's error list: Parse could return (nil, nil)")
					}
				}
			}
		}
		out.Counts["stores to lexer.result"] = nstores
		out.Floors["stores to lexer.result"] = 1

		// ast.New: (nil, err≠nil) or (fresh, nil)
		for _, r := range returnsOf(astNew) {
			v, e := p.shapeOf(r.Results[0]), p.shapeOf(r.Results[1])
			key := fmt.Sprintf("ast.New returns (%s, %s)", v, e)
			site := p.pos(r.Instr.Pos())
			switch {
			case v.Kind == "alloc" && e.Kind == "nil":
				out.ok(key, site, fnName(astNew), "success: fresh tree, nil error")
			case v.Kind == "nil" && e.Kind != "nil":
				_, notNil := nilFact(factsAt(r.Instr.Block()), r.Results[1])
				if notNil || e.Kind == "errorf" {
					out.ok(key, site, fnName(astNew), "failure: nil tree, error known non-nil on this branch")
				} else {
					out.viol(key, site, fnName(astNew), "nil tree returned with an error that is not provably non-nil")
				}
			default:
				out.viol(key, site, fnName(astNew), "ast.New may return both a tree and an error, or neither")
			}
		}

		// the generated parser calls the setter
		gen := p.ssaFunc(pkgParser, "*pathParserImpl.Parse")
		if gen == nil {
			out.undecided("generated parser", "-", "", "anchor unresolved: (*pathParserImpl).Parse")
		} else {
			n := 0
			for _, s := range setters {
				n += len(callsTo(gen, s))
			}
			if n > 0 {
				out.ok("generated parser calls the result setter", p.pos(gen.Pos()), fnName(gen), fmt.Sprintf("%d call site(s) in the action switch", n))
			} else {
				out.viol("generated parser calls the result setter", p.pos(gen.Pos()), fnName(gen), "no grammar action stores the result: a successful parse would return (nil, nil)")
			}
		}

		// --- package path: wrappers ---------------------------------------------
		type wrapSpec struct {
			fn       string
			sentinel string
			kind     string // value | must | errorOnly
		}
		delegTo := map[string]*ssa.Function{}
		for _, ws := range []wrapSpec{
			{"Parse", "path.ErrPath", "value"},
			{"MustParse", "", "must"},
			{"*Path.Scan", "path.ErrScan", "errorOnly"},
			{"*Path.UnmarshalBinary", "path.ErrScan", "errorOnly"},
		} {
			fn := p.ssaFunc(pkgPath, ws.fn)
			if fn == nil {
				out.undecided("path."+ws.fn, "-", "", "anchor unresolved")
				continue
			}
			calls := callsTo(fn, pParse)
			// the whole job handed to an unexported helper of the package
			// (`return path.scan(src)`, `return parse(src, ErrPath)`): the
			// entry hands it its input (and the sentinel, when the helper takes
			// the sentinel as a parameter) and answers with its results; the
			// helper is then held to the entry's obligations
			var sentParam *ssa.Parameter
			if len(calls) == 0 && ws.kind != "must" {
				var h *ssa.Function
				okDeleg := true
				var hcalls []*ssa.Call
				for _, c := range p.allCalls(fn) {
					sc := c.Call.StaticCallee()
					if sc == nil || sc == fn || c.Call.IsInvoke() || fnPkgPath(sc) != pkgPath || sc.Object() == nil || sc.Object().Exported() || len(callsTo(sc, pParse)) == 0 {
						continue
					}
					if h != nil && h != sc {
						okDeleg = false
					}
					h = sc
					hcalls = append(hcalls, c)
				}
				if h != nil && okDeleg && h.Signature.Results().Len() == fn.Signature.Results().Len() {
					// every return of the entry with a call of the helper in
					// play hands the helper's results back; the input goes in
					inputOK, resultsOK := true, true
					for _, c := range hcalls {
						in := false
						for _, a := range c.Call.Args {
							if _, isRecv := a.(*ssa.Parameter); isRecv && a == ssa.Value(fn.Params[0]) && fn.Signature.Recv() != nil {
								continue
							}
							if derivesFromParam(a) {
								in = true
							}
						}
						if !in {
							inputOK = false
						}
						// the sentinel as an argument
						for i, a := range c.Call.Args {
							if i < len(h.Params) && isErrorType(h.Params[i].Type()) {
								if g := loadedGlobal(a); g != nil && g.Pkg != nil && g.Pkg.Pkg.Name()+"."+g.Name() == ws.sentinel {
									sentParam = h.Params[i]
								} else {
									resultsOK = false
								}
							}
						}
						used := false
						for _, r := range returnsOf(fn) {
							all := true
							for ri, rv := range r.Results {
								cc, idx := callOf(rv)
								if cc == nil {
									if sc2, isCall := stripConvPlain(rv).(*ssa.Call); isCall && len(r.Results) == 1 {
										cc, idx = sc2, 0
									}
								}
								if cc != c || idx != ri {
									all = false
								}
							}
							if all {
								used = true
							}
						}
						if !used {
							resultsOK = false
						}
					}
					key := "path." + ws.fn + " hands the job to " + h.Name()
					if inputOK && resultsOK {
						out.ok(key, p.pos(fn.Pos()), fnName(fn), "its input (and sentinel) go in, the helper's results come back; the helper is held to the entry's obligations")
						delegTo[ws.fn] = h
						fn = h
						calls = callsTo(fn, pParse)
					} else {
						sentParam = nil
					}
				}
			}
			// a helper of the package that wraps parser.Parse (whole input in,
			// (tree, nil) or (nil, error wrapping the sentinel) out) stands
			// for it; its error is then already wrapped
			wrapped := map[*ssa.Call]string{}
			if len(calls) == 0 {
				for _, c := range p.allCalls(fn) {
					sc := c.Call.StaticCallee()
					if sc == nil || sc == fn || fnPkgPath(sc) != pkgPath || len(c.Call.Args) < 1 || len(c.Call.Args) > 2 {
						continue
					}
					if sent, ok := p.parseWrapper(sc, pParse); ok {
						if sent = wrapperSentinelAt(c, sent); sent == "" {
							continue
						}
						calls = append(calls, c)
						wrapped[c] = sent
					}
				}
			}
			if len(calls) == 0 {
				out.viol("path."+ws.fn+" calls parser.Parse", p.pos(fn.Pos()), fnName(fn), "does not hand its input to parser.Parse")
				continue
			}
			for _, c := range calls {
				errV := extractOf(c, 1)
				treeV := extractOf(c, 0)
				if errV == nil {
					out.viol("path."+ws.fn+" drops the parse error", p.pos(c.Pos()), fnName(fn), "error result of parser.Parse is not used")
					continue
				}
				// whole input: argument is the parameter (or its string conversion)
				if !derivesFromParam(textArgOf(c)) {
					out.viol("path."+ws.fn+" parses its whole input", p.pos(c.Pos()), fnName(fn), "argument of parser.Parse is not the function's input")
				} else {
					out.ok("path."+ws.fn+" parses its whole input", p.pos(c.Pos()), fnName(fn), "argument is the input parameter (converted to string)")
				}
				nerr, nokk := 0, 0
				for _, b := range fn.Blocks {
					_, notNil := nilFact(factsAt(b), errV)
					last := b.Instrs[len(b.Instrs)-1]
					switch t := last.(type) {
					case *ssa.Panic:
						if ws.kind == "must" {
							if notNil {
								out.ok("path.MustParse panics on the error branch", p.pos(t.Pos()), fnName(fn), "panic is dominated by err != nil")
								nerr++
							} else {
								out.viol("path.MustParse panics on the error branch", p.pos(t.Pos()), fnName(fn), "panic not guarded by the parse error")
							}
						} else {
							out.viol("path."+ws.fn+" panics", p.pos(t.Pos()), fnName(fn), "explicit panic in a non-Must function")
						}
					}
				}
				// returns, one per way of reaching them (single-exit functions
				// that assign the result before a common return are expanded)
				for _, er := range expandedReturns(fn) {
					{
						t, b, res := er.Instr, er.Block, er.Results
						isNil, notNil := nilFact(er.Facts, errV)
						switch {
						case notNil:
							nerr++
							if ws.kind == "must" {
								out.viol("path.MustParse returns on the error branch", p.pos(t.Pos()), fnName(fn), "MustParse must panic when Parse errs")
								continue
							}
							e := p.shapeOf(res[len(res)-1])
							key := fmt.Sprintf("path.%s on parse failure returns %s", ws.fn, e)
							good := e.Kind == "errorf" && len(e.Sentinels) > 0 && e.Sentinels[0] == ws.sentinel && p.errorfMentions(e, errV)
							if !good && sentParam != nil && e.Kind == "errorf" && p.errorfMentions(e, errV) && errorfWrapsFirst(res[len(res)-1], sentParam) {
								good = true // the sentinel the entry handed in
							}
							if wrapped[c] != "" && wrapped[c] == ws.sentinel && stripConv(res[len(res)-1]) == errV {
								good = true // the helper has wrapped it already
							}
							if ws.kind == "value" {
								good = good && p.shapeOf(res[0]).Kind == "nil"
							}
							if good {
								out.ok(key, p.pos(t.Pos()), fnName(fn), "wraps "+ws.sentinel+" and the parser's error")
							} else {
								out.viol(key, p.pos(t.Pos()), fnName(fn), "parse failure is not reported as (nil,) error wrapping "+ws.sentinel+" and the parser's error")
							}
						case isNil:
							nokk++
							e := p.shapeOf(res[len(res)-1])
							key := fmt.Sprintf("path.%s on parse success", ws.fn)
							switch ws.kind {
							case "value", "must":
								v := p.shapeOf(res[0])
								if (ws.kind == "must" || e.Kind == "nil") && ((v.Kind == "alloc" && p.allocHolds(fn, res[0], treeV)) || p.ctorHolds(res[0], treeV)) {
									out.ok(key, p.pos(t.Pos()), fnName(fn), "returns a fresh Path holding the parsed tree")
								} else {
									out.viol(key, p.pos(t.Pos()), fnName(fn), "success does not return a fresh Path holding the parsed tree and a nil error")
								}
							case "errorOnly":
								// decided below, along the paths from the success edge
								_, _ = e, b
							}
						}
					}
				}
				if ws.kind == "errorOnly" {
					// every path from the edge where the parse error is known to
					// be nil to a return stores the tree through the receiver,
					// and the returns reached hand back a nil error
					key := fmt.Sprintf("path.%s on parse success", ws.fn)
					entries, why := p.successPaths(fn, errV, treeV)
					nokk = entries
					switch {
					case entries == 0:
					case why != "":
						out.viol(key, p.pos(c.Pos()), fnName(fn), "success does not store the parsed tree into the receiver / return nil: "+why)
					default:
						out.ok(key, p.pos(c.Pos()), fnName(fn), "every path from the success edge stores the parsed tree into the receiver and returns nil")
					}
				}
				if nerr == 0 {
					out.viol("path."+ws.fn+" handles parse failure", p.pos(c.Pos()), fnName(fn), "no exit is taken on the branch err != nil")
				}
				if nokk == 0 && ws.kind != "must" {
					out.viol("path."+ws.fn+" handles parse success", p.pos(c.Pos()), fnName(fn), "no exit is taken on the branch err == nil")
				}
			}
			// the binary/text form has no "NULL" input: it never answers nil
			// without having parsed (Scan may: a nil or empty column is a
			// NULL path)
			if ws.kind == "errorOnly" && strings.HasSuffix(ws.fn, "UnmarshalBinary") && len(calls) > 0 {
				for _, er := range expandedReturns(fn) {
					if !isNilConst(stripConv(er.Results[len(er.Results)-1])) {
						continue
					}
					parsed := false
					for _, c := range calls {
						if ev := extractOf(c, 1); ev != nil {
							if isNil, _ := nilFact(er.Facts, ev); isNil {
								parsed = true
							}
						}
					}
					key := "path." + ws.fn + " answers nil only after a successful parse"
					if parsed {
						out.ok(key, p.pos(er.Instr.Pos()), fnName(fn), "behind err == nil of the parse")
					} else {
						out.viol(key, p.pos(er.Instr.Pos()), fnName(fn), "a return of nil that the parse does not precede: some input (the empty text) is accepted by the unmarshaler although Parse rejects it, and the Path it leaves behind holds no tree")
					}
				}
			}
			// every other non-nil error returned must wrap the sentinel or
			// come from a sibling
			if ws.kind == "errorOnly" {
				for _, r := range expandedReturns(fn) {
					e := p.shapeOf(r.Results[len(r.Results)-1])
					switch {
					case e.Kind == "nil":
					case e.Kind == "errorf" && len(e.Sentinels) > 0 && e.Sentinels[0] == ws.sentinel:
					case e.Kind == "errorf" && sentParam != nil && errorfWrapsFirst(r.Results[len(r.Results)-1], sentParam):
					case e.Kind == "call" && strings.Contains(e.Callee, "path.Path)."):
					case e.Kind == "call" && wrapsWith(p, fn, r.Results[len(r.Results)-1], pParse, ws.sentinel):
					default:
						out.viol(fmt.Sprintf("path.%s returns %s", ws.fn, e), p.pos(r.Instr.Pos()), fnName(fn), "an error that does not wrap "+ws.sentinel)
					}
				}
			}
		}
		// UnmarshalText delegates
		if ut, ub := p.ssaFunc(pkgPath, "*Path.UnmarshalText"), p.ssaFunc(pkgPath, "*Path.UnmarshalBinary"); ut != nil && ub != nil {
			good := len(callsTo(ut, ub)) == 1
			// … or to the very helper UnmarshalBinary hands its whole job to,
			// with its own receiver and text in the same places
			if h := delegTo["*Path.UnmarshalBinary"]; !good && h != nil && len(callsTo(ut, h)) == 1 {
				c := callsTo(ut, h)[0]
				good = len(c.Call.Args) == len(ut.Params)
				for i, a := range c.Call.Args {
					if good && a != ssa.Value(ut.Params[i]) {
						good = false
					}
				}
			}
			for _, r := range returnsOf(ut) {
				if sh := p.shapeOf(r.Results[0]); sh.Kind != "call" {
					good = false
				}
			}
			if good {
				out.ok("path.UnmarshalText delegates to UnmarshalBinary", p.pos(ut.Pos()), fnName(ut), "returns its sibling's result unchanged")
			} else {
				out.viol("path.UnmarshalText delegates to UnmarshalBinary", p.pos(ut.Pos()), fnName(ut), "text unmarshalling no longer returns UnmarshalBinary's result")
			}
		}
		return out
	},
}

// parseWrapper: g hands its parameter to parser.Parse and returns (tree, nil)
// on success and (nil, error wrapping one sentinel and the parser's error) on
// failure, nothing else.
func (p *Prog) parseWrapper(g, pParse *ssa.Function) (string, bool) {
	if g == nil || g.Blocks == nil || g.Signature.Results().Len() != 2 {
		return "", false
	}
	calls := callsTo(g, pParse)
	if len(calls) != 1 || !derivesFromParam(calls[0].Call.Args[0]) {
		return "", false
	}
	if q, ok := stripConvParam(calls[0].Call.Args[0]); ok && isErrorType(q.Type()) {
		return "", false
	}
	errV, treeV := extractOf(calls[0], 1), extractOf(calls[0], 0)
	if errV == nil || treeV == nil {
		return "", false
	}
	sent := ""
	nok, nerr := 0, 0
	for _, er := range expandedReturns(g) {
		isNil, notNil := nilFact(er.Facts, errV)
		e := p.shapeOf(er.Results[1])
		switch {
		case notNil:
			if p.shapeOf(er.Results[0]).Kind != "nil" || e.Kind != "errorf" || !p.errorfMentions(e, errV) {
				return "", false
			}
			this := ""
			if len(e.Sentinels) > 0 {
				this = e.Sentinels[0]
			} else {
				// the sentinel is a parameter of the helper (`parseWrapped(
				// ErrScan, text)`): "#i", resolved at each call
				for i, q := range g.Params {
					if isErrorType(q.Type()) && errorfWrapsFirst(er.Results[1], q) {
						this = fmt.Sprintf("#%d", i)
					}
				}
			}
			if this == "" || (sent != "" && sent != this) {
				return "", false
			}
			sent = this
			nerr++
		case isNil:
			if stripConv(er.Results[0]) != treeV || e.Kind != "nil" {
				return "", false
			}
			nok++
		default:
			return "", false
		}
	}
	return sent, nok > 0 && nerr > 0
}

// wrapsWith: v is the error result of a call to a parse wrapper with the sentinel.
func wrapsWith(p *Prog, fn *ssa.Function, v ssa.Value, pParse *ssa.Function, sentinel string) bool {
	c, idx := callOf(v)
	if c == nil || idx != 1 {
		return false
	}
	sent, ok := p.parseWrapper(c.Call.StaticCallee(), pParse)
	return ok && wrapperSentinelAt(c, sent) == sentinel
}

// wrapperSentinelAt: the sentinel a parse wrapper wraps at call c — its own
// ("pkg.Name"), or the package-level error handed in as argument i ("#i").
func wrapperSentinelAt(c *ssa.Call, sent string) string {
	if !strings.HasPrefix(sent, "#") {
		return sent
	}
	i, err := strconv.Atoi(sent[1:])
	if err != nil || i >= len(c.Call.Args) {
		return ""
	}
	if g := loadedGlobal(c.Call.Args[i]); g != nil && g.Pkg != nil {
		return g.Pkg.Pkg.Name() + "." + g.Name()
	}
	return ""
}

// textArgOf: the argument of a call of parser.Parse or of a parse wrapper
// that carries the text (the one that is not an error).
func textArgOf(c *ssa.Call) ssa.Value {
	for _, a := range c.Call.Args {
		if !isErrorType(a.Type()) {
			return a
		}
	}
	return c.Call.Args[0]
}

func stripConvParam(v ssa.Value) (*ssa.Parameter, bool) {
	for i := 0; i < 6; i++ {
		switch x := v.(type) {
		case *ssa.Parameter:
			return x, true
		case *ssa.Convert:
			v = x.X
		case *ssa.ChangeType:
			v = x.X
		default:
			return nil, false
		}
	}
	return nil, false
}

// ctorHolds: v is the result of a constructor of the package that returns a
// fresh value holding its argument, and that argument is tree.
func (p *Prog) ctorHolds(v, tree ssa.Value) bool {
	c, ok := stripConv(v).(*ssa.Call)
	if !ok || tree == nil {
		return false
	}
	g := c.Call.StaticCallee()
	if g == nil || g.Blocks == nil || fnPkgPath(g) != pkgPath || g.Signature.Results().Len() != 1 {
		return false
	}
	idx := -1
	for i, a := range c.Call.Args {
		if a == tree {
			idx = i
		}
	}
	if idx < 0 || idx >= len(g.Params) {
		return false
	}
	rets := returnsOf(g)
	for _, r := range rets {
		if p.shapeOf(r.Results[0]).Kind != "alloc" || !p.allocHolds(g, r.Results[0], g.Params[idx]) {
			return false
		}
	}
	return len(rets) > 0
}

// successPaths: the number of edges on which errV becomes known nil, and why
// some path from one of them reaches a return without storing tree through
// the receiver, or returns a non-nil error.
func (p *Prog) successPaths(fn *ssa.Function, errV, tree ssa.Value) (int, string) {
	if tree == nil {
		return 0, "the parsed tree is not used"
	}
	stores := func(b *ssa.BasicBlock) bool {
		for _, ins := range b.Instrs {
			st, ok := ins.(*ssa.Store)
			if !ok || st.Val != tree {
				continue
			}
			pv := p.provenance(fn, st.Addr)
			if pv.hasKind("param") || pv.hasKind("alloc-local") || pv.hasKind("alloc-heap") {
				return true
			}
		}
		return false
	}
	entries := 0
	why := ""
	for _, b := range fn.Blocks {
		isNil, _ := nilFact(factsAt(b), errV)
		if !isNil {
			continue
		}
		if id := b.Idom(); id != nil {
			if n, _ := nilFact(factsAt(id), errV); n {
				continue
			}
		}
		entries++
		// walk: stored tells whether the store has been passed
		type st struct {
			b      *ssa.BasicBlock
			stored bool
		}
		seen := map[st]bool{}
		work := []st{{b, false}}
		for len(work) > 0 {
			cur := work[len(work)-1]
			work = work[:len(work)-1]
			if seen[cur] {
				continue
			}
			seen[cur] = true
			stored := cur.stored || stores(cur.b)
			if r, ok := cur.b.Instrs[len(cur.b.Instrs)-1].(*ssa.Return); ok {
				if !stored && why == "" {
					why = "the return at " + p.pos(r.Pos()) + " is reached without the tree having been stored"
				}
				ev := unspill(cur.b, r, r.Results[len(r.Results)-1])
				if e := p.shapeOf(ev); e.Kind != "nil" && why == "" {
					if _, isPhi := stripConv(ev).(*ssa.Phi); !isPhi {
						why = "the return at " + p.pos(r.Pos()) + " hands back " + e.String()
					}
				}
				continue
			}
			for _, s := range cur.b.Succs {
				work = append(work, st{s, stored})
			}
		}
	}
	return entries, why
}

func fieldName(fa *ssa.FieldAddr) string {
	t := fa.X.Type()
	if pt, ok := t.Underlying().(*types.Pointer); ok {
		t = pt.Elem()
	}
	if st, ok := t.Underlying().(*types.Struct); ok && fa.Field < st.NumFields() {
		return st.Field(fa.Field).Name()
	}
	return ""
}

// noErrorsFact: the facts include "len(X.errors) > 0" false (or == 0 true).
func noErrorsFact(fs []Fact) bool {
	for _, f := range fs {
		bo, ok := f.Cond.(*ssa.BinOp)
		if !ok {
			continue
		}
		c, ok := bo.X.(*ssa.Call)
		if !ok {
			continue
		}
		b, ok := c.Call.Value.(*ssa.Builtin)
		if !ok || b.Name() != "len" {
			continue
		}
		u, ok := c.Call.Args[0].(*ssa.UnOp)
		if !ok {
			continue
		}
		fa, ok := u.X.(*ssa.FieldAddr)
		if !ok || fieldName(fa) != "errors" {
			continue
		}
		k, ok := constInt(bo.Y)
		if !ok || k != 0 {
			continue
		}
		switch bo.Op {
		case token.GTR, token.NEQ:
			if !f.Truth {
				return true
			}
		case token.EQL, token.LEQ:
			if f.Truth {
				return true
			}
		}
	}
	return false
}

// recordsError: the instruction appends to the lexer's error list (a store to
// the errors field, or a call to a method of the lexer that does).
func recordsError(ins ssa.Instruction, lexT *types.Named) bool {
	switch x := ins.(type) {
	case *ssa.Store:
		if fa, ok := x.Addr.(*ssa.FieldAddr); ok && namedOf(fa.X.Type()) == lexT && fieldName(fa) == "errors" {
			return true
		}
	case ssa.CallInstruction:
		if sc := x.Common().StaticCallee(); sc != nil && sc.Signature.Recv() != nil && namedOf(sc.Signature.Recv().Type()) == lexT {
			for _, b := range sc.Blocks {
				for _, i2 := range b.Instrs {
					if st, ok := i2.(*ssa.Store); ok {
						if fa, ok := st.Addr.(*ssa.FieldAddr); ok && fieldName(fa) == "errors" {
							return true
						}
					}
				}
			}
		}
	}
	return false
}

// errorfWrapsFirst: v is fmt.Errorf whose first %w argument is the parameter q.
func errorfWrapsFirst(v ssa.Value, q *ssa.Parameter) bool {
	c, ok := stripConv(v).(*ssa.Call)
	if !ok || calleeQualified(&c.Call) != "fmt.Errorf" || len(c.Call.Args) < 2 {
		return false
	}
	args := errorfArgs(c.Call.Args[1])
	verbs := formatVerbs(formatPrefix(c.Call.Args[0]))
	for i, a := range args {
		if a == nil || i >= len(verbs) || verbs[i] != 'w' {
			continue
		}
		return stripConv(a) == ssa.Value(q)
	}
	return false
}

func derivesFromParam(v ssa.Value) bool {
	for i := 0; i < 6; i++ {
		switch x := v.(type) {
		case *ssa.Parameter:
			return true
		case *ssa.Convert:
			v = x.X
		case *ssa.ChangeType:
			v = x.X
		case *ssa.TypeAssert:
			v = x.X
		case *ssa.Extract:
			if ta, ok := x.Tuple.(*ssa.TypeAssert); ok {
				v = ta.X
			} else {
				return false
			}
		default:
			return false
		}
	}
	return false
}

// allocHolds: alloc (a *Path) has tree stored into one of its fields.
func (p *Prog) allocHolds(fn *ssa.Function, alloc, tree ssa.Value) bool {
	a, ok := stripConv(alloc).(*ssa.Alloc)
	if !ok || tree == nil {
		return false
	}
	for _, r := range *a.Referrers() {
		if fa, ok := r.(*ssa.FieldAddr); ok {
			for _, r2 := range *fa.Referrers() {
				if st, ok := r2.(*ssa.Store); ok && st.Val == tree {
					return true
				}
			}
		}
	}
	return false
}

// storesTree: on the way to block b the tree is stored through the receiver.
func (p *Prog) storesTree(fn *ssa.Function, b *ssa.BasicBlock, tree ssa.Value) bool {
	if tree == nil {
		return false
	}
	for _, blk := range fn.Blocks {
		if !(blk == b || blk.Dominates(b)) {
			continue
		}
		for _, ins := range blk.Instrs {
			st, ok := ins.(*ssa.Store)
			if !ok {
				continue
			}
			// *path = Path{ast}: store of a struct built from tree, or field store of tree
			if st.Val == tree {
				if pv := p.provenance(fn, st.Addr); pv.hasKind("param") {
					return true
				}
				// stored into a local composite that is then copied to *recv
				if pv := p.provenance(fn, st.Addr); pv.hasKind("alloc-local") || pv.hasKind("alloc-heap") {
					return true
				}
			}
		}
	}
	return false
}

// --- R-VALIDATE: the second validation pass --------------------------------------------------------

var ruleValidate = &Rule{
	Name: "R-VALIDATE", NeedSSA: true,
	Doc: "decision table of the placement validator (the recursive function ast.New runs over the tree): the depth counter grows by one exactly for the operand of a filter and is passed unchanged to every other child and to the next link; the in-subscript flag becomes true exactly for the elements of a subscript list and is otherwise passed unchanged; `@` at depth ≤ 0 and `last` outside a subscript return an error, and are accepted otherwise",
	Run: func(p *Prog) *RuleOut {
		out := newOut("R-VALIDATE")
		astNew := p.ssaFunc(pkgAST, "New")
		if astNew == nil {
			out.undecided("ast.New", "-", "", "anchor unresolved")
			return out
		}
		// the validator: the self-recursive function ast.New calls
		var v *ssa.Function
		for _, b := range astNew.Blocks {
			for _, ins := range b.Instrs {
				if c, ok := ins.(*ssa.Call); ok && c.Call.StaticCallee() != nil && fnPkgPath(c.Call.StaticCallee()) == pkgAST {
					if len(callsTo(c.Call.StaticCallee(), c.Call.StaticCallee())) > 0 {
						v = c.Call.StaticCallee()
					}
				}
			}
		}
		if v == nil {
			out.undecided("placement validator", p.pos(astNew.Pos()), fnName(astNew), "ast.New does not call a self-recursive validator")
			return out
		}
		// the validator family: functions of package ast with (node, int, bool)
		// parameters that the root validator reaches and that call each other
		vparams := func(f *ssa.Function) (n ssa.Value, d, s *ssa.Parameter) {
			for _, q := range f.Params {
				if b, ok := q.Type().(*types.Basic); ok {
					switch b.Kind() {
					case types.Int:
						d = q
					case types.Bool:
						s = q
					}
				} else if types.Identical(q.Type(), types.Type(p.A.Node)) || types.Implements(q.Type(), p.A.NodeIface) {
					n = q
				}
			}
			return
		}
		family := map[*ssa.Function]bool{v: true}
		for changed := true; changed; {
			changed = false
			for f := range family {
				for _, b := range f.Blocks {
					for _, ins := range b.Instrs {
						c, ok := ins.(*ssa.Call)
						if !ok || c.Call.StaticCallee() == nil || fnPkgPath(c.Call.StaticCallee()) != pkgAST || family[c.Call.StaticCallee()] {
							continue
						}
						g := c.Call.StaticCallee()
						if gn, gd, gs := vparams(g); gn != nil && gd != nil && gs != nil && len(g.Params) == 3 {
							family[g] = true
							changed = true
						}
					}
				}
			}
		}
		if _, d0, s0 := vparams(v); d0 == nil || s0 == nil {
			out.undecided("placement validator", p.pos(v.Pos()), fnName(v), "expected (node, depth int, inSubscript bool)")
			return out
		}
		// ast.New starts at depth 0, outside a subscript
		for _, c := range callsTo(astNew, v) {
			d, okd := constInt(c.Call.Args[1])
			s, oks := c.Call.Args[2].(*ssa.Const)
			if okd && d == 0 && oks && s.Value != nil && s.Value.ExactString() == "false" {
				out.ok("validation starts at depth 0 outside a subscript", p.pos(c.Pos()), fnName(astNew), "")
			} else {
				out.viol("validation starts at depth 0 outside a subscript", p.pos(c.Pos()), fnName(astNew), "the root is not validated with depth 0 / inSubscript false")
			}
		}
		ui := p.A.Enums["UnaryOperator"]
		ci := p.A.Enums["Constant"]
		filterK := constOf(ui.byName("UnaryFilter"))
		curK, lastK := constOf(ci.byName("ConstCurrent")), constOf(ci.byName("ConstLast"))
		n := 0
		var probs []string
		var fam []*ssa.Function
		for f := range family {
			fam = append(fam, f)
		}
		sortFuncs(fam)
		for _, vf := range fam {
			_, depthP, subP := vparams(vf)
			argIdx := func(q *ssa.Parameter) int {
				for i, x := range vf.Params {
					if x == q {
						return i
					}
				}
				return -1
			}
			tx, rows := p.extractTable(vf, nil, &TableCfg{
				IntDomain: func(x ssa.Value) []int64 {
					if x == ssa.Value(depthP) {
						return []int64{-1, 0, 1, 2}
					}
					return nil
				},
				SinkContinue: true, MaxPaths: 40000,
				Sink: func(ins ssa.Instruction) []ssa.Value {
					c, ok := ins.(*ssa.Call)
					if !ok || !family[c.Call.StaticCallee()] {
						return nil
					}
					_, gd, gs := vparams(c.Call.StaticCallee())
					di, si := -1, -1
					for i, x := range c.Call.StaticCallee().Params {
						if x == gd {
							di = i
						}
						if x == gs {
							si = i
						}
					}
					return []ssa.Value{c.Call.Args[di], c.Call.Args[si]}
				}})
			_ = argIdx
			// the table follows each loop body once; that is every iteration's
			// behaviour only if what a sink is handed does not depend on a value
			// carried around the loop
			for _, b := range vf.Blocks {
				for _, ins := range b.Instrs {
					c, ok := ins.(*ssa.Call)
					if !ok || !family[c.Call.StaticCallee()] {
						continue
					}
					for _, a := range c.Call.Args {
						if bt, ok := a.Type().Underlying().(*types.Basic); !ok || (bt.Kind() != types.Int && bt.Kind() != types.Bool) {
							continue
						}
						if ph := loopCarried(a, map[ssa.Value]bool{}); ph != nil {
							probs = append(probs, fmt.Sprintf("the depth / in-subscript value handed to the call at %s depends on %s, which is carried from one link of the chain to the next (loop at %s): a later link is validated as if it were inside an earlier link's filter or subscript", p.pos(c.Pos()), ph.Comment, p.pos(firstPos(ph.Block()))))
						}
					}
				}
			}
			if tx.over {
				out.undecided("decision table of the placement validator", p.pos(vf.Pos()), fnName(vf), "too many paths")
				return out
			}
			var unaryOp, constKind string
			for k, ai := range tx.atoms {
				if strings.HasPrefix(k, "field:") {
					if types.Identical(ai.Val.Type(), ui.Type) {
						unaryOp = k
					}
					if types.Identical(ai.Val.Type(), ci.Type) {
						constKind = k
					}
				}
			}
			for _, r := range rows {
				if r.Loop != nil {
					continue
				}
				names := tx.atomsOf(append(guardTerms(r), r.Out...)...)
				tx.term(depthP, r, 0)
				tx.term(subP, r, 0)
				names = uniq(sortStrings(append(names, depthP.Name(), subP.Name())))
				call, isCall := r.End.(*ssa.Call)
				for _, as := range tx.models(r, names) {
					d, s := as[depthP.Name()], as[subP.Name()]
					if isCall {
						n++
						gd, gs := tx.eval(r.Out[0], as, 0), tx.eval(r.Out[1], as, 0)
						gn, _, _ := vparams(call.Call.StaticCallee())
						var child ssa.Value
						for i, x := range call.Call.StaticCallee().Params {
							if ssa.Value(x) == gn {
								child = call.Call.Args[i]
							}
						}
						wantD, wantS := d, s
						what := "child"
						if q := p.ownNodeParam(child, 0); q != nil {
							what = "the same node (delegation to " + call.Call.StaticCallee().Name() + ")"
						} else {
							switch c := child.(type) {
							case *ssa.Call:
								if c.Call.IsInvoke() && c.Call.Method.Name() == "Next" {
									what = "next link"
								}
							case *ssa.UnOp:
								switch a := c.X.(type) {
								case *ssa.FieldAddr:
									if nn := namedOf(a.X.Type()); nn != nil && nn.Obj().Name() == "UnaryNode" {
										what = "operand of a unary node"
										if unaryOp != "" && as[unaryOp] == filterK {
											wantD = d + 1
											what = "operand of a filter"
										}
									}
								case *ssa.IndexAddr:
									what = "element of a subscript list"
									wantS = 1
								}
							}
						}
						if gd.Kind != "int" || gd.K != wantD {
							probs = append(probs, fmt.Sprintf("%s is validated at depth %v instead of %d (depth=%d): `@` is accepted or rejected in the wrong place", what, gd.K, wantD, d))
						}
						if gs.Kind != "int" || gs.K != wantS {
							probs = append(probs, fmt.Sprintf("%s is validated with inSubscript=%v instead of %v: `last` is accepted or rejected in the wrong place", what, gs.K == 1, wantS == 1))
						}
						continue
					}
					ret, isRet := r.End.(*ssa.Return)
					if !isRet || constKind == "" {
						continue
					}
					k, has := as[constKind]
					if !has {
						continue
					}
					_ = ret
					isErr := len(r.Out) == 1 && r.Out[0].Kind != "nil"
					// only returns reached directly from the constant's own check
					switch {
					case k == curK && d <= 0:
						n++
						if !isErr {
							probs = append(probs, fmt.Sprintf("`@` at depth %d is accepted", d))
						}
					case k == lastK && s == 0:
						n++
						if !isErr {
							probs = append(probs, "`last` outside a subscript is accepted")
						}
					case isErr && len(r.Calls) == 0:
						// an error without any recursive call: must be one of the two cases above
						if k == curK || k == lastK {
							probs = append(probs, fmt.Sprintf("a correctly placed constant (kind %d, depth %d, inSubscript %v) is rejected", k, d, s == 1))
						}
					}
				}
			}
		}
		sort.Strings(probs)
		probs = uniq(probs)
		key := "decision table of the placement validator"
		if len(probs) == 0 && n >= 30 {
			out.ok(key, p.pos(v.Pos()), fnName(v), fmt.Sprintf("%d cells: depth+1 only into filter operands, inSubscript only into subscript elements, everything else passed through; misplaced @ / last rejected", n))
		} else {
			if len(probs) > 6 {
				probs = probs[:6]
			}
			out.viol(key, p.pos(v.Pos()), fnName(v), fmt.Sprintf("%d cells; %s", n, strings.Join(probs, "; ")), probs...)
		}
		out.Counts["validator_cells"] = n
		out.Floors["validator_cells"] = 30
		return out
	},
}

func init() { register(ruleValidate) }

// loopCarried: v depends (through arithmetic, conversions and phis) on a phi
// at a loop header one of whose back-edge values differs from its entry value.
func loopCarried(v ssa.Value, seen map[ssa.Value]bool) *ssa.Phi {
	if v == nil || seen[v] {
		return nil
	}
	seen[v] = true
	switch x := v.(type) {
	case *ssa.Phi:
		b := x.Block()
		var entry []ssa.Value
		var back []ssa.Value
		for i, pr := range b.Preds {
			if b.Dominates(pr) {
				back = append(back, x.Edges[i])
			} else {
				entry = append(entry, x.Edges[i])
			}
		}
		if len(back) > 0 {
			for _, bv := range back {
				same := false
				for _, ev := range entry {
					if sameValue(bv, ev) {
						same = true
					}
					if bc, ok := bv.(*ssa.Const); ok {
						if ec, ok := ev.(*ssa.Const); ok && bc.Value != nil && ec.Value != nil && bc.Value.ExactString() == ec.Value.ExactString() {
							same = true
						}
					}
				}
				if !same && bv != ssa.Value(x) {
					return x
				}
			}
		}
		for _, e := range x.Edges {
			if ph := loopCarried(e, seen); ph != nil {
				return ph
			}
		}
	case *ssa.BinOp:
		if ph := loopCarried(x.X, seen); ph != nil {
			return ph
		}
		return loopCarried(x.Y, seen)
	case *ssa.UnOp:
		if x.Op == token.NOT || x.Op == token.SUB {
			return loopCarried(x.X, seen)
		}
	case *ssa.Convert:
		return loopCarried(x.X, seen)
	case *ssa.ChangeType:
		return loopCarried(x.X, seen)
	}
	return nil
}
