package main

import (
	"fmt"
	"go/token"
	"go/types"
	"strings"

	"golang.org/x/tools/go/ssa"
)

// callsTo returns the static calls to callee inside fn.
func callsTo(fn, callee *ssa.Function) []*ssa.Call {
	var out []*ssa.Call
	for _, b := range fn.Blocks {
		for _, ins := range b.Instrs {
			if c, ok := ins.(*ssa.Call); ok && c.Call.StaticCallee() == callee {
				out = append(out, c)
			}
		}
	}
	return out
}

func extractOf(c *ssa.Call, idx int) ssa.Value {
	for _, r := range *c.Referrers() {
		if e, ok := r.(*ssa.Extract); ok && e.Index == idx {
			return e
		}
	}
	return nil
}

// ruleParseResult: R-PARSE-RESULT.
var ruleParseResult = &Rule{
	Name:    "R-PARSE-RESULT",
	NeedSSA: true,
	Doc: "Parse returns (tree, nil) or (nil, error wrapping the sentinel) and nothing else: return shapes of parser.Parse, ast.New, path.Parse, MustParse, Scan, UnmarshalBinary/Text; " +
		"the lexer's result field is only ever filled from ast.New, whose failure records an error; the generated parser calls the result setter",
	Run: func(p *Prog) *RuleOut {
		out := newOut("R-PARSE-RESULT")
		pParse := p.ssaFunc(pkgParser, "Parse")
		if pParse == nil {
			out.undecided("parser.Parse", "-", "", "anchor unresolved")
			return out
		}
		// --- parser.Parse -----------------------------------------------------
		nret := 0
		for _, r := range returnsOf(pParse) {
			nret++
			if len(r.Results) != 2 {
				out.viol("parser.Parse return arity", p.pos(r.Instr.Pos()), fnName(pParse), "unexpected result count")
				continue
			}
			v, e := p.shapeOf(r.Results[0]), p.shapeOf(r.Results[1])
			key := fmt.Sprintf("parser.Parse returns (%s, %s)", v, e)
			site := p.pos(r.Instr.Pos())
			switch {
			case v.Kind == "nil" && e.Kind == "errorf" && len(e.Sentinels) > 0 && e.Sentinels[0] == "parser.ErrParse":
				out.ok(key, site, fnName(pParse), "failure: nil tree and an error wrapping ErrParse")
			case v.Kind == "load" && strings.HasSuffix(v.Field, ".result") && e.Kind == "nil":
				// must be on the no-errors branch
				if noErrorsFact(factsAt(r.Instr.Block())) {
					out.ok(key, site, fnName(pParse), "success: the stored tree, on the branch where no error was recorded")
				} else {
					out.viol(key, site, fnName(pParse), "the success return is not guarded by the test that no lexer/parser error was recorded")
				}
			default:
				out.viol(key, site, fnName(pParse), "Parse may return a shape other than (nil, ErrParse-wrapped) or (tree, nil)")
			}
		}
		out.Counts["parser.Parse returns"] = nret
		out.Floors["parser.Parse returns"] = 2

		// --- the result field: filled only from ast.New, failure recorded -----
		astNew := p.ssaFunc(pkgAST, "New")
		lexT, _ := lookupNamed(p.Pkgs[pkgParser].Types, "lexer")
		if astNew == nil || lexT == nil {
			out.undecided("ast.New / lexer", "-", "", "anchor unresolved")
			return out
		}
		var setters []*ssa.Function
		nstores := 0
		for fn := range p.AllFns {
			if fnPkgPath(fn) != pkgParser || fn.Blocks == nil {
				continue
			}
			for _, b := range fn.Blocks {
				for _, ins := range b.Instrs {
					st, ok := ins.(*ssa.Store)
					if !ok {
						continue
					}
					fa, ok := st.Addr.(*ssa.FieldAddr)
					if !ok || namedOf(fa.X.Type()) != lexT || fieldName(fa) != "result" {
						continue
					}
					nstores++
					key := fnName(fn) + " stores lexer.result"
					ex, ok := st.Val.(*ssa.Extract)
					var call *ssa.Call
					if ok {
						call, _ = ex.Tuple.(*ssa.Call)
					}
					if call == nil || call.Call.StaticCallee() != astNew || ex.Index != 0 {
						out.viol(key, p.pos(ins.Pos()), fnName(fn), "the parse result is stored from something other than the first result of ast.New")
						continue
					}
					errV := extractOf(call, 1)
					recorded := false
					if errV != nil {
						for _, b2 := range fn.Blocks {
							_, notNil := nilFact(factsAt(b2), errV)
							if !notNil {
								continue
							}
							for _, i2 := range b2.Instrs {
								if recordsError(i2, lexT) {
									recorded = true
								}
							}
						}
					}
					if recorded {
						out.ok(key, p.pos(ins.Pos()), fnName(fn), "value is ast.New's tree; on ast.New's error branch an error is recorded")
						setters = append(setters, fn)
					} else {
						out.viol(key, p.pos(ins.Pos()), fnName(fn), "ast.New's error is not recorded in the lexer's error list: Parse could return (nil, nil)")
					}
				}
			}
		}
		out.Counts["stores to lexer.result"] = nstores
		out.Floors["stores to lexer.result"] = 1

		// ast.New: (nil, err≠nil) or (fresh, nil)
		for _, r := range returnsOf(astNew) {
			v, e := p.shapeOf(r.Results[0]), p.shapeOf(r.Results[1])
			key := fmt.Sprintf("ast.New returns (%s, %s)", v, e)
			site := p.pos(r.Instr.Pos())
			switch {
			case v.Kind == "alloc" && e.Kind == "nil":
				out.ok(key, site, fnName(astNew), "success: fresh tree, nil error")
			case v.Kind == "nil" && e.Kind != "nil":
				_, notNil := nilFact(factsAt(r.Instr.Block()), r.Results[1])
				if notNil || e.Kind == "errorf" {
					out.ok(key, site, fnName(astNew), "failure: nil tree, error known non-nil on this branch")
				} else {
					out.viol(key, site, fnName(astNew), "nil tree returned with an error that is not provably non-nil")
				}
			default:
				out.viol(key, site, fnName(astNew), "ast.New may return both a tree and an error, or neither")
			}
		}

		// the generated parser calls the setter
		gen := p.ssaFunc(pkgParser, "*pathParserImpl.Parse")
		if gen == nil {
			out.undecided("generated parser", "-", "", "anchor unresolved: (*pathParserImpl).Parse")
		} else {
			n := 0
			for _, s := range setters {
				n += len(callsTo(gen, s))
			}
			if n > 0 {
				out.ok("generated parser calls the result setter", p.pos(gen.Pos()), fnName(gen), fmt.Sprintf("%d call site(s) in the action switch", n))
			} else {
				out.viol("generated parser calls the result setter", p.pos(gen.Pos()), fnName(gen), "no grammar action stores the result: a successful parse would return (nil, nil)")
			}
		}

		// --- package path: wrappers ---------------------------------------------
		type wrapSpec struct {
			fn       string
			sentinel string
			kind     string // value | must | errorOnly
		}
		for _, ws := range []wrapSpec{
			{"Parse", "path.ErrPath", "value"},
			{"MustParse", "", "must"},
			{"*Path.Scan", "path.ErrScan", "errorOnly"},
			{"*Path.UnmarshalBinary", "path.ErrScan", "errorOnly"},
		} {
			fn := p.ssaFunc(pkgPath, ws.fn)
			if fn == nil {
				out.undecided("path."+ws.fn, "-", "", "anchor unresolved")
				continue
			}
			calls := callsTo(fn, pParse)
			if len(calls) == 0 {
				out.viol("path."+ws.fn+" calls parser.Parse", p.pos(fn.Pos()), fnName(fn), "does not hand its input to parser.Parse")
				continue
			}
			for _, c := range calls {
				errV := extractOf(c, 1)
				treeV := extractOf(c, 0)
				if errV == nil {
					out.viol("path."+ws.fn+" drops the parse error", p.pos(c.Pos()), fnName(fn), "error result of parser.Parse is not used")
					continue
				}
				// whole input: argument is the parameter (or its string conversion)
				if !derivesFromParam(c.Call.Args[0]) {
					out.viol("path."+ws.fn+" parses its whole input", p.pos(c.Pos()), fnName(fn), "argument of parser.Parse is not the function's input")
				} else {
					out.ok("path."+ws.fn+" parses its whole input", p.pos(c.Pos()), fnName(fn), "argument is the input parameter (converted to string)")
				}
				nerr, nokk := 0, 0
				for _, b := range fn.Blocks {
					isNil, notNil := nilFact(factsAt(b), errV)
					last := b.Instrs[len(b.Instrs)-1]
					switch t := last.(type) {
					case *ssa.Panic:
						if ws.kind == "must" {
							if notNil {
								out.ok("path.MustParse panics on the error branch", p.pos(t.Pos()), fnName(fn), "panic is dominated by err != nil")
								nerr++
							} else {
								out.viol("path.MustParse panics on the error branch", p.pos(t.Pos()), fnName(fn), "panic not guarded by the parse error")
							}
						} else {
							out.viol("path."+ws.fn+" panics", p.pos(t.Pos()), fnName(fn), "explicit panic in a non-Must function")
						}
					case *ssa.Return:
						if b == fn.Recover {
							continue
						}
						res := make([]ssa.Value, len(t.Results))
						for i, v := range t.Results {
							res[i] = unspill(b, t, v)
						}
						switch {
						case notNil:
							nerr++
							if ws.kind == "must" {
								out.viol("path.MustParse returns on the error branch", p.pos(t.Pos()), fnName(fn), "MustParse must panic when Parse errs")
								continue
							}
							e := p.shapeOf(res[len(res)-1])
							key := fmt.Sprintf("path.%s on parse failure returns %s", ws.fn, e)
							good := e.Kind == "errorf" && len(e.Sentinels) > 0 && e.Sentinels[0] == ws.sentinel && p.errorfMentions(e, errV)
							if ws.kind == "value" {
								good = good && p.shapeOf(res[0]).Kind == "nil"
							}
							if good {
								out.ok(key, p.pos(t.Pos()), fnName(fn), "wraps "+ws.sentinel+" and the parser's error")
							} else {
								out.viol(key, p.pos(t.Pos()), fnName(fn), "parse failure is not reported as (nil,) error wrapping "+ws.sentinel+" and the parser's error")
							}
						case isNil:
							nokk++
							e := p.shapeOf(res[len(res)-1])
							key := fmt.Sprintf("path.%s on parse success", ws.fn)
							switch ws.kind {
							case "value", "must":
								v := p.shapeOf(res[0])
								if v.Kind == "alloc" && (ws.kind == "must" || e.Kind == "nil") && p.allocHolds(fn, res[0], treeV) {
									out.ok(key, p.pos(t.Pos()), fnName(fn), "returns a fresh Path holding the parsed tree")
								} else {
									out.viol(key, p.pos(t.Pos()), fnName(fn), "success does not return a fresh Path holding the parsed tree and a nil error")
								}
							case "errorOnly":
								if e.Kind == "nil" && p.storesTree(fn, b, treeV) {
									out.ok(key, p.pos(t.Pos()), fnName(fn), "stores the parsed tree into the receiver and returns nil")
								} else {
									out.viol(key, p.pos(t.Pos()), fnName(fn), "success does not store the parsed tree into the receiver / return nil")
								}
							}
						}
					}
				}
				if nerr == 0 {
					out.viol("path."+ws.fn+" handles parse failure", p.pos(c.Pos()), fnName(fn), "no exit is taken on the branch err != nil")
				}
				if nokk == 0 && ws.kind != "must" {
					out.viol("path."+ws.fn+" handles parse success", p.pos(c.Pos()), fnName(fn), "no exit is taken on the branch err == nil")
				}
			}
			// every other non-nil error returned must wrap the sentinel or
			// come from a sibling
			if ws.kind == "errorOnly" {
				for _, r := range returnsOf(fn) {
					e := p.shapeOf(r.Results[len(r.Results)-1])
					switch {
					case e.Kind == "nil":
					case e.Kind == "errorf" && len(e.Sentinels) > 0 && e.Sentinels[0] == ws.sentinel:
					case e.Kind == "call" && strings.Contains(e.Callee, "path.Path)."):
					default:
						out.viol(fmt.Sprintf("path.%s returns %s", ws.fn, e), p.pos(r.Instr.Pos()), fnName(fn), "an error that does not wrap "+ws.sentinel)
					}
				}
			}
		}
		// UnmarshalText delegates
		if ut, ub := p.ssaFunc(pkgPath, "*Path.UnmarshalText"), p.ssaFunc(pkgPath, "*Path.UnmarshalBinary"); ut != nil && ub != nil {
			good := len(callsTo(ut, ub)) == 1
			for _, r := range returnsOf(ut) {
				if sh := p.shapeOf(r.Results[0]); sh.Kind != "call" {
					good = false
				}
			}
			if good {
				out.ok("path.UnmarshalText delegates to UnmarshalBinary", p.pos(ut.Pos()), fnName(ut), "returns its sibling's result unchanged")
			} else {
				out.viol("path.UnmarshalText delegates to UnmarshalBinary", p.pos(ut.Pos()), fnName(ut), "text unmarshalling no longer returns UnmarshalBinary's result")
			}
		}
		return out
	},
}

func fieldName(fa *ssa.FieldAddr) string {
	t := fa.X.Type()
	if pt, ok := t.Underlying().(*types.Pointer); ok {
		t = pt.Elem()
	}
	if st, ok := t.Underlying().(*types.Struct); ok && fa.Field < st.NumFields() {
		return st.Field(fa.Field).Name()
	}
	return ""
}

// noErrorsFact: the facts include "len(X.errors) > 0" false (or == 0 true).
func noErrorsFact(fs []Fact) bool {
	for _, f := range fs {
		bo, ok := f.Cond.(*ssa.BinOp)
		if !ok {
			continue
		}
		c, ok := bo.X.(*ssa.Call)
		if !ok {
			continue
		}
		b, ok := c.Call.Value.(*ssa.Builtin)
		if !ok || b.Name() != "len" {
			continue
		}
		u, ok := c.Call.Args[0].(*ssa.UnOp)
		if !ok {
			continue
		}
		fa, ok := u.X.(*ssa.FieldAddr)
		if !ok || fieldName(fa) != "errors" {
			continue
		}
		k, ok := constInt(bo.Y)
		if !ok || k != 0 {
			continue
		}
		switch bo.Op {
		case token.GTR, token.NEQ:
			if !f.Truth {
				return true
			}
		case token.EQL, token.LEQ:
			if f.Truth {
				return true
			}
		}
	}
	return false
}

// recordsError: the instruction appends to the lexer's error list (a store to
// the errors field, or a call to a method of the lexer that does).
func recordsError(ins ssa.Instruction, lexT *types.Named) bool {
	switch x := ins.(type) {
	case *ssa.Store:
		if fa, ok := x.Addr.(*ssa.FieldAddr); ok && namedOf(fa.X.Type()) == lexT && fieldName(fa) == "errors" {
			return true
		}
	case ssa.CallInstruction:
		if sc := x.Common().StaticCallee(); sc != nil && sc.Signature.Recv() != nil && namedOf(sc.Signature.Recv().Type()) == lexT {
			for _, b := range sc.Blocks {
				for _, i2 := range b.Instrs {
					if st, ok := i2.(*ssa.Store); ok {
						if fa, ok := st.Addr.(*ssa.FieldAddr); ok && fieldName(fa) == "errors" {
							return true
						}
					}
				}
			}
		}
	}
	return false
}

func derivesFromParam(v ssa.Value) bool {
	for i := 0; i < 6; i++ {
		switch x := v.(type) {
		case *ssa.Parameter:
			return true
		case *ssa.Convert:
			v = x.X
		case *ssa.ChangeType:
			v = x.X
		case *ssa.TypeAssert:
			v = x.X
		case *ssa.Extract:
			if ta, ok := x.Tuple.(*ssa.TypeAssert); ok {
				v = ta.X
			} else {
				return false
			}
		default:
			return false
		}
	}
	return false
}

// allocHolds: alloc (a *Path) has tree stored into one of its fields.
func (p *Prog) allocHolds(fn *ssa.Function, alloc, tree ssa.Value) bool {
	a, ok := stripConv(alloc).(*ssa.Alloc)
	if !ok || tree == nil {
		return false
	}
	for _, r := range *a.Referrers() {
		if fa, ok := r.(*ssa.FieldAddr); ok {
			for _, r2 := range *fa.Referrers() {
				if st, ok := r2.(*ssa.Store); ok && st.Val == tree {
					return true
				}
			}
		}
	}
	return false
}

// storesTree: on the way to block b the tree is stored through the receiver.
func (p *Prog) storesTree(fn *ssa.Function, b *ssa.BasicBlock, tree ssa.Value) bool {
	if tree == nil {
		return false
	}
	for _, blk := range fn.Blocks {
		if !(blk == b || blk.Dominates(b)) {
			continue
		}
		for _, ins := range blk.Instrs {
			st, ok := ins.(*ssa.Store)
			if !ok {
				continue
			}
			// *path = Path{ast}: store of a struct built from tree, or field store of tree
			if st.Val == tree {
				if pv := p.provenance(fn, st.Addr); pv.hasKind("param") {
					return true
				}
				// stored into a local composite that is then copied to *recv
				if pv := p.provenance(fn, st.Addr); pv.hasKind("alloc-local") || pv.hasKind("alloc-heap") {
					return true
				}
			}
		}
	}
	return false
}
