package main

// E2 on SSA: branch facts that hold at a block (from the dominator chain),
// finite universes of enum-typed and interface-typed values, with parameters
// resolved through call sites (callbacks stay paired with the call site that
// passed them).

import (
	"go/constant"
	"go/token"
	"go/types"
	"reflect"
	"sort"
	"unsafe"

	"golang.org/x/tools/go/callgraph"
	"golang.org/x/tools/go/ssa"
)

// Fact: Cond evaluated to Truth on the way to the block.
type Fact struct {
	Cond  ssa.Value
	Truth bool
	Synth bool // Cond is a detached value rebuilt from the body of a named test (no type, block or position)
}

// factsAt returns the branch conditions known to hold on entry to b.
func factsAt(b *ssa.BasicBlock) []Fact {
	var fs []Fact
	seen := map[*ssa.BasicBlock]bool{}
	cur := b
	for cur != nil && !seen[cur] {
		seen[cur] = true
		if len(cur.Preds) == 1 {
			p := cur.Preds[0]
			if iff, ok := p.Instrs[len(p.Instrs)-1].(*ssa.If); ok && len(p.Succs) == 2 && p.Succs[0] != p.Succs[1] {
				fs = appendFact(fs, Fact{Cond: iff.Cond, Truth: p.Succs[0] == cur}, 0)
			}
		}
		cur = cur.Idom()
	}
	return fs
}

// appendFact adds f and what it implies when its condition is a materialised
// short-circuit expression or a negation: a false `a || b` makes both false, a
// true `a && b` makes both true, `!a` is a with the opposite truth. go/ssa
// builds such a value (a phi over the constant and the right operand) when the
// expression is not itself the condition of an if statement, e.g. in a case
// clause or when assigned to a variable.
func appendFact(fs []Fact, f Fact, depth int) []Fact {
	fs = append(fs, f)
	if depth > 4 {
		return fs
	}
	switch x := f.Cond.(type) {
	case *ssa.UnOp:
		if x.Op == token.NOT {
			return appendFact(fs, Fact{x.X, !f.Truth, f.Synth}, depth+1)
		}
	case *ssa.Phi:
		if ops, isOr, ok := shortCircuit(x, 0); ok && isOr != f.Truth {
			// a false `a || b || …` makes every operand false; a true
			// `a && b && …` makes every operand true
			for _, o := range ops {
				fs = appendFact(fs, Fact{o, f.Truth, f.Synth}, depth+1)
			}
		}
	case *ssa.Call:
		// a named test (`notFinite(x)`, `outsideInt32(n)`, `l.hasError()`):
		// the facts of its body, with the arguments in place of the parameters
		for _, sf := range inlinePredicateFacts(x, f.Truth) {
			fs = appendFact(fs, sf, depth+1)
		}
	case *ssa.Extract:
		// the flag of a small accessor (`v, ok := vl.single()`)
		if x.Type() == nil {
			break
		}
		if bt, ok := x.Type().Underlying().(*types.Basic); ok && bt.Kind() == types.Bool {
			for _, sf := range inlineFlagFacts(x, f.Truth) {
				fs = appendFact(fs, sf, depth+1)
			}
		}
	case *ssa.BinOp:
		// a guard that answers with an error (`if err := checkFinite(x); err != nil`):
		// where the error is nil, what every nil return of the guard knows
		if x.Op == token.EQL || x.Op == token.NEQ {
			var cv ssa.Value
			switch {
			case isNilConst(x.Y):
				cv = x.X
			case isNilConst(x.X):
				cv = x.Y
			}
			if c, ok := cv.(*ssa.Call); ok {
				isNil := (x.Op == token.EQL) == f.Truth
				for _, sf := range inlineErrGuardFacts(c, isNil) {
					fs = appendFact(fs, sf, depth+1)
				}
			}
		}
	}
	return fs
}

var errGuardBusy = map[*ssa.Function]bool{}

// inlineErrGuardFacts: c calls a small loop-free module function whose only
// result is an error; the facts (over the caller's values) that hold on every
// return of it whose error is nil (isNil) or non-nil.
type errGuardKey struct {
	c     *ssa.Call
	isNil bool
}

var errGuardMemo = map[errGuardKey][]Fact{}

func inlineErrGuardFacts(c *ssa.Call, isNil bool) []Fact {
	k := errGuardKey{c, isNil}
	if r, ok := errGuardMemo[k]; ok {
		return r
	}
	r := inlineErrGuardFacts0(c, isNil)
	if !errGuardBusy[c.Call.StaticCallee()] {
		errGuardMemo[k] = r
	}
	return r
}

func inlineErrGuardFacts0(c *ssa.Call, isNil bool) []Fact {
	h := c.Call.StaticCallee()
	if h == nil || !inModule(h) || h.Blocks == nil || len(h.Blocks) > 12 || h.Signature.Results().Len() != 1 || !isErrorType(h.Signature.Results().At(0).Type()) || errGuardBusy[h] {
		return nil
	}
	for _, b := range h.Blocks {
		for _, pr := range b.Preds {
			if b.Dominates(pr) {
				return nil
			}
		}
	}
	errGuardBusy[h] = true
	defer delete(errGuardBusy, h)
	var common []Fact
	first := true
	for _, r := range expandedReturns(h) {
		v := stripConv(r.Results[0])
		var thisNil bool
		switch {
		case isNilConst(v):
			thisNil = true
		default:
			cc, ok := v.(*ssa.Call)
			if !ok {
				return nil
			}
			if q := calleeQualified(&cc.Call); q != "fmt.Errorf" && q != "errors.New" {
				return nil
			}
		}
		if thisNil != isNil {
			continue
		}
		if first {
			common = append(common, r.Facts...)
			first = false
			continue
		}
		var keep []Fact
		for _, cf := range common {
			for _, rf := range r.Facts {
				if rf.Cond == cf.Cond && rf.Truth == cf.Truth {
					keep = append(keep, cf)
					break
				}
			}
		}
		common = keep
	}
	var out []Fact
	for _, cf := range common {
		switch cf.Cond.(type) {
		case *ssa.BinOp, *ssa.Call:
			if sv := substInto(c, h, cf.Cond, 0); sv != nil {
				out = append(out, Fact{sv, cf.Truth, true})
				// a named test inside the named test
				if sc, ok := sv.(*ssa.Call); ok && sc != c && !sc.Call.IsInvoke() {
					if g := sc.Call.StaticCallee(); g != nil && g != h && inModule(g) && purePredicate(g) {
						out = append(out, inlinePredicateFacts(sc, cf.Truth)...)
					}
				}
			}
		}
	}
	return out
}

// realFacts drops the facts rebuilt from named tests (for consumers that need
// types and positions of every condition).
func realFacts(fs []Fact) []Fact {
	out := fs[:0:0]
	for _, f := range fs {
		if !f.Synth {
			out = append(out, f)
		}
	}
	return out
}

// --- named tests ------------------------------------------------------------------

// purePredicate: fn has one bool result computed, without loops or effects,
// from its parameters: comparisons with constants and with each other, len
// and loads of fields of parameters, !, && and ||, and calls of math.IsNaN /
// math.IsInf on such values.
var purePredMemo = map[*ssa.Function]int{}

func purePredicate(fn *ssa.Function) bool {
	if fn == nil {
		return false
	}
	if r, ok := purePredMemo[fn]; ok {
		return r == 1
	}
	purePredMemo[fn] = 2 // recursion guard
	if purePredicate0(fn) {
		purePredMemo[fn] = 1
		return true
	}
	return false
}

func purePredicate0(fn *ssa.Function) bool {
	if fn == nil || fn.Blocks == nil || len(fn.Blocks) > 10 || fn.Signature.Results().Len() != 1 {
		return false
	}
	if b, ok := fn.Signature.Results().At(0).Type().Underlying().(*types.Basic); !ok || b.Kind() != types.Bool {
		return false
	}
	nret := 0
	for _, b := range fn.Blocks {
		for _, pr := range b.Preds {
			if b.Dominates(pr) {
				return false // a loop
			}
		}
		for _, ins := range b.Instrs {
			switch x := ins.(type) {
			case *ssa.If, *ssa.Jump, *ssa.Phi, *ssa.DebugRef, *ssa.BinOp, *ssa.FieldAddr, *ssa.Convert, *ssa.ChangeType:
			case *ssa.Return:
				nret++
			case *ssa.UnOp:
				if x.Op != token.NOT && x.Op != token.MUL && x.Op != token.SUB {
					return false
				}
			case *ssa.Call:
				if bi, ok := x.Call.Value.(*ssa.Builtin); ok && (bi.Name() == "len" || bi.Name() == "cap") {
					continue
				}
				if q := calleeQualified(&x.Call); q == "math.IsNaN" || q == "math.IsInf" || q == "math.Abs" || q == "math.Trunc" {
					continue
				}
				// another named test of the module (`res.failed()`)
				if g := x.Call.StaticCallee(); g != nil && !x.Call.IsInvoke() && inModule(g) && purePredicate(g) {
					continue
				}
				return false
			default:
				return false
			}
		}
	}
	return nret == 1
}

var synthCache = map[[2]ssa.Value]ssa.Value{}

// fresh: the values substInto has allocated (the only ones it may dress)
var fresh = map[ssa.Value]bool{}

// substInto rebuilds the callee value v over the arguments of call c: the
// result is a detached SSA value (no block, no position) whose operands are
// the caller's values. Only shapes the rules look at are rebuilt.
func substInto(c *ssa.Call, h *ssa.Function, v ssa.Value, depth int) ssa.Value {
	if depth > 8 {
		return nil
	}
	key := [2]ssa.Value{c, v}
	if sv, ok := synthCache[key]; ok {
		return sv
	}
	var out ssa.Value
	if _, isParam := v.(*ssa.Parameter); !isParam && !dependsOnParam(v, map[ssa.Value]bool{}, 0) {
		// nothing to substitute: the callee's own value (a constant, a global,
		// an error it constructs) stands for itself
		synthCache[key] = v
		return v
	}
	switch x := v.(type) {
	case *ssa.Const:
		out = x
	case *ssa.Parameter:
		for i, q := range h.Params {
			if q == x && i < len(c.Call.Args) {
				out = c.Call.Args[i]
			}
		}
	case *ssa.BinOp:
		l, r := substInto(c, h, x.X, depth+1), substInto(c, h, x.Y, depth+1)
		if l != nil && r != nil {
			out = &ssa.BinOp{Op: x.Op, X: l, Y: r}
		}
	case *ssa.UnOp:
		if a := substInto(c, h, x.X, depth+1); a != nil {
			out = &ssa.UnOp{Op: x.Op, X: a, CommaOk: x.CommaOk}
		}
	case *ssa.IndexAddr:
		a, i := substInto(c, h, x.X, depth+1), substInto(c, h, x.Index, depth+1)
		if a != nil && i != nil {
			out = &ssa.IndexAddr{X: a, Index: i}
		}
	case *ssa.Index:
		a, i := substInto(c, h, x.X, depth+1), substInto(c, h, x.Index, depth+1)
		if a != nil && i != nil {
			out = &ssa.Index{X: a, Index: i}
		}
	case *ssa.Extract:
		if a := substInto(c, h, x.Tuple, depth+1); a != nil {
			out = &ssa.Extract{Tuple: a, Index: x.Index}
		}
	case *ssa.TypeAssert:
		if a := substInto(c, h, x.X, depth+1); a != nil {
			out = &ssa.TypeAssert{X: a, AssertedType: x.AssertedType, CommaOk: x.CommaOk}
		}
	case *ssa.MakeInterface:
		if a := substInto(c, h, x.X, depth+1); a != nil {
			out = &ssa.MakeInterface{X: a}
		}
	case *ssa.ChangeInterface:
		out = substInto(c, h, x.X, depth+1)
	case *ssa.Convert:
		if a := substInto(c, h, x.X, depth+1); a != nil {
			out = a // conversions between integer widths do not matter to the facts
		}
	case *ssa.ChangeType:
		out = substInto(c, h, x.X, depth+1)
	case *ssa.FieldAddr:
		if a := substInto(c, h, x.X, depth+1); a != nil {
			out = &ssa.FieldAddr{X: a, Field: x.Field}
		}
	case *ssa.Call:
		var args []ssa.Value
		for _, a := range x.Call.Args {
			sa := substInto(c, h, a, depth+1)
			if sa == nil {
				return nil
			}
			args = append(args, sa)
		}
		out = &ssa.Call{Call: ssa.CallCommon{Value: x.Call.Value, Method: x.Call.Method, Args: args}}
		dress(out, v.Type(), c)
		out = inlineAccessor(out)
	}
	if out != nil {
		switch v.(type) {
		case *ssa.BinOp, *ssa.UnOp, *ssa.IndexAddr, *ssa.Index, *ssa.Extract, *ssa.TypeAssert, *ssa.MakeInterface, *ssa.FieldAddr:
			fresh[out] = true
		}
	}
	if out != nil {
		if fresh[out] {
			dress(out, v.Type(), c)
		}
		synthCache[key] = out
	}
	return out
}

// dependsOnParam: v is computed from a parameter (or free variable) of its function.
func dependsOnParam(v ssa.Value, seen map[ssa.Value]bool, depth int) bool {
	if seen[v] {
		return false
	}
	seen[v] = true
	switch x := v.(type) {
	case *ssa.Parameter, *ssa.FreeVar:
		return true
	case *ssa.Const, *ssa.Global, *ssa.Function, *ssa.Builtin:
		return false
	case ssa.Instruction:
		if depth > 12 {
			return true
		}
		for _, o := range x.Operands(nil) {
			if *o != nil && dependsOnParam(*o, seen, depth+1) {
				return true
			}
		}
	}
	return false
}

// dress gives a rebuilt value the type of the value it stands for and places
// it (for Block, Parent and Pos) at the call it was inlined at: a value
// "as if written at the call site". It is in no block's instruction list and
// has no referrers.
func dress(v ssa.Value, t types.Type, at *ssa.Call) {
	defer func() { _ = recover() }()
	rv := reflect.ValueOf(v)
	if rv.Kind() != reflect.Pointer {
		return
	}
	rv = rv.Elem()
	set := func(f reflect.Value, val any) {
		if !f.IsValid() || !f.CanAddr() {
			return
		}
		reflect.NewAt(f.Type(), unsafe.Pointer(f.UnsafeAddr())).Elem().Set(reflect.ValueOf(val).Convert(f.Type()))
	}
	if reg := rv.FieldByName("register"); reg.IsValid() {
		if t != nil {
			f := reg.FieldByName("typ")
			if f.IsValid() && f.CanAddr() {
				reflect.NewAt(f.Type(), unsafe.Pointer(f.UnsafeAddr())).Elem().Set(reflect.ValueOf(&t).Elem())
			}
		}
		if at != nil {
			set(reg.FieldByName("pos"), at.Pos())
			if ai := reg.FieldByName("anInstruction"); ai.IsValid() && at.Block() != nil {
				set(ai.FieldByName("block"), at.Block())
			}
		}
	}
}

var accessorCache = map[*ssa.Function]int{} // 1 yes, 2 no

// pureAccessor: a module function of packages exec, parser, path or types
// with one non-boolean result computed in a single block, without effects,
// from its parameters: field loads, constant or parameter indexing, len/cap,
// arithmetic, conversions and calls of other such functions. Its call stands
// for its body (`vl.size()` is `len(vl.list)`, `vl.first()` is `vl.list[0]`).
func pureAccessor(fn *ssa.Function, depth int) bool {
	if fn == nil {
		return false
	}
	if r, ok := accessorCache[fn]; ok {
		return r == 1
	}
	ok := pureAccessor0(fn, depth)
	if ok {
		accessorCache[fn] = 1
	} else {
		accessorCache[fn] = 2
	}
	return ok
}

func pureAccessor0(fn *ssa.Function, depth int) bool {
	if fn.Blocks == nil || len(fn.Blocks) != 1 || depth > 3 || fn.Signature.Results().Len() != 1 || len(fn.FreeVars) > 0 {
		return false
	}
	switch fnPkgPath(fn) {
	case pkgExec, pkgParser, pkgPath, pkgTypes:
	default:
		return false
	}
	rt := fn.Signature.Results().At(0).Type()
	if b, ok := rt.Underlying().(*types.Basic); ok && b.Kind() == types.Bool {
		return false // boolean tests are handled as facts (purePredicate)
	}
	switch rt.Underlying().(type) {
	case *types.Basic, *types.Interface, *types.Slice:
	default:
		return false
	}
	uses := false
	for _, ins := range fn.Blocks[0].Instrs {
		switch x := ins.(type) {
		case *ssa.DebugRef, *ssa.Return, *ssa.BinOp, *ssa.FieldAddr, *ssa.IndexAddr, *ssa.Index, *ssa.Convert, *ssa.ChangeType:
		case *ssa.UnOp:
			if x.Op != token.MUL && x.Op != token.SUB && x.Op != token.NOT {
				return false
			}
			if x.Op == token.MUL {
				// loads of fields and elements only
				switch x.X.(type) {
				case *ssa.FieldAddr, *ssa.IndexAddr:
					uses = true
				default:
					return false
				}
			}
		case *ssa.Call:
			if bi, ok := x.Call.Value.(*ssa.Builtin); ok && (bi.Name() == "len" || bi.Name() == "cap") {
				uses = true
				continue
			}
			if !pureAccessor(x.Call.StaticCallee(), depth+1) {
				return false
			}
			uses = true
		default:
			return false
		}
	}
	return uses
}

// inlineAccessor: the body of a pure accessor over the arguments of its call,
// or v itself.
func inlineAccessor(v ssa.Value) ssa.Value {
	c, ok := v.(*ssa.Call)
	if !ok || c.Call.IsInvoke() {
		return v
	}
	h := c.Call.StaticCallee()
	if h == nil || !pureAccessor(h, 0) {
		return v
	}
	ret, ok := h.Blocks[0].Instrs[len(h.Blocks[0].Instrs)-1].(*ssa.Return)
	if !ok || len(ret.Results) != 1 {
		return v
	}
	if sv := substInto(c, h, ret.Results[0], 0); sv != nil {
		return sv
	}
	return v
}

// inlinePredicateFacts: what a call of a pure predicate being true (false)
// says about the caller's values.
func inlinePredicateFacts(c *ssa.Call, truth bool) []Fact {
	h := c.Call.StaticCallee()
	if h == nil || !inModule(h) || !purePredicate(h) {
		return nil
	}
	var ret *ssa.Return
	for _, b := range h.Blocks {
		if r, ok := b.Instrs[len(b.Instrs)-1].(*ssa.Return); ok {
			ret = r
		}
	}
	if ret == nil || len(ret.Results) != 1 {
		return nil
	}
	var out []Fact
	for _, cf := range appendFact(nil, Fact{Cond: ret.Results[0], Truth: truth}, 2) {
		switch cf.Cond.(type) {
		case *ssa.BinOp, *ssa.Call:
			if sv := substInto(c, h, cf.Cond, 0); sv != nil {
				out = append(out, Fact{sv, cf.Truth, true})
			}
		}
	}
	return out
}

// edgeFacts: facts that hold when control flows from block p to its successor
// number idx, i.e. factsAt(p) plus p's own branch.
func edgeFacts(p *ssa.BasicBlock, idx int) []Fact {
	fs := factsAt(p)
	if iff, ok := p.Instrs[len(p.Instrs)-1].(*ssa.If); ok && len(p.Succs) == 2 && p.Succs[0] != p.Succs[1] {
		fs = append(appendFact(nil, Fact{Cond: iff.Cond, Truth: idx == 0}, 0), fs...)
	}
	return fs
}

// derefValue looks through value-preserving wrappers.
func stripConv(v ssa.Value) ssa.Value {
	for {
		switch x := v.(type) {
		case *ssa.ChangeType:
			v = x.X
		case *ssa.ChangeInterface:
			v = x.X
		case *ssa.Call:
			nv := inlineAccessor(x)
			if nv == v {
				return v
			}
			v = nv
		case *ssa.Extract:
			nv := inlineGuardedAccessor(x)
			if nv == v {
				return v
			}
			v = nv
		default:
			return v
		}
	}
}

var pureMultiMemo = map[*ssa.Function]int{}

// pureMulti: a small loop-free, effect-free function of packages exec, parser,
// path or types with two or more results (`single() (any, bool)`).
func pureMulti(g *ssa.Function) bool {
	if g == nil {
		return false
	}
	if r, ok := pureMultiMemo[g]; ok {
		return r == 1
	}
	pureMultiMemo[g] = 2
	if g.Blocks == nil || len(g.Blocks) > 8 || g.Signature.Results().Len() < 2 || len(g.FreeVars) > 0 {
		return false
	}
	switch fnPkgPath(g) {
	case pkgExec, pkgParser, pkgPath, pkgTypes:
	default:
		return false
	}
	for _, b := range g.Blocks {
		for _, pr := range b.Preds {
			if b.Dominates(pr) {
				return false
			}
		}
		for _, ins := range b.Instrs {
			switch x := ins.(type) {
			case *ssa.If, *ssa.Jump, *ssa.Phi, *ssa.DebugRef, *ssa.BinOp, *ssa.FieldAddr, *ssa.IndexAddr, *ssa.Convert, *ssa.ChangeType, *ssa.MakeInterface, *ssa.Return:
			case *ssa.UnOp:
				if x.Op != token.NOT && x.Op != token.MUL && x.Op != token.SUB {
					return false
				}
			case *ssa.Call:
				if bi, ok := x.Call.Value.(*ssa.Builtin); ok && (bi.Name() == "len" || bi.Name() == "cap") {
					continue
				}
				return false
			default:
				return false
			}
		}
	}
	pureMultiMemo[g] = 1
	return true
}

// inlineGuardedAccessor: x is result #i of a pure multi-result helper that
// hands back, for that result, either a zero constant or one and the same
// expression over its parameters (`vl.list[0]` beside `true`, nil beside
// `false`): that expression over the call's arguments. What the value is when
// the flag is false is the zero — rules that look at the value do so behind
// the flag, whose facts appendFact supplies.
var guardedAccMemo = map[*ssa.Extract]ssa.Value{}

func inlineGuardedAccessor(x *ssa.Extract) ssa.Value {
	if r, ok := guardedAccMemo[x]; ok {
		return r
	}
	r := inlineGuardedAccessor0(x)
	guardedAccMemo[x] = r
	return r
}

func inlineGuardedAccessor0(x *ssa.Extract) ssa.Value {
	c, ok := x.Tuple.(*ssa.Call)
	if !ok || c.Call.IsInvoke() {
		return x
	}
	g := c.Call.StaticCallee()
	if !pureMulti(g) {
		return x
	}
	if x.Index >= g.Signature.Results().Len() || isErrorType(g.Signature.Results().At(x.Index).Type()) {
		return x // nil-ness of an error is the information
	}
	// the flag: a bool result that is the constant true exactly where this
	// result is the expression and the constant false where it is the zero
	flag := -1
	for j := 0; j < g.Signature.Results().Len(); j++ {
		if bt, ok := g.Signature.Results().At(j).Type().Underlying().(*types.Basic); ok && bt.Kind() == types.Bool && j != x.Index {
			flag = j
		}
	}
	if flag < 0 {
		return x
	}
	var expr ssa.Value
	for _, r := range expandedReturns(g) {
		if x.Index >= len(r.Results) || flag >= len(r.Results) {
			return x
		}
		fk, isC := stripConvPlain(r.Results[flag]).(*ssa.Const)
		if !isC || fk.Value == nil {
			return x
		}
		flagTrue := fk.Value.ExactString() == "true"
		v := r.Results[x.Index]
		if k, isC := v.(*ssa.Const); isC {
			if !flagTrue && (k.Value == nil || k.Value.ExactString() == "false" || k.Value.ExactString() == "0" || k.Value.ExactString() == `""`) {
				continue
			}
			return x
		}
		if !flagTrue || (expr != nil && expr != v) {
			return x
		}
		expr = v
	}
	if expr == nil {
		return x
	}
	if sv := substInto(c, g, expr, 0); sv != nil {
		return sv
	}
	return x
}

// inlineFlagFacts: x is a bool result of a pure multi-result helper; the facts
// common to its returns on which that result is the constant truth.
func inlineFlagFacts(x *ssa.Extract, truth bool) []Fact {
	c, ok := x.Tuple.(*ssa.Call)
	if !ok || c.Call.IsInvoke() {
		return nil
	}
	g := c.Call.StaticCallee()
	if !pureMulti(g) {
		return nil
	}
	var common []Fact
	first := true
	for _, r := range expandedReturns(g) {
		if x.Index >= len(r.Results) {
			return nil
		}
		k, isC := stripConvPlain(r.Results[x.Index]).(*ssa.Const)
		if !isC || k.Value == nil {
			return nil // the flag is computed: nothing known
		}
		if (k.Value.ExactString() == "true") != truth {
			continue
		}
		if first {
			common = append(common, r.Facts...)
			first = false
			continue
		}
		var keep []Fact
		for _, cf := range common {
			for _, rf := range r.Facts {
				if rf.Cond == cf.Cond && rf.Truth == cf.Truth {
					keep = append(keep, cf)
					break
				}
			}
		}
		common = keep
	}
	var out []Fact
	for _, cf := range common {
		switch cf.Cond.(type) {
		case *ssa.BinOp, *ssa.Call:
			if sv := substInto(c, g, cf.Cond, 0); sv != nil {
				out = append(out, Fact{sv, cf.Truth, true})
			}
		}
	}
	return out
}

// stripConvPlain looks through type changes only.
func stripConvPlain(v ssa.Value) ssa.Value {
	for {
		switch x := v.(type) {
		case *ssa.ChangeType:
			v = x.X
		case *ssa.ChangeInterface:
			v = x.X
		default:
			return v
		}
	}
}

// sameValue: two SSA values denote the same runtime value. go/ssa has no CSE,
// so repeated loads of the same field / repeated pure getter calls on the same
// receiver are matched structurally (write-once AST nodes, parameters).
func sameValue(a, b ssa.Value) bool {
	a, b = stripConv(a), stripConv(b)
	if a == b {
		return true
	}
	switch x := a.(type) {
	case *ssa.Const:
		y, ok := b.(*ssa.Const)
		if !ok {
			return false
		}
		if x.Value == nil || y.Value == nil {
			return x.Value == nil && y.Value == nil && types.Identical(x.Type(), y.Type())
		}
		return types.Identical(x.Type(), y.Type()) && constant.Compare(x.Value, token.EQL, y.Value)
	case *ssa.UnOp:
		y, ok := b.(*ssa.UnOp)
		if ok && x.Op == token.MUL && y.Op == token.MUL {
			return sameAddr(x.X, y.X)
		}
	case *ssa.Call:
		y, ok := b.(*ssa.Call)
		if !ok {
			return false
		}
		// pure getter on the same receiver: method of an ast type without
		// further arguments
		fx, fy := x.Call.StaticCallee(), y.Call.StaticCallee()
		if fx != nil && fx == fy && fnPkgPath(fx) == pkgAST && len(x.Call.Args) == 1 && len(y.Call.Args) == 1 {
			return sameValue(x.Call.Args[0], y.Call.Args[0])
		}
	case *ssa.Extract:
		y, ok := b.(*ssa.Extract)
		if ok && x.Index == y.Index {
			return x.Tuple == y.Tuple
		}
	}
	return false
}

func sameAddr(a, b ssa.Value) bool {
	if a == b {
		return true
	}
	x, ok1 := a.(*ssa.FieldAddr)
	y, ok2 := b.(*ssa.FieldAddr)
	if ok1 && ok2 && x.Field == y.Field {
		return sameValue(x.X, y.X) || sameAddr(x.X, y.X)
	}
	return false
}

// constInt returns the integer value of a constant.
func constInt(v ssa.Value) (int64, bool) {
	c, ok := stripConv(v).(*ssa.Const)
	if !ok || c.Value == nil {
		return 0, false
	}
	if c.Value.Kind() != constant.Int {
		return 0, false
	}
	return constant.Int64Val(c.Value)
}

// excludedConsts: constants c for which "v != c" is known, and the constant k
// if "v == k" is known (has, k).
func excludedConsts(fs []Fact, v ssa.Value) (excl map[int64]bool, eq *int64) {
	excl = map[int64]bool{}
	for _, f := range fs {
		bo, ok := f.Cond.(*ssa.BinOp)
		if !ok || (bo.Op != token.EQL && bo.Op != token.NEQ) {
			continue
		}
		var other ssa.Value
		switch {
		case sameValue(bo.X, v):
			other = bo.Y
		case sameValue(bo.Y, v):
			other = bo.X
		default:
			continue
		}
		c, ok := constInt(other)
		if !ok {
			continue
		}
		isEq := (bo.Op == token.EQL) == f.Truth
		if isEq {
			cc := c
			eq = &cc
		} else {
			excl[c] = true
		}
	}
	return
}

// typeFacts: for interface value v, the types it is known to be / not to be.
func typeFacts(fs []Fact, v ssa.Value) (is types.Type, isNot []types.Type, isNil, notNil bool) {
	for _, f := range fs {
		switch c := f.Cond.(type) {
		case *ssa.Extract:
			ta, ok := c.Tuple.(*ssa.TypeAssert)
			if !ok || c.Index != 1 || !sameValue(ta.X, v) {
				continue
			}
			if f.Truth {
				is = ta.AssertedType
			} else {
				isNot = append(isNot, ta.AssertedType)
			}
		case *ssa.BinOp:
			if c.Op != token.EQL && c.Op != token.NEQ {
				continue
			}
			var other ssa.Value
			switch {
			case sameValue(c.X, v):
				other = c.Y
			case sameValue(c.Y, v):
				other = c.X
			default:
				continue
			}
			if k, ok := other.(*ssa.Const); ok && k.Value == nil {
				if (c.Op == token.EQL) == f.Truth {
					isNil = true
				} else {
					notNil = true
				}
			}
		}
	}
	return
}

// --- universes ---------------------------------------------------------------

// TypeSet is a finite set of dynamic types, or Top (unknown).
type TypeSet struct {
	Top   bool
	Types []types.Type // may include untyped nil for "nil interface"
	Why   string
}

func (s *TypeSet) add(t types.Type) {
	for _, x := range s.Types {
		if types.Identical(x, t) {
			return
		}
	}
	s.Types = append(s.Types, t)
}

func (s *TypeSet) union(o *TypeSet) {
	if o.Top {
		s.Top = true
		if s.Why == "" {
			s.Why = o.Why
		}
	}
	for _, t := range o.Types {
		s.add(t)
	}
}

func (s *TypeSet) strings() []string {
	var out []string
	for _, t := range s.Types {
		out = append(out, typeStr(t))
	}
	sort.Strings(out)
	return out
}

type universeCtx struct {
	p     *Prog
	depth int
	seen  map[ssa.Value]bool
}

// dynTypes computes the set of dynamic types an interface-typed SSA value may
// hold.
func (p *Prog) dynTypes(v ssa.Value) *TypeSet {
	c := &universeCtx{p: p, seen: map[ssa.Value]bool{}}
	return c.dyn(v, 0)
}

func (c *universeCtx) dyn(v ssa.Value, depth int) *TypeSet {
	out := &TypeSet{}
	if depth > 6 {
		out.Top, out.Why = true, "depth"
		return out
	}
	if c.seen[v] {
		return out
	}
	c.seen[v] = true
	defer delete(c.seen, v)
	switch x := v.(type) {
	case *ssa.MakeInterface:
		out.add(x.X.Type())
	case *ssa.Const:
		if x.Value == nil {
			out.add(types.Typ[types.UntypedNil])
		} else {
			out.add(x.Type())
		}
	case *ssa.ChangeInterface:
		out.union(c.dyn(x.X, depth))
	case *ssa.ChangeType:
		out.union(c.dyn(x.X, depth))
	case *ssa.Phi:
		for _, e := range x.Edges {
			out.union(c.dyn(e, depth))
		}
	case *ssa.TypeAssert:
		if !types.IsInterface(x.AssertedType) {
			out.add(x.AssertedType)
		} else {
			out.union(c.dyn(x.X, depth))
		}
	case *ssa.Extract:
		if ta, ok := x.Tuple.(*ssa.TypeAssert); ok && x.Index == 0 {
			if !types.IsInterface(ta.AssertedType) {
				out.add(ta.AssertedType)
			} else {
				out.union(c.dyn(ta.X, depth))
			}
			return out
		}
		if call, ok := x.Tuple.(*ssa.Call); ok {
			out.union(c.callResult(call, x.Index, depth))
			return out
		}
		out.Top, out.Why = true, "extract of "+x.Tuple.String()
	case *ssa.Call:
		out.union(c.callResult(x, 0, depth))
	case *ssa.Parameter:
		out.union(c.param(x, depth))
	default:
		if !types.IsInterface(v.Type()) {
			out.add(v.Type())
		} else {
			out.Top, out.Why = true, "value "+v.Name()+" of "+v.Parent().Name()
		}
	}
	return out
}

// callResult: union of the dynamic types of result #idx over the returns of
// the (static or VTA-resolved module) callees.
func (c *universeCtx) callResult(call *ssa.Call, idx int, depth int) *TypeSet {
	out := &TypeSet{}
	var callees []*ssa.Function
	if sc := call.Call.StaticCallee(); sc != nil {
		callees = []*ssa.Function{sc}
	} else if n := c.p.CG.Nodes[call.Parent()]; n != nil {
		for _, e := range n.Out {
			if e.Site == call {
				callees = append(callees, e.Callee.Func)
			}
		}
	}
	if len(callees) == 0 {
		out.Top, out.Why = true, "unresolved call "+call.String()
		return out
	}
	for _, f := range callees {
		if !inModule(f) || f.Blocks == nil {
			rt := f.Signature.Results().At(idx).Type()
			if !types.IsInterface(rt) {
				out.add(rt)
				continue
			}
			out.Top, out.Why = true, "result of "+f.String()
			continue
		}
		for _, b := range f.Blocks {
			if r, ok := b.Instrs[len(b.Instrs)-1].(*ssa.Return); ok && idx < len(r.Results) {
				out.union(c.dyn(r.Results[idx], depth+1))
			}
		}
	}
	return out
}

// argAt returns the SSA value bound to parameter index pi of callee at a call
// edge (accounting for invoke-mode calls whose receiver is separate).
func argAt(e *callgraph.Edge, pi int) ssa.Value {
	if e.Site == nil {
		return nil
	}
	cc := e.Site.Common()
	if cc.IsInvoke() {
		if pi == 0 {
			return cc.Value
		}
		pi--
	}
	callee := e.Callee.Func
	// bound-method / closure: free variables are not parameters
	_ = callee
	if pi < len(cc.Args) {
		return cc.Args[pi]
	}
	return nil
}

func paramIndex(x *ssa.Parameter) int {
	for i, q := range x.Parent().Params {
		if q == x {
			return i
		}
	}
	return -1
}

// param: union over call sites. When the function is reached as a callback
// (dynamic call of a parameter of G), the argument expression is evaluated per
// call site of G that passed this very function.
func (c *universeCtx) param(x *ssa.Parameter, depth int) *TypeSet {
	out := &TypeSet{}
	fn := x.Parent()
	pi := paramIndex(x)
	n := c.p.CG.Nodes[fn]
	if n == nil || len(n.In) == 0 || pi < 0 {
		out.Top, out.Why = true, "parameter "+x.Name()+" of "+fn.Name()+" without resolved callers"
		return out
	}
	for _, e := range n.In {
		if e.Site == nil {
			out.Top, out.Why = true, "synthetic edge into "+fn.Name()
			continue
		}
		cc := e.Site.Common()
		caller := e.Caller.Func
		if !inModule(caller) {
			// called from a dependency (e.g. fmt → String): exported API
			// contract, unknown argument
			out.Top, out.Why = true, fn.Name()+" is called from "+caller.String()
			continue
		}
		a := argAt(e, pi)
		if a == nil {
			out.Top, out.Why = true, "argument not found at "+caller.Name()
			continue
		}
		// dynamic call through a parameter of the caller: pair with the call
		// sites of the caller that passed this function.
		if gp, ok := cc.Value.(*ssa.Parameter); ok && !cc.IsInvoke() && gp.Parent() == caller {
			if ap, ok := a.(*ssa.Parameter); ok && ap.Parent() == caller {
				k := paramIndex(gp)
				m := paramIndex(ap)
				gn := c.p.CG.Nodes[caller]
				matched := false
				for _, ge := range gn.In {
					fa := argAt(ge, k)
					if fa == nil || !valueIsFunc(fa, fn) {
						continue
					}
					matched = true
					if ma := argAt(ge, m); ma != nil {
						out.union(c.dyn(ma, depth+1))
					} else {
						out.Top, out.Why = true, "paired argument not found"
					}
				}
				if matched {
					continue
				}
			}
		}
		out.union(c.dyn(a, depth+1))
	}
	return out
}

// valueIsFunc: v denotes function fn (directly, as a closure, or as the
// bound-method wrapper of fn).
func valueIsFunc(v ssa.Value, fn *ssa.Function) bool {
	switch x := v.(type) {
	case *ssa.Function:
		return x == fn || wraps(x, fn)
	case *ssa.MakeClosure:
		f := x.Fn.(*ssa.Function)
		return f == fn || wraps(f, fn)
	case *ssa.ChangeType:
		return valueIsFunc(x.X, fn)
	}
	return false
}

// wraps: w is a synthetic wrapper ($bound / $thunk) whose body calls fn.
func wraps(w, fn *ssa.Function) bool {
	if w.Synthetic == "" {
		return false
	}
	for _, b := range w.Blocks {
		for _, ins := range b.Instrs {
			if ci, ok := ins.(ssa.CallInstruction); ok && ci.Common().StaticCallee() == fn {
				return true
			}
		}
	}
	return false
}

// enumUniverse: the set of constants an enum-typed value may take: for a
// constant itself; for a parameter the union over call sites; otherwise every
// declared constant of the type.
func (p *Prog) enumUniverse(v ssa.Value, ei *EnumInfo, depth int) map[int64]bool {
	all := func() map[int64]bool {
		m := map[int64]bool{}
		for _, c := range ei.Consts {
			if iv, ok := constant.Int64Val(c.Val()); ok {
				m[iv] = true
			}
		}
		return m
	}
	if depth > 4 {
		return all()
	}
	v = stripConv(v)
	if c, ok := constInt(v); ok {
		return map[int64]bool{c: true}
	}
	switch x := v.(type) {
	case *ssa.Phi:
		m := map[int64]bool{}
		for _, e := range x.Edges {
			for k := range p.enumUniverse(e, ei, depth+1) {
				m[k] = true
			}
		}
		return m
	case *ssa.Parameter:
		fn := x.Parent()
		n := p.CG.Nodes[fn]
		pi := paramIndex(x)
		if n == nil || len(n.In) == 0 || pi < 0 {
			return all()
		}
		m := map[int64]bool{}
		for _, e := range n.In {
			if e.Site == nil || !inModule(e.Caller.Func) {
				return all()
			}
			a := argAt(e, pi)
			if a == nil {
				return all()
			}
			for k := range p.enumUniverse(a, ei, depth+1) {
				m[k] = true
			}
		}
		return m
	}
	return all()
}

// enumOf returns the ast enum a type is, if any.
func (p *Prog) enumOf(t types.Type) *EnumInfo {
	for _, e := range p.A.Enums {
		if types.Identical(t, e.Type) {
			return e
		}
	}
	return nil
}

// ExpRet is one way of leaving a function: a return instruction together with
// the incoming edge that selects the values of the phis it returns (single-exit
// style `res = …; return res` is expanded into one ExpRet per assignment).
type ExpRet struct {
	Instr   *ssa.Return
	Block   *ssa.BasicBlock // block whose facts apply (the predecessor for expanded phis)
	Results []ssa.Value
	Facts   []Fact
}

// expandedReturns lists the returns of fn, expanding result phis that sit in
// the return block (or in jump-only blocks leading to it) edge by edge.
func expandedReturns(fn *ssa.Function) []ExpRet {
	var out []ExpRet
	for _, b := range fn.Blocks {
		if b == fn.Recover {
			continue
		}
		r, ok := b.Instrs[len(b.Instrs)-1].(*ssa.Return)
		if !ok {
			continue
		}
		res := make([]ssa.Value, len(r.Results))
		for i, v := range r.Results {
			res[i] = unspill(b, r, v)
		}
		expandRet(r, b, res, factsAt(b), 0, &out)
	}
	return out
}

func expandRet(r *ssa.Return, b *ssa.BasicBlock, res []ssa.Value, fs []Fact, depth int, out *[]ExpRet) {
	hasPhi := false
	for _, v := range res {
		if ph, ok := stripConv(v).(*ssa.Phi); ok && ph.Block() == b {
			hasPhi = true
		}
	}
	if !hasPhi || depth > 3 || len(b.Preds) == 0 {
		*out = append(*out, ExpRet{r, b, res, fs})
		return
	}
	for i, pr := range b.Preds {
		nres := make([]ssa.Value, len(res))
		for k, v := range res {
			nres[k] = v
			if ph, ok := stripConv(v).(*ssa.Phi); ok && ph.Block() == b {
				nres[k] = ph.Edges[i]
			}
		}
		efs := edgeFacts(pr, succIndex(pr, b))
		// a jump-only predecessor holding further phis: keep expanding
		jumpOnly := true
		for _, ins := range pr.Instrs {
			switch ins.(type) {
			case *ssa.Phi, *ssa.Jump, *ssa.DebugRef:
			default:
				jumpOnly = false
			}
		}
		if jumpOnly {
			expandRet(r, pr, nres, efs, depth+1, out)
		} else {
			*out = append(*out, ExpRet{r, pr, nres, efs})
		}
	}
}

// shortCircuit decomposes a materialised `a || b || …` (isOr) or `a && b && …`
// into its operands; ok is false when v is not such a value.
func shortCircuit(v ssa.Value, depth int) (ops []ssa.Value, isOr, ok bool) {
	x, isPhi := v.(*ssa.Phi)
	if !isPhi || depth > 6 || len(x.Edges) < 2 || len(x.Block().Preds) != len(x.Edges) {
		return nil, false, false
	}
	// every edge but the last carries the same boolean constant and comes
	// straight from a block that tests one operand
	var k bool
	first := true
	var rest ssa.Value
	for i, e := range x.Edges {
		c, isC := e.(*ssa.Const)
		if !isC || c.Value == nil || c.Value.Kind() != constant.Bool {
			if rest != nil {
				return nil, false, false
			}
			rest = e
			continue
		}
		kv := constant.BoolVal(c.Value)
		if first {
			k, first = kv, false
		} else if kv != k {
			return nil, false, false
		}
		pr := x.Block().Preds[i]
		iff, isIf := pr.Instrs[len(pr.Instrs)-1].(*ssa.If)
		if !isIf || len(pr.Succs) != 2 {
			return nil, false, false
		}
		if (pr.Succs[0] == x.Block()) != k {
			return nil, false, false
		}
		ops = append(ops, iff.Cond)
	}
	if first || rest == nil {
		return nil, false, false
	}
	if sub, subOr, ok2 := shortCircuit(rest, depth+1); ok2 && subOr == k {
		ops = append(ops, sub...)
	} else {
		ops = append(ops, rest)
	}
	return ops, k, true
}
