package main

import (
	"fmt"
	"sort"
	"strings"

	"golang.org/x/tools/go/ssa"
)

func (p *Prog) entryRoots() []*ssa.Function {
	var roots []*ssa.Function
	for _, n := range p.A.EntryOrder {
		if f := p.ssaOf(p.A.Entry[n]); f != nil {
			roots = append(roots, f)
		}
	}
	return roots
}

var ruleExh = &Rule{
	Name: "R-EXH", NeedSSA: true,
	Doc: "every ErrInvalid construction reachable from the entry points sits in a block that is infeasible for parser-produced paths and documented item types: the dispatching switch above it covers every node shape the grammar can build for that operand slot (E7), every enum constant it can carry, every one of the 13 item types / 5 datetime types — judged per call context, three call levels up, callbacks paired with the call site that passed them",
	Run: func(p *Prog) *RuleOut {
		out := newOut("R-EXH")
		e, err := p.exhEngine()
		if err != nil {
			out.undecided("grammar engine", "-", "", err.Error())
			return out
		}
		if len(e.g.Unknown) > 0 {
			out.undecided("grammar actions", "-", "", "constructs not understood by the grammar interpreter: "+strings.Join(e.g.Unknown, "; "))
		}
		ee := p.errors()
		reach := p.reachFrom(p.entryRoots())
		type site struct {
			src *ErrSrc
		}
		var sites []*ErrSrc
		for _, s := range ee.srcs {
			if s.Class == "Invalid" && s.Fn != nil && reach.Set[s.Fn] {
				sites = append(sites, s)
			}
		}
		sort.Slice(sites, func(i, j int) bool {
			if sites[i].Fn.String() != sites[j].Fn.String() {
				return sites[i].Fn.String() < sites[j].Fn.String()
			}
			return sites[i].Instr.Pos() < sites[j].Instr.Pos()
		})
		out.Counts["ErrInvalid_sites_reachable"] = len(sites)
		out.Floors["ErrInvalid_sites_reachable"] = 10
		out.Counts["node_shapes_built_by_grammar"] = len(e.g.Built)
		out.Floors["node_shapes_built_by_grammar"] = 40
		ord := ordinals{}
		for _, s := range sites {
			n := ord.next(fnName(s.Fn))
			base := fmt.Sprintf("%s: ErrInvalid #%d", fnName(s.Fn), n)
			ctxs := e.feasibleContexts(s.Instr.Block())
			if len(ctxs) > 0 && malformedNumberOnly(s.Instr.Block()) {
				out.excepted(base, p.pos(s.Instr.Pos()), fnName(s.Fn),
					"reached only for a json.Number that converts to neither int64 nor float64 and whose error is not a range error, i.e. text that is not a syntactically valid JSON number: outside the domain the property quantifies over")
				continue
			}
			if len(ctxs) == 0 {
				out.ok(base, p.pos(s.Instr.Pos()), fnName(s.Fn), fmt.Sprintf("infeasible in all %d call contexts", len(e.contexts(s.Fn, e.depthCap))))
				continue
			}
			// group by the calling function of the context
			by := map[string][]string{}
			for _, c := range ctxs {
				who := c.desc
				if i := strings.Index(who, " at "); i > 0 {
					who = who[:i]
				}
				by[who] = append(by[who], e.describeCtx(c, s.Instr.Block()))
			}
			for _, who := range sortedKeys(boolKeys(by)) {
				key := base + " reachable from " + who
				w := by[who]
				sort.Strings(w)
				if len(w) > 4 {
					w = w[:4]
				}
				out.viol(key, p.pos(s.Instr.Pos()), fnName(s.Fn),
					"an error reserved for implementation bugs can be returned for a parser-produced path / documented value ("+s.Text+")", w...)
			}
		}
		return out
	},
}

// describeCtx: why the block is reachable: the surviving values of the facts'
// subjects.
func (e *exh) describeCtx(c *Ctx, b *ssa.BasicBlock) string {
	var parts []string
	fs := factsAt(b)
	done := map[ssa.Value]bool{}
	for _, f := range fs {
		for _, subj := range factSubjects(f) {
			if done[subj] {
				continue
			}
			done[subj] = true
			k := e.kindOf(subj.Type())
			if k == "other" || k == "funcs" {
				continue
			}
			av := e.refineAt(e.eval(subj, c, b, 0), subj, b, c)
			parts = append(parts, describe(subj)+" ∈ "+trunc(av.String(e.p), 160))
		}
	}
	return c.desc + ": " + strings.Join(parts, "; ")
}

func init() {
	register(ruleExh)
}

// malformedNumberOnly: the block is reached only after errors.Is(err,
// strconv.ErrRange) was found false for a json.Number conversion error.
func malformedNumberOnly(b *ssa.BasicBlock) bool {
	for _, f := range factsAt(b) {
		c, ok := f.Cond.(*ssa.Call)
		if !ok || f.Truth || calleeQualified(&c.Call) != "errors.Is" || len(c.Call.Args) != 2 {
			continue
		}
		if g := loadedGlobal(c.Call.Args[1]); g != nil && g.Pkg != nil && g.Pkg.Pkg.Path() == "strconv" && g.Name() == "ErrRange" {
			return true
		}
	}
	return false
}
