package main

import (
	"fmt"
	"go/token"
	"go/types"
	"sort"
	"strings"

	"golang.org/x/tools/go/ssa"
)

func (p *Prog) entryRoots() []*ssa.Function {
	var roots []*ssa.Function
	for _, n := range p.A.EntryOrder {
		if f := p.ssaOf(p.A.Entry[n]); f != nil {
			roots = append(roots, f)
		}
	}
	return roots
}

var ruleExh = &Rule{
	Name: "R-EXH", NeedSSA: true,
	Doc: "every ErrInvalid construction reachable from the entry points sits in a block that is infeasible for parser-produced paths and documented item types: the dispatching switch above it covers every node shape the grammar can build for that operand slot (E7), every enum constant it can carry, every one of the 13 item types / 5 datetime types — judged per call context, three call levels up, callbacks paired with the call site that passed them",
	Run: func(p *Prog) *RuleOut {
		out := newOut("R-EXH")
		e, err := p.exhEngine()
		if err != nil {
			out.undecided("grammar engine", "-", "", err.Error())
			return out
		}
		if len(e.g.Unknown) > 0 {
			out.undecided("grammar actions", "-", "", "constructs not understood by the grammar interpreter: "+strings.Join(e.g.Unknown, "; "))
		}
		ee := p.errors()
		reach := p.reachFrom(p.entryRoots())
		type site struct {
			src *ErrSrc
		}
		var sites []*ErrSrc
		for _, s := range ee.srcs {
			if s.Class == "Invalid" && s.Fn != nil && reach.Set[s.Fn] {
				sites = append(sites, s)
			}
		}
		sort.Slice(sites, func(i, j int) bool {
			if sites[i].Fn.String() != sites[j].Fn.String() {
				return sites[i].Fn.String() < sites[j].Fn.String()
			}
			return sites[i].Instr.Pos() < sites[j].Instr.Pos()
		})
		out.Counts["ErrInvalid_sites_reachable"] = len(sites)
		out.Floors["ErrInvalid_sites_reachable"] = 3
		out.Counts["node_shapes_built_by_grammar"] = len(e.g.Built)
		out.Floors["node_shapes_built_by_grammar"] = 40
		ord := ordinals{}
		for _, s := range sites {
			n := ord.next(fnName(s.Fn))
			base := fmt.Sprintf("%s: ErrInvalid #%d", fnName(s.Fn), n)
			ctxs := e.feasibleContexts(s.Instr.Block())
			if len(ctxs) > 0 && malformedNumberOnly(s.Instr.Block()) {
				out.excepted(base, p.pos(s.Instr.Pos()), fnName(s.Fn),
					"reached only for a json.Number that converts to neither int64 nor float64 and whose error is not a range error, i.e. text that is not a syntactically valid JSON number: outside the domain the property quantifies over")
				continue
			}
			if len(ctxs) == 0 {
				out.ok(base, p.pos(s.Instr.Pos()), fnName(s.Fn), fmt.Sprintf("infeasible in all %d call contexts", len(e.contexts(s.Fn, e.depthCap))))
				continue
			}
			// group by the calling function of the context
			by := map[string][]string{}
			for _, c := range ctxs {
				who := c.desc
				if i := strings.Index(who, " at "); i > 0 {
					who = who[:i]
				}
				by[who] = append(by[who], e.describeCtx(c, s.Instr.Block()))
			}
			for _, who := range sortedKeys(boolKeys(by)) {
				key := base + " reachable from " + who
				w := by[who]
				sort.Strings(w)
				if len(w) > 4 {
					w = w[:4]
				}
				out.viol(key, p.pos(s.Instr.Pos()), fnName(s.Fn),
					"an error reserved for implementation bugs can be returned for a parser-produced path / documented value ("+s.Text+")", w...)
			}
		}
		return out
	},
}

// describeCtx: why the block is reachable: the surviving values of the facts'
// subjects.
func (e *exh) describeCtx(c *Ctx, b *ssa.BasicBlock) string {
	var parts []string
	fs := factsAt(b)
	done := map[ssa.Value]bool{}
	for _, f := range fs {
		for _, subj := range factSubjects(f) {
			if done[subj] {
				continue
			}
			done[subj] = true
			k := e.kindOf(subj.Type())
			if k == "other" || k == "funcs" {
				continue
			}
			av := e.refineAt(e.eval(subj, c, b, 0), subj, b, c)
			parts = append(parts, describe(subj)+" ∈ "+trunc(av.String(e.p), 160))
		}
	}
	return c.desc + ": " + strings.Join(parts, "; ")
}

func init() {
	register(ruleExh)
}

// malformedNumberOnly: the block is reached only after errors.Is(err,
// strconv.ErrRange) was found false for the error of the number's conversion
// to float64.
func malformedNumberOnly(b *ssa.BasicBlock) bool {
	for _, f := range factsAt(b) {
		c, ok := f.Cond.(*ssa.Call)
		if !ok || f.Truth || calleeQualified(&c.Call) != "errors.Is" || len(c.Call.Args) != 2 {
			continue
		}
		if g := loadedGlobal(c.Call.Args[1]); g != nil && g.Pkg != nil && g.Pkg.Pkg.Path() == "strconv" && g.Name() == "ErrRange" && floatConversionError(c.Call.Args[0], 0) {
			return true
		}
	}
	return false
}

// floatConversionError: v is the error of the widest conversion of a number's
// text, (json.Number).Float64 or strconv.ParseFloat. The error of Int64 not
// being a range error says nothing about the text: "1e400" and "1.5" fail
// Int64 with a syntax error and are valid JSON numbers.
func floatConversionError(v ssa.Value, depth int) bool {
	v = stripConvPlain(v)
	if depth > 4 {
		return false
	}
	switch x := v.(type) {
	case *ssa.Phi:
		for _, e := range x.Edges {
			if !floatConversionError(e, depth+1) {
				return false
			}
		}
		return len(x.Edges) > 0
	case *ssa.Extract:
		c, ok := x.Tuple.(*ssa.Call)
		if !ok || !isErrorType(x.Type()) {
			return false
		}
		switch calleeQualified(&c.Call) {
		case "encoding/json.Float64", "strconv.ParseFloat":
			return true
		}
		// … handed on by a helper of the module every non-nil error of
		// which is that error (`num, err := toNumber(val)`)
		if sc := c.Call.StaticCallee(); sc != nil && !c.Call.IsInvoke() && inModule(sc) && sc.Blocks != nil && x.Index < sc.Signature.Results().Len() {
			n := 0
			for _, r := range returnsOf(sc) {
				rv := stripConvPlain(r.Results[x.Index])
				if isNilConst(rv) {
					continue
				}
				if !floatConversionError(rv, depth+1) {
					return false
				}
				n++
			}
			return n > 0
		}
	}
	return false
}

// R-SILENTDEFAULT: a dispatching switch over an ast enum must not fall through
// to a silent "not found".
var ruleSilentDefault = &Rule{
	Name: "R-SILENTDEFAULT", NeedSSA: true,
	Doc: "no executor answers a node silently with a non-failed status because its dispatching switch has no arm for it: a return of a constant non-failed status with a nil error that is reached only by excluding constants of an ast enum must be infeasible for every node shape the grammar can build",
	Run: func(p *Prog) *RuleOut {
		out := newOut("R-SILENTDEFAULT")
		e, err := p.exhEngine()
		if err != nil {
			out.undecided("engine", "-", "", err.Error())
			return out
		}
		failed := constOf(p.A.StatusFailed)
		n := 0
		for _, fn := range p.execFuncs() {
			if p.pairKind(fn.Signature) != "status" {
				continue
			}
			for _, r := range returnsOf(fn) {
				k, isC := constInt(r.Results[0])
				if !isC || k == failed || !isNilConst(stripConv(r.Results[1])) {
					continue
				}
				// reached by exclusion only?
				excl, pos := 0, 0
				for _, f := range factsAt(r.Instr.Block()) {
					bo, ok := f.Cond.(*ssa.BinOp)
					if !ok || p.enumOf(bo.X.Type()) == nil {
						continue
					}
					if _, ok := constInt(bo.Y); !ok {
						continue
					}
					if (bo.Op == token.EQL) == f.Truth {
						pos++
					} else {
						excl++
					}
				}
				if excl < 2 || pos > 0 {
					continue
				}
				n++
				key := fnName(fn) + ": silent default of the operator switch"
				if ctxs := e.feasibleContexts(r.Instr.Block()); len(ctxs) == 0 {
					out.ok(key, p.pos(r.Instr.Pos()), fnName(fn), "every constant the grammar can put there has an arm")
				} else {
					out.viol(key, p.pos(r.Instr.Pos()), fnName(fn), "a node the parser can build is answered with a silent 'not found' because the switch has no arm for its operator: "+e.describeCtx(ctxs[0], r.Instr.Block()))
				}
			}
		}
		out.Counts["silent_defaults"] = n
		out.Floors["silent_defaults"] = 2
		return out
	},
}

// R-ITEMTYPES: values handed on as items have documented dynamic types.
var ruleItemTypes = &Rule{
	Name: "R-ITEMTYPES", NeedSSA: true,
	Doc: "every value the executor hands to the continuation or appends to a result list has a dynamic type inside the 13-type item universe (nil, bool, int64, float64, json.Number, string, []any, map[string]any and the five datetime types), so that every downstream type switch stays exhaustive",
	Run: func(p *Prog) *RuleOut {
		out := newOut("R-ITEMTYPES")
		e, err := p.exhEngine()
		if err != nil {
			out.undecided("engine", "-", "", err.Error())
			return out
		}
		inUniverse := func(t types.Type) bool {
			for _, u := range p.A.ItemTypes {
				if types.Identical(u, t) {
					return true
				}
			}
			return false
		}
		n := 0
		ord := ordinals{}
		for _, fn := range p.execFuncs() {
			ctx := &Ctx{fn: fn}
			for _, b := range fn.Blocks {
				for _, ins := range b.Instrs {
					c, ok := ins.(*ssa.Call)
					if !ok {
						continue
					}
					sig := calleeSig(c)
					isCont := sig != nil && p.pairKind(sig) == "status" && isMethodOfExecutor(p, c.Call.StaticCallee())
					isAppend := c.Call.StaticCallee() != nil && c.Call.StaticCallee().Signature.Recv() != nil && namedOf(c.Call.StaticCallee().Signature.Recv().Type()) == p.A.ValueList
					if !isCont && !isAppend {
						continue
					}
					for ai, a := range c.Call.Args {
						it, ok := a.Type().Underlying().(*types.Interface)
						if !ok || it.NumMethods() != 0 {
							continue
						}
						if sc := c.Call.StaticCallee(); sc != nil && ai < len(sc.Params) && messageOnly(sc.Params[ai], 0) {
							continue // a parameter that only feeds error messages
						}
						n++
						key := fmt.Sprintf("%s: item handed on #%d", fnName(fn), ord.next(fnName(fn)))
						av := e.evalAt(a, ctx, b)
						if av.kind != "types" || av.Top {
							out.viol(key, p.pos(c.Pos()), fnName(fn), "the dynamic type of a value handed on as an item is not bounded")
							continue
						}
						var bad []string
						for _, t := range av.Types {
							if !inUniverse(t) {
								bad = append(bad, typeStr(t))
							}
						}
						if len(bad) == 0 {
							out.ok(key, p.pos(c.Pos()), fnName(fn), "within the item universe")
						} else {
							sort.Strings(bad)
							out.viol(key, p.pos(c.Pos()), fnName(fn), "a value of type "+strings.Join(bad, ", ")+" is handed on as an item: no downstream type switch has an arm for it")
						}
					}
				}
			}
		}
		out.Counts["items_handed_on"] = n
		out.Floors["items_handed_on"] = 10
		return out
	},
}

func init() {
	register(ruleSilentDefault, ruleItemTypes)
	addProp(&PropSpec{
		ID:          "C01",
		Rules:       []string{"R-EXH", "R-SCRATCHSTATUS", "R-CTXZONE", "R-FOLD", "R-SILENTDEFAULT", "R-ITEMTYPES", "R-TOWER", "R-ONELEVEL", "R-MODEGUARD", "R-FILTER", "R-KLEENE", "R-PREDLOOP", "R-CMPTABLE", "R-ZONE", "R-TRAVERSAL", "R-SUBEVAL", "R-LAST", "R-FAILSTOP", "R-STATE", "R-SCOPE", "R-OVF", "R-TRUNC", "R-LITCHAIN", "R-PREC", "R-EMPTYPROD", "R-EXECADDR", "R-F2I", "R-EXACTCMP", "R-EMITORDER", "R-COLLMONO", "R-NEXTBLIND", "R-ARITHOP", "R-FOUNDKEPT", "R-GATE", "R-OPERANDORDER", "R-UNWRAPTHREAD"},
		Explanation: "Conformance of Query is a statement about values; the part of it that is a shape of the code is that parser and executor speak the same vocabulary: every node shape and enum constant that a grammar action can construct (computed by abstract interpretation of the goyacc actions) has an executor arm that neither falls into the implementation-bug error nor into a silent 'not found'; every produced item is of a documented item type; the numeric representations are handled together. A feature added to the grammar without an executor arm, or a case list that loses a member, breaks conformance for every path using it and passes a suite that has no row for it.",
		Decided: []string{"R-EXH: no feasible ErrInvalid for parser-produced paths (today: 5 known findings, D3)", "R-SILENTDEFAULT: no operator switch answers a buildable node with a silent 'not found'",
			"R-ITEMTYPES: produced items stay inside the 13-type universe", "R-TOWER: numeric representations are siblings",
			"the per-construct decision procedures that the narrower properties also rely on, as necessary conditions of conformance: R-ONELEVEL (one level of lax unwrapping), R-MODEGUARD (structural errors only in strict mode), R-FILTER, R-KLEENE, R-PREDLOOP, R-CMPTABLE (filter, connective and comparison tables), R-ZONE (casts of every datetime comparison cell), R-TRAVERSAL (`.**`), R-SUBEVAL and R-LAST (subscripts), R-FAILSTOP (a failure stops the traversal)"},
		NotDecided:  []string{"which items each step yields, their order and unwrapping depth: the substance of C01 quantifies over documents and is not a static fact; no claim is made about it", "D9 (lax `-\"a\"`: Query errs, Exists true) and similar value-level disagreements"},
		Assumptions: []string{"item values of the input document have documented dynamic types", "ast.LinkNodes chains its arguments through next"},
		Trusted:     append(append([]string{}, baseTrusted...), "goyacc rule numbering"),
	})
}

// messageOnly: every use of the parameter is as an operand of a formatted
// message (stored into a variadic argument array) or is handed to another
// message-only parameter.
func messageOnly(q *ssa.Parameter, depth int) bool {
	if depth > 3 || len(*q.Referrers()) == 0 {
		return false
	}
	for _, r := range *q.Referrers() {
		switch x := r.(type) {
		case *ssa.Store:
			ia, ok := x.Addr.(*ssa.IndexAddr)
			if !ok {
				return false
			}
			if al, ok := ia.X.(*ssa.Alloc); !ok || al.Comment != "varargs" {
				return false
			}
		case *ssa.Call:
			sc := x.Call.StaticCallee()
			if sc == nil || sc.Blocks == nil {
				return false
			}
			okAll := false
			for i, a := range x.Call.Args {
				if a == ssa.Value(q) && i < len(sc.Params) {
					if !messageOnly(sc.Params[i], depth+1) {
						return false
					}
					okAll = true
				}
			}
			if !okAll {
				return false
			}
		case *ssa.DebugRef:
		default:
			return false
		}
	}
	return true
}
