package main

import (
	"fmt"
	"go/constant"
	"go/types"
	"sort"
	"strings"

	"golang.org/x/tools/go/ssa"
)

// predConsts resolves the three outcome constants structurally: unknown is
// anchored in the boolean dispatcher; true/false are what the bool→outcome
// conversion function returns.
func (p *Prog) predTF() (t, f int64, conv *ssa.Function, err error) {
	for _, fn := range p.execFuncs() {
		sig := fn.Signature
		if sig.Recv() != nil || sig.Params().Len() != 1 || sig.Results().Len() != 1 {
			continue
		}
		if b, ok := sig.Params().At(0).Type().(*types.Basic); !ok || b.Kind() != types.Bool {
			continue
		}
		if !types.Identical(sig.Results().At(0).Type(), p.A.PredType) {
			continue
		}
		tx, rows := p.extractTable(fn, nil, &TableCfg{})
		var tv, fv *int64
		for _, r := range rows {
			if len(r.Out) != 1 {
				continue
			}
			for _, as := range tx.assignments(tx.atomsOf(guardTerms(r)...), nil) {
				if ok, _ := tx.satisfied(r, as); !ok {
					continue
				}
				v := tx.eval(r.Out[0], as, 0)
				if v.Kind != "int" {
					continue
				}
				k := v.K
				if as[fn.Params[0].Name()] == 1 {
					tv = &k
				} else {
					fv = &k
				}
			}
		}
		if tv != nil && fv != nil {
			return *tv, *fv, fn, nil
		}
	}
	return 0, 0, nil, fmt.Errorf("anchor unresolved: bool → outcome conversion function")
}

func guardTerms(r *PathRow) []*Term {
	var ts []*Term
	for _, g := range r.Guards {
		ts = append(ts, g.T)
	}
	return ts
}

// calleeInArm: the function the boolean dispatcher calls for node kind name.
func (p *Prog) boolArm(kind string) *ssa.Function { return p.armOf(p.ssaOf(p.A.BoolDispatcher), kind) }

// itemArm: the function the node dispatcher calls for node kind name.
func (p *Prog) itemArm(kind string) *ssa.Function { return p.armOf(p.ssaOf(p.A.Dispatcher), kind) }

func (p *Prog) armOf(bd *ssa.Function, kind string) *ssa.Function {
	if bd == nil {
		return nil
	}
	for _, b := range bd.Blocks {
		var is types.Type
		for _, f := range factsAt(b) {
			if ex, ok := f.Cond.(*ssa.Extract); ok && f.Truth {
				if ta, ok := ex.Tuple.(*ssa.TypeAssert); ok && ex.Index == 1 {
					is = ta.AssertedType
				}
			}
		}
		if n := namedOf(is); n == nil || n.Obj().Name() != kind {
			continue
		}
		for _, ins := range b.Instrs {
			if c, ok := ins.(*ssa.Call); ok && isMethodOfExecutor(p, c.Call.StaticCallee()) {
				return c.Call.StaticCallee()
			}
		}
	}
	return nil
}

type k3 struct{ F, T, U int64 }

func (k k3) and(a, b int64) int64 {
	switch {
	case a == k.F || b == k.F:
		return k.F
	case a == k.T && b == k.T:
		return k.T
	}
	return k.U
}
func (k k3) or(a, b int64) int64 {
	switch {
	case a == k.T || b == k.T:
		return k.T
	case a == k.F && b == k.F:
		return k.F
	}
	return k.U
}
func (k k3) not(a int64) int64 {
	switch a {
	case k.T:
		return k.F
	case k.F:
		return k.T
	}
	return k.U
}
func (k k3) name(v int64) string {
	switch v {
	case k.F:
		return "false"
	case k.T:
		return "true"
	case k.U:
		return "unknown"
	}
	return fmt.Sprint(v)
}

// enumGetterAtom: the atom of the row set that is a call to an ast getter
// returning the given enum.
func (tx *tableEx) enumGetterAtom(ei *EnumInfo) string {
	for _, k := range sortedAtomKeys(tx.atoms) {
		ai := tx.atoms[k]
		if ai.Call != nil && types.Identical(ai.Val.Type(), ei.Type) {
			return k
		}
	}
	return ""
}

func sortedAtomKeys(m map[string]*AtomInfo) []string {
	var ks []string
	for k := range m {
		ks = append(ks, k)
	}
	sort.Strings(ks)
	return ks
}

// operandCalls: the calls of a row to the given callee, in path order.
func operandCalls(r *PathRow, callee *ssa.Function) []*ssa.Call {
	var out []*ssa.Call
	for _, c := range r.Calls {
		if c.Call.StaticCallee() == callee {
			out = append(out, c)
		}
	}
	return out
}

func atomKey(c *ssa.Call, idx int) string { return fmt.Sprintf("%s#%d", c.Name(), idx) }

// argN: the i-th argument of the call, or nil.
func argN(c *ssa.Call, i int) ssa.Value {
	if c == nil || i >= len(c.Call.Args) {
		return nil
	}
	return c.Call.Args[i]
}

// getterArg: v is ast getter `name` applied to the function's node parameter.
func isGetterOf(v ssa.Value, name string) bool {
	if v == nil {
		return false
	}
	c, ok := stripConv(v).(*ssa.Call)
	if !ok {
		return false
	}
	sc := c.Call.StaticCallee()
	return sc != nil && fnPkgPath(sc) == pkgAST && sc.Name() == name && len(c.Call.Args) == 1
}

var ruleKleene = &Rule{
	Name: "R-KLEENE", NeedSSA: true,
	Doc: "complete decision tables of the connectives, extracted from the code and compared with three-valued (Kleene) logic: && and || over {false,true,unknown}×{error,nil} for both operands including the short-circuit arms, !, is unknown (never unknown), exists (status → outcome, strict and lax); an operand error always yields (unknown, that error); operand order is Left then Right",
	Run: func(p *Prog) *RuleOut {
		out := newOut("R-KLEENE")
		T, F, conv, err := p.predTF()
		if err != nil {
			out.undecided("outcome constants", "-", "", err.Error())
			return out
		}
		k := k3{F: F, T: T, U: constOf(p.A.PredUnknown)}
		out.note("outcome constants: false=%d true=%d unknown=%d (from %s)", k.F, k.T, k.U, conv.Name())
		bd := p.ssaOf(p.A.BoolDispatcher)
		ncells := 0
		// --- binary connectives
		if fb := p.boolArm("BinaryNode"); fb == nil {
			out.undecided("binary boolean executor", "-", "", "anchor unresolved")
		} else {
			tx, rows := p.extractTable(fb, nil, &TableCfg{})
			ei := p.A.Enums["BinaryOperator"]
			opAtom := tx.enumGetterAtom(ei)
			for _, conn := range []struct {
				name string
				f    func(a, b int64) int64
			}{{"BinaryAnd", k.and}, {"BinaryOr", k.or}} {
				c := ei.byName(conn.name)
				if c == nil || opAtom == "" {
					out.undecided(conn.name, p.pos(fb.Pos()), fnName(fb), "operator atom or constant unresolved")
					continue
				}
				n, probs := checkBinaryConnective(p, tx, rows, Assign{opAtom: constOfC(c)}, bd, k, conn.f)
				if h, dc := delegatedArmCall(tx, rows, opAtom, constOfC(c)); h != nil && dc != nil && h != fb && p.pairKind(h.Signature) == "pred" && h.Blocks != nil {
					// both connectives handed to one function with the deciding
					// outcome as a parameter (`return exec.connective(ctx, node,
					// value, predFalse)`): its table, with the parameters bound
					// to the constants of this arm's call
					base := Assign{}
					okArgs := true
					for i, a := range dc.Call.Args {
						if i >= len(h.Params) {
							break
						}
						if bt, isB := h.Params[i].Type().Underlying().(*types.Basic); isB && bt.Info()&(types.IsInteger|types.IsBoolean) != 0 {
							if kv, isC := constInt(a); isC {
								base[h.Params[i].Name()] = kv
							} else if kb, isC := a.(*ssa.Const); isC && kb.Value != nil && kb.Value.Kind() == constant.Bool {
								base[h.Params[i].Name()] = 0
								if constant.BoolVal(kb.Value) {
									base[h.Params[i].Name()] = 1
								}
							} else {
								okArgs = false
							}
						}
					}
					if okArgs {
						tx2, rows2 := p.extractTable(h, nil, &TableCfg{})
						n, probs = checkBinaryConnective(p, tx2, rows2, base, bd, k, conn.f)
					}
				}
				ncells += n
				key := "truth table of " + conn.name
				if len(probs) == 0 && n > 0 {
					out.ok(key, p.pos(fb.Pos()), fnName(fb), fmt.Sprintf("%d input combinations (outcome×error for both operands, short-circuit arms included) agree with Kleene logic", n))
				} else if n == 0 {
					out.viol(key, p.pos(fb.Pos()), fnName(fb), "no path of the executor handles this operator")
				} else {
					out.viol(key, p.pos(fb.Pos()), fnName(fb), "the connective deviates from three-valued logic: "+probs[0], probs...)
				}
			}
		}
		// --- unary connectives
		if fu := p.boolArm("UnaryNode"); fu == nil {
			out.undecided("unary boolean executor", "-", "", "anchor unresolved")
		} else {
			tx, rows := p.extractTable(fu, nil, &TableCfg{})
			ei := p.A.Enums["UnaryOperator"]
			opAtom := tx.enumGetterAtom(ei)
			for _, name := range []string{"UnaryNot", "UnaryIsUnknown", "UnaryExists"} {
				c := ei.byName(name)
				if c == nil || opAtom == "" {
					out.undecided(name, p.pos(fu.Pos()), fnName(fu), "operator atom or constant unresolved")
					continue
				}
				n, probs := checkUnaryConnective(p, tx, rows, opAtom, constOfC(c), name, bd, k)
				if h := delegatedArm(tx, rows, opAtom, constOfC(c)); h != nil && p.pairKind(h.Signature) == "pred" {
					// the arm hands the whole job to a function of its own
					// (`return exec.executeExistsItem(ctx, node, value)`): its table is the arm's
					tx2, rows2 := p.extractTable(h, nil, &TableCfg{})
					n, probs = checkUnaryConnective(p, tx2, rows2, "", 0, name, bd, k)
				}
				ncells += n
				key := "truth table of " + name
				if len(probs) == 0 && n > 0 {
					out.ok(key, p.pos(fu.Pos()), fnName(fu), fmt.Sprintf("%d input combinations agree with the stated table", n))
				} else if n == 0 {
					out.viol(key, p.pos(fu.Pos()), fnName(fu), "no path of the executor handles this operator")
				} else {
					out.viol(key, p.pos(fu.Pos()), fnName(fu), "deviates from the stated table: "+probs[0], probs...)
				}
			}
		}
		out.Counts["table_cells_checked"] = ncells
		out.Floors["table_cells_checked"] = 30
		return out
	},
}

func constOfC(c *types.Const) int64 { return constOf(c) }

// delegatedArm: every path taken for operator op returns, whole, the two
// results of one call to a module function; that function.
func delegatedArm(tx *tableEx, rows []*PathRow, opAtom string, op int64) *ssa.Function {
	h, _ := delegatedArmCall(tx, rows, opAtom, op)
	return h
}

// delegatedArmCall: the same, with the one call that delegates (nil when the
// arm delegates from several places).
func delegatedArmCall(tx *tableEx, rows []*PathRow, opAtom string, op int64) (*ssa.Function, *ssa.Call) {
	var h *ssa.Function
	var call *ssa.Call
	ncalls := 0
	n := 0
	for _, r := range rows {
		if r.Loop != nil || len(r.Out) != 2 {
			continue
		}
		names := tx.atomsOf(guardTerms(r)...)
		feasible := false
		for _, as := range tx.assignments(names, Assign{opAtom: op}) {
			if ok, _ := tx.satisfied(r, as); ok {
				feasible = true
				break
			}
		}
		if !feasible {
			continue
		}
		n++
		if r.Out[0].Kind != "atom" || r.Out[1].Kind != "atom" {
			return nil, nil
		}
		a0, a1 := tx.atoms[r.Out[0].Atom], tx.atoms[r.Out[1].Atom]
		if a0 == nil || a1 == nil || a0.Call == nil || a0.Call != a1.Call || a0.Index != 0 || a1.Index != 1 {
			return nil, nil
		}
		f := a0.Call.Call.StaticCallee()
		if f == nil || !inModule(f) || (h != nil && h != f) {
			return nil, nil
		}
		h = f
		if call != a0.Call {
			ncalls++
		}
		call = a0.Call
	}
	if n == 0 {
		return nil, nil
	}
	if ncalls != 1 {
		call = nil
	}
	return h, call
}

// coherent: err set ⇒ outcome unknown (established by R-PAIR-P for the callee).
func coherent(as Assign, r, e string, U int64) bool {
	if ev, ok := as[e]; ok && ev == 1 {
		if rv, ok := as[r]; ok && rv != U {
			return false
		}
	}
	return true
}

func checkBinaryConnective(p *Prog, tx *tableEx, rows []*PathRow, base Assign, bd *ssa.Function, k k3, f func(a, b int64) int64) (int, []string) {
	var probs []string
	n := 0
	dom := []int64{k.F, k.T, k.U}
	for _, r := range rows {
		if r.Loop != nil || len(r.Out) != 2 {
			continue
		}
		calls := operandCalls(r, bd)
		names := tx.atomsOf(append(guardTerms(r), r.Out...)...)
		for _, as := range tx.assignments(names, base) {
			ok, why := tx.satisfied(r, as)
			if why != "" {
				probs = append(probs, why)
			}
			if !ok {
				continue
			}
			if len(calls) == 0 || len(calls) > 2 {
				probs = append(probs, fmt.Sprintf("path at %s evaluates %d operands", p.pos(r.End.Pos()), len(calls)))
				continue
			}
			// operand order and identity
			if !isGetterOf(argN(calls[0], 2), "Left") {
				probs = append(probs, "first evaluated operand is not Left() at "+p.pos(calls[0].Pos()))
			}
			if len(calls) == 2 && !isGetterOf(argN(calls[1], 2), "Right") {
				probs = append(probs, "second evaluated operand is not Right() at "+p.pos(calls[1].Pos()))
			}
			r1, e1 := atomKey(calls[0], 0), atomKey(calls[0], 1)
			if _, ok := as[r1]; !ok {
				// outcome atom not mentioned on this path: range over it
				for _, v := range dom {
					as2 := copyAssign(as)
					as2[r1] = v
					n += checkBinRow(p, tx, r, as2, calls, k, f, &probs)
				}
				continue
			}
			_ = e1
			n += checkBinRow(p, tx, r, as, calls, k, f, &probs)
		}
	}
	sort.Strings(probs)
	return n, uniq(probs)
}

func copyAssign(a Assign) Assign {
	b := Assign{}
	for k, v := range a {
		b[k] = v
	}
	return b
}

func uniq(ss []string) []string {
	var out []string
	for i, s := range ss {
		if i == 0 || s != ss[i-1] {
			out = append(out, s)
		}
	}
	return out
}

func checkBinRow(p *Prog, tx *tableEx, r *PathRow, as Assign, calls []*ssa.Call, k k3, f func(a, b int64) int64, probs *[]string) int {
	r1, e1 := atomKey(calls[0], 0), atomKey(calls[0], 1)
	if _, ok := as[e1]; !ok {
		as = copyAssign(as)
		as[e1] = 0
		// also the branch with the error set must have been handled by some row;
		// it is covered when that row's guards mention e1
	}
	if !coherent(as, r1, e1, k.U) {
		return 0
	}
	var r2, e2 string
	if len(calls) == 2 {
		r2, e2 = atomKey(calls[1], 0), atomKey(calls[1], 1)
		if _, ok := as[r2]; !ok {
			n := 0
			for _, v := range []int64{k.F, k.T, k.U} {
				as2 := copyAssign(as)
				as2[r2] = v
				n += checkBinRow(p, tx, r, as2, calls, k, f, probs)
			}
			return n
		}
		if _, ok := as[e2]; !ok {
			n := 0
			for _, v := range []int64{0, 1} {
				as2 := copyAssign(as)
				as2[e2] = v
				n += checkBinRow(p, tx, r, as2, calls, k, f, probs)
			}
			return n
		}
		if !coherent(as, r2, e2, k.U) {
			return 0
		}
	}
	got := tx.eval(r.Out[0], as, 0)
	gerr := tx.eval(r.Out[1], as, 0)
	desc := fmt.Sprintf("left=(%s,%s)", k.name(as[r1]), errName(as[e1]))
	if len(calls) == 2 {
		desc += fmt.Sprintf(" right=(%s,%s)", k.name(as[r2]), errName(as[e2]))
	} else {
		desc += " right not evaluated"
	}
	// expected
	switch {
	case as[e1] == 1:
		if got.Kind != "int" || got.K != k.U || gerr.Kind != "ref" || gerr.Ref != e1 {
			*probs = append(*probs, fmt.Sprintf("%s → (%s, %s), expected (unknown, the left operand's error)", desc, valName(k, got), errValName(gerr)))
		}
	case len(calls) == 2 && as[e2] == 1:
		if got.Kind != "int" || got.K != k.U || gerr.Kind != "ref" || gerr.Ref != e2 {
			*probs = append(*probs, fmt.Sprintf("%s → (%s, %s), expected (unknown, the right operand's error)", desc, valName(k, got), errValName(gerr)))
		}
	default:
		if gerr.Kind != "nil" {
			*probs = append(*probs, fmt.Sprintf("%s → error %s, expected nil", desc, errValName(gerr)))
		}
		if len(calls) == 2 {
			want := f(as[r1], as[r2])
			if got.Kind != "int" || got.K != want {
				*probs = append(*probs, fmt.Sprintf("%s → %s, expected %s", desc, valName(k, got), k.name(want)))
			}
		} else {
			// short circuit: must equal f(r1, x) for every x
			for _, x := range []int64{k.F, k.T, k.U} {
				want := f(as[r1], x)
				if got.Kind != "int" || got.K != want {
					*probs = append(*probs, fmt.Sprintf("%s → %s without evaluating the right operand, but with right=%s the value must be %s", desc, valName(k, got), k.name(x), k.name(want)))
				}
			}
		}
	}
	return 1
}

func errName(v int64) string {
	if v == 0 {
		return "nil"
	}
	return "err"
}

func valName(k k3, v Val) string {
	if v.Kind == "int" {
		return k.name(v.K)
	}
	return v.Kind
}

func errValName(v Val) string {
	switch v.Kind {
	case "nil":
		return "nil"
	case "ref":
		return "error of " + v.Ref
	}
	return v.Kind
}

func checkUnaryConnective(p *Prog, tx *tableEx, rows []*PathRow, opAtom string, op int64, name string, bd *ssa.Function, k k3) (int, []string) {
	var probs []string
	n := 0
	failed := constOf(p.A.StatusFailed)
	var okConst int64 = -1
	if c := p.A.StatusConsts["statusOK"]; c != nil {
		okConst = constOf(c)
	}
	for _, r := range rows {
		if r.Loop != nil || len(r.Out) != 2 {
			continue
		}
		names := tx.atomsOf(append(guardTerms(r), r.Out...)...)
		for _, as := range tx.assignments(names, Assign{opAtom: op}) {
			ok, why := tx.satisfied(r, as)
			if why != "" {
				probs = append(probs, why)
			}
			if !ok {
				continue
			}
			got := tx.eval(r.Out[0], as, 0)
			gerr := tx.eval(r.Out[1], as, 0)
			switch name {
			case "UnaryNot", "UnaryIsUnknown":
				calls := operandCalls(r, bd)
				if len(calls) != 1 || !isGetterOf(argN(calls[0], 2), "Operand") {
					probs = append(probs, "operand is not evaluated exactly once from Operand() on the path ending at "+p.pos(r.End.Pos()))
					continue
				}
				r1, e1 := atomKey(calls[0], 0), atomKey(calls[0], 1)
				for _, rv := range pick(as, r1, []int64{k.F, k.T, k.U}) {
					for _, ev := range pick(as, e1, []int64{0, 1}) {
						as2 := copyAssign(as)
						as2[r1], as2[e1] = rv, ev
						if !coherent(as2, r1, e1, k.U) {
							continue
						}
						got, gerr = tx.eval(r.Out[0], as2, 0), tx.eval(r.Out[1], as2, 0)
						n++
						desc := fmt.Sprintf("operand=(%s,%s)", k.name(rv), errName(ev))
						if name == "UnaryNot" {
							if ev == 1 {
								if got.Kind != "int" || got.K != k.U || gerr.Kind != "ref" || gerr.Ref != e1 {
									probs = append(probs, desc+" → ("+valName(k, got)+", "+errValName(gerr)+"), expected (unknown, the operand's error)")
								}
							} else if got.Kind != "int" || got.K != k.not(rv) || gerr.Kind != "nil" {
								probs = append(probs, desc+" → ("+valName(k, got)+", "+errValName(gerr)+"), expected ("+k.name(k.not(rv))+", nil)")
							}
						} else {
							// is unknown: true iff operand unknown; never unknown, except
							// when the operand's error is returned (cancellation)
							if gerr.Kind == "ref" && gerr.Ref == e1 && ev == 1 {
								if got.Kind != "int" || got.K != k.U {
									probs = append(probs, desc+" returns the operand's error with outcome "+valName(k, got)+", expected unknown")
								}
								continue
							}
							want := k.F
							if rv == k.U {
								want = k.T
							}
							if got.Kind != "int" || got.K != want || gerr.Kind != "nil" {
								probs = append(probs, desc+" → ("+valName(k, got)+", "+errValName(gerr)+"), expected ("+k.name(want)+", nil)")
							}
						}
					}
				}
			case "UnaryExists":
				// status atom: result 0 of a status-returning call on the path
				var sc *ssa.Call
				for _, c := range r.Calls {
					if sig := calleeSig(c); sig != nil && p.pairKind(sig) == "status" {
						sc = c
					}
				}
				if sc == nil || !isGetterOf(argN(sc, 2), "Operand") {
					probs = append(probs, "exists does not evaluate Operand() on the path ending at "+p.pos(r.End.Pos()))
					continue
				}
				s1, e1 := atomKey(sc, 0), atomKey(sc, 1)
				strict := as["mode:strict"] == 1
				_, hasMode := as["mode:strict"]
				if !hasMode {
					probs = append(probs, "exists does not branch on the mode")
					continue
				}
				for _, sv := range pick(as, s1, tx.atomDom(s1)) {
					for _, ev := range pick(as, e1, []int64{0, 1}) {
						if ev == 1 && sv != failed {
							continue
						}
						as2 := copyAssign(as)
						as2[s1], as2[e1] = sv, ev
						if ok, _ := tx.satisfied(r, as2); !ok {
							continue
						}
						got, gerr = tx.eval(r.Out[0], as2, 0), tx.eval(r.Out[1], as2, 0)
						n++
						desc := fmt.Sprintf("strict=%v status=%d err=%s", strict, sv, errName(ev))
						switch {
						case sv == failed:
							wantErr := "nil"
							if ev == 1 {
								wantErr = "ref"
							}
							if got.Kind != "int" || got.K != k.U || gerr.Kind != wantErr {
								probs = append(probs, desc+" → ("+valName(k, got)+", "+errValName(gerr)+"), expected unknown with the operand's error")
							}
						case strict:
							// decided by emptiness of the collected list
							var emptyAtom string
							for _, a := range names {
								if ai := tx.atoms[a]; ai != nil && ai.Call != nil && ai.Call.Call.StaticCallee() != nil && p.isEmptyMethod(ai.Call.Call.StaticCallee()) {
									emptyAtom = a
								}
							}
							if emptyAtom == "" {
								probs = append(probs, desc+": strict exists does not look at the collected list")
								continue
							}
							want := k.T
							if as2[emptyAtom] == 1 {
								want = k.F
							}
							if got.Kind != "int" || got.K != want || gerr.Kind != "nil" {
								probs = append(probs, desc+fmt.Sprintf(" empty=%d → (%s, %s), expected (%s, nil)", as2[emptyAtom], valName(k, got), errValName(gerr), k.name(want)))
							}
						default:
							want := k.F
							if sv == okConst {
								want = k.T
							}
							if got.Kind != "int" || got.K != want || gerr.Kind != "nil" {
								probs = append(probs, desc+" → ("+valName(k, got)+", "+errValName(gerr)+"), expected ("+k.name(want)+", nil)")
							}
						}
					}
				}
			}
		}
	}
	sort.Strings(probs)
	return n, uniq(probs)
}

func (tx *tableEx) atomDom(key string) []int64 {
	if ai := tx.atoms[key]; ai != nil {
		return ai.Dom
	}
	return nil
}

// pick: the value the assignment fixes for key, or the whole domain.
func pick(as Assign, key string, dom []int64) []int64 {
	if v, ok := as[key]; ok {
		return []int64{v}
	}
	return dom
}

var _ = strings.Join

func init() {
	register(ruleKleene)
	addProp(&PropSpec{
		ID:          "C11",
		Rules:       []string{"R-KLEENE", "R-PAIR-P", "R-STATE", "R-STATUSFLOW", "R-EARLYEXIT", "R-FOUNDKEPT", "R-CTORID", "R-SCRATCHSTATUS"},
		Explanation: "The connectives are finite decision procedures over {false,true,unknown}×{error,nil}; their complete tables are extracted from the code by enumerating every acyclic path of the two boolean executors (branch conditions become guards over finite-domain atoms; returned operands become terms) and compared cell by cell with Kleene logic, including which operand is evaluated and in which order. Operand coherence (error ⇒ unknown) is R-PAIR-P.",
		Decided:     []string{"R-KLEENE: complete tables of &&, ||, !, is unknown, exists (lax and strict), short-circuit arms and error columns", "R-PAIR-P: operands return coherent (outcome, error) pairs"},
		NotDecided:  []string{"that operand evaluation itself yields the right outcome", "the error column of `is unknown` for non-cancellation errors (known finding under C08)"},
		Assumptions: []string{"the three outcome constants are the only values of the outcome type"},
	})
}

// --- C10: the filter arm ------------------------------------------------------------

var ruleFilter = &Rule{
	Name: "R-FILTER", NeedSSA: true,
	Doc: "decision table of the filter arm: in lax mode an array operand is unwrapped before the condition is evaluated; otherwise the condition is evaluated once on Operand() with the tested item, an error aborts with (failed, err), any outcome but true drops the item with (not found, nil), and true hands the very same item to the continuation; the condition executor binds @ to the tested item; a predicate used as an item maps unknown/true/false to null/true/false",
	Run: func(p *Prog) *RuleOut {
		out := newOut("R-FILTER")
		T, _, _, err := p.predTF()
		if err != nil {
			out.undecided("outcome constants", "-", "", err.Error())
			return out
		}
		fu := p.itemArm("UnaryNode")
		if fu == nil {
			out.undecided("unary item executor", "-", "", "anchor unresolved")
			return out
		}
		tx, rows := p.extractTable(fu, nil, &TableCfg{})
		ei := p.A.Enums["UnaryOperator"]
		opAtom := tx.enumGetterAtom(ei)
		fc := ei.byName("UnaryFilter")
		if opAtom == "" || fc == nil {
			out.undecided("filter arm", p.pos(fu.Pos()), fnName(fu), "operator atom unresolved")
			return out
		}
		base := Assign{opAtom: constOf(fc)}
		// the filter arm may be a function of its own (`case ast.UnaryFilter:
		// return exec.execFilterNode(ctx, node, value, found, unwrap)`): every
		// path of the arm is one call of the same executor method, handed the
		// dispatcher's own parameters, whose results are returned as they are.
		// The table is then that function's.
		{
			var helper *ssa.Function
			okRedirect, nrows := true, 0
			for _, r := range rows {
				if r.Loop != nil || len(r.Out) != 2 {
					continue
				}
				names := tx.atomsOf(append(guardTerms(r), r.Out...)...)
				sat := false
				for _, as := range tx.assignments(names, base) {
					if ok, _ := tx.satisfied(r, as); ok {
						sat = true
						break
					}
				}
				if !sat {
					continue
				}
				nrows++
				if len(r.Calls) == 0 {
					okRedirect = false
					continue
				}
				c := r.Calls[len(r.Calls)-1]
				g := c.Call.StaticCallee()
				if g == nil || !isMethodOfExecutor(p, g) || g.Blocks == nil || p.pairKind(g.Signature) != "status" ||
					r.Out[0].Kind != "atom" || r.Out[0].Atom != atomKey(c, 0) || r.Out[1].Kind != "atom" || r.Out[1].Atom != atomKey(c, 1) {
					okRedirect = false
					continue
				}
				for _, oc := range r.Calls[:len(r.Calls)-1] {
					if sig := calleeSig(oc); sig != nil && p.pairKind(sig) != "" {
						okRedirect = false
					}
				}
				for _, a := range c.Call.Args {
					if _, isParam := stripConv(a).(*ssa.Parameter); !isParam {
						okRedirect = false
					}
				}
				if helper != nil && helper != g {
					okRedirect = false
				}
				helper = g
			}
			if okRedirect && helper != nil && nrows > 0 {
				// only the dispatcher calls it
				only := true
				if nd := p.CG.Nodes[helper]; nd != nil {
					for _, e := range nd.In {
						if e.Caller.Func != fu {
							only = false
						}
					}
				}
				if only {
					fu = helper
					tx, rows = p.extractTable(fu, nil, &TableCfg{})
					base = Assign{}
				}
			}
		}
		failed := constOf(p.A.StatusFailed)
		var valueParam *ssa.Parameter
		for _, q := range fu.Params {
			if it, ok := q.Type().Underlying().(*types.Interface); ok && it.NumMethods() == 0 {
				valueParam = q
			}
		}
		n := 0
		var probs []string
		var condFn *ssa.Function
		curField := p.fieldReadInConstArm("ConstCurrent")
		boundByCaller, boundByCallee := 0, 0
		for _, r := range rows {
			if r.Loop != nil || len(r.Out) != 2 {
				continue
			}
			names := tx.atomsOf(append(guardTerms(r), r.Out...)...)
			for _, as := range tx.assignments(names, base) {
				if ok, _ := tx.satisfied(r, as); !ok {
					continue
				}
				n++
				var condCall, contCall, unwrapCall *ssa.Call
				for _, c := range r.Calls {
					sig := calleeSig(c)
					if sig == nil {
						continue
					}
					switch p.pairKind(sig) {
					case "pred":
						condCall = c
					case "status":
						if condCall == nil {
							unwrapCall = c
						} else {
							contCall = c
						}
					}
				}
				got, gerr := tx.eval(r.Out[0], as, 0), tx.eval(r.Out[1], as, 0)
				where := p.pos(r.End.Pos())
				if condCall == nil {
					// unwrap case: must be (unwrap ∧ value is an array) and return the call's results
					if unwrapCall == nil {
						probs = append(probs, "path at "+where+" neither evaluates the condition nor unwraps")
						continue
					}
					if as["unwrap"] != 1 {
						probs = append(probs, "array operand is unwrapped although unwrap is off (path at "+where+")")
					}
					if !p.passesParam(unwrapCall, valueParam) {
						probs = append(probs, "the unwrap call at "+p.pos(unwrapCall.Pos())+" does not receive the tested value")
					}
					if r.Out[0].Kind != "atom" || r.Out[0].Atom != atomKey(unwrapCall, 0) || r.Out[1].Kind != "atom" || r.Out[1].Atom != atomKey(unwrapCall, 1) {
						probs = append(probs, "the unwrap path at "+where+" does not return the results of the unwrapping call")
					}
					continue
				}
				condFn = condCall.Call.StaticCallee()
				if curField != nil {
					switch p.fieldStateAt(fu, curField, valueParam, r, condCall) {
					case "item":
						boundByCaller++
					case "entry":
						boundByCallee++
					default:
						probs = append(probs, "the condition at "+p.pos(condCall.Pos())+" is evaluated with @ bound to something other than the tested item")
					}
					if contCall != nil && p.fieldStateAt(fu, curField, valueParam, r, contCall) != "entry" {
						probs = append(probs, "the continuation at "+p.pos(contCall.Pos())+" runs while @ is still rebound")
					}
				}
				if unwrapCall != nil {
					probs = append(probs, "the condition is evaluated after an unwrapping call on the same path ("+where+")")
				}
				if !isGetterOf(argN(condCall, 2), "Operand") || !p.passesParam(condCall, valueParam) {
					probs = append(probs, "the condition at "+p.pos(condCall.Pos())+" is not Operand() evaluated on the tested item")
				}
				st, e1 := atomKey(condCall, 0), atomKey(condCall, 1)
				sv, hasS := as[st]
				ev := as[e1]
				switch {
				case ev == 1:
					if got.Kind != "int" || got.K != failed || gerr.Kind != "ref" || gerr.Ref != e1 {
						probs = append(probs, fmt.Sprintf("condition error → (%v, %s) at %s, expected (failed, that error)", got.K, errValName(gerr), where))
					}
				case hasS && sv == T:
					if contCall == nil {
						probs = append(probs, "outcome true does not reach the continuation (path at "+where+")")
						continue
					}
					if !p.passesParam(contCall, valueParam) {
						probs = append(probs, "the item handed to the continuation at "+p.pos(contCall.Pos())+" is not the tested item")
					}
					if r.Out[0].Kind != "atom" || r.Out[0].Atom != atomKey(contCall, 0) || r.Out[1].Kind != "atom" || r.Out[1].Atom != atomKey(contCall, 1) {
						probs = append(probs, "outcome true does not return the continuation's results (path at "+where+")")
					}
				case hasS:
					if contCall != nil {
						probs = append(probs, fmt.Sprintf("outcome %d (not true) still reaches the continuation at %s", sv, p.pos(contCall.Pos())))
					}
					if got.Kind != "int" || got.K == failed || gerr.Kind != "nil" {
						probs = append(probs, fmt.Sprintf("outcome %d (not true) → (%v, %s) at %s, expected (not found, nil): the item must be dropped without aborting", sv, got.K, errValName(gerr), where))
					}
					if c := p.A.StatusConsts["statusOK"]; c != nil && got.Kind == "int" && got.K == constOf(c) {
						probs = append(probs, fmt.Sprintf("outcome %d (not true) reports OK at %s", sv, where))
					}
				default:
					probs = append(probs, "path at "+where+" does not test the condition's outcome")
				}
			}
		}
		sort.Strings(probs)
		probs = uniq(probs)
		if n >= 5 && len(probs) == 0 {
			out.ok("decision table of the filter arm", p.pos(fu.Pos()), fnName(fu), fmt.Sprintf("%d (unwrap, array?, outcome, error) combinations agree with the stated table", n))
		} else if n < 5 {
			out.viol("decision table of the filter arm", p.pos(fu.Pos()), fnName(fu), fmt.Sprintf("only %d combinations found for the filter operator", n))
		} else {
			out.viol("decision table of the filter arm", p.pos(fu.Pos()), fnName(fu), "the filter deviates from 'keep exactly the items whose condition is true': "+probs[0], probs...)
		}
		out.Counts["filter_cells"] = n
		out.Floors["filter_cells"] = 5

		// @ is bound to the tested item by the condition executor
		cur := curField
		if condFn == nil || cur == nil {
			out.undecided("@ is bound to the tested item", "-", "", "condition executor or the field holding @ unresolved")
		} else if boundByCallee == 0 && boundByCaller > 0 {
			out.ok("@ is bound to the tested item", p.pos(fu.Pos()), fnName(fu), fmt.Sprintf("the filter arm stores the item into %s before evaluating the condition on every one of %d paths", cur.Name(), boundByCaller))
		} else {
			good := false
			var vp *ssa.Parameter
			for _, q := range condFn.Params {
				if it, ok := q.Type().Underlying().(*types.Interface); ok && it.NumMethods() == 0 {
					vp = q
				}
			}
			for _, hc := range p.allCalls(condFn) {
				if hc.Call.IsInvoke() || hc.Block() == nil {
					continue
				}
				if k := p.setsFieldFromParam(hc.Call.StaticCallee(), cur); k >= 0 && k < len(hc.Call.Args) && vp != nil && stripConv(hc.Call.Args[k]) == ssa.Value(vp) {
					for _, c := range p.execMethodCalls(condFn) {
						if c != hc && before(hc, c) && p.passesParam(c, vp) {
							good = true
						}
					}
				}
			}
			for _, s := range p.execStores(condFn) {
				if s.Field == cur && s.Store.Val == ssa.Value(vp) {
					// before the evaluation call, which receives the same value
					for _, c := range p.execMethodCalls(condFn) {
						if before(s.Store, c) && p.passesParam(c, vp) {
							good = true
						}
					}
				}
			}
			if good {
				out.ok("@ is bound to the tested item", p.pos(condFn.Pos()), fnName(condFn), "stores the item into "+cur.Name()+" before evaluating the condition on the same item")
			} else {
				out.viol("@ is bound to the tested item", p.pos(condFn.Pos()), fnName(condFn), "the condition is not evaluated with @ bound to the tested item")
			}
		}

		// predicate used as an item
		p.predicateAsItem(out, T)
		return out
	},
}

// passesParam: the call has q among its arguments.
func (p *Prog) passesParam(c *ssa.Call, q *ssa.Parameter) bool {
	if q == nil {
		return false
	}
	for _, a := range c.Call.Args {
		if stripConv(a) == ssa.Value(q) {
			return true
		}
	}
	return false
}

// predicateAsItem: the function that takes an outcome and an error and hands a
// value to the continuation maps unknown → nil, true → true, false → false.
func (p *Prog) predicateAsItem(out *RuleOut, T int64) {
	U := constOf(p.A.PredUnknown)
	var fn *ssa.Function
	var resP, errP *ssa.Parameter
	for _, f := range p.execFuncs() {
		if p.pairKind(f.Signature) != "status" {
			continue
		}
		var rp, ep *ssa.Parameter
		for _, q := range f.Params {
			if types.Identical(q.Type(), p.A.PredType) {
				rp = q
			}
			if isErrorType(q.Type()) {
				ep = q
			}
		}
		if rp != nil && ep != nil {
			fn, resP, errP = f, rp, ep
		}
	}
	key := "predicate as item: unknown/true/false → null/true/false"
	if fn == nil {
		out.undecided(key, "-", "", "anchor unresolved: function taking (outcome, error) and returning a status")
		return
	}
	var cont *ssa.Function
	tx, rows := p.extractTable(fn, nil, &TableCfg{Sink: func(ins ssa.Instruction) []ssa.Value {
		c, ok := ins.(*ssa.Call)
		if !ok || !isMethodOfExecutor(p, c.Call.StaticCallee()) || p.pairKind(c.Call.StaticCallee().Signature) != "status" {
			return nil
		}
		// the interface-typed argument is the value
		for _, a := range c.Call.Args {
			if it, ok := a.Type().Underlying().(*types.Interface); ok && it.NumMethods() == 0 {
				cont = c.Call.StaticCallee()
				return []ssa.Value{a}
			}
		}
		return nil
	}})
	failed := constOf(p.A.StatusFailed)
	n := 0
	var probs []string
	for _, r := range rows {
		if r.Loop != nil {
			continue
		}
		names := tx.atomsOf(append(guardTerms(r), r.Out...)...)
		hasRes := false
		for _, nm := range names {
			if nm == resP.Name() {
				hasRes = true
			}
		}
		if !hasRes {
			names = append(names, resP.Name())
			tx.term(resP, r, 0)
		}
		hasErr := false
		for _, nm := range names {
			if nm == errP.Name() {
				hasErr = true
			}
		}
		if !hasErr {
			names = append(names, errP.Name())
			tx.term(errP, r, 0)
		}
		for _, as := range tx.assignments(names, nil) {
			if ok, _ := tx.satisfied(r, as); !ok {
				continue
			}
			if as[errP.Name()] == 1 && as[resP.Name()] != U {
				continue
			}
			n++
			_, isRet := r.End.(*ssa.Return)
			if as[errP.Name()] == 1 {
				if !isRet || len(r.Out) != 2 {
					probs = append(probs, "an error does not return immediately")
					continue
				}
				got, gerr := tx.eval(r.Out[0], as, 0), tx.eval(r.Out[1], as, 0)
				if got.Kind != "int" || got.K != failed || gerr.Kind != "ref" {
					probs = append(probs, "error → ("+fmt.Sprint(got.K)+", "+errValName(gerr)+"), expected (failed, the error)")
				}
				continue
			}
			if isRet {
				continue // early exit without a collector: no value is produced
			}
			v := tx.eval(r.Out[0], as, 0)
			rv := as[resP.Name()]
			switch {
			case rv == U:
				if v.Kind != "nil" {
					probs = append(probs, "unknown is handed on as "+v.Kind+fmt.Sprint(v.K)+", expected null")
				}
			case rv == T:
				if v.Kind != "int" || v.K != 1 {
					probs = append(probs, "true is not handed on as true")
				}
			default:
				if v.Kind != "int" || v.K != 0 {
					probs = append(probs, "false is not handed on as false")
				}
			}
		}
	}
	sort.Strings(probs)
	probs = uniq(probs)
	_ = cont
	if n >= 4 && len(probs) == 0 {
		out.ok(key, p.pos(fn.Pos()), fnName(fn), fmt.Sprintf("%d (outcome, error) combinations", n))
	} else {
		out.viol(key, p.pos(fn.Pos()), fnName(fn), fmt.Sprintf("%d combinations; %s", n, strings.Join(probs, "; ")))
	}
}

func init() {
	register(ruleFilter)
	addProp(&PropSpec{
		ID:          "C10",
		Rules:       []string{"R-FILTER", "R-STATE", "R-SCOPE", "R-PAIR-P", "R-PREDLOOP", "R-ONELEVEL", "R-EXECADDR", "R-COLLMONO", "R-UNWRAPTHREAD", "R-RESUPPRESS", "R-VALUETYPES", "R-SCRATCHSTATUS"},
		Explanation: "The filter is a small decision procedure: its complete table over (unwrap, operand is an array, condition outcome, condition error) is extracted from the filter arm and compared with 'keep exactly the items whose condition is true, hand on the very same item, drop the others without aborting, abort only on an error'; @ is bound to the tested item and restored on every exit (typestate); the outcome→item mapping of predicate check expressions is extracted likewise.",
		Decided: []string{"R-FILTER: table of the filter arm, identity of tested and forwarded item, unwrap-before-condition, @ binding, predicate-as-item mapping",
			"R-STATE: @ restored on every exit of the condition executor", "R-SCOPE: the continuation is not evaluated while @ is rebound", "R-PAIR-P: an error from the condition is (failed, err), never (not found, err)"},
		NotDecided:  []string{"equivalence with the predicate-check rewriting of the condition", "consecutive filters equal one filter on the conjunction (value level)"},
		Assumptions: []string{},
	})
}

// fieldStateAt follows the row's blocks up to the instruction `at` and
// reports what the Executor field holds there relative to function entry:
// "entry" (untouched, or written back from a saved load), "item" (the given
// parameter was stored last) or "other".
// setsFieldFromParam: g (package exec) stores its parameter number k into the
// Executor field (whole); -1 otherwise.
func (p *Prog) setsFieldFromParam(g *ssa.Function, field *types.Var) int {
	if g == nil || g.Blocks == nil || fnPkgPath(g) != pkgExec {
		return -1
	}
	// only a function whose job is the store: it returns the restorer
	// (`tempSetCurrent(v) func()`) or nothing at all (a plain setter); one
	// that sets, evaluates and restores leaves the field as it found it
	switch rs := g.Signature.Results(); rs.Len() {
	case 0:
		if len(p.mutatorFields(g)) == 0 {
			return -1
		}
	case 1:
		if _, isFn := rs.At(0).Type().Underlying().(*types.Signature); !isFn {
			return -1
		}
	default:
		return -1
	}
	for _, s := range p.execStores(g) {
		if s.Field != field || !p.wholeField(s.Store.Addr) {
			continue
		}
		if q, ok := stripConv(s.Store.Val).(*ssa.Parameter); ok && q.Parent() == g {
			return paramIndex(q)
		}
	}
	return -1
}

func (p *Prog) fieldStateAt(fn *ssa.Function, field *types.Var, item *ssa.Parameter, r *PathRow, at ssa.Instruction) string {
	state := "entry"
	for _, b := range r.Blocks {
		for _, ins := range b.Instrs {
			if ins == at {
				return state
			}
			// a helper that stores one of its arguments into the field
			// (`defer exec.tempSetCurrent(value)()`)
			if hc, ok := ins.(*ssa.Call); ok && !hc.Call.IsInvoke() {
				if k := p.setsFieldFromParam(hc.Call.StaticCallee(), field); k >= 0 && k < len(hc.Call.Args) {
					if item != nil && stripConv(hc.Call.Args[k]) == ssa.Value(item) {
						state = "item"
					} else if ld, _ := p.traceSaved(fn, hc.Call.Args[k], hc, 0); ld != nil {
						state = "entry"
					} else {
						state = "other"
					}
				}
				continue
			}
			st, ok := ins.(*ssa.Store)
			if !ok {
				continue
			}
			if f, _ := p.execFieldOf(st.Addr); f != field {
				continue
			}
			switch {
			case item != nil && stripConv(st.Val) == ssa.Value(item):
				state = "item"
			default:
				if ld, _ := p.traceSaved(fn, st.Val, st, 0); ld != nil {
					state = "entry"
				} else {
					state = "other"
				}
			}
		}
	}
	return state
}
