package main

// Property → rules table.

type PropSpec struct {
	ID           string
	Rules        []string
	Explanation  string
	Decided      []string
	NotDecided   []string
	Assumptions  []string
	Trusted      []string
	ExtraConfigs []string
}

var rules = map[string]*Rule{}

func register(rs ...*Rule) {
	for _, r := range rs {
		rules[r.Name] = r
	}
}

var baseTrusted = []string{
	"go/types type checker and go/packages loader (x/tools v0.29.0)",
	"go/ssa construction; VTA call graph seeded by CHA is sound for reflection-free, unsafe-free code",
	"the Go standard library behaves as documented",
}

var archConfigs = []string{"GOARCH=386", "GOOS=js,GOARCH=wasm"}

var propOrder = []string{}
var props = map[string]*PropSpec{}

func addProp(s *PropSpec) {
	propOrder = append(propOrder, s.ID)
	if s.Trusted == nil {
		s.Trusted = baseTrusted
	}
	props[s.ID] = s
}

func init() {
	register(ruleImmutAST, ruleGlobals, ruleAmbient, ruleExecFresh)

	addProp(&PropSpec{
		ID:    "C19",
		Rules: []string{"R-IMMUT-AST", "R-GLOBALS", "R-EXECFRESH", "R-AMBIENT"},
		Explanation: "Static form of data-race freedom and history independence: absence of shared writable state. " +
			"Decided over every function reachable (VTA call graph, through dependencies) from every read operation of a Path and from Parse: " +
			"no write to memory owned by a parsed AST, no write to package-level state, a fresh Executor per call that never escapes, no ambient input. " +
			"This decides the structural necessary condition of C19, not the observable equality of results.",
		Decided: []string{
			"R-IMMUT-AST: no unsynchronised store into AST-owned memory from any read root",
			"R-GLOBALS: no store to / escape of module package-level variables from read roots or Parse",
			"R-EXECFRESH: per-call Executor, never published",
			"R-AMBIENT: no clock/env/random/file input (one tabled exception: Time.ToTimeTZ reads the date)",
		},
		NotDecided: []string{
			"races inside the standard library or in documents/variable maps mutated concurrently by the caller",
			"equality of results between concurrent and isolated runs as a value-level fact",
		},
		Assumptions:  []string{"callers do not mutate the queried document or the variables map while a query runs", "user-supplied Option functions do not retain the Executor"},
		ExtraConfigs: archConfigs,
	})
}
