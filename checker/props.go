package main

import (
	"strings"

	"golang.org/x/tools/go/ssa"
)

// Property → rules table.

type PropSpec struct {
	ID           string
	Rules        []string
	Explanation  string
	Decided      []string
	NotDecided   []string
	Assumptions  []string
	Trusted      []string
	ExtraConfigs []string
}

var rules = map[string]*Rule{}

func register(rs ...*Rule) {
	for _, r := range rs {
		rules[r.Name] = r
	}
}

var baseTrusted = []string{
	"go/types type checker and go/packages loader (x/tools v0.29.0)",
	"go/ssa construction; VTA call graph seeded by CHA is sound for reflection-free, unsafe-free code",
	"the Go standard library behaves as documented",
}

var archConfigs = []string{"GOARCH=386", "GOOS=js,GOARCH=wasm"}

var propOrder = []string{}
var props = map[string]*PropSpec{}

func addProp(s *PropSpec) {
	propOrder = append(propOrder, s.ID)
	if s.Trusted == nil {
		s.Trusted = baseTrusted
	}
	if s.ExtraConfigs == nil {
		s.ExtraConfigs = archConfigs
	}
	props[s.ID] = s
}

func init() {
	register(ruleImmutAST, ruleGlobals, ruleAmbient, ruleExecFresh)

	addProp(&PropSpec{
		ID:    "C19",
		Rules: []string{"R-IMMUT-AST", "R-GLOBALS", "R-EXECFRESH", "R-AMBIENT", "R-INPUT-RO", "R-COLLGUARD", "R-VARSIDENT", "R-STATE", "R-VALUETYPES", "R-PATHRO"},
		Explanation: "Static form of data-race freedom and history independence: absence of shared writable state. " +
			"Decided over every function reachable (VTA call graph, through dependencies) from every read operation of a Path and from Parse: " +
			"no write to memory owned by a parsed AST, no write to package-level state, a fresh Executor per call that never escapes, no ambient input. " +
			"This decides the structural necessary condition of C19, not the observable equality of results.",
		Decided: []string{
			"R-IMMUT-AST: no unsynchronised store into AST-owned memory from any read root",
			"R-GLOBALS: no store to / escape of module package-level variables from read roots or Parse",
			"R-EXECFRESH: per-call Executor, never published",
			"R-AMBIENT: no clock/env/random/file input (one tabled exception: Time.ToTimeTZ reads the date)",
		},
		NotDecided: []string{
			"races inside the standard library or in documents/variable maps mutated concurrently by the caller",
			"equality of results between concurrent and isolated runs as a value-level fact",
		},
		Assumptions:  []string{"callers do not mutate the queried document or the variables map while a query runs", "user-supplied Option functions do not retain the Executor"},
		ExtraConfigs: archConfigs,
	})
}

func parseRootsNoMust(p *Prog) []*ssa.Function {
	var out []*ssa.Function
	for _, f := range p.parseRoots() {
		if !strings.HasPrefix(f.Name(), "Must") {
			out = append(out, f)
		}
	}
	return out
}

var rulePanicParse = rulePanic("R-PANIC-PARSE",
	"no explicit panic, stdlib Must* call or unchecked type assertion is reachable from Parse/Scan/Unmarshal* unless a root on the way recovers and reports ErrParse, the guarding branch is provably infeasible, or the symbol is tabled",
	parseRootsNoMust, "parser.ErrParse", 5)

func init() {
	register(rulePanicParse, ruleParseResult)
	addProp(&PropSpec{
		ID:          "C04",
		Rules:       []string{"R-PANIC-PARSE", "R-PARSE-RESULT", "R-NILNODE", "R-REGEXFLAGS", "R-VALIDATE", "R-COMMENT", "R-TOKENRANGE", "R-CHARCLASS", "R-NARROW", "R-ERRDISCARD", "R-NILOUT"},
		Explanation: "Totality of Parse as a shape of the code: every construct that can raise a panic explicitly below Parse/Scan/Unmarshal* is enumerated over the call graph and must be contained by a recovering root that returns the documented error.",
		Decided:     []string{"R-PANIC-PARSE: explicit panics, Must* calls and comma-less type assertions below the parse roots are contained by a deferred recover in parser.Parse that reports ErrParse", "R-PARSE-RESULT: (tree, nil) or (nil, sentinel-wrapped error) at every level; MustParse panics exactly on the error branch", "R-NILNODE: no action publishes a nil node without recording an error", "R-REGEXFLAGS: every like_regex accepted at parse time compiles at execution time (flag translation for all 32 flag sets; same pattern and flags validated, stored, compiled; the validator accepts only after regexp/syntax.Parse succeeded)", "R-VALIDATE: `@` outside a filter and `last` outside a subscript are rejected, and accepted inside: decision table of the placement validator over node kind × depth × in-subscript, for every recursive call on every path"},
		NotDecided:  []string{"termination of the lexer loops", "the goyacc runtime (trusted)", "size limits of regexp compilation"},
		Assumptions: []string{"values of the ast enum types are declared constants only"},
	})
}

func init() {
	register(ruleState, ruleStateVerbose, ruleInitOnly, ruleScope)
	addProp(&PropSpec{
		ID:    "C09",
		Rules: []string{"R-STATE", "R-INITONLY", "R-SCOPE", "R-ONELEVEL", "R-LAST", "R-EXECADDR", "R-EMITORDER", "R-COLLMONO", "R-NEXTBLIND", "R-FAILSTOP", "R-PAIR-P", "R-FILTER", "R-UNWRAPTHREAD", "R-VALUETYPES", "R-SCRATCHSTATUS"},
		Explanation: "The 'context intact' clause of C09 as a typestate over the Executor's fields: every function that overwrites @ (current), the innermost array size, the base object or the structural-error flag loads the previous value first and writes it back on every exit path, error exits included; `$`, variables, options and the path are written only before evaluation starts. " +
			"Decides the structural necessary condition (no leak of a nested context); does not decide the concatenation equation itself.",
		Decided:     []string{"R-STATE: save/restore on every exit for each mutated context field (defer literal, restorer helper deferred at each call site, or explicit stores)", "R-INITONLY: `$`/vars/useTZ/path fixed during evaluation", "R-SCOPE: while @ is rebound no status-returning evaluation receives the step's own node (the rest of the outer chain sees the outer @)"},
		NotDecided:  []string{"Query(P S) = concat over Query(P) of Query($ S): value-level", "equivalence of variable/literal roots with document roots"},
		Assumptions: []string{"deferred functions run on every exit (Go semantics)"},
	})
}

func init() {
	addProp(&PropSpec{
		ID:          "C08",
		Rules:       []string{"R-STATE-VERBOSE", "R-GATE", "R-HARD", "R-PAIR-C-HARD", "R-LAUNDER", "R-FAILSTOP", "R-VERBOSEUSE", "R-PREDLOOP", "R-ERRSITES", "R-ERRCLASS", "R-RESUPPRESS", "R-ENTRY"},
		Explanation: "WithSilent as a shape of the code: the suppression flag is cleared only between a save and a deferred restore (suppression inside predicates never leaks); a non-suppressible error is never lost at a call site; a suppressed failure never leaves a helper looking like a value.",
		Decided: []string{"R-FAILSTOP: after every status-returning evaluation, the paths on which (failed, nil) is not refuted return failed without re-entering a loop (a suppressed failure stops the traversal exactly where the reported one does)", "R-STATE-VERBOSE: verbose is restored on every exit of the only function that clears it; set elsewhere only by constructor and option",
			"R-PAIR-C-HARD: no call site loses an error, including losses limited to non-cancellation errors",
			"R-LAUNDER: (failed, nil) is not turned into a success by a helper"},
		NotDecided:  []string{"equality of the silent and verbose results", "hard class of the datetime-template and precision/scale errors (covered by R-HARD only where an anchor exists)"},
		Assumptions: []string{"callee coherence (R-PAIR-P, checked under C20/C06)"},
	})
}

func entryRootsFn(p *Prog) []*ssa.Function {
	roots := p.entryRoots()
	for _, m := range []string{"Query", "First", "Exists", "Match", "ExistsOrMatch"} {
		if f := p.ssaFunc(pkgPath, "*Path."+m); f != nil {
			roots = append(roots, f)
		}
	}
	return roots
}

var rulePanicExec = rulePanic("R-PANIC-EXEC",
	"no explicit panic, stdlib Must* call or unchecked type assertion is reachable from Query/First/Exists/Match/ExistsOrMatch unless its block is infeasible for parser-produced paths and documented item types (judged per call context), or the symbol is tabled with a reason",
	entryRootsFn, "", 8)

func init() {
	register(rulePanicExec)
	addProp(&PropSpec{
		ID:          "C05",
		Rules:       []string{"R-PANIC-EXEC", "R-EXH", "R-ERRSITES", "R-ERRCLASS", "R-INPUT-RO", "R-BCE-EXEC", "R-LISTINDEX", "R-FINITE", "R-DIV", "R-REGEXFLAGS", "R-NILOUT", "R-ADDRKEY", "R-OKFLAG"},
		Explanation: "Totality and error classification of execution as shapes of the code. Every explicit panic site and every ErrInvalid construction reachable from the entry points is shown infeasible by an abstract interpretation whose universes are derived from the repository: node shapes per operand slot from the goyacc grammar's actions, enum constants, the 13 documented item types, the 5 datetime types; call sites are expanded three levels up and callbacks stay paired with their call site. Every error that can reach an entry point wraps ErrExecution or is NULL (Exists/Match only).",
		Decided: []string{"R-PANIC-EXEC: no feasible explicit panic / Must* / unchecked assertion below the entry points", "R-BCE-EXEC: every index/slice operation of package exec is proven in bounds by the compiler or by one of three structural arguments (length-tested constant index, loop between bounds the callee clamps on every successful return, stringer name longer than the slice offset)", "R-LISTINDEX: constant-index reads of item sequences are length-tested", "R-INPUT-RO: no write into caller-owned containers, and no caller-owned container is adopted as the backing store of a result list",
			"R-EXH: no feasible ErrInvalid construction for parser-produced paths and documented item types",
			"R-ERRSITES + R-ERRCLASS: every constructed error wraps an exec sentinel; no foreign or bare error reaches an entry point; NULL only from Exists/Match"},
		NotDecided:  []string{"implicit panics other than index/slice bounds in package exec (nil dereference, integer division in the standard library, bounds inside the standard library)", "purity of the queried value beyond what C19's write census shows", "finiteness of numbers that are copied from the document (assumed finite JSON numbers)"},
		Assumptions: []string{"item values have one of the 13 documented dynamic types", "a json.Number holds a syntactically valid JSON number", "ast.LinkNodes chains nodes[i].next = nodes[i+1] (its documented contract)", "values of enum types are declared constants"},
		Trusted:     append(append([]string{}, baseTrusted...), "goyacc (x/tools v0.29.0) reproduces the rule numbering of the compiled grammar.go", "cmd/compile prove pass (-d=ssa/check_bce), run on every check, its report confirmed live by a sentinel function: it only removes bounds checks it has proven"),
	})
}

func init() {
	addProp(&PropSpec{
		ID:          "C12",
		Rules:       []string{"R-CMPMATRIX", "R-CMPTABLE", "R-STRPRED", "R-PREDLOOP", "R-REGEXFLAGS", "R-TOWER", "R-F2I", "R-ZONE", "R-CMPNORM", "R-EXECADDR", "R-EXACTCMP", "R-CTXZONE", "R-OKFLAG"},
		Explanation: "The comparison layer is a stack of finite decision procedures, each extracted and compared with the stated order: the type dispatch as a 13×13 matrix obtained by walking the dispatcher once per ordered pair of item types (abstract interpretation with singleton type sets, descending into the datetime 5×5 helpers), the operator×sign table, the boolean and numeric three-way helpers, the lax-existential/strict-universal pairwise loop, the like_regex flag translation for all 32 flag sets, and the numeric tower as sibling agreement of type switches.",
		Decided: []string{"R-CMPMATRIX: which pairs are comparable / null rule / unknown / incomparable / guarded by WithTZ (169 cells)",
			"R-CMPTABLE: ==,!=,<,>,<=,>= applied to a sign; false<true; −1/0/+1 for </=/> (antisymmetry and duality are properties of these tables)",
			"R-PREDLOOP: lax existential vs strict universal decision table", "R-REGEXFLAGS: i,s,m,q translation and rejection of x", "R-TOWER: int64/float64/json.Number handled together"},
		NotDecided:  []string{"numeric comparison across representations beyond 2^53 (D19: int64 vs float64 goes through float64)", "transitivity over concrete values", "string byte order (delegated to strings.Compare)", "datetime instants (types.*.Compare)"},
		Assumptions: []string{"item values have one of the 13 documented dynamic types", "Go's regexp inline flags (?i)(?s)(?m) mean FoldCase, DotNL, ¬OneLine"},
	})
}

func init() {
	addProp(&PropSpec{
		ID:          "C03",
		Rules:       []string{"R-GRAMSYNC", "R-PREC", "R-KEYWORDS", "R-VOCAB", "R-OPTOKENS", "R-LEXRESET", "R-PRED", "R-NILNODE", "R-RUNEWRITE", "R-COMMENT", "R-FOLD", "R-NUMLIT", "R-EMPTYPROD", "R-RUNESTEP", "R-RUNEERR", "R-NARROW", "R-TOKENRANGE", "R-CHARCLASS", "R-ERRDISCARD", "R-PARSE-RESULT", "R-GLOBALS", "R-NILOUT", "R-CTORID"},
		Explanation: "'Every spelling parses to the tree the grammar assigns it' has a large structural part: the compiled parser must be the grammar (goyacc is re-run and the result compared as syntax trees), the grammar must be conflict-free so that the precedence declarations decide nesting, the keyword table must agree with the grammar's tokens and key names, keywords that the printer emits must lead back to the same constants, the token buffer must never be dropped without an error, and the predicate flag must be set by exactly one production. These are agreements between sibling tables (lexer, grammar, generated parser, printer), decided from the sources.",
		Decided: []string{"R-GRAMSYNC: grammar.go = goyacc(grammar.y); 0 conflicts", "R-PREC: declared precedence/associativity ↔ operator constants (via the actions)",
			"R-KEYWORDS: one lower-case spelling per keyword token, true/false/null case-sensitive, every keyword usable as key name", "R-VOCAB: printed keyword → lexer → token → production → same constant",
			"R-LEXRESET: token text is discarded only after an error (end of input does not change a token's value)", "R-PRED: the predicate flag and IsPredicate/PgIndexOperator", "R-NILNODE: no action leaves a node-typed $$ unset silently"},
		NotDecided:  []string{"values of literals (escape arithmetic, number bases, underscores)", "punctuation operators in the hand-written scanner (scanOperator)", "whitespace and comments", "associativity results for concrete inputs"},
		Assumptions: []string{"goyacc (x/tools v0.29.0) is the generator the repository uses (go:generate line)"},
		Trusted:     append(append([]string{}, baseTrusted...), "goyacc's LALR construction and its parser skeleton"),
	})
	addProp(&PropSpec{
		ID:          "C02",
		Rules:       []string{"R-ESC", "R-PAREN", "R-OPPAREN", "R-PREC", "R-VOCAB", "R-OPTOKENS", "R-MARSHAL", "R-PARSE-RESULT", "R-RUNEWRITE", "R-RUNESTEP", "R-RUNEERR", "R-UNMARSHAL-ID", "R-FMTCONST", "R-NUMCLASS", "R-NARROW", "R-ERRDISCARD"},
		Explanation: "Necessary conditions of Parse(p.String()) = p that are visible in the shape of the printer and the lexer: every escape the printer can emit is decoded to the same code point; printed keywords lead back to the same constants; the printer's priorities equal the grammar's precedence levels; a node that can only carry an accessor chain inside parentheses prints those parentheses; the three marshalling forms are exactly String() and the unmarshalling forms hand their whole input to Parse.",
		Decided: []string{"R-ESC: printer escape table ⊆ lexer escape table with equal meaning", "R-PAREN: parenthesisation before a trailing accessor chain (today: 6 known findings, D16)", "R-PREC: priority table = grammar levels",
			"R-VOCAB: keyword vocabulary", "R-MARSHAL / R-PARSE-RESULT: Marshal* = String(), Unmarshal*/Scan = Parse of the whole input"},
		NotDecided:  []string{"normalisation of numeric literals (D17: 4.0 prints as 4 and re-parses as an integer)", "equality of trees and of query results after the round trip (value level)", "String as a fixed point on concrete inputs"},
		Assumptions: []string{"strconv.IsPrint and the fmt verbs used by the quoting function behave as documented"},
	})
}

// decidedClauses: the spec's own list, completed with the documentation of
// every rule of the property that the list does not mention.
func decidedClauses(s *PropSpec) []string {
	out := append([]string{}, s.Decided...)
	all := strings.Join(s.Decided, " ")
	for _, rn := range s.Rules {
		if strings.Contains(all, rn) {
			continue
		}
		if r := rules[rn]; r != nil {
			out = append(out, rn+": "+r.Doc)
		}
	}
	return out
}
