package main

// R-FAILSTOP: a suppressed failure stops the evaluation.
//
// Under suppression (WithSilent, or inside a predicate operand) a failing step
// returns (failed, nil): the status is the only carrier of the failure. After
// every call to a status-returning evaluation inside a status-returning
// function, the paths on which "status == failed and err == nil" has not been
// refuted must reach a return whose status is failed, without going round a
// loop again: otherwise the silent run goes on collecting items located after
// the failing one, and differs from the non-silent run by more than the error.

import (
	"fmt"
	"go/token"

	"golang.org/x/tools/go/ssa"
)

// failstopExceptions: call sites where going on after a suppressed failure is
// the documented behaviour. Keyed by caller ← callee.
var failstopExceptions = map[string]string{
	"(*path/exec.Executor).execAnyNode ← (*path/exec.Executor).executeNextItem": "`.**` level 0: PostgreSQL's executeAnyItem driver ignores a soft failure of the zero-step attempt and descends (jsonpath_exec.c, case jpiAny: only `res == jperOk && !found` breaks); a reported error still returns",
}

func (p *Prog) failstopCheck(fn *ssa.Function, c *ssa.Call, stV, errV ssa.Value) []string {
	failedK := constOf(p.A.StatusFailed)
	var probs []string
	seen := map[string]bool{}
	report := func(s string) {
		if !seen[s] {
			seen[s] = true
			probs = append(probs, s)
		}
	}
	type frame struct {
		blk *ssa.BasicBlock
		idx int
		env map[*ssa.Phi]ssa.Value
		on  map[*ssa.BasicBlock]bool
	}
	budget := 6000
	resolve := func(v ssa.Value, env map[*ssa.Phi]ssa.Value) ssa.Value {
		for i := 0; i < 10; i++ {
			v = stripConv(v)
			ph, ok := v.(*ssa.Phi)
			if !ok {
				return v
			}
			nv, ok := env[ph]
			if !ok {
				return v
			}
			v = nv
		}
		return v
	}
	isSt := func(v ssa.Value, env map[*ssa.Phi]ssa.Value) bool {
		return stV != nil && sameValue(resolve(v, env), stV)
	}
	isErr := func(v ssa.Value, env map[*ssa.Phi]ssa.Value) bool {
		return errV != nil && sameValue(resolve(v, env), errV)
	}
	var walk func(f frame)
	enter := func(f frame, from, to *ssa.BasicBlock) {
		if to == fn.Recover {
			return
		}
		if f.on[to] {
			report("the loop at " + p.pos(firstPos(to)) + " goes on after the call at " + p.pos(c.Pos()) + " returned (failed, nil)")
			return
		}
		env := make(map[*ssa.Phi]ssa.Value, len(f.env)+2)
		for k, v := range f.env {
			env[k] = v
		}
		pi := -1
		for i, pr := range to.Preds {
			if pr == from {
				pi = i
			}
		}
		for _, ins := range to.Instrs {
			ph, ok := ins.(*ssa.Phi)
			if !ok {
				break
			}
			if pi >= 0 {
				env[ph] = resolve(ph.Edges[pi], f.env)
			}
		}
		on := make(map[*ssa.BasicBlock]bool, len(f.on)+1)
		for k := range f.on {
			on[k] = true
		}
		on[to] = true
		walk(frame{to, 0, env, on})
	}
	walk = func(f frame) {
		if budget <= 0 {
			report("path exploration budget exhausted (undecided)")
			return
		}
		budget--
		b := f.blk
		for i := f.idx; i < len(b.Instrs); i++ {
			switch x := b.Instrs[i].(type) {
			case *ssa.Return:
				if len(x.Results) == 0 {
					return
				}
				rv := resolve(unspill(b, x, x.Results[0]), f.env)
				if sameValue(rv, stV) {
					return
				}
				if k, ok := constInt(rv); ok && k == failedK {
					return
				}
				report("return at " + p.pos(x.Pos()) + " reports a status other than failed after the call at " + p.pos(c.Pos()) + " returned (failed, nil)")
				return
			case *ssa.Panic:
				return
			case *ssa.If:
				t, e := true, true
				// what the assumption (status == failed, err == nil) says about a test
				condKnown := func(cv ssa.Value) (holds, known bool) {
					switch cond := cv.(type) {
					case *ssa.BinOp:
						if cond.Op == token.EQL || cond.Op == token.NEQ {
							eq := cond.Op == token.EQL
							var h, k bool
							switch {
							case isErr(cond.X, f.env) && isNilConst(cond.Y), isErr(cond.Y, f.env) && isNilConst(cond.X):
								h, k = true, true // err == nil holds
							case isSt(cond.X, f.env):
								if c, ok := constInt(cond.Y); ok {
									h, k = c == failedK, true
								}
							case isSt(cond.Y, f.env):
								if c, ok := constInt(cond.X); ok {
									h, k = c == failedK, true
								}
							}
							if k {
								return h == eq, true
							}
						}
					case *ssa.Call:
						if len(cond.Call.Args) > 0 && p.isFailedMethod(cond.Call.StaticCallee()) && isSt(cond.Call.Args[0], f.env) {
							return true, true
						}
					}
					return false, false
				}
				if holds, known := condKnown(x.Cond); known {
					if holds {
						e = false
					} else {
						t = false
					}
				} else if pc, ok := x.Cond.(*ssa.Call); ok && !pc.Call.IsInvoke() {
					// a named test (`anyItemDone(res, found)`) judged under the assumption
					switch predTruth(pc, func(cv ssa.Value) tri {
						if holds, known := condKnown(cv); known {
							return triOf(holds)
						}
						return triUnknown
					}, 0) {
					case triTrue:
						e = false
					case triFalse:
						t = false
					}
				}
				for si, s := range b.Succs {
					if (si == 0 && !t) || (si == 1 && !e) {
						continue
					}
					enter(f, b, s)
				}
				return
			case *ssa.Jump:
				enter(f, b, b.Succs[0])
				return
			}
		}
	}
	walk(frame{c.Block(), instrIndex(c.Block(), c) + 1, map[*ssa.Phi]ssa.Value{}, map[*ssa.BasicBlock]bool{c.Block(): true}})
	return probs
}

var ruleFailStop = &Rule{
	Name: "R-FAILSTOP", NeedSSA: true,
	Doc: "after every call to a status-returning evaluation inside a status-returning function of package exec, every CFG path on which 'status == failed ∧ err == nil' (a suppressed failure) is not refuted reaches a return whose status is failed (the call's own status or the constant) without re-entering a loop; tabled exception: the zero-step attempt of `.**`",
	Run: func(p *Prog) *RuleOut {
		out := newOut("R-FAILSTOP")
		n := 0
		for _, fn := range p.execFuncs() {
			if p.pairKind(fn.Signature) != "status" {
				continue
			}
			ord := map[string]int{}
			for _, b := range fn.Blocks {
				for _, ins := range b.Instrs {
					c, ok := ins.(*ssa.Call)
					if !ok {
						continue
					}
					sig := calleeSig(c)
					if sig == nil || p.pairKind(sig) != "status" {
						continue
					}
					n++
					cn := calleeName(&c.Call)
					ord[cn]++
					base := fmt.Sprintf("%s ← %s", fnName(fn), cn)
					key := fmt.Sprintf("%s #%d", base, ord[cn])
					stV, errV := extractOf(c, 0), extractOf(c, 1)
					if stV == nil {
						// the status is not even read: only legal when the pair is returned whole
						if returnsCallDirectly(c) {
							out.ok(key, p.pos(c.Pos()), fnName(fn), "the pair is returned as it is")
						} else if why, ok := failstopExceptions[base]; ok {
							out.excepted(key, p.pos(c.Pos()), fnName(fn), why)
						} else {
							out.viol(key, p.pos(c.Pos()), fnName(fn), "the status of the evaluation is discarded: a suppressed failure (failed, nil) is not noticed")
						}
						continue
					}
					probs := p.failstopCheck(fn, c, stV, errV)
					switch {
					case len(probs) == 0:
						out.ok(key, p.pos(c.Pos()), fnName(fn), "every unrefuted path returns failed")
					default:
						if why, ok := failstopExceptions[base]; ok {
							out.excepted(key, p.pos(c.Pos()), fnName(fn), why)
						} else {
							out.viol(key, p.pos(c.Pos()), fnName(fn), "a suppressed failure does not stop the evaluation: "+probs[0], probs...)
						}
					}
				}
			}
		}
		out.Counts["status_call_sites"] = n
		out.Floors["status_call_sites"] = 13
		return out
	},
}

// returnsCallDirectly: the call's tuple is the operand of a return (`return f()`).
func returnsCallDirectly(c *ssa.Call) bool {
	for _, r := range *c.Referrers() {
		if _, ok := r.(*ssa.Return); ok {
			return true
		}
	}
	return false
}

func init() { register(ruleFailStop) }
