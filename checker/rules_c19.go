package main

import (
	"fmt"
	"go/token"
	"go/types"
	"sort"
	"strings"

	"golang.org/x/tools/go/ssa"
)

// readRoots: every operation a shared *Path supports without being a mutator
// by contract: the exec entry points, the Path read methods and every exported
// method of every ast type (getters, String).
func (p *Prog) readRoots() []*ssa.Function {
	var roots []*ssa.Function
	add := func(f *ssa.Function) {
		if f != nil {
			roots = append(roots, f)
		}
	}
	for _, n := range p.A.EntryOrder {
		add(p.ssaOf(p.A.Entry[n]))
	}
	pathT, _ := lookupNamed(p.Pkgs[pkgPath].Types, "Path")
	mutators := map[string]bool{"Scan": true, "UnmarshalText": true, "UnmarshalBinary": true, "UnmarshalJSON": true}
	if pathT != nil {
		ms := p.SSA.MethodSets.MethodSet(types.NewPointer(pathT))
		for i := 0; i < ms.Len(); i++ {
			m := ms.At(i)
			if !m.Obj().Exported() || mutators[m.Obj().Name()] {
				continue
			}
			add(p.SSA.MethodValue(m))
		}
	}
	var names []*types.Named
	for n := range p.A.ASTStructs {
		names = append(names, n)
	}
	for _, e := range p.A.Enums {
		names = append(names, e.Type)
	}
	sort.Slice(names, func(i, j int) bool { return names[i].Obj().Name() < names[j].Obj().Name() })
	for _, n := range names {
		for _, t := range []types.Type{n, types.NewPointer(n)} {
			ms := p.SSA.MethodSets.MethodSet(t)
			for i := 0; i < ms.Len(); i++ {
				if ms.At(i).Obj().Exported() {
					add(p.SSA.MethodValue(ms.At(i)))
				}
			}
		}
	}
	return roots
}

// parseRoots: every way text becomes a Path.
func (p *Prog) parseRoots() []*ssa.Function {
	var roots []*ssa.Function
	add := func(f *ssa.Function) {
		if f != nil {
			roots = append(roots, f)
		}
	}
	add(p.ssaFunc(pkgParser, "Parse"))
	add(p.ssaFunc(pkgPath, "Parse"))
	add(p.ssaFunc(pkgPath, "MustParse"))
	for _, m := range []string{"Scan", "UnmarshalText", "UnmarshalBinary"} {
		add(p.ssaFunc(pkgPath, "*Path."+m))
	}
	return roots
}

func isInit(fn *ssa.Function) bool {
	for f := fn; f != nil; f = f.Parent() {
		if f.Name() == "init" || strings.HasPrefix(f.Name(), "init#") {
			return true
		}
	}
	return false
}

// astOwned reports whether the provenance crosses a field of an ast struct.
func (p *Prog) astOwned(pv *Prov) (bool, string) {
	for _, f := range pv.Fields {
		if f.Owner != nil && p.A.ASTStructs[f.Owner] {
			return true, f.Owner.Obj().Name() + "." + f.Field.Name()
		}
	}
	for _, o := range pv.Origins {
		if o.Kind == "param" || o.Kind == "freevar" || o.Kind == "call" {
			if n := namedOf(o.Val.Type()); n != nil && n.Obj().Pkg() != nil && n.Obj().Pkg().Path() == pkgAST {
				if _, isIface := n.Underlying().(*types.Interface); !isIface {
					if _, isStruct := n.Underlying().(*types.Struct); !isStruct {
						// pointer to a non-struct ast type, e.g. *regexFlags
						if _, isPtr := o.Val.Type().Underlying().(*types.Pointer); isPtr {
							return true, "*" + n.Obj().Name()
						}
					}
				}
			}
		}
	}
	return false, ""
}

func freshHere(pv *Prov) bool {
	if len(pv.Origins) == 0 {
		return false
	}
	for _, o := range pv.Origins {
		switch o.Kind {
		case "alloc-local", "alloc-heap", "make":
			if o.Loads != 0 {
				return false
			}
		case "const":
		default:
			return false
		}
	}
	return true
}

func writeKey(fn *ssa.Function, w Write, target string) string {
	return fmt.Sprintf("%s writes %s (%s)", fnName(fn), target, w.Kind)
}

var ruleImmutAST = &Rule{
	Name:    "R-IMMUT-AST",
	NeedSSA: true,
	Doc:     "no store to a field of an ast struct (or to a node-owned slice/map) in any function reachable from the read roots, unless the target was allocated in the same function or the store is synchronised (sync.Once.Do / Mutex.Lock)",
	Run: func(p *Prog) *RuleOut {
		out := newOut("R-IMMUT-AST")
		roots := p.readRoots()
		reach := p.reachFrom(roots)
		out.Counts["read_roots"] = len(roots)
		out.Floors["read_roots"] = 10
		mods := moduleFuncs(reach.Set)
		out.Counts["reachable_module_functions"] = len(mods)
		out.Floors["reachable_module_functions"] = 50
		nw := 0
		type lockedField struct {
			owner *types.Named
			field int
			tgt   string
		}
		var lockedFields []lockedField
		for _, fn := range mods {
			for _, w := range writesOf(fn) {
				nw++
				pv := p.provenance(fn, w.Base)
				owned, tgt := p.astOwned(pv)
				if !owned {
					continue
				}
				key := writeKey(fn, w, tgt)
				site := p.pos(w.Instr.Pos())
				if freshHere(pv) {
					out.ok(key, site, fnName(fn), "target allocated in the same function (constructor)")
					continue
				}
				if w.Kind == "atomic" {
					out.viol(key, site, fnName(fn),
						"a shared, parsed path carries state that a read operation updates atomically ("+tgt+"): race-free, but what a call returns can now depend on the calls made before it on the same Path",
						reach.path(p, fn)...)
					continue
				}
				if g, how := p.syncGuarded(w.Instr); g {
					out.ok(key, site, fnName(fn), "synchronised: "+how)
					if fa, ok := w.Base.(*ssa.FieldAddr); ok && !strings.Contains(how, "Once") {
						lockedFields = append(lockedFields, lockedField{namedOf(fa.X.Type()), fa.Field, tgt})
					}
					continue
				}
				out.viol(key, site, fnName(fn),
					"a shared, parsed path is written during a read operation: "+w.Kind+" to "+tgt+" without synchronisation",
					reach.path(p, fn)...)
			}
		}
		// a field written under a lock must be read under the lock too
		for _, lf := range lockedFields {
			for _, fn := range mods {
				for _, b := range fn.Blocks {
					for _, ins := range b.Instrs {
						u, ok := ins.(*ssa.UnOp)
						if !ok || u.Op != token.MUL {
							continue
						}
						fa, ok := u.X.(*ssa.FieldAddr)
						if !ok || fa.Field != lf.field || namedOf(fa.X.Type()) != lf.owner {
							continue
						}
						key := fmt.Sprintf("%s reads %s", fnName(fn), lf.tgt)
						if g, how := p.syncGuarded(u); g {
							out.ok(key, p.pos(u.Pos()), fnName(fn), "read synchronised: "+how)
						} else {
							out.viol(key, p.pos(u.Pos()), fnName(fn), "the field is written under a lock during read operations but read here without it (double-checked locking): a data race on a shared Path", reach.path(p, fn)...)
						}
					}
				}
			}
		}
		out.Counts["writes_examined"] = nw
		out.Floors["writes_examined"] = 50
		// census over the whole module: who mutates AST memory at all, and is
		// any of them reachable from a read root?
		var mutators []string
		for fn := range p.AllFns {
			if !inModule(fn) || fn.Blocks == nil {
				continue
			}
			for _, w := range writesOf(fn) {
				pv := p.provenance(fn, w.Base)
				if owned, tgt := p.astOwned(pv); owned && !freshHere(pv) {
					mutators = append(mutators, fnName(fn)+" → "+tgt)
					if !reach.Set[fn] {
						out.ok("mutator not reachable: "+fnName(fn)+" writes "+tgt, p.pos(w.Instr.Pos()), fnName(fn),
							"construction-time mutator outside the read-reachable set")
					}
				}
			}
		}
		sort.Strings(mutators)
		out.Counts["ast_mutators_in_module"] = len(mutators)
		out.Floors["ast_mutators_in_module"] = 2 // the setNext family; proves such stores are visible to the rule
		out.note("AST mutators in the module (all must be outside the read-reachable set): %s", shortList(mutators, 12))
		return out
	},
}

var ruleGlobals = &Rule{
	Name:    "R-GLOBALS",
	NeedSSA: true,
	Doc:     "no package-level variable of the module is stored to, has an element/field stored through, or has its address passed to a call, in any function reachable from the read roots or from Parse (package initialisers excluded)",
	Run: func(p *Prog) *RuleOut {
		out := newOut("R-GLOBALS")
		roots := append(p.readRoots(), p.parseRoots()...)
		reach := p.reachFrom(roots)
		mods := moduleFuncs(reach.Set)
		out.Counts["reachable_module_functions"] = len(mods)
		out.Floors["reachable_module_functions"] = 50
		nglob := 0
		for _, pk := range p.ModPkgs {
			if sp := p.SSAPkg[pk.PkgPath]; sp != nil {
				for _, m := range sp.Members {
					if _, ok := m.(*ssa.Global); ok {
						nglob++
					}
				}
			}
		}
		out.Counts["module_globals"] = nglob
		out.Floors["module_globals"] = 3
		nw, nargs, nstorage := 0, 0, 0
		for _, fn := range mods {
			if isInit(fn) {
				continue
			}
			for _, w := range writesOf(fn) {
				nw++
				pv := p.provenance(fn, w.Base)
				for _, o := range pv.Origins {
					g, ok := o.Val.(*ssa.Global)
					if !ok || g.Pkg == nil || !strings.HasPrefix(g.Pkg.Pkg.Path(), modPath) {
						continue
					}
					if w.Kind == "append" && o.Loads > 0 {
						// append(global, …) only reads the global unless the
						// result is stored back (a separate store) — as long as
						// the slice is full: with spare capacity the new
						// elements are written into the backing array every
						// caller shares (`var start = append(make([]byte, 0, 6), '(', '?')`)
						if o.Loads == 1 && !p.globalSliceIsFull(g) {
							key := fmt.Sprintf("%s appends to global %s", fnName(fn), g.Name())
							out.viol(key, p.pos(w.Instr.Pos()), fnName(fn),
								"the package-level slice "+g.Name()+" is not known to be full (its initial value is not a literal or a constant conversion): append writes the new elements into its shared backing array, so concurrent calls overwrite each other's",
								reach.path(p, fn)...)
						}
						continue
					}
					key := fmt.Sprintf("%s writes global %s (%s)", fnName(fn), g.Name(), w.Kind)
					if gd, how := p.syncGuarded(w.Instr); gd {
						out.ok(key, p.pos(w.Instr.Pos()), fnName(fn), "synchronised: "+how)
						continue
					}
					out.viol(key, p.pos(w.Instr.Pos()), fnName(fn),
						"shared package-level state is modified during Parse/Query: "+w.Kind+" through "+g.Pkg.Pkg.Name()+"."+g.Name(),
						reach.path(p, fn)...)
				}
			}
			for _, b := range fn.Blocks {
				for _, ins := range b.Instrs {
					ci, ok := ins.(ssa.CallInstruction)
					if !ok {
						continue
					}
					for ai, a := range ci.Common().Args {
						nargs++
						if g, ok := a.(*ssa.Global); ok && g.Pkg != nil && strings.HasPrefix(g.Pkg.Pkg.Path(), modPath) {
							key := fmt.Sprintf("%s passes &%s to a call", fnName(fn), g.Name())
							out.viol(key, p.pos(ins.Pos()), fnName(fn),
								"address of package-level variable "+g.Name()+" escapes into a call; the callee may write it",
								reach.path(p, fn)...)
							continue
						}
						// the storage of a package-level variable handed on as a
						// slice of it or a pointer into it (`scratch[:0]`,
						// `&table[i]`): fine for a callee that only reads
						if g := globalStorage(a); g != nil {
							if _, isBuiltin := ci.Common().Value.(*ssa.Builtin); isBuiltin {
								continue // append/copy are in the write census
							}
							nstorage++
							key := fmt.Sprintf("%s hands the storage of %s to %s", fnName(fn), g.Name(), calleeName(ci.Common()))
							idx := ai
							callee := ci.Common().StaticCallee()
							if ci.Common().IsInvoke() {
								callee = nil
							}
							if why := p.paramMayBeWritten(callee, idx, 0); why == "" {
								out.ok(key, p.pos(ins.Pos()), fnName(fn), "the callee only reads through that parameter")
							} else {
								out.viol(key, p.pos(ins.Pos()), fnName(fn),
									"the memory of package-level variable "+g.Name()+" is handed to a callee that may write it ("+why+"): concurrent calls share it",
									reach.path(p, fn)...)
							}
						}
					}
				}
			}
		}
		out.Counts["writes_examined"] = nw
		out.Counts["call_arguments_examined"] = nargs
		out.Counts["global_storage_arguments"] = nstorage
		out.Floors["writes_examined"] = 50
		return out
	},
}

// globalSliceIsFull: the package-level slice g is set once, by its package's
// initialiser, to a value whose length is its capacity: a composite literal,
// a conversion of a constant string, nil.
func (p *Prog) globalSliceIsFull(g *ssa.Global) bool {
	var stores []*ssa.Store
	for fn := range p.AllFns {
		if !inModule(fn) {
			continue
		}
		for _, b := range fn.Blocks {
			for _, ins := range b.Instrs {
				if st, ok := ins.(*ssa.Store); ok && st.Addr == ssa.Value(g) {
					stores = append(stores, st)
				}
			}
		}
	}
	if len(stores) == 0 {
		return true // zero value: nil
	}
	if len(stores) != 1 || !isInit(stores[0].Parent()) {
		return false
	}
	switch v := stores[0].Val.(type) {
	case *ssa.Const:
		return true
	case *ssa.Slice:
		// `[]T{…}`: the whole of a fresh array
		if _, ok := v.X.(*ssa.Alloc); ok && v.Low == nil && v.High == nil && v.Max == nil {
			return true
		}
	case *ssa.Convert:
		if _, ok := v.X.(*ssa.Const); ok {
			return true // []byte("const")
		}
	}
	return false
}

// globalStorage: v is a slice of, or a pointer into, the memory of a
// package-level variable of the module (no load in between): `arr[:n]`,
// `&arr[i]`, `&g.field`.
func globalStorage(v ssa.Value) *ssa.Global {
	for i := 0; i < 6; i++ {
		switch x := v.(type) {
		case *ssa.Slice:
			v = x.X
		case *ssa.IndexAddr:
			v = x.X
		case *ssa.FieldAddr:
			v = x.X
		case *ssa.ChangeType:
			v = x.X
		case *ssa.Global:
			if i > 0 && x.Pkg != nil && strings.HasPrefix(x.Pkg.Pkg.Path(), modPath) {
				return x
			}
			return nil
		default:
			return nil
		}
	}
	return nil
}

var paramWrittenMemo = map[string]string{}

// paramMayBeWritten: "" when fn (any package, body required) provably never
// writes through its parameter number idx — no store, append, copy, in-place
// library call or escape whose target derives from it, and no callee that may
// do so; otherwise a reason.
func (p *Prog) paramMayBeWritten(fn *ssa.Function, idx, depth int) string {
	if fn == nil {
		return "callee not resolved"
	}
	if fn.Blocks == nil {
		return "no body for " + fnName(fn)
	}
	if depth > 5 {
		return "call depth"
	}
	// receiver first in Params for methods: idx counts Call.Args, which for a
	// static method call include the receiver
	if idx >= len(fn.Params) {
		if fn.Signature.Variadic() {
			idx = len(fn.Params) - 1
		} else {
			return "argument position"
		}
	}
	key := fmt.Sprintf("%p/%d", fn, idx)
	if r, ok := paramWrittenMemo[key]; ok {
		return r
	}
	paramWrittenMemo[key] = "" // recursion: assume no write until shown
	q := fn.Params[idx]
	from := func(v ssa.Value) bool {
		if v == nil {
			return false
		}
		for _, o := range p.provenance(fn, v).Origins {
			if o.Val == ssa.Value(q) {
				return true
			}
		}
		return false
	}
	why := ""
	for _, w := range writesOf(fn) {
		if from(w.Base) {
			why = w.Kind + " in " + fnName(fn)
			break
		}
		if w.Kind == "store" && from(w.Val) {
			if _, local := w.Base.(*ssa.Alloc); !local {
				why = "kept by " + fnName(fn)
				break
			}
		}
	}
	if why == "" {
	outer:
		for _, b := range fn.Blocks {
			for _, ins := range b.Instrs {
				ci, ok := ins.(ssa.CallInstruction)
				if !ok {
					continue
				}
				if _, isB := ci.Common().Value.(*ssa.Builtin); isB {
					continue
				}
				for ai, a := range ci.Common().Args {
					if !from(a) {
						continue
					}
					callee := ci.Common().StaticCallee()
					if ci.Common().IsInvoke() {
						callee = nil
					}
					if r := p.paramMayBeWritten(callee, ai, depth+1); r != "" {
						why = r
						break outer
					}
				}
			}
		}
	}
	paramWrittenMemo[key] = why
	return why
}

var ambientFuncs = map[string]string{
	"time.Now": "wall clock", "time.Since": "wall clock", "time.Until": "wall clock",
	"os.Getenv": "environment", "os.LookupEnv": "environment", "os.Environ": "environment",
	"os.Getpid": "process id", "os.Hostname": "host name", "os.Getwd": "working directory",
	"os.ReadFile": "file system", "os.Open": "file system",
	"time.LoadLocation": "zone database / environment",
}

var ambientPkgs = map[string]string{"math/rand": "random source", "math/rand/v2": "random source", "crypto/rand": "random source"}

var ambientGlobals = map[string]string{"time.Local": "process-wide local zone"}

// Tabled exceptions of R-AMBIENT: one named symbol each, with the reason.
var ambientExceptions = map[string]string{
	"(*path/types.Time).ToTimeTZ → time.Now": "documented PostgreSQL-compatible behaviour: time→timetz picks the zone offset in force on the current date; only reachable under WithTZ",
}

var ruleAmbient = &Rule{
	Name:    "R-AMBIENT",
	NeedSSA: true,
	Doc:     "no module function reachable from the read roots calls an ambient source (clock, environment, random, file system) or reads a mutable process-wide stdlib variable; exceptions are tabled by symbol",
	Run: func(p *Prog) *RuleOut {
		out := newOut("R-AMBIENT")
		reach := p.reachFrom(p.readRoots())
		mods := moduleFuncs(reach.Set)
		ncalls := 0
		for _, fn := range mods {
			for _, b := range fn.Blocks {
				for _, ins := range b.Instrs {
					if ci, ok := ins.(ssa.CallInstruction); ok {
						ncalls++
						callee := ci.Common().StaticCallee()
						if callee == nil {
							continue
						}
						q := calleeQualified(ci.Common())
						why, bad := ambientFuncs[q]
						if !bad {
							if pk := fnPkg(callee); pk != nil {
								why, bad = ambientPkgs[pk.Path()]
							}
						}
						if !bad {
							continue
						}
						key := fnName(fn) + " → " + q
						if reason, ok := ambientExceptions[key]; ok {
							out.excepted(key, p.pos(ins.Pos()), fnName(fn), reason)
							continue
						}
						out.viol(key, p.pos(ins.Pos()), fnName(fn), "result of a query depends on ambient state ("+why+")", reach.path(p, fn)...)
					}
					if u, ok := ins.(*ssa.UnOp); ok {
						if g, ok := u.X.(*ssa.Global); ok && g.Pkg != nil {
							q := g.Pkg.Pkg.Path() + "." + g.Name()
							if why, bad := ambientGlobals[q]; bad {
								out.viol(fnName(fn)+" reads "+q, p.pos(ins.Pos()), fnName(fn), "result depends on "+why, reach.path(p, fn)...)
							}
						}
					}
				}
			}
		}
		out.Counts["calls_examined"] = ncalls
		out.Floors["calls_examined"] = 130
		out.Counts["tabled_exceptions"] = len(ambientExceptions)
		return out
	},
}

var ruleExecFresh = &Rule{
	Name:    "R-EXECFRESH",
	NeedSSA: true,
	Doc:     "the *Executor each entry point evaluates with is allocated by that call, and no *Executor is ever stored into a package-level variable, another heap object, a channel or handed to a goroutine",
	Run: func(p *Prog) *RuleOut {
		out := newOut("R-EXECFRESH")
		execPtr := types.NewPointer(p.A.Executor)
		isExecPtr := func(t types.Type) bool { return types.Identical(t, execPtr) }
		// (a) freshness at the entry points
		for _, name := range p.A.EntryOrder {
			fn := p.ssaOf(p.A.Entry[name])
			if fn == nil {
				out.undecided("entry "+name, "-", name, "no SSA body")
				continue
			}
			n := 0
			// the entry point's own body, and the prologue helpers it shares
			// with its siblings
			hosts := []*ssa.Function{fn}
			eset := p.entrySet()
			for _, hc := range p.allCalls(fn) {
				if h := hc.Call.StaticCallee(); h != nil && eset[h] && h != fn && h.Blocks != nil {
					hosts = append(hosts, h)
				}
			}
			for _, host := range hosts {
				fn := host
				for _, b := range fn.Blocks {
					for _, ins := range b.Instrs {
						ci, ok := ins.(ssa.CallInstruction)
						if !ok {
							continue
						}
						c := ci.Common()
						var recv ssa.Value
						if c.IsInvoke() {
							continue
						}
						if sc := c.StaticCallee(); sc != nil && sc.Signature.Recv() != nil && len(c.Args) > 0 && isExecPtr(c.Args[0].Type()) {
							recv = c.Args[0]
						}
						if recv == nil {
							continue
						}
						n++
						key := fmt.Sprintf("exec.%s evaluates with a fresh Executor (call to %s)", name, c.StaticCallee().Name())
						if p.isFreshValue(fn, recv, 0) {
							out.ok(key, p.pos(ins.Pos()), fnName(fn), "receiver is allocated by this call")
						} else {
							out.viol(key, p.pos(ins.Pos()), fnName(fn), "the Executor used by "+name+" is not provably allocated by this call: state could be shared between calls")
						}
					}
				}
			}
			if n == 0 {
				out.undecided("entry "+name, p.pos(fn.Pos()), fnName(fn), "no evaluation call with an *Executor receiver found")
			}
		}
		// (b) no escape
		ns := 0
		for fn := range p.AllFns {
			if !inModule(fn) || fn.Blocks == nil {
				continue
			}
			for _, b := range fn.Blocks {
				for _, ins := range b.Instrs {
					switch x := ins.(type) {
					case *ssa.Store:
						if !isExecPtr(x.Val.Type()) {
							continue
						}
						ns++
						pv := p.provenance(fn, x.Addr)
						if freshLocalOnly(pv) {
							continue
						}
						out.viol(fnName(fn)+" stores *Executor", p.pos(ins.Pos()), fnName(fn), "an Executor pointer is stored into memory that may outlive the call")
					case *ssa.MapUpdate:
						if isExecPtr(x.Value.Type()) {
							out.viol(fnName(fn)+" stores *Executor in map", p.pos(ins.Pos()), fnName(fn), "an Executor pointer is stored into a map")
						}
					case *ssa.Send:
						if isExecPtr(x.X.Type()) {
							out.viol(fnName(fn)+" sends *Executor", p.pos(ins.Pos()), fnName(fn), "an Executor pointer is sent on a channel")
						}
					case *ssa.Go:
						for _, a := range x.Call.Args {
							if isExecPtr(a.Type()) {
								out.viol(fnName(fn)+" go with *Executor", p.pos(ins.Pos()), fnName(fn), "an Executor is shared with a new goroutine")
							}
						}
					}
				}
			}
		}
		out.Counts["executor_pointer_stores"] = ns
		out.Counts["entry_points"] = len(p.A.EntryOrder)
		out.Floors["entry_points"] = 4
		return out
	},
}

func freshLocalOnly(pv *Prov) bool {
	if len(pv.Origins) == 0 {
		return false
	}
	for _, o := range pv.Origins {
		if o.Kind != "alloc-local" && o.Kind != "alloc-heap" {
			return false
		}
		if o.Loads != 0 {
			return false
		}
		if a, ok := o.Val.(*ssa.Alloc); ok {
			// must be a plain local variable (spill slot), not a struct that
			// is itself published
			_ = a
		}
	}
	return true
}

// isFreshValue: v is an allocation of fn, or the result of a static call to a
// module function all of whose returns are fresh allocations (depth ≤ 3).
func (p *Prog) isFreshValue(fn *ssa.Function, v ssa.Value, depth int) bool {
	if depth > 3 {
		return false
	}
	switch x := v.(type) {
	case *ssa.Alloc:
		return true
	case *ssa.Call:
		callee := x.Call.StaticCallee()
		if callee == nil || callee.Blocks == nil {
			return false
		}
		nret := 0
		for _, b := range callee.Blocks {
			for _, ins := range b.Instrs {
				if r, ok := ins.(*ssa.Return); ok {
					nret++
					if len(r.Results) == 0 || !p.isFreshValue(callee, r.Results[0], depth+1) {
						return false
					}
				}
			}
		}
		return nret > 0
	case *ssa.Phi:
		for _, e := range x.Edges {
			if !p.isFreshValue(fn, e, depth+1) {
				return false
			}
		}
		return len(x.Edges) > 0
	}
	return false
}

// freshStdlib: stdlib functions whose result is a newly allocated container.
var freshStdlib = map[string]bool{"slices.Collect": true, "slices.Clone": true, "maps.Clone": true, "slices.Sorted": true, "strings.Split": true, "strings.Fields": true}

// R-INPUT-RO: the queried value and the variables are never written.
var ruleInputRO = &Rule{
	Name: "R-INPUT-RO", NeedSSA: true,
	Doc: "no store through, map update of, delete/clear/append/in-place sort on memory that derives from the queried value, a variable value or the variables map, in any function reachable from the entry points: containers the executor writes are its own fresh allocations (result lists, the keyvalue triple, the auto-wrap slice)",
	Run: func(p *Prog) *RuleOut {
		out := newOut("R-INPUT-RO")
		roots := entryRootsFn(p)
		// option closures are built by the caller and run by the constructor:
		// no module function calls the exported option constructors, so the
		// call graph does not reach their literals from the entry points
		for fn := range p.AllFns {
			if fnPkgPath(fn) == pkgExec && fn.Parent() != nil && isOptionCtor(p, fn.Parent()) {
				roots = append(roots, fn)
			}
		}
		sortFuncs(roots)
		reach := p.reachFrom(roots)
		n, nsus := 0, 0
		ord := ordinals{}
		isItemish := func(t types.Type) bool {
			switch u := t.Underlying().(type) {
			case *types.Interface:
				return u.NumMethods() == 0
			case *types.Slice:
				return types.IsInterface(u.Elem())
			case *types.Map:
				return types.IsInterface(u.Elem())
			}
			return false
		}
		for _, fn := range moduleFuncs(reach.Set) {
			if fnPkgPath(fn) != pkgExec && fnPkgPath(fn) != pkgTypes {
				continue
			}
			for _, w := range writesOf(fn) {
				// only writes into containers / through pointers that can alias the input
				switch w.Kind {
				case "store":
					if _, ok := w.Base.(*ssa.IndexAddr); !ok {
						continue // field and local stores are judged by R-STATE / R-IMMUT-AST
					}
				case "send":
					continue
				}
				n++
				pv := p.provenance(fn, w.Base)
				bad := ""
				for _, o := range pv.Origins {
					switch o.Kind {
					case "param", "freevar":
						if isItemish(o.Val.Type()) {
							bad = "parameter " + o.Val.Name()
						}
					case "call":
						if c, ok := o.Val.(*ssa.Call); ok {
							q := calleeQualified(&c.Call)
							if freshStdlib[q] {
								continue
							}
							if sc := c.Call.StaticCallee(); sc != nil && inModule(sc) && isItemish(c.Type()) {
								// a module function returning a container: fresh only if it allocates
								if !p.isFreshValue(fn, c, 0) && !returnsFreshContainer(sc) {
									bad = "result of " + fnName(sc)
								}
							}
						}
					}
				}
				for _, f := range pv.Fields {
					if f.Owner == p.A.Executor && (f.Field == p.A.VarsField || f.Field.Name() == "root" || f.Field.Name() == "current") {
						bad = "Executor." + f.Field.Name()
					}
				}
				if w.Kind == "append" && bad != "" {
					// append(x, …) with x an input slice may write into its spare capacity
				}
				if bad == "" {
					continue
				}
				nsus++
				key := fmt.Sprintf("%s: %s on caller-owned data #%d", fnName(fn), w.Kind, ord.next(fnName(fn)))
				out.viol(key, p.pos(w.Instr.Pos()), fnName(fn), "memory derived from "+bad+" is modified: the queried value or the variables would change under the caller's feet", reach.path(p, fn)...)
			}
		}
		// Second clause: a caller-owned container never becomes executor-owned
		// storage. Every store into a container-typed field of a module struct
		// stores a fresh allocation, nil, append(that field, …) or another
		// executor-owned field; never a container obtained from an item.
		nfs := 0
		for _, fn := range moduleFuncs(reach.Set) {
			if fnPkgPath(fn) != pkgExec {
				continue
			}
			for _, b := range fn.Blocks {
				for _, ins := range b.Instrs {
					st, ok := ins.(*ssa.Store)
					if !ok {
						continue
					}
					fa, ok := st.Addr.(*ssa.FieldAddr)
					if !ok {
						continue
					}
					ft := fa.Type().(*types.Pointer).Elem()
					switch ft.Underlying().(type) {
					case *types.Slice, *types.Map:
					default:
						continue
					}
					if !isItemish(ft) {
						continue
					}
					owner := namedOf(fa.X.Type())
					if owner == nil || owner.Obj().Pkg() == nil || !strings.HasPrefix(owner.Obj().Pkg().Path(), modPath) {
						continue
					}
					if owner == p.A.Executor && fieldOf(fa) == p.A.VarsField {
						continue // the variables map is the caller's and is only read (first clause)
					}
					nfs++
					key := fmt.Sprintf("%s stores into %s.%s #%d", fnName(fn), owner.Obj().Name(), fieldName(fa), ord.next(fnName(fn)+"/field"))
					if other := sharesOtherList(st.Val, fa, 0); other != "" {
						out.viol(key, p.pos(st.Pos()), fnName(fn), "the field is set to a reslice of "+other+": two lists now share one backing array, so appending to one overwrites items of the other that have not been read yet", reach.path(p, fn)...)
						continue
					}
					if why := p.foreignContainer(fn, st.Val, 0); why != "" {
						out.viol(key, p.pos(st.Pos()), fnName(fn), "a container the executor does not own ("+why+") becomes the backing store of "+owner.Obj().Name()+"."+fieldName(fa)+": a later append or element store would write into the caller's document", reach.path(p, fn)...)
					} else {
						out.ok(key, p.pos(st.Pos()), fnName(fn), "fresh allocation, nil, or append to executor-owned storage")
					}
				}
			}
		}
		out.Counts["container_field_stores"] = nfs
		out.Floors["container_field_stores"] = 2
		out.Counts["container_writes_examined"] = n
		out.Floors["container_writes_examined"] = 7
		out.Counts["writes_into_caller_data"] = nsus
		return out
	},
}

// returnsFreshContainer: every return of fn is a make/alloc/composite or the
// result of a fresh stdlib allocator, or nil.
func returnsFreshContainer(fn *ssa.Function) bool {
	if fn.Blocks == nil {
		return false
	}
	for _, r := range returnsOf(fn) {
		if len(r.Results) == 0 {
			return false
		}
		v := stripConv(r.Results[0])
		switch x := v.(type) {
		case *ssa.MakeSlice, *ssa.MakeMap, *ssa.Alloc:
		case *ssa.Const:
			if x.Value != nil {
				return false
			}
		case *ssa.Call:
			if !freshStdlib[calleeQualified(&x.Call)] {
				return false
			}
		default:
			return false
		}
	}
	return true
}

func init() { register(ruleInputRO) }

// foreignContainer: "" if v is provably executor-owned storage (fresh
// allocation, nil, append/reslice of such, a load of a container field of a
// module struct); otherwise a description of where it may come from.
func (p *Prog) foreignContainer(fn *ssa.Function, v ssa.Value, depth int) string {
	if depth > 8 {
		return "too deep to follow"
	}
	v = stripConv(v)
	switch x := v.(type) {
	case *ssa.MakeSlice, *ssa.MakeMap:
		return ""
	case *ssa.Const:
		if x.Value == nil {
			return ""
		}
	case *ssa.Slice:
		if a, ok := x.X.(*ssa.Alloc); ok && a.Heap {
			return "" // slice literal
		}
		return p.foreignContainer(fn, x.X, depth+1)
	case *ssa.Alloc:
		return ""
	case *ssa.Phi:
		for _, e := range x.Edges {
			if w := p.foreignContainer(fn, e, depth+1); w != "" {
				return w
			}
		}
		return ""
	case *ssa.UnOp:
		if x.Op == token.MUL {
			if fa, ok := x.X.(*ssa.FieldAddr); ok {
				if o := namedOf(fa.X.Type()); o != nil && o.Obj().Pkg() != nil && strings.HasPrefix(o.Obj().Pkg().Path(), modPath) {
					if o == p.A.Executor && fieldOf(fa) == p.A.VarsField {
						return "the variables map"
					}
					return ""
				}
			}
		}
	case *ssa.Call:
		if bi, ok := x.Call.Value.(*ssa.Builtin); ok && bi.Name() == "append" {
			return p.foreignContainer(fn, x.Call.Args[0], depth+1)
		}
		if freshStdlib[calleeQualified(&x.Call)] {
			return ""
		}
		if sc := x.Call.StaticCallee(); sc != nil && inModule(sc) && returnsFreshContainer(sc) {
			return ""
		}
		return "result of " + calleeName(&x.Call)
	case *ssa.TypeAssert:
		return "type assertion on an item at " + p.pos(x.Pos())
	case *ssa.Extract:
		if ta, ok := x.Tuple.(*ssa.TypeAssert); ok {
			return "type assertion on an item at " + p.pos(ta.Pos())
		}
	case *ssa.Parameter:
		return "parameter " + x.Name()
	case *ssa.FreeVar:
		return "captured variable " + x.Name()
	}
	return "value " + v.Name() + " of unknown origin"
}

func fieldOf(fa *ssa.FieldAddr) *types.Var {
	t := fa.X.Type()
	if pt, ok := t.Underlying().(*types.Pointer); ok {
		t = pt.Elem()
	}
	if st, ok := t.Underlying().(*types.Struct); ok && fa.Field < st.NumFields() {
		return st.Field(fa.Field)
	}
	return nil
}

// sharesOtherList: v is (a reslice / append base of) a load of the same field
// of a different struct value than the one dst belongs to.
func sharesOtherList(v ssa.Value, dst *ssa.FieldAddr, depth int) string {
	if depth > 6 {
		return ""
	}
	switch x := stripConv(v).(type) {
	case *ssa.Slice:
		return sharesOtherList(x.X, dst, depth+1)
	case *ssa.Phi:
		for _, e := range x.Edges {
			if w := sharesOtherList(e, dst, depth+1); w != "" {
				return w
			}
		}
	case *ssa.Call:
		if bi, ok := x.Call.Value.(*ssa.Builtin); ok && bi.Name() == "append" {
			return sharesOtherList(x.Call.Args[0], dst, depth+1)
		}
	case *ssa.UnOp:
		if x.Op == token.MUL {
			if fa, ok := x.X.(*ssa.FieldAddr); ok && fa.Field == dst.Field && namedOf(fa.X.Type()) == namedOf(dst.X.Type()) && !sameValue(fa.X, dst.X) {
				return "the list of another value (" + fa.X.Name() + ")"
			}
		}
	}
	return ""
}

// --- R-PATHRO: reading a Path does not write the Path ---------------------------------------------

var rulePathRO = &Rule{
	Name: "R-PATHRO", NeedSSA: true,
	Doc: "no exported method of *Path other than the ones that fill it (Scan, UnmarshalText, UnmarshalBinary, UnmarshalJSON), and no function of package path such a method hands its receiver to, stores through the receiver: a Path shared between goroutines is only read by String, the Marshal methods, Value and the query methods (a text cached on first use is a write)",
	Run: func(p *Prog) *RuleOut {
		out := newOut("R-PATHRO")
		pathT, _ := lookupNamed(p.Pkgs[pkgPath].Types, "Path")
		if pathT == nil {
			out.undecided("Path", "-", "", "anchor unresolved: type path.Path")
			return out
		}
		mutators := map[string]bool{"Scan": true, "UnmarshalText": true, "UnmarshalBinary": true, "UnmarshalJSON": true}
		// rooted: the address is reached from v through field/index steps only
		var rooted func(a, v ssa.Value, d int) bool
		rooted = func(a, v ssa.Value, d int) bool {
			if d > 6 {
				return false
			}
			if a == v {
				return true
			}
			switch x := a.(type) {
			case *ssa.FieldAddr:
				return rooted(x.X, v, d+1)
			case *ssa.IndexAddr:
				return rooted(x.X, v, d+1)
			}
			return false
		}
		var scan func(fn *ssa.Function, recv ssa.Value, depth int, seen map[*ssa.Function]bool) string
		scan = func(fn *ssa.Function, recv ssa.Value, depth int, seen map[*ssa.Function]bool) string {
			if seen[fn] || depth > 3 {
				return ""
			}
			seen[fn] = true
			for _, b := range fn.Blocks {
				for _, ins := range b.Instrs {
					switch x := ins.(type) {
					case *ssa.Store:
						if rooted(x.Addr, recv, 0) {
							return "store through the receiver at " + p.pos(x.Pos()) + " in " + fnName(fn)
						}
					case *ssa.Call:
						sc := x.Call.StaticCallee()
						if sc == nil || x.Call.IsInvoke() || sc.Blocks == nil || fnPkgPath(sc) != pkgPath || (sc.Object() != nil && mutators[sc.Name()] && sc.Signature.Recv() != nil) {
							if sc != nil && sc.Signature.Recv() != nil && mutators[sc.Name()] && fnPkgPath(sc) == pkgPath && len(x.Call.Args) > 0 && x.Call.Args[0] == recv {
								return "calls " + sc.Name() + " on the receiver at " + p.pos(x.Pos()) + " in " + fnName(fn)
							}
							continue
						}
						for i, a := range x.Call.Args {
							if a == recv && i < len(sc.Params) {
								if why := scan(sc, sc.Params[i], depth+1, seen); why != "" {
									return why
								}
							}
						}
					}
				}
			}
			return ""
		}
		n := 0
		ms := p.SSA.MethodSets.MethodSet(types.NewPointer(pathT))
		for i := 0; i < ms.Len(); i++ {
			m := ms.At(i)
			if !m.Obj().Exported() || mutators[m.Obj().Name()] {
				continue
			}
			fn := p.SSA.MethodValue(m)
			if fn == nil || fn.Blocks == nil || len(fn.Params) == 0 {
				continue
			}
			// a method promoted from the embedded tree is the tree's business (R-IMMUT-AST)
			if fnPkgPath(fn) != pkgPath || fn.Synthetic != "" {
				continue
			}
			n++
			key := "(*Path)." + m.Obj().Name() + " does not write the Path"
			if why := scan(fn, fn.Params[0], 0, map[*ssa.Function]bool{}); why != "" {
				out.viol(key, p.pos(fn.Pos()), fnName(fn), "a method that only reads the Path writes it ("+why+"): two goroutines sharing the Path race, and the value changes under a caller that compares or copies it")
			} else {
				out.ok(key, p.pos(fn.Pos()), fnName(fn), "no store through the receiver, directly or in a function of the package it is handed to")
			}
		}
		out.Counts["reading_methods_of_Path"] = n
		out.Floors["reading_methods_of_Path"] = 4
		return out
	},
}

func init() { register(rulePathRO) }
