package main

// Thorough tier extras: the self-validation sweep (stored in-memory mutants and
// seeded patches must be caught) and cross-references with generic tools. The
// sweep validates the checker; the verdict on /repo never depends on it.

import (
	"bytes"
	"encoding/json"
	"fmt"
	"os"
	"os/exec"
	"path/filepath"
	"sort"
	"strings"
	"sync"
)

type seedMeta struct {
	Property any    `json:"property"` // string or list
	Name     string `json:"name"`
	Needs    string `json:"needs_to_manifest"`
	CaughtBy any    `json:"caught_by,omitempty"`
}

func (m *seedMeta) props() []string {
	switch v := m.Property.(type) {
	case string:
		return []string{v}
	case []any:
		var out []string
		for _, x := range v {
			if s, ok := x.(string); ok {
				out = append(out, s)
			}
		}
		return out
	}
	return nil
}

func runSweep(id string, spec *PropSpec, problems []string) ([]map[string]any, []string) {
	var out []map[string]any
	kf, _ := loadKnown(filepath.Join(*flagVerif, "known_findings.json"))
	// (1) stored in-memory mutants
	mfile := filepath.Join(*flagVerif, "mutants", id+".json")
	if ms, err := loadControls(mfile); err == nil && len(ms) > 0 {
		res := spawnControls(id, mfile, len(ms), 6)
		for i, r := range res {
			e := map[string]any{"kind": "mutant", "name": ms[i].Name}
			switch {
			case r.Stale != "":
				e["result"] = "skipped: no longer applies (" + r.Stale + ")"
			case r.LoadError != "":
				e["result"] = "mutant does not compile: " + trunc(r.LoadError, 200)
			default:
				n := 0
				var ks []string
				for _, v := range r.Violations {
					if kf.match(id, &v) == nil {
						n++
						ks = append(ks, v.Rule+": "+v.Key)
					}
				}
				if n > 0 {
					e["result"] = "caught"
					e["reported"] = ks
				} else {
					e["result"] = "MISSED"
				}
			}
			out = append(out, e)
		}
	}
	// (2) seeded patches
	seedRoot := filepath.Join(*flagVerif, "seeded")
	ents, _ := os.ReadDir(seedRoot)
	type job struct {
		dir  string
		meta seedMeta
	}
	var jobs []job
	for _, en := range ents {
		if !en.IsDir() {
			continue
		}
		d := filepath.Join(seedRoot, en.Name())
		b, err := os.ReadFile(filepath.Join(d, "meta.json"))
		if err != nil {
			continue
		}
		var m seedMeta
		if json.Unmarshal(b, &m) != nil {
			continue
		}
		if m.Name == "" {
			m.Name = en.Name()
		}
		for _, pr := range m.props() {
			if pr == id {
				jobs = append(jobs, job{d, m})
			}
		}
	}
	res := make([]map[string]any, len(jobs))
	sem := make(chan struct{}, 4)
	var wg sync.WaitGroup
	for i, j := range jobs {
		wg.Add(1)
		go func(i int, j job) {
			defer wg.Done()
			sem <- struct{}{}
			defer func() { <-sem }()
			res[i] = runSeed(id, j.dir, j.meta, kf)
		}(i, j)
	}
	wg.Wait()
	out = append(out, res...)
	// (3) behaviour-preserving refactorings: every rule of the property must
	// stay silent on them; an alarm here is a defect of the checker
	refRoot := filepath.Join(*flagVerif, "refactors")
	rents, _ := os.ReadDir(refRoot)
	var rjobs []string
	for _, en := range rents {
		if en.IsDir() {
			if _, err := os.Stat(filepath.Join(refRoot, en.Name(), "patch.diff")); err == nil {
				rjobs = append(rjobs, en.Name())
			}
		}
	}
	rres := make([]map[string]any, len(rjobs))
	for i, name := range rjobs {
		wg.Add(1)
		go func(i int, name string) {
			defer wg.Done()
			sem <- struct{}{}
			defer func() { <-sem }()
			e := runSeed(id, filepath.Join(refRoot, name), seedMeta{Name: "refactoring " + name, Needs: "nothing: behaviour is unchanged"}, kf)
			e["kind"] = "behaviour-preserving refactoring"
			switch e["result"] {
			case "MISSED":
				e["result"] = "silent (as required)"
			case "caught":
				e["result"] = "FALSE ALARM of the checker"
			}
			rres[i] = e
		}(i, name)
	}
	wg.Wait()
	for _, e := range rres {
		if e["result"] == "FALSE ALARM of the checker" {
			// informational only: the verdict on the repository never depends on the sweep
			fmt.Printf("SELF-VALIDATION: the rules of %s report the behaviour-preserving %v: %v\n", id, e["name"], e["reported"])
		}
	}
	out = append(out, rres...)
	sort.SliceStable(out, func(i, j int) bool { return fmt.Sprint(out[i]["name"]) < fmt.Sprint(out[j]["name"]) })
	return out, problems
}

// runSeed applies a seeded patch to a scratch copy of the repository (outside
// /repo and /verif, removed afterwards) and runs the property's rules on it.
func runSeed(id, dir string, m seedMeta, kf *KnownFile) map[string]any {
	e := map[string]any{"kind": "seeded change", "name": m.Name, "needs": m.Needs}
	tmp, err := os.MkdirTemp("", "sqljsonlint-seed-")
	if err != nil {
		e["result"] = "skipped: " + err.Error()
		return e
	}
	defer os.RemoveAll(tmp)
	scratch := filepath.Join(tmp, "repo")
	cp := exec.Command("rsync", "-a", "--exclude", ".git", strings.TrimSuffix(*flagRepo, "/")+"/", scratch+"/")
	if outb, err := cp.CombinedOutput(); err != nil {
		e["result"] = "skipped: copy failed: " + trunc(string(outb), 200)
		return e
	}
	ap := exec.Command("git", "apply", "--whitespace=nowarn", filepath.Join(dir, "patch.diff"))
	ap.Dir = scratch
	if outb, err := ap.CombinedOutput(); err != nil {
		e["result"] = "skipped: patch no longer applies to the current tree (" + trunc(strings.TrimSpace(string(outb)), 160) + ")"
		return e
	}
	self, _ := os.Executable()
	ctl := filepath.Join(tmp, "empty.json")
	_ = os.WriteFile(ctl, []byte(`[{"name":"seed","subs":[],"expect":[]}]`), 0o644)
	cmd := exec.Command(self, "-mode", "control", "-prop", id, "-control", ctl, "-index", "0", "-repo", scratch, "-verif", *flagVerif)
	var ob, eb bytes.Buffer
	cmd.Stdout, cmd.Stderr = &ob, &eb
	if err := cmd.Run(); err != nil {
		e["result"] = "skipped: checker failed on the scratch copy: " + trunc(eb.String(), 200)
		return e
	}
	var cr controlResult
	if err := json.Unmarshal(ob.Bytes(), &cr); err != nil {
		e["result"] = "skipped: unparsable result"
		return e
	}
	if cr.LoadError != "" {
		e["result"] = "analysis failed on the changed tree (counts as an alarm): " + trunc(cr.LoadError, 200)
		return e
	}
	var ks []string
	for _, v := range cr.Violations {
		if kf.match(id, &v) == nil {
			ks = append(ks, v.Rule+": "+v.Key)
		}
	}
	sort.Strings(ks)
	if len(ks) > 0 {
		e["result"] = "caught"
		if len(ks) > 6 {
			ks = append(ks[:6], fmt.Sprintf("… %d more", len(ks)-6))
		}
		e["reported"] = ks
	} else {
		e["result"] = "MISSED"
	}
	return e
}

// crossRef compares generic tools with the rule's own site list (thorough).
func crossRef(p *Prog, id string, all []Ob) ([]map[string]any, []string) {
	var out []map[string]any
	var problems []string
	hasPairC := false
	for _, r := range props[id].Rules {
		if r == "R-PAIR-C" || r == "R-PAIR-C-HARD" {
			hasPairC = true
		}
	}
	if hasPairC {
		cmd := exec.Command("errcheck", "-blank", "-ignoretests", "./path/exec")
		cmd.Dir = p.RepoDir
		cmd.Env = p.Env
		b, _ := cmd.CombinedOutput()
		seen := map[string]bool{}
		for _, ob := range all {
			if strings.HasPrefix(ob.Rule, "R-PAIR-C") {
				seen[ob.Site] = true
			}
		}
		n, unknown := 0, 0
		for _, ln := range strings.Split(string(b), "\n") {
			f := strings.Fields(ln)
			if len(f) == 0 || !strings.Contains(f[0], ".go:") {
				continue
			}
			parts := strings.Split(f[0], ":")
			if len(parts) < 2 {
				continue
			}
			site := parts[0] + ":" + parts[1]
			n++
			if !seen[site] {
				// only calls returning an error of the module matter; errcheck
				// also lists stdlib calls, which the rule leaves alone on purpose
				if strings.Contains(ln, "exec.") || strings.Contains(ln, "execute") {
					unknown++
					problems = append(problems, "cross-reference: errcheck -blank reports a discarded error at "+site+" that R-PAIR-C has no obligation for: "+strings.TrimSpace(ln))
				}
			}
		}
		out = append(out, map[string]any{"tool": "errcheck -blank -ignoretests ./path/exec", "reported": n, "not_covered_by_rule": unknown})
	}
	return out, problems
}
