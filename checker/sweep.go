package main

// Self-validation sweep (thorough tier): stored mutations must be caught.

func runSweep(id string, spec *PropSpec, problems []string) ([]map[string]any, []string) {
	return nil, problems
}
