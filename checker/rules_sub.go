package main

// C14 (subscripts) and C16 (item methods).

import (
	"fmt"
	"go/constant"
	"go/token"
	"go/types"
	"os"
	"sort"
	"strings"

	"golang.org/x/tools/go/ssa"
)

// dependsOn: v is computed from x (through conversions, assertions, compares).
func dependsOn(v, x ssa.Value, depth int) bool {
	if depth > 6 || v == nil {
		return false
	}
	if v == x {
		return true
	}
	switch t := v.(type) {
	case *ssa.BinOp:
		return dependsOn(t.X, x, depth+1) || dependsOn(t.Y, x, depth+1)
	case *ssa.UnOp:
		return dependsOn(t.X, x, depth+1)
	case *ssa.Extract:
		return dependsOn(t.Tuple, x, depth+1)
	case *ssa.TypeAssert:
		return dependsOn(t.X, x, depth+1)
	case *ssa.MakeInterface:
		return dependsOn(t.X, x, depth+1)
	case *ssa.ChangeType:
		return dependsOn(t.X, x, depth+1)
	}
	return false
}

var ruleSelect = &Rule{
	Name: "R-SELECT", NeedSSA: true,
	Doc: "in the subscript executor no branch between the positional load of an element (array[i]) and the continuation depends on the loaded element: selection is by position, not by value (JSON null elements included)",
	Run: func(p *Prog) *RuleOut {
		out := newOut("R-SELECT")
		fn := p.itemArm("ArrayIndexNode")
		if fn == nil {
			out.undecided("subscript executor", "-", "", "anchor unresolved")
			return out
		}
		n := 0
		// the subscript executor and the helpers of package exec it hands the
		// array to (the loop over one subscript's range moved into a function
		// of its own)
		hosts := []*ssa.Function{fn}
		for _, c := range p.allCalls(fn) {
			g := c.Call.StaticCallee()
			if g == nil || g == fn || fnPkgPath(g) != pkgExec || g.Blocks == nil || !isMethodOfExecutor(p, g) || p.pairKind(g.Signature) != "status" {
				continue
			}
			takesSeq := false
			for _, a := range c.Call.Args {
				if sl, ok := a.Type().Underlying().(*types.Slice); ok {
					if it, ok := sl.Elem().Underlying().(*types.Interface); ok && it.NumMethods() == 0 {
						takesSeq = true
					}
				}
			}
			dup := false
			for _, h := range hosts {
				if h == g {
					dup = true
				}
			}
			// only helpers of its own: called from nowhere else
			own := true
			if nd := p.CG.Nodes[g]; nd != nil {
				for _, e := range nd.In {
					if e.Caller.Func != fn {
						own = false
					}
				}
			}
			if takesSeq && !dup && own {
				hosts = append(hosts, g)
			}
		}
		for _, fn := range hosts {
			for _, b := range fn.Blocks {
				for _, ins := range b.Instrs {
					u, ok := ins.(*ssa.UnOp)
					if !ok || u.Op != token.MUL {
						continue
					}
					ia, ok := u.X.(*ssa.IndexAddr)
					if !ok {
						continue
					}
					if _, isC := ia.Index.(*ssa.Const); isC {
						continue
					}
					sl, ok := ia.X.Type().Underlying().(*types.Slice)
					if !ok {
						continue
					}
					if it, ok := sl.Elem().Underlying().(*types.Interface); !ok || it.NumMethods() != 0 {
						continue // only sequences of items ([]any)
					}
					n++
					// what is subscripted is the array itself: the item asserted
					// to be a []any, or the one-element wrap of lax mode — not a
					// sequence some function made of the item (an object's
					// values, say)
					if why := p.notTheArrayItself(ia.X, 0); why != "" {
						out.viol(fnName(fn)+": the subscripted sequence is the array itself", p.pos(ia.Pos()), fnName(fn), "the sequence the subscripts select from is "+why+": a subscript applied to something that is no array then selects from whatever that yields instead of failing (strict) or wrapping the item (lax)")
					} else {
						out.ok(fnName(fn)+": the subscripted sequence is the array itself", p.pos(ia.Pos()), fnName(fn), "the item asserted to []any, or its one-element wrap")
					}
					key := fnName(fn) + ": element selected by position"
					var bad []string
					for _, b2 := range fn.Blocks {
						iff, ok := b2.Instrs[len(b2.Instrs)-1].(*ssa.If)
						if !ok {
							continue
						}
						if dependsOn(iff.Cond, u, 0) {
							bad = append(bad, p.pos(iff.Cond.Pos()))
						}
					}
					// the element must reach the continuation
					reaches := false
					for _, r := range *u.Referrers() {
						if c, ok := r.(*ssa.Call); ok && p.pairKind(calleeSig(c)) == "status" {
							reaches = true
						}
					}
					switch {
					case len(bad) > 0:
						sort.Strings(bad)
						out.viol(fnName(fn)+": a subscript skips elements by value", p.pos(u.Pos()), fnName(fn),
							"the selected element is inspected before it is handed on (branch at "+strings.Join(bad, ", ")+"): elements are dropped by value, e.g. JSON null")
					case !reaches:
						out.viol(key, p.pos(u.Pos()), fnName(fn), "the selected element is not handed to the continuation")
					default:
						out.ok(key, p.pos(u.Pos()), fnName(fn), "array[i] goes to the continuation unconditionally")
					}
				}
			}
		}
		out.Counts["positional_loads"] = n
		out.Floors["positional_loads"] = 1
		return out
	},
}

var ruleLast = &Rule{
	Name: "R-LAST", NeedSSA: true,
	Doc: "`last` denotes n−1 of the innermost subscripted array: the subscript executor stores len(array) into an Executor field before evaluating its subscripts (and restores it, R-STATE), and the `last` arm hands int64(that field − 1) to the continuation and nothing else; outside a subscript (field negative) it is a non-suppressible error",
	Run: func(p *Prog) *RuleOut {
		out := newOut("R-LAST")
		sub := p.itemArm("ArrayIndexNode")
		if sub == nil {
			out.undecided("subscript executor", "-", "", "anchor unresolved")
			return out
		}
		// the part of it that walks the subscripts may be a function of its
		// own (`return exec.execArraySubscripts(ctx, node, value, array, found)`)
		// that only the subscript executor calls: the size is recorded there
		recordsLen := func(fn *ssa.Function) bool {
			for _, s := range p.execStores(fn) {
				if c, ok := s.Store.Val.(*ssa.Call); ok {
					if bi, ok := c.Call.Value.(*ssa.Builtin); ok && bi.Name() == "len" {
						return true
					}
				}
			}
			return false
		}
		if !recordsLen(sub) {
			for _, c := range p.allCalls(sub) {
				g := c.Call.StaticCallee()
				if g == nil || g == sub || c.Call.IsInvoke() || g.Blocks == nil || !isMethodOfExecutor(p, g) || p.pairKind(g.Signature) != "status" || !recordsLen(g) {
					continue
				}
				only := true
				if nd := p.CG.Nodes[g]; nd != nil {
					for _, e := range nd.In {
						if e.Caller.Func != sub {
							only = false
						}
					}
				}
				if only {
					sub = g
					break
				}
			}
		}
		// field stored with len(array)
		var sizeField *types.Var
		// where a length is recorded: a store into an Executor field, or a
		// call of a helper that stores that argument into one
		// (`defer exec.tempSetInnermostArraySize(len(array))()`)
		type sizeRec struct {
			Field *types.Var
			Store ssa.Instruction
			Val   ssa.Value
		}
		var recs []sizeRec
		for _, s := range p.execStores(sub) {
			recs = append(recs, sizeRec{s.Field, s.Store, s.Store.Val})
		}
		for _, hc := range p.allCalls(sub) {
			g := hc.Call.StaticCallee()
			if g == nil || hc.Call.IsInvoke() || g.Blocks == nil || fnPkgPath(g) != pkgExec || hc.Block() == nil {
				continue
			}
			for _, gs := range p.execStores(g) {
				if !p.wholeField(gs.Store.Addr) {
					continue
				}
				if k := p.setsFieldFromParam(g, gs.Field); k >= 0 && k < len(hc.Call.Args) {
					recs = append(recs, sizeRec{gs.Field, hc, hc.Call.Args[k]})
					break
				}
			}
		}
		for _, s := range recs {
			v := s.Val
			if c, ok := v.(*ssa.Call); ok {
				if bi, ok := c.Call.Value.(*ssa.Builtin); ok && bi.Name() == "len" {
					sizeField = s.Field
					// before the subscripts are evaluated
					okOrder := true
					for _, c2 := range p.execMethodCalls(sub) {
						takesNode := false
						for _, a := range c2.Call.Args {
							if types.Identical(a.Type(), p.A.Node) {
								takesNode = true
							}
						}
						if takesNode && !before(s.Store, c2) {
							okOrder = false
						}
					}
					if okOrder {
						out.ok("subscript executor records the array size", p.pos(s.Store.Pos()), fnName(sub), "len(array) → "+s.Field.Name()+" before any subscript is evaluated")
					} else {
						out.viol("subscript executor records the array size", p.pos(s.Store.Pos()), fnName(sub), "a subscript is evaluated before the array size is recorded")
					}
				}
			}
		}
		if sizeField == nil {
			out.viol("subscript executor records the array size", p.pos(sub.Pos()), fnName(sub), "no Executor field receives len(array)")
			return out
		}
		// the recorded size is that of the array the subscripts select from:
		// the very value that is indexed (after lax auto-wrapping), not an
		// earlier version of it
		for _, s := range recs {
			if s.Field != sizeField {
				continue
			}
			c, ok := s.Val.(*ssa.Call)
			if !ok {
				continue
			}
			if bi, ok := c.Call.Value.(*ssa.Builtin); !ok || bi.Name() != "len" {
				continue
			}
			measured := c.Call.Args[0]
			var indexed []ssa.Value
			for _, b := range sub.Blocks {
				for _, ins := range b.Instrs {
					switch x := ins.(type) {
					case *ssa.IndexAddr:
						if _, isSl := x.X.Type().Underlying().(*types.Slice); isSl && types.Identical(x.X.Type(), measured.Type()) {
							base := x.X
							// a window of the array (`range array[from:to+1]`) is the array
							for {
								sl, ok := base.(*ssa.Slice)
								if !ok {
									break
								}
								base = sl.X
							}
							indexed = append(indexed, base)
						}
					case *ssa.Call:
						if f := x.Call.StaticCallee(); f != nil && inModule(f) {
							for _, a := range x.Call.Args {
								if types.Identical(a.Type(), measured.Type()) {
									indexed = append(indexed, a)
								}
							}
						}
					}
				}
			}
			same := len(indexed) == 0
			for _, v := range indexed {
				if v == measured {
					same = true
				}
			}
			key := "the recorded size is the selected array's"
			if same {
				out.ok(key, p.pos(s.Store.Pos()), fnName(sub), fmt.Sprintf("len is taken of the value that is indexed (%d uses)", len(indexed)))
			} else {
				out.viol(key, p.pos(s.Store.Pos()), fnName(sub), "the size recorded for `last` is the length of "+measured.Name()+", but the subscripts select from a different value (the array after lax auto-wrapping): `last` is then not n−1 of the array being subscripted")
			}
		}
		// nobody else gives the field a value of its own: elsewhere it is
		// only set by the constructor or put back to what it was
		{
			var fns []*ssa.Function
			for fn := range p.AllFns {
				if fnPkgPath(fn) == pkgExec && fn.Blocks != nil && fn != sub {
					fns = append(fns, fn)
				}
			}
			sortFuncs(fns)
			for _, fn := range fns {
				ss := p.execStores(fn)
				for _, s := range ss {
					if s.Field != sizeField {
						continue
					}
					if p.allFreshRecv(fn, ss) {
						continue // constructor
					}
					key := fnName(fn) + " sets the array size of `last`"
					if ld, f := p.traceSaved(fn, s.Store.Val, s.Store, 0); ld != nil && f == sizeField {
						out.ok(key, p.pos(s.Store.Pos()), fnName(fn), "puts back a value the field had before")
						continue
					}
					// a setter (`restoreInnermostArraySize(prev)`): judged at its calls
					if q, isParam := s.Store.Val.(*ssa.Parameter); isParam {
						ncall, badAt := 0, ""
						for _, g := range p.execFuncs() {
							for _, c := range p.allCalls(g) {
								if c.Call.StaticCallee() != fn {
									continue
								}
								ncall++
								a := c.Call.Args[paramIndex(q)]
								if ld, f := p.traceSaved(g, a, c, 0); ld != nil && f == sizeField {
									continue
								}
								if lc, ok := a.(*ssa.Call); ok && g == sub {
									if bi, ok := lc.Call.Value.(*ssa.Builtin); ok && bi.Name() == "len" {
										continue
									}
								}
								if badAt == "" {
									badAt = p.pos(c.Pos())
								}
							}
						}
						// deferred calls
						for _, g := range p.execFuncs() {
							for _, b := range g.Blocks {
								for _, ins := range b.Instrs {
									d, ok := ins.(*ssa.Defer)
									if !ok || d.Call.StaticCallee() != fn {
										continue
									}
									ncall++
									a := d.Call.Args[paramIndex(q)]
									if ld, f := p.traceSaved(g, a, d, 0); ld != nil && f == sizeField {
										continue
									}
									if badAt == "" {
										badAt = p.pos(d.Pos())
									}
								}
							}
						}
						if ncall > 0 && badAt == "" {
							out.ok(key, p.pos(s.Store.Pos()), fnName(fn), fmt.Sprintf("a setter: each of its %d calls hands it a value the field had before (or the selected array's length)", ncall))
							continue
						}
					}
					out.viol(key, p.pos(s.Store.Pos()), fnName(fn), "the size of the innermost subscripted array is overwritten with "+trunc(s.Store.Val.String(), 40)+" outside the subscript executor: inside the subscript, `last` no longer denotes n−1 of the array being subscripted (or fails as if it were outside a subscript)")
				}
			}
		}
		// the last arm
		cfn := p.itemArm("ConstNode")
		ei := p.A.Enums["Constant"]
		lc := ei.byName("ConstLast")
		var lastFn *ssa.Function
		if cfn != nil && lc != nil {
			for _, b := range cfn.Blocks {
				for _, f := range factsAt(b) {
					bo, ok := f.Cond.(*ssa.BinOp)
					if !ok || bo.Op != token.EQL || !f.Truth {
						continue
					}
					if k, ok := constInt(bo.Y); ok && k == constOf(lc) {
						for _, ins := range b.Instrs {
							if c, ok := ins.(*ssa.Call); ok && isMethodOfExecutor(p, c.Call.StaticCallee()) {
								lastFn = c.Call.StaticCallee()
							}
						}
					}
				}
			}
		}
		if lastFn == nil {
			out.undecided("`last` arm", "-", "", "anchor unresolved")
			return out
		}
		ee := p.errors()
		good, neg := false, false
		for _, b := range lastFn.Blocks {
			for _, ins := range b.Instrs {
				c, ok := ins.(*ssa.Call)
				if !ok || p.pairKind(calleeSig(c)) != "status" {
					continue
				}
				for _, a := range c.Call.Args {
					if it, ok := a.Type().Underlying().(*types.Interface); !ok || it.NumMethods() != 0 {
						continue
					}
					v := stripConv(a)
					if mi, ok := v.(*ssa.MakeInterface); ok {
						v = mi.X
					}
					// int64(size − 1), or int64(size) − 1: the size is never
					// negative here, so both are exact
					if !isInt64(v.Type()) {
						continue
					}
					peel := func(x ssa.Value) ssa.Value {
						if cv, ok := x.(*ssa.Convert); ok {
							return cv.X
						}
						return x
					}
					bo, ok := peel(v).(*ssa.BinOp)
					if !ok || bo.Op != token.SUB {
						continue
					}
					if k, ok := constInt(bo.Y); !ok || k != 1 {
						continue
					}
					if u, ok := peel(bo.X).(*ssa.UnOp); ok {
						if f, _ := p.execFieldOf(u.X); f == sizeField {
							good = true
						}
					}
				}
			}
			// negative size ⇒ hard error
			for _, f := range factsAt(b) {
				bo, ok := f.Cond.(*ssa.BinOp)
				if !ok || bo.Op != token.LSS || !f.Truth {
					continue
				}
				if u, ok := bo.X.(*ssa.UnOp); ok {
					if fld, _ := p.execFieldOf(u.X); fld == sizeField {
						if set, _ := p.classesAtReturnOn(b, ee); len(p.classNames(set)) == 1 && p.classNames(set)[0] == "Hard" {
							neg = true
						}
					}
				}
			}
		}
		if good {
			out.ok("`last` is the recorded size minus one", p.pos(lastFn.Pos()), fnName(lastFn), "int64("+sizeField.Name()+" − 1) is handed to the continuation")
		} else {
			out.viol("`last` is the recorded size minus one", p.pos(lastFn.Pos()), fnName(lastFn), "the value of `last` is not int64("+sizeField.Name()+" − 1)")
		}
		if neg {
			out.ok("`last` outside a subscript is a hard error", p.pos(lastFn.Pos()), fnName(lastFn), "size < 0 ⇒ non-suppressible error")
		} else {
			out.viol("`last` outside a subscript is a hard error", p.pos(lastFn.Pos()), fnName(lastFn), "no non-suppressible error on the branch where no array is being subscripted")
		}
		return out
	},
}

// rangeTestBeforeTruncation: among the comparisons of x with constants that
// hold on the way to its truncation, one that keeps out some x with
// MinInt32-1 < x < MaxInt32+1 (whose truncation fits int32).
func rangeTestBeforeTruncation(fs []Fact, x ssa.Value) string {
	const hi, lo = 2147483648.0, -2147483649.0
	for _, f := range fs {
		bo, ok := f.Cond.(*ssa.BinOp)
		if !ok {
			continue
		}
		op := bo.Op
		var k *ssa.Const
		// |x| op K: a symmetric test; the asymmetric int32 range makes
		// |x| <= MaxInt32 keep out −2147483648.x, whose truncation fits
		if c, ok := stripConv(bo.X).(*ssa.Call); ok && calleeQualified(&c.Call) == "math.Abs" && len(c.Call.Args) == 1 && stripConv(c.Call.Args[0]) == x {
			if kc, ok := bo.Y.(*ssa.Const); ok && kc.Value != nil {
				kv, _ := constant.Float64Val(constant.ToFloat(kc.Value))
				proceedsBelow := (op == token.LEQ || op == token.LSS) == f.Truth
				if (op == token.LEQ || op == token.LSS || op == token.GTR || op == token.GEQ) && proceedsBelow && kv < 2147483649.0 {
					return fmt.Sprintf("math.Abs(%s) %s %v is %v on the way to the conversion", x.Name(), op, kv, f.Truth)
				}
			}
			continue
		}
		switch {
		case stripConv(bo.X) == x:
			k, _ = bo.Y.(*ssa.Const)
		case stripConv(bo.Y) == x:
			k, _ = bo.X.(*ssa.Const)
			switch op { // K op x  ⇒  x op' K
			case token.LSS:
				op = token.GTR
			case token.LEQ:
				op = token.GEQ
			case token.GTR:
				op = token.LSS
			case token.GEQ:
				op = token.LEQ
			}
		}
		if k == nil || k.Value == nil {
			continue
		}
		kv, ok2 := constant.Float64Val(constant.ToFloat(k.Value))
		if constant.ToFloat(k.Value).Kind() == constant.Unknown {
			continue
		}
		_ = ok2
		// the set of x that proceed to the conversion
		truth := f.Truth
		bad := false
		switch op {
		case token.GTR, token.GEQ: // x > K  /  x >= K
			if truth {
				bad = kv > lo // proceeds only above K: K must be at most MinInt32-1
			} else {
				bad = kv < hi // kept out above K: K must be at least MaxInt32+1
			}
		case token.LSS, token.LEQ:
			if truth {
				bad = kv < hi
			} else {
				bad = kv > lo
			}
		default:
			continue
		}
		if bad {
			return fmt.Sprintf("%s %s %v is %v on the way to the conversion", x.Name(), op, kv, truth)
		}
	}
	return ""
}

var ruleTrunc = &Rule{
	Name: "R-TRUNC", NeedSSA: true,
	Doc: "the numeric-to-int32 conversion of subscript values truncates: the float64 → int64 conversions in the helper that turns an item into a subscript are applied to the item's own value (or its json.Number conversion), not to the result of a rounding function, and NaN/±Inf are rejected first",
	Run: func(p *Prog) *RuleOut {
		out := newOut("R-TRUNC")
		// helper: func(any, …) (int, error) reached from the subscript executor
		sub := p.itemArm("ArrayIndexNode")
		if sub == nil {
			out.undecided("subscript executor", "-", "", "anchor unresolved")
			return out
		}
		reach := p.reachFromCut([]*ssa.Function{sub}, func(f *ssa.Function) bool { return f == p.ssaOf(p.A.Dispatcher) })
		n := 0
		ord := ordinals{}
		for _, fn := range moduleFuncs(reach.Set) {
			if fnPkgPath(fn) != pkgExec || p.pairKind(fn.Signature) != "" {
				continue
			}
			for _, b := range fn.Blocks {
				for _, ins := range b.Instrs {
					cv, ok := ins.(*ssa.Convert)
					if !ok || !isInt64(cv.Type()) || !isFloat64(cv.X.Type()) {
						continue
					}
					n++
					key := fmt.Sprintf("%s: subscript conversion #%d", fnName(fn), ord.next(fnName(fn)))
					x := stripConv(cv.X)
					if c, ok := x.(*ssa.Call); ok && strings.HasPrefix(calleeQualified(&c.Call), "math.") {
						out.viol(key, p.pos(cv.Pos()), fnName(fn), "the subscript value goes through "+calleeQualified(&c.Call)+" before conversion: subscripts must truncate")
						continue
					}
					if !finiteFact(factsAt(b), x) {
						out.viol(key, p.pos(cv.Pos()), fnName(fn), "NaN/±Inf are not rejected before the conversion")
						continue
					}
					if why := rangeTestBeforeTruncation(factsAt(b), x); why != "" {
						out.viol(key, p.pos(cv.Pos()), fnName(fn), "a range test on the value before truncation diverts subscripts whose truncated value is a legal int32 position ("+why+"): the range must be judged on the truncated value, or against bounds one beyond the int32 limits")
						continue
					}
					out.ok(key, p.pos(cv.Pos()), fnName(fn), "plain truncating conversion of the item's value after a finiteness check")
				}
			}
		}
		out.Counts["subscript_conversions"] = n
		out.Floors["subscript_conversions"] = 1
		return out
	},
}

// --- C16: accepted types per method -------------------------------------------------------

var ruleMethodTypes = &Rule{
	Name: "R-METHODTYPES", NeedSSA: true,
	Doc: "per item method, the set of the 13 item types for which the executor reaches the continuation (with array unwrapping off) equals the documented input domain; for every other type the only feasible exits are suppressible errors",
	Run: func(p *Prog) *RuleOut {
		out := newOut("R-METHODTYPES")
		e, err := p.exhEngine()
		if err != nil {
			out.undecided("engine", "-", "", err.Error())
			return out
		}
		ee := p.errors()
		mfn := p.itemArm("MethodNode")
		if mfn == nil {
			out.undecided("method dispatcher", "-", "", "anchor unresolved")
			return out
		}
		num := []string{"int64", "float64", "encoding/json.Number"}
		dts := []string{"*types.Date", "*types.Time", "*types.TimeTZ", "*types.Timestamp", "*types.TimestampTZ"}
		all := append(append([]string{"untyped nil", "bool", "string", "[]any", "map[string]any"}, num...), dts...)
		want := map[string][]string{
			"MethodType": all, "MethodSize": all,
			"MethodDouble": append([]string{"string"}, num...), "MethodNumber": append([]string{"string"}, num...),
			"MethodInteger": append([]string{"string"}, num...), "MethodBigInt": append([]string{"string"}, num...),
			"MethodBoolean": append([]string{"bool", "string"}, num...),
			"MethodString":  append(append([]string{"bool", "string"}, num...), dts...),
			"MethodAbs":     num, "MethodFloor": num, "MethodCeiling": num,
			"MethodKeyValue": {"map[string]any"},
		}
		ei := p.A.Enums["MethodName"]
		ncell := 0
		// per method constant: the call in the dispatcher's arm
		for _, c := range ei.Consts {
			exp, ok := want[c.Name()]
			if !ok {
				out.viol("method "+c.Name(), p.pos(mfn.Pos()), fnName(mfn), "a method constant without a documented input domain in the checker's table")
				continue
			}
			var call *ssa.Call
			for _, b := range mfn.Blocks {
				for _, f := range factsAt(b) {
					bo, ok := f.Cond.(*ssa.BinOp)
					if !ok || bo.Op != token.EQL || !f.Truth {
						continue
					}
					if k, ok := constInt(bo.Y); ok && k == constOf(c) && p.enumOf(bo.X.Type()) == ei {
						for _, ins := range b.Instrs {
							if cc, ok := ins.(*ssa.Call); ok && isMethodOfExecutor(p, cc.Call.StaticCallee()) {
								call = cc
							}
						}
					}
				}
			}
			key := "input domain of " + c.Name()
			if call == nil {
				out.viol(key, p.pos(mfn.Pos()), fnName(mfn), "the method dispatcher has no arm for this method")
				continue
			}
			target := call.Call.StaticCallee()
			var valueP, unwrapP *ssa.Parameter
			for _, q := range target.Params {
				if it, ok := q.Type().Underlying().(*types.Interface); ok && it.NumMethods() == 0 && valueP == nil {
					valueP = q
				}
				if b, ok := q.Type().Underlying().(*types.Basic); ok && b.Kind() == types.Bool {
					unwrapP = q
				}
			}
			if valueP == nil {
				out.undecided(key, p.pos(target.Pos()), fnName(target), "no value parameter")
				continue
			}
			base := &Ctx{fn: mfn, desc: "method dispatcher"}
			var got, soft []string
			for _, t := range p.A.ItemTypes {
				ncell++
				ctx := e.subCtx(call, target, base)
				ctx.bind[valueP] = &AV{kind: "types", Types: []types.Type{t}}
				if unwrapP != nil {
					ctx.bind[unwrapP] = &AV{kind: "bool", BoolF: true}
				}
				accepted := false
				for _, b := range target.Blocks {
					for _, ins := range b.Instrs {
						cc, ok := ins.(*ssa.Call)
						if !ok || p.pairKind(calleeSig(cc)) != "status" || !isMethodOfExecutor(p, cc.Call.StaticCallee()) {
							continue
						}
						// the continuation: receives a computed value, not the raw input array
						if cc.Call.StaticCallee() == target {
							continue
						}
						isGate := false
						for _, g := range p.gates() {
							if g.Fn == cc.Call.StaticCallee() {
								isGate = true
							}
						}
						if isGate {
							continue
						}
						if e.feasible(b, ctx) {
							if debugExh {
								fmt.Fprintf(os.Stderr, "METHODTYPES %s %s accepted at block %d (%s)\n", c.Name(), typeStr(t), b.Index, calleeName(&cc.Call))
							}
							accepted = true
						}
					}
				}
				if accepted {
					got = append(got, typeStr(t))
					continue
				}
				// rejected: every feasible exit must be a suppressible error
				// classes of an error value; of a merge, over the ways in that
				// the input type leaves open
				var classifyCtx func(v ssa.Value, fs []Fact, depth int) errSet
				classifyCtx = func(v ssa.Value, fs []Fact, depth int) errSet {
					if ph, ok := stripConvPlain(v).(*ssa.Phi); ok && depth < 3 && ph.Parent() == target {
						set := errSet{}
						for i, ev := range ph.Edges {
							if !e.phiEdgeFeasible(ph, i, ctx, 0) {
								continue
							}
							pred := ph.Block().Preds[i]
							for k := range classifyCtx(ev, edgeFacts(pred, succIndex(pred, ph.Block())), depth+1) {
								set[k] = true
							}
						}
						return set
					}
					return ee.classify(v, fs, map[ssa.Value]bool{})
				}
				for _, r := range e.feasibleReturns(target, ctx) {
					ev := r.Results[len(r.Results)-1]
					var set errSet
					if cc, idx := callOf(ev); cc != nil && idx == 1 {
						isGate := false
						for _, g := range p.gates() {
							if g.Fn == cc.Call.StaticCallee() {
								isGate = true
								set = classifyCtx(cc.Call.Args[1], factsAt(r.Instr.Block()), 0)
							}
						}
						if !isGate {
							set = ee.classify(ev, factsAt(r.Instr.Block()), map[ssa.Value]bool{})
						}
					} else {
						set = ee.classify(ev, factsAt(r.Instr.Block()), map[ssa.Value]bool{})
					}
					for _, cl := range p.classNames(set) {
						if cl != "Verbose" && cl != "nil" {
							soft = append(soft, typeStr(t)+" → "+cl)
						}
					}
				}
			}
			sort.Strings(got)
			w := append([]string(nil), exp...)
			sort.Strings(w)
			switch {
			case strings.Join(got, ",") != strings.Join(w, ","):
				out.viol(key, p.pos(target.Pos()), fnName(target), fmt.Sprintf("accepts {%s}; documented domain is {%s}", strings.Join(got, ", "), strings.Join(w, ", ")))
			case len(soft) > 0:
				sort.Strings(soft)
				out.viol(key, p.pos(target.Pos()), fnName(target), "a rejected input type is not reported with a suppressible error: "+strings.Join(uniq(soft), "; "))
			default:
				out.ok(key, p.pos(target.Pos()), fnName(target), "accepts {"+strings.Join(got, ", ")+"}; every other type is a suppressible error")
			}
		}
		out.Counts["method_type_cells"] = ncell
		out.Floors["method_type_cells"] = 12 * 13
		return out
	},
}

func init() {
	register(ruleSelect, ruleLast, ruleTrunc, ruleMethodTypes)
	addProp(&PropSpec{
		ID:          "C14",
		Rules:       []string{"R-SELECT", "R-LAST", "R-TRUNC", "R-F2I", "R-STATE", "R-MODEGUARD", "R-LAUNDER", "R-LISTINDEX", "R-SUBEVAL", "R-LITCHAIN", "R-EXECADDR", "R-SUBBOUNDS", "R-COLLMONO", "R-INPUT-RO", "R-RESUPPRESS", "R-JSONNUM", "R-VALIDATE"},
		Explanation: "Selection by position as shapes of the subscript executor: the element loaded at array[i] reaches the continuation with no branch on its value; `last` is the recorded length minus one of the innermost subscripted array (recorded before the subscripts are evaluated, restored on every exit); subscript values are truncated, finiteness-checked and range-checked against int32; the out-of-bounds error is guarded by strictness; a failed subscript expression is never mistaken for index 0.",
		Decided: []string{"R-SELECT: no value-dependent branch between array[i] and the continuation", "R-LAST: `last` = recorded size − 1; hard error outside a subscript",
			"R-TRUNC + R-F2I: truncating conversion after a NaN/Inf check, int32 range test on the result", "R-STATE: innermost size restored on every exit",
			"R-MODEGUARD: out-of-bounds only in strict mode", "R-LAUNDER / R-LISTINDEX: a suppressed failure or a non-singleton subscript is an error, never index 0"},
		NotDecided:  []string{"which positions a range denotes, clipping arithmetic in lax mode (value level)"},
		Assumptions: []string{},
	})
	addProp(&PropSpec{
		ID:          "C16",
		Rules:       []string{"R-METHODTYPES", "R-F2I", "R-FINITE", "R-OVF", "R-TOWER", "R-STATE", "R-RADIX", "R-EMPTYPROD", "R-ERRFIRST", "R-DIGITRANGE", "R-VARSIDENT", "R-JSONNUM", "R-CHECKEDVALUE", "R-OKFLAG", "R-LAYOUT", "R-ENTRY"},
		Explanation: "Domains and ranges of the item methods as finite tables and guard discipline: for each of the 12 methods the set of item types that reach the continuation is computed by walking the method with the input type fixed (abstract interpretation) and compared with the documented domain, every other type must leave through a suppressible error; conversions to integers are range-guarded as evaluated in float64; computed doubles are finiteness-checked; integer callbacks cannot wrap; the numeric representations are handled together; no method arm is missing.",
		Decided: []string{"R-METHODTYPES: accepted-type table of all 12 methods (156 cells) and suppressible rejection", "R-F2I: .integer()/.bigint() conversions are range-safe (2^63 included)",
			"R-FINITE: .double()/.number()/.decimal() never yield Inf/NaN", "R-OVF: .abs() cannot wrap", "R-TOWER", "R-METHODTYPES also reports a method constant without an arm in the dispatcher"},
		NotDecided:  []string{"rounding (half away from zero vs banker's), the digit counting of .decimal(p,s) (D21)", ".string() round trips", "keyvalue ids (distinctness, stability)"},
		Assumptions: []string{"item values have one of the 13 documented dynamic types"},
	})
}

// --- R-SUBEVAL: subscript expressions are evaluated to a raw sequence ---------------------------

// flagPermits: block b of fn can be reached from the functions of set, as far
// as the bool parameters of fn tested on the way to b are concerned: a branch
// that needs `unwrap == true` is dead when every call from the set passes the
// constant false (directly or through a bool parameter of its own that is
// constrained in the same way).
func (p *Prog) flagPermits(fn *ssa.Function, b *ssa.BasicBlock, set map[*ssa.Function]bool, depth int) bool {
	for _, f := range factsAt(b) {
		q, ok := f.Cond.(*ssa.Parameter)
		if !ok || q.Parent() != fn {
			continue
		}
		if !p.argCanBe(fn, q, f.Truth, set, depth) {
			return false
		}
	}
	return true
}

func (p *Prog) argCanBe(fn *ssa.Function, q *ssa.Parameter, want bool, set map[*ssa.Function]bool, depth int) bool {
	if depth > 3 {
		return true
	}
	idx := paramIndex(q)
	ncalls := 0
	for caller := range set {
		if caller.Blocks == nil {
			continue
		}
		for _, c := range p.allCalls(caller) {
			if c.Call.StaticCallee() != fn || idx >= len(c.Call.Args) {
				continue
			}
			ncalls++
			switch a := c.Call.Args[idx].(type) {
			case *ssa.Const:
				if a.Value != nil && (a.Value.ExactString() == "true") == want {
					return true
				}
			case *ssa.Parameter:
				if p.argCanBe(caller, a, want, set, depth+1) {
					return true
				}
			default:
				return true
			}
		}
	}
	return ncalls == 0
}

var ruleSubEval = &Rule{
	Name: "R-SUBEVAL", NeedSSA: true,
	Doc: "between the subscript executor and the node dispatcher no function flattens a result sequence (the idiom: applying a nil node to the elements of an array found in the sequence): the sequence whose length is tested for 'a single numeric value' is the raw result of the subscript expression, so `[$.one]` with one = [1] is an error in both modes; the walk over the subscript list is left early only with a failure or where there is no collector, so every subscript is evaluated (and its errors raised) whatever entry point runs",
	Run: func(p *Prog) *RuleOut {
		out := newOut("R-SUBEVAL")
		sub := p.itemArm("ArrayIndexNode")
		if sub == nil {
			out.undecided("subscript executor", "-", "", "anchor unresolved")
			return out
		}
		reach := p.reachFromCut([]*ssa.Function{sub}, func(f *ssa.Function) bool { return f == p.ssaOf(p.A.Dispatcher) })
		idiom := 0
		for _, fn := range p.execFuncs() {
			for _, b := range fn.Blocks {
				for _, ins := range b.Instrs {
					if c, ok := ins.(*ssa.Call); ok && c.Call.StaticCallee() != nil && inModule(c.Call.StaticCallee()) && p.appliesNilNode(c) && p.pairKind(c.Call.StaticCallee().Signature) == "status" {
						idiom++
						if reach.Set[fn] && p.flagPermits(fn, b, reach.Set, 0) {
							out.viol(fnName(fn)+" flattens a result sequence below the subscript executor", p.pos(c.Pos()), fnName(fn),
								"a subscript value that is an array holding one number is unwrapped and used as an index instead of being rejected", reach.path(p, fn)...)
						}
					}
				}
			}
		}
		nscope := 0
		for _, fn := range moduleFuncs(reach.Set) {
			if fnPkgPath(fn) == pkgExec {
				nscope++
			}
		}
		out.Counts["functions_between_subscript_and_dispatcher"] = nscope
		out.Floors["functions_between_subscript_and_dispatcher"] = 3
		out.Counts["flattening_idiom_sites_in_package"] = idiom
		out.Floors["flattening_idiom_sites_in_package"] = 1
		if len(out.Obs) == 0 {
			out.ok("no result flattening below the subscript executor", p.pos(sub.Pos()), fnName(sub), fmt.Sprintf("%d functions in scope; the flattening idiom occurs %d time(s) elsewhere in the package", nscope, idiom))
		}
		p.everySubscriptEvaluated(out, sub)
		return out
	},
}

// everySubscriptEvaluated: the function that walks the subscript list (it
// calls Subscripts() of the node) leaves a loop early only with a failure (a
// failed status, a non-nil error) or where there is no collector (found ==
// nil: one item is enough for `exists`). A return from inside a loop on any
// other ground — "the caller has what it wanted" — skips the subscripts that
// follow, and with them the errors they must raise in both modes.
func (p *Prog) everySubscriptEvaluated(out *RuleOut, sub *ssa.Function) {
	var host *ssa.Function
	cands := []*ssa.Function{sub}
	for _, c := range p.allCalls(sub) {
		if sc := c.Call.StaticCallee(); sc != nil && sc.Blocks != nil && fnPkgPath(sc) == pkgExec && isMethodOfExecutor(p, sc) {
			cands = append(cands, sc)
		}
	}
	for _, f := range cands {
		for _, c := range p.allCalls(f) {
			if sc := c.Call.StaticCallee(); sc != nil && sc.Name() == "Subscripts" && fnPkgPath(sc) == pkgAST && host == nil {
				host = f
			}
		}
	}
	key := "every subscript of the list is evaluated"
	if host == nil {
		out.undecided(key, p.pos(sub.Pos()), fnName(sub), "anchor unresolved: the function that calls Subscripts() of the node")
		return
	}
	// blocks inside a loop: those that can reach themselves
	inLoop := map[*ssa.BasicBlock]bool{}
	for _, b := range host.Blocks {
		seen := map[*ssa.BasicBlock]bool{}
		stack := append([]*ssa.BasicBlock(nil), b.Succs...)
		for len(stack) > 0 {
			x := stack[len(stack)-1]
			stack = stack[:len(stack)-1]
			if seen[x] {
				continue
			}
			seen[x] = true
			if x == b {
				inLoop[b] = true
				break
			}
			stack = append(stack, x.Succs...)
		}
	}
	coll := p.collectorParam(host)
	okFacts := func(fs []Fact) bool {
		for _, f := range fs {
			switch c := f.Cond.(type) {
			case *ssa.Call:
				if f.Truth && p.isFailedMethod(c.Call.StaticCallee()) {
					return true
				}
			case *ssa.BinOp:
				if c.Op != token.EQL && c.Op != token.NEQ {
					continue
				}
				x, y := c.X, c.Y
				if isNilConst(x) {
					x, y = y, x
				}
				if isNilConst(y) {
					isNil := (c.Op == token.EQL) == f.Truth
					if isErrorType(x.Type()) && !isNil {
						return true
					}
					if coll != nil && x == ssa.Value(coll) && isNil {
						return true
					}
				}
				if k, ok := constInt(y); ok && types.Identical(x.Type(), p.A.StatusType) && k == constOf(p.A.StatusFailed) && (c.Op == token.EQL) == f.Truth {
					return true
				}
			}
		}
		return false
	}
	n, bad := 0, ""
	for _, r := range returnsOf(host) {
		b := r.Instr.Block()
		// a return reached from inside a loop: its block or one of its ways in
		var ways [][]Fact
		if inLoop[b] {
			ways = append(ways, factsAt(b))
		} else {
			for _, pr := range b.Preds {
				// (the loop's own end — the edge out of its header — is not an
				// early exit)
				header := false
				for _, q := range pr.Preds {
					if pr.Dominates(q) {
						header = true
					}
				}
				if inLoop[pr] && !header {
					ways = append(ways, edgeFacts(pr, succIndex(pr, b)))
				}
			}
		}
		for _, fs := range ways {
			n++
			if !okFacts(fs) && bad == "" {
				bad = p.pos(r.Instr.Pos())
			}
		}
	}
	out.Counts["early_exits_of_the_subscript_loop"] = n
	if bad != "" {
		out.viol(key, bad, fnName(host), "the walk over the subscripts is left at "+bad+" on a ground other than a failure or a missing collector: the subscripts that follow are never evaluated, so `First` (or whoever made the list say it has enough) gets an item where Query reports that a later subscript is not a single number within range")
	} else {
		out.ok(key, p.pos(host.Pos()), fnName(host), fmt.Sprintf("%d ways out of the loops, each with a failure or without a collector", n))
	}
}

func init() { register(ruleSubEval) }

// appliesNilNode: every node-typed argument of the call is the nil constant
// (and there is one): the callee only distributes the elements.
func (p *Prog) appliesNilNode(c *ssa.Call) bool {
	n := 0
	for _, a := range c.Call.Args {
		if types.Identical(a.Type(), types.Type(p.A.Node)) || types.Implements(a.Type(), p.A.NodeIface) {
			if !isNilConst(a) {
				return false
			}
			n++
		}
	}
	return n > 0
}

// --- R-LITCHAIN: a literal's value is never used without its accessor chain -------------------------

var ruleLitChain = &Rule{
	Name: "R-LITCHAIN", NeedSSA: true,
	Doc: "wherever the executor reads the value of a numeric literal node (IntegerNode.Int, NumericNode.Float), either the same node is handed to the continuation in that function (the dispatcher's literal arms), or the node can have no accessor chain in any call context (its grammar slot only admits bare literals, as for method arguments): `$[(-1).abs()]` must not be read as `$[-1]`",
	Run: func(p *Prog) *RuleOut {
		out := newOut("R-LITCHAIN")
		e, err := p.exhEngine()
		if err != nil {
			out.undecided("engine", "-", "", err.Error())
			return out
		}
		n := 0
		ord := ordinals{}
		for _, fn := range p.execFuncs() {
			for _, b := range fn.Blocks {
				for _, ins := range b.Instrs {
					c, ok := ins.(*ssa.Call)
					if !ok || c.Call.StaticCallee() == nil || fnPkgPath(c.Call.StaticCallee()) != pkgAST || len(c.Call.Args) != 1 {
						continue
					}
					sc := c.Call.StaticCallee()
					if !(sc.Name() == "Int" || sc.Name() == "Float") || sc.Signature.Recv() == nil {
						continue
					}
					rn := namedOf(sc.Signature.Recv().Type())
					if rn == nil || !(rn.Obj().Name() == "IntegerNode" || rn.Obj().Name() == "NumericNode") {
						continue
					}
					n++
					recv := c.Call.Args[0]
					key := fmt.Sprintf("%s reads the value of a %s #%d", fnName(fn), rn.Obj().Name(), ord.next(fnName(fn)))
					// (a) the same node goes to the continuation in this function
					// every use of the value is an argument of a status-returning
					// call that receives the same node as well
					handled := true
					nuses := 0
					var uses func(v ssa.Value, depth int)
					uses = func(v ssa.Value, depth int) {
						for _, r := range *v.Referrers() {
							switch x := r.(type) {
							case *ssa.MakeInterface:
								if depth < 3 {
									uses(x, depth+1)
								}
							case *ssa.Convert:
								if depth < 3 {
									uses(x, depth+1)
								}
							case *ssa.DebugRef:
							case *ssa.Call:
								nuses++
								with := false
								if sig := calleeSig(x); sig != nil && p.pairKind(sig) == "status" {
									for _, a := range x.Call.Args {
										if sameNodeValue(a, recv) {
											with = true
										}
									}
								}
								if !with {
									handled = false
								}
							default:
								nuses++
								handled = false
							}
						}
					}
					uses(c, 0)
					if nuses == 0 {
						handled = false
					}
					if handled {
						out.ok(key, p.pos(c.Pos()), fnName(fn), "the node itself is handed to the continuation, which evaluates its chain")
						continue
					}
					// (b) no call context gives the node a chain
					bad := ""
					ctxs := e.contexts(fn, e.depthCap)
					for _, cx := range ctxs {
						if !e.feasible(b, cx) {
							continue
						}
						av := e.evalAt(recv, cx, b)
						if av.Top || av.kind != "shapes" {
							bad = "its shape is unknown in the context " + cx.desc
							break
						}
						for _, s := range av.Shapes {
							if !s.Nil && s.Next {
								bad = "in the context " + cx.desc + " it can be " + p.shapeString(s)
							}
						}
					}
					if bad == "" {
						out.ok(key, p.pos(c.Pos()), fnName(fn), fmt.Sprintf("a bare literal in all %d call contexts (grammar slot admits no accessor chain)", len(ctxs)))
					} else {
						out.viol(key, p.pos(c.Pos()), fnName(fn), "the literal's value is used although the node can head an accessor chain ("+bad+"): the chain is silently ignored")
					}
				}
			}
		}
		out.Counts["literal_value_reads"] = n
		out.Floors["literal_value_reads"] = 3
		return out
	},
}

// sameNodeValue: a and b are the same node seen through assertions and
// conversions (both derive from one value).
func sameNodeValue(a, b ssa.Value) bool {
	root := func(v ssa.Value) ssa.Value {
		for i := 0; i < 8; i++ {
			switch x := v.(type) {
			case *ssa.TypeAssert:
				v = x.X
			case *ssa.Extract:
				if ta, ok := x.Tuple.(*ssa.TypeAssert); ok && x.Index == 0 {
					v = ta.X
				} else {
					return v
				}
			case *ssa.ChangeInterface:
				v = x.X
			case *ssa.MakeInterface:
				v = x.X
			case *ssa.ChangeType:
				v = x.X
			default:
				return v
			}
		}
		return v
	}
	return root(a) == root(b)
}

func init() { register(ruleLitChain) }

// notTheArrayItself: "" when the sequence v is, on every way it can come about,
// the result of asserting an item (an `any`) to []any, a slice literal whose
// elements are items as they are (`[]any{value}`), a window of such a
// sequence, or a []any parameter every call site fills that way; otherwise
// what else it can be.
func (p *Prog) notTheArrayItself(v ssa.Value, depth int) string {
	if depth > 4 {
		return "not traced"
	}
	isAny := func(t types.Type) bool {
		it, ok := t.Underlying().(*types.Interface)
		return ok && it.NumMethods() == 0
	}
	switch x := v.(type) {
	case *ssa.Phi:
		for _, e := range x.Edges {
			if w := p.notTheArrayItself(e, depth+1); w != "" {
				return w
			}
		}
		return ""
	case *ssa.TypeAssert:
		if isAny(x.X.Type()) {
			return ""
		}
	case *ssa.Extract:
		if ta, ok := x.Tuple.(*ssa.TypeAssert); ok && x.Index == 0 && isAny(ta.X.Type()) {
			return ""
		}
	case *ssa.Slice:
		if al, ok := x.X.(*ssa.Alloc); ok {
			// a composite literal: every element stored is an `any` value as it is
			for _, r := range *al.Referrers() {
				ia, ok := r.(*ssa.IndexAddr)
				if !ok {
					continue
				}
				for _, r2 := range *ia.Referrers() {
					if st, ok := r2.(*ssa.Store); ok && st.Addr == ssa.Value(ia) {
						if _, isCall := stripConvPlain(st.Val).(*ssa.Call); isCall {
							return "a literal holding the result of " + calleeName(&stripConvPlain(st.Val).(*ssa.Call).Call)
						}
					}
				}
			}
			return ""
		}
		return p.notTheArrayItself(x.X, depth+1)
	case *ssa.Parameter:
		fn := x.Parent()
		nd := p.CG.Nodes[fn]
		if fn == nil || nd == nil || len(nd.In) == 0 || fn.Object() == nil || fn.Object().Exported() {
			return "a parameter of " + fnName(fn)
		}
		idx := paramIndex(x)
		for _, e := range nd.In {
			c, ok := e.Site.(*ssa.Call)
			if !ok || c.Call.StaticCallee() != fn || idx >= len(c.Call.Args) {
				return "a parameter filled by a call that is not plain"
			}
			if e.Caller.Func == fn {
				continue // the traversal's own recursion
			}
			if w := p.notTheArrayItself(c.Call.Args[idx], depth+1); w != "" {
				return w
			}
		}
		return ""
	case *ssa.Call:
		return "the result of " + calleeName(&x.Call)
	}
	return "a " + fmt.Sprintf("%T", v)
}
