package main

// R-CHARCLASS: the lexer's character classes, decided for every character.
//
// The lexer classifies characters with tiny pure functions of one rune
// (`isDecimal`, `isHex`, `hexChar`, `lower`). Each of them is, over the whole
// range of values the scanner can hand it (end of input, every code point), a
// piecewise-affine function of its argument: the rule computes that function
// exactly from the SSA form — comparisons split the argument's range, `|`,
// `&`, conversions to narrower integers split it at the aligned blocks they act
// on, calls to other such functions are unfolded — and reads off
//
//   - for a digit-value function (some return is a negative constant, another
//     the argument minus a constant): the set of characters it accepts and the
//     value it gives each;
//   - for a predicate whose accepted set contains '0': that set.
//
// The accepted set must be one of the digit classes a number or an escape can
// use, and every accepted character's value its value as a digit. Nothing is
// sampled: the verdict covers each of the 1,114,130 arguments.

import (
	"fmt"
	"go/constant"
	"go/token"
	"go/types"
	"sort"
	"strings"

	"golang.org/x/tools/go/ssa"
)

const (
	ccLo = int64(-16)
	ccHi = int64(0x10FFFF)
)

// ccPiece: on lo ≤ c ≤ hi the value is a*c + b.
type ccPiece struct{ lo, hi, a, b int64 }

// ccPW: a function of c defined on the union of its pieces (sorted, disjoint).
type ccPW []ccPiece

type ccSet []ccPiece // only lo/hi used

func ccFull() ccSet { return ccSet{{lo: ccLo, hi: ccHi}} }

func (s ccSet) size() int64 {
	n := int64(0)
	for _, p := range s {
		n += p.hi - p.lo + 1
	}
	return n
}

func ccConst(s ccSet, k int64) ccPW {
	out := make(ccPW, 0, len(s))
	for _, p := range s {
		out = append(out, ccPiece{p.lo, p.hi, 0, k})
	}
	return out
}

func ccIdent(s ccSet) ccPW {
	out := make(ccPW, 0, len(s))
	for _, p := range s {
		out = append(out, ccPiece{p.lo, p.hi, 1, 0})
	}
	return out
}

// restrict f to s (s ⊆ dom f is not required: the intersection is taken).
func (f ccPW) restrict(s ccSet) ccPW {
	var out ccPW
	i, j := 0, 0
	for i < len(f) && j < len(s) {
		lo, hi := max(f[i].lo, s[j].lo), min(f[i].hi, s[j].hi)
		if lo <= hi {
			out = append(out, ccPiece{lo, hi, f[i].a, f[i].b})
		}
		if f[i].hi < s[j].hi {
			i++
		} else {
			j++
		}
	}
	return out
}

func (f ccPW) compact() ccPW {
	var out ccPW
	for _, p := range f {
		if n := len(out); n > 0 && out[n-1].hi+1 == p.lo && out[n-1].a == p.a && out[n-1].b == p.b {
			out[n-1].hi = p.hi
			continue
		}
		// a one-point piece is a constant
		if p.lo == p.hi && p.a != 0 {
			p.b, p.a = p.a*p.lo+p.b, 0
			if n := len(out); n > 0 && out[n-1].hi+1 == p.lo && out[n-1].a == 0 && out[n-1].b == p.b {
				out[n-1].hi = p.hi
				continue
			}
		}
		out = append(out, p)
	}
	return out
}

// zip walks two functions over their common domain.
func ccZip(f, g ccPW, fn func(lo, hi int64, p, q ccPiece)) {
	i, j := 0, 0
	for i < len(f) && j < len(g) {
		lo, hi := max(f[i].lo, g[j].lo), min(f[i].hi, g[j].hi)
		if lo <= hi {
			fn(lo, hi, f[i], g[j])
		}
		if f[i].hi < g[j].hi {
			i++
		} else {
			j++
		}
	}
}

type ccErr struct{ why string }

func floorDiv(a, b int64) int64 {
	q := a / b
	if (a%b != 0) && ((a < 0) != (b < 0)) {
		q--
	}
	return q
}

// ccBitwise applies op with the constant mask m (one bit at a time) to the
// function f, splitting each piece at the aligned blocks of that bit.
// set: the bit is set (OR); otherwise cleared (AND NOT).
func ccBit(f ccPW, j uint, set bool) (ccPW, *ccErr) {
	w := int64(1) << j
	var out ccPW
	for _, p := range f {
		if p.a == 0 {
			v := p.b
			if set {
				v |= w
			} else {
				v &^= w
			}
			out = append(out, ccPiece{p.lo, p.hi, 0, v})
			continue
		}
		if p.a != 1 && p.a != -1 {
			return nil, &ccErr{"bit operation on a scaled value"}
		}
		// walk the input range block by block of the value v = a*c+b
		c := p.lo
		for c <= p.hi {
			v := p.a*c + p.b
			q := floorDiv(v, w)
			// the block of values [q*w, q*w+w-1]; the inputs that stay in it
			var end int64
			if p.a == 1 {
				end = min(p.hi, (q*w+w-1)-p.b)
			} else {
				// v decreases as c grows: stays in the block while v ≥ q*w
				end = min(p.hi, p.b-q*w)
			}
			odd := q&1 != 0
			nb := p.b
			switch {
			case set && !odd:
				nb += w
			case !set && odd:
				nb -= w
			}
			out = append(out, ccPiece{c, end, p.a, nb})
			c = end + 1
			if len(out) > 4_000_000 {
				return nil, &ccErr{"too many pieces"}
			}
		}
	}
	return out.compact(), nil
}

func ccMask(f ccPW, op token.Token, m int64, bits uint) (ccPW, *ccErr) {
	var err *ccErr
	switch op {
	case token.OR:
		if m < 0 {
			return nil, &ccErr{"| with a negative constant"}
		}
		for j := uint(0); j < 63; j++ {
			if m&(1<<j) != 0 {
				if f, err = ccBit(f, j, true); err != nil {
					return nil, err
				}
			}
		}
		return f, nil
	case token.AND, token.AND_NOT:
		if op == token.AND_NOT {
			m = ^m
		}
		// clear every bit below `bits` that the mask does not keep; a mask
		// that keeps the sign bit of a negative value is not modelled
		if m < 0 {
			for j := uint(0); j < bits; j++ {
				if m&(1<<j) == 0 {
					if f, err = ccBit(f, j, false); err != nil {
						return nil, err
					}
				}
			}
			return f, nil
		}
		// non-negative mask: the result is v mod 2^k restricted to the kept bits
		k := uint(0)
		for (int64(1) << k) <= m {
			k++
		}
		if f, err = ccMod2(f, k); err != nil {
			return nil, err
		}
		for j := uint(0); j < k; j++ {
			if m&(1<<j) == 0 {
				if f, err = ccBit(f, j, false); err != nil {
					return nil, err
				}
			}
		}
		return f, nil
	}
	return nil, &ccErr{"operator " + op.String()}
}

// ccMod2: v mod 2^k (the low k bits, two's complement).
func ccMod2(f ccPW, k uint) (ccPW, *ccErr) {
	w := int64(1) << k
	var out ccPW
	for _, p := range f {
		if p.a == 0 {
			out = append(out, ccPiece{p.lo, p.hi, 0, p.b - floorDiv(p.b, w)*w})
			continue
		}
		if p.a != 1 && p.a != -1 {
			return nil, &ccErr{"truncation of a scaled value"}
		}
		c := p.lo
		for c <= p.hi {
			v := p.a*c + p.b
			q := floorDiv(v, w)
			var end int64
			if p.a == 1 {
				end = min(p.hi, (q*w+w-1)-p.b)
			} else {
				end = min(p.hi, p.b-q*w)
			}
			out = append(out, ccPiece{c, end, p.a, p.b - q*w})
			c = end + 1
			if len(out) > 4_000_000 {
				return nil, &ccErr{"too many pieces"}
			}
		}
	}
	return out.compact(), nil
}

// ccCompare: the truth (0/1) of `p op q` on [lo,hi], split where it changes.
func ccCompare(lo, hi int64, p, q ccPiece, op token.Token, out *ccPW) {
	a, b := p.a-q.a, p.b-q.b // sign of a*c+b decides
	truth := func(d int64) int64 {
		var t bool
		switch op {
		case token.LSS:
			t = d < 0
		case token.LEQ:
			t = d <= 0
		case token.GTR:
			t = d > 0
		case token.GEQ:
			t = d >= 0
		case token.EQL:
			t = d == 0
		case token.NEQ:
			t = d != 0
		}
		if t {
			return 1
		}
		return 0
	}
	if a == 0 {
		*out = append(*out, ccPiece{lo, hi, 0, truth(b)})
		return
	}
	// a*c+b is monotone: at most three regimes (<0, =0, >0) — cut at the
	// points around the root
	cuts := []int64{lo}
	r := floorDiv(-b, a)
	for _, c := range []int64{r - 1, r, r + 1, r + 2} {
		if c > lo && c <= hi {
			cuts = append(cuts, c)
		}
	}
	sort.Slice(cuts, func(i, j int) bool { return cuts[i] < cuts[j] })
	for i, c := range cuts {
		end := hi
		if i+1 < len(cuts) {
			end = cuts[i+1] - 1
		}
		if end < c {
			continue
		}
		// the sign is constant on [c,end] by construction: the root (if an
		// integer) is a cut of its own
		t0, t1 := truth(a*c+b), truth(a*end+b)
		if t0 != t1 {
			// cannot happen with the cuts above; be exact anyway
			for x := c; x <= end; x++ {
				*out = append(*out, ccPiece{x, x, 0, truth(a*x + b)})
			}
			continue
		}
		*out = append(*out, ccPiece{c, end, 0, t0})
	}
}

type ccEval struct {
	p     *Prog
	steps int
}

func ccPure(fn *ssa.Function) bool {
	if fn == nil || fn.Blocks == nil || len(fn.Blocks) > 48 || len(fn.FreeVars) > 0 {
		return false
	}
	for _, q := range fn.Params {
		if bt, ok := q.Type().Underlying().(*types.Basic); !ok || bt.Info()&(types.IsInteger|types.IsBoolean) == 0 {
			return false
		}
	}
	rs := fn.Signature.Results()
	if rs.Len() != 1 {
		return false
	}
	if bt, ok := rs.At(0).Type().Underlying().(*types.Basic); !ok || bt.Info()&(types.IsInteger|types.IsBoolean) == 0 {
		return false
	}
	for _, b := range fn.Blocks {
		for _, pr := range b.Preds {
			if b.Dominates(pr) {
				return false
			}
		}
	}
	return true
}

// run evaluates fn with its parameters bound to args (functions of c) on the
// inputs in; the result is a function of c on (the part of) in.
func (e *ccEval) run(fn *ssa.Function, args []ccPW, in ccSet, depth int) (ccPW, *ccErr) {
	if depth > 6 {
		return nil, &ccErr{"call depth"}
	}
	if !ccPure(fn) {
		return nil, &ccErr{"not a loop-free function of integers: " + fnName(fn)}
	}
	env := map[ssa.Value]ccPW{}
	for i, q := range fn.Params {
		env[q] = args[i]
	}
	var result ccPW
	var walk func(b, from *ssa.BasicBlock, in ccSet, env map[ssa.Value]ccPW) *ccErr
	walk = func(b, from *ssa.BasicBlock, in ccSet, env map[ssa.Value]ccPW) *ccErr {
		if len(in) == 0 {
			return nil
		}
		e.steps++
		if e.steps > 20000 {
			return &ccErr{"too many paths"}
		}
		val := func(v ssa.Value) (ccPW, *ccErr) {
			if k, ok := v.(*ssa.Const); ok {
				if k.Value == nil {
					return nil, &ccErr{"nil constant"}
				}
				switch k.Value.Kind() {
				case constant.Int:
					n, ok := constant.Int64Val(k.Value)
					if !ok {
						return nil, &ccErr{"constant out of range"}
					}
					return ccConst(in, n), nil
				case constant.Bool:
					if constant.BoolVal(k.Value) {
						return ccConst(in, 1), nil
					}
					return ccConst(in, 0), nil
				}
				return nil, &ccErr{"constant of kind " + k.Value.Kind().String()}
			}
			f, ok := env[v]
			if !ok {
				return nil, &ccErr{fmt.Sprintf("value %s (%T)", v.Name(), v)}
			}
			return f.restrict(in), nil
		}
		// phis first, all read from the edge taken
		local := map[ssa.Value]ccPW{}
		for _, ins := range b.Instrs {
			ph, ok := ins.(*ssa.Phi)
			if !ok {
				break
			}
			idx := -1
			for i, pr := range b.Preds {
				if pr == from {
					idx = i
				}
			}
			if idx < 0 {
				return &ccErr{"phi without the incoming edge"}
			}
			f, err := val(ph.Edges[idx])
			if err != nil {
				return err
			}
			local[ph] = f
		}
		if len(local) > 0 {
			ne := make(map[ssa.Value]ccPW, len(env)+len(local))
			for k, v := range env {
				ne[k] = v
			}
			for k, v := range local {
				ne[k] = v
			}
			env = ne
		} else {
			ne := make(map[ssa.Value]ccPW, len(env)+4)
			for k, v := range env {
				ne[k] = v
			}
			env = ne
		}
		for _, ins := range b.Instrs {
			switch x := ins.(type) {
			case *ssa.Phi, *ssa.DebugRef:
			case *ssa.BinOp:
				f, err := val(x.X)
				if err != nil {
					return err
				}
				g, err := val(x.Y)
				if err != nil {
					return err
				}
				r, err := e.binop(x, f, g)
				if err != nil {
					return err
				}
				env[x] = r
			case *ssa.UnOp:
				f, err := val(x.X)
				if err != nil {
					return err
				}
				var out ccPW
				switch x.Op {
				case token.NOT:
					for _, p := range f {
						out = append(out, ccPiece{p.lo, p.hi, 0, 1 - p.b})
					}
				case token.SUB:
					for _, p := range f {
						out = append(out, ccPiece{p.lo, p.hi, -p.a, -p.b})
					}
				default:
					return &ccErr{"unary " + x.Op.String()}
				}
				env[x] = out
			case *ssa.Convert, *ssa.ChangeType:
				var from ssa.Value
				if c, ok := x.(*ssa.Convert); ok {
					from = c.X
				} else {
					from = x.(*ssa.ChangeType).X
				}
				f, err := val(from)
				if err != nil {
					return err
				}
				r, err := ccConvert(f, x.(ssa.Value).Type())
				if err != nil {
					return err
				}
				env[x.(ssa.Value)] = r
			case *ssa.Call:
				g := x.Call.StaticCallee()
				if x.Call.IsInvoke() || g == nil || !inModule(g) {
					return &ccErr{"call to " + calleeName(&x.Call)}
				}
				var as []ccPW
				for _, a := range x.Call.Args {
					f, err := val(a)
					if err != nil {
						return err
					}
					as = append(as, f)
				}
				r, err := e.run(g, as, in, depth+1)
				if err != nil {
					return err
				}
				env[x] = r
			case *ssa.If:
				c, err := val(x.Cond)
				if err != nil {
					return err
				}
				var ts, fs ccSet
				for _, p := range c {
					if p.a != 0 {
						return &ccErr{"condition is not a truth value"}
					}
					if p.b != 0 {
						ts = append(ts, ccPiece{lo: p.lo, hi: p.hi})
					} else {
						fs = append(fs, ccPiece{lo: p.lo, hi: p.hi})
					}
				}
				if err := walk(b.Succs[0], b, ts, env); err != nil {
					return err
				}
				return walk(b.Succs[1], b, fs, env)
			case *ssa.Jump:
				return walk(b.Succs[0], b, in, env)
			case *ssa.Return:
				f, err := val(x.Results[0])
				if err != nil {
					return err
				}
				result = append(result, f...)
				return nil
			default:
				return &ccErr{fmt.Sprintf("%T in %s", ins, fnName(fn))}
			}
		}
		return &ccErr{"block without terminator"}
	}
	if err := walk(fn.Blocks[0], nil, in, env); err != nil {
		return nil, err
	}
	sort.Slice(result, func(i, j int) bool { return result[i].lo < result[j].lo })
	// the paths partition the inputs
	for i := 1; i < len(result); i++ {
		if result[i].lo <= result[i-1].hi {
			return nil, &ccErr{"overlapping paths"}
		}
	}
	return result.compact(), nil
}

func ccConvert(f ccPW, t types.Type) (ccPW, *ccErr) {
	bt, ok := t.Underlying().(*types.Basic)
	if !ok || bt.Info()&types.IsInteger == 0 {
		return nil, &ccErr{"conversion to " + t.String()}
	}
	switch bt.Kind() {
	case types.Int, types.Int64, types.Int32, types.Uint64, types.Uint, types.Uintptr:
		// the values in play (code points, digit values and their small
		// combinations) fit; a negative value converted to an unsigned type of
		// 64 bits is not modelled
		if bt.Info()&types.IsUnsigned != 0 {
			for _, p := range f {
				if min(p.a*p.lo+p.b, p.a*p.hi+p.b) < 0 {
					return nil, &ccErr{"negative value converted to " + t.String()}
				}
			}
		}
		return f, nil
	case types.Uint8:
		return ccMod2(f, 8)
	case types.Uint16:
		return ccMod2(f, 16)
	case types.Uint32:
		return ccMod2(f, 32)
	}
	return nil, &ccErr{"conversion to " + t.String()}
}

func (e *ccEval) binop(x *ssa.BinOp, f, g ccPW) (ccPW, *ccErr) {
	var out ccPW
	var bad *ccErr
	switch x.Op {
	case token.ADD, token.SUB:
		ccZip(f, g, func(lo, hi int64, p, q ccPiece) {
			if x.Op == token.ADD {
				out = append(out, ccPiece{lo, hi, p.a + q.a, p.b + q.b})
			} else {
				out = append(out, ccPiece{lo, hi, p.a - q.a, p.b - q.b})
			}
		})
	case token.MUL:
		ccZip(f, g, func(lo, hi int64, p, q ccPiece) {
			switch {
			case p.a == 0:
				out = append(out, ccPiece{lo, hi, p.b * q.a, p.b * q.b})
			case q.a == 0:
				out = append(out, ccPiece{lo, hi, q.b * p.a, q.b * p.b})
			default:
				bad = &ccErr{"product of two varying values"}
			}
		})
	case token.SHL:
		ccZip(f, g, func(lo, hi int64, p, q ccPiece) {
			if q.a != 0 || q.b < 0 || q.b > 40 {
				bad = &ccErr{"shift by a varying amount"}
				return
			}
			out = append(out, ccPiece{lo, hi, p.a << uint(q.b), p.b << uint(q.b)})
		})
	case token.LSS, token.LEQ, token.GTR, token.GEQ, token.EQL, token.NEQ:
		ccZip(f, g, func(lo, hi int64, p, q ccPiece) { ccCompare(lo, hi, p, q, x.Op, &out) })
	case token.OR, token.AND, token.AND_NOT:
		// one side constant over the whole domain in play
		bits := uint(32)
		if bt, ok := x.Type().Underlying().(*types.Basic); ok {
			switch bt.Kind() {
			case types.Uint8, types.Int8:
				bits = 8
			case types.Uint16, types.Int16:
				bits = 16
			case types.Int, types.Int64, types.Uint, types.Uint64:
				bits = 40
			}
		}
		// booleans never reach here (&& and || are control flow)
		constOf := func(h ccPW) (int64, bool) {
			if len(h) == 0 {
				return 0, false
			}
			for _, p := range h {
				if p.a != 0 || p.b != h[0].b {
					return 0, false
				}
			}
			return h[0].b, true
		}
		if m, ok := constOf(g); ok {
			return ccMask(f, x.Op, m, bits)
		}
		if m, ok := constOf(f); ok && x.Op != token.AND_NOT {
			return ccMask(g, x.Op, m, bits)
		}
		return nil, &ccErr{"bit operation on two varying values"}
	default:
		return nil, &ccErr{"operator " + x.Op.String()}
	}
	if bad != nil {
		return nil, bad
	}
	return out.compact(), nil
}

// digit classes a jsonpath number or escape can use
var ccClasses = []struct {
	name string
	in   func(c int64) bool
}{
	{"[01]", func(c int64) bool { return c == '0' || c == '1' }},
	{"[0-7]", func(c int64) bool { return c >= '0' && c <= '7' }},
	{"[0-9]", func(c int64) bool { return c >= '0' && c <= '9' }},
	{"[0-9A-Fa-f]", func(c int64) bool {
		return c >= '0' && c <= '9' || c >= 'a' && c <= 'f' || c >= 'A' && c <= 'F'
	}},
	{"[0-9A-Za-z]", func(c int64) bool {
		return c >= '0' && c <= '9' || c >= 'a' && c <= 'z' || c >= 'A' && c <= 'Z'
	}},
	{"[0-9A-Za-z_]", func(c int64) bool {
		return c >= '0' && c <= '9' || c >= 'a' && c <= 'z' || c >= 'A' && c <= 'Z' || c == '_'
	}},
}

// ccSpaceClass: "" when the set holds space, tab, line feed and carriage
// return (the white space of JSON, which a path may be laid out with) and
// otherwise only other white space; else what is wrong.
func ccSpaceClass(acc ccSet) string {
	in := func(c int64) bool {
		for _, q := range acc {
			if q.lo <= c && c <= q.hi {
				return true
			}
		}
		return false
	}
	for _, c := range []int64{' ', '\t', '\n', '\r'} {
		if !in(c) {
			return fmt.Sprintf("U+%04X is missing, so a path laid out with it (a carriage return before a line feed, a tab) no longer parses", c)
		}
	}
	for _, q := range acc {
		for c := q.lo; c <= q.hi && c-q.lo < 64; c++ {
			switch c {
			case ' ', '\t', '\n', '\r', '\v', '\f', 0x85, 0xA0:
			default:
				return fmt.Sprintf("U+%04X is no white space, so it disappears between tokens", c)
			}
		}
		if q.hi-q.lo >= 64 {
			return "a whole range of characters is skipped as white space"
		}
	}
	return ""
}

func ccDigitValue(c int64) int64 {
	switch {
	case c >= '0' && c <= '9':
		return c - '0'
	case c >= 'a' && c <= 'z':
		return c - 'a' + 10
	case c >= 'A' && c <= 'Z':
		return c - 'A' + 10
	}
	return -1
}

func ccShow(s ccSet) string {
	var parts []string
	for i, p := range s {
		if i == 6 {
			parts = append(parts, "…")
			break
		}
		if p.lo == p.hi {
			parts = append(parts, fmt.Sprintf("U+%04X", p.lo))
		} else {
			parts = append(parts, fmt.Sprintf("U+%04X..U+%04X", p.lo, p.hi))
		}
	}
	return strings.Join(parts, ", ")
}

// ccClassOf: the class whose members are exactly s ("" if none) .
func ccClassOf(s ccSet) string {
	for _, cl := range ccClasses {
		ok := true
		n := int64(0)
		for _, p := range s {
			if p.hi-p.lo > 64 {
				ok = false
				break
			}
			for c := p.lo; c <= p.hi; c++ {
				if !cl.in(c) {
					ok = false
				}
				n++
			}
		}
		if !ok {
			continue
		}
		m := int64(0)
		for c := int64(0); c < 128; c++ {
			if cl.in(c) {
				m++
			}
		}
		if n == m {
			return cl.name
		}
	}
	return ""
}

var ruleCharClass = &Rule{
	Name: "R-CHARCLASS", NeedSSA: true,
	Doc: "the lexer's pure functions of one character, computed exactly as piecewise-affine functions of the argument over end-of-input and every code point (comparisons split the range; `|`, `&` and narrowing conversions split it at the aligned blocks they act on; calls to other such functions are unfolded): a digit-value function (one return a negative constant, another the argument minus a constant) accepts exactly one of the digit classes [01], [0-7], [0-9], [0-9A-Fa-f] and gives every accepted character its value as a digit; a predicate that accepts '0' accepts exactly one of those classes or [0-9A-Za-z], [0-9A-Za-z_]; some digit-value function accepts the hexadecimal class",
	Run: func(p *Prog) *RuleOut {
		out := newOut("R-CHARCLASS")
		nVal, nPred, nHex, nSkipped, nSpace := 0, 0, 0, 0, 0
		var fns []*ssa.Function
		for fn := range p.AllFns {
			if fnPkgPath(fn) != pkgParser || fn.Blocks == nil || fn.Synthetic != "" || fn.Parent() != nil || fn.Signature.Recv() != nil {
				continue
			}
			if len(fn.Params) != 1 || !ccPure(fn) {
				continue
			}
			if bt, ok := fn.Params[0].Type().Underlying().(*types.Basic); !ok || bt.Kind() != types.Int32 {
				continue
			}
			fns = append(fns, fn)
		}
		sort.Slice(fns, func(i, j int) bool { return fnName(fns[i]) < fnName(fns[j]) })
		for _, fn := range fns {
			isBool := false
			if bt, ok := fn.Signature.Results().At(0).Type().Underlying().(*types.Basic); ok && bt.Info()&types.IsBoolean != 0 {
				isBool = true
			}
			// a digit-value function: one return a negative constant, another
			// computed from the argument
			if !isBool {
				neg, varying := false, false
				for _, r := range returnsOf(fn) {
					if k, ok := constInt(r.Results[0]); ok {
						if k < 0 {
							neg = true
						}
					} else {
						varying = true
					}
				}
				if !neg || !varying {
					continue
				}
			}
			e := &ccEval{p: p}
			full := ccFull()
			f, err := e.run(fn, []ccPW{ccIdent(full)}, full, 0)
			key := fnName(fn) + ": character class"
			at := p.pos(fn.Pos())
			if err != nil {
				// not a function this rule can compute (a table lookup, a call
				// into the standard library): no verdict on it
				nSkipped++
				out.ok(key+" (not computed)", at, fnName(fn), "not decided: "+err.why)
				continue
			}
			var dom ccSet
			for _, q := range f {
				dom = append(dom, ccPiece{lo: q.lo, hi: q.hi})
			}
			if dom.size() != full.size() {
				out.undecided(key, at, fnName(fn), fmt.Sprintf("the paths cover %d of %d arguments", dom.size(), full.size()))
				continue
			}
			var acc ccSet
			bad := ""
			for _, q := range f {
				if isBool {
					if q.b != 0 {
						acc = append(acc, ccPiece{lo: q.lo, hi: q.hi})
					}
					continue
				}
				// accepted where the value is ≥ 0
				for _, part := range splitNonNeg(q) {
					acc = append(acc, ccPiece{lo: part.lo, hi: part.hi})
					if part.hi-part.lo > 64 {
						continue // reported through the class test below
					}
					for c := part.lo; c <= part.hi; c++ {
						if v := q.a*c + q.b; v != ccDigitValue(c) && bad == "" {
							bad = fmt.Sprintf("U+%04X is given the value %d", c, v)
						}
					}
				}
			}
			acc = ccSet(ccPW(acc).compact())
			if isBool {
				// only predicates over digits, and over white space, are held to a class
				has0, hasSP := false, false
				for _, q := range acc {
					if q.lo <= '0' && '0' <= q.hi {
						has0 = true
					}
					if q.lo <= ' ' && ' ' <= q.hi {
						hasSP = true
					}
				}
				// a white space test is a predicate of a handful of characters
				// with the space among them; one that accepts half of Unicode
				// (`prefix != 0 && prefix != '0'`) is about something else
				if hasSP && !has0 && acc.size() <= 16 {
					nSpace++
					if why := ccSpaceClass(acc); why == "" {
						out.ok(key, at, fnName(fn), "accepts "+ccShow(acc)+": the four white space characters of JSON and nothing but white space")
					} else {
						out.viol(key, at, fnName(fn), "a predicate that accepts the space accepts "+ccShow(acc)+": "+why)
					}
					continue
				}
				if !has0 {
					continue
				}
				nPred++
				if cl := ccClassOf(acc); cl != "" {
					out.ok(key, at, fnName(fn), "accepts exactly "+cl+" among all arguments")
				} else {
					out.viol(key, at, fnName(fn), "a predicate that accepts '0' accepts "+ccShow(acc)+", which is none of the digit classes: a character that is no digit is scanned as part of a number or an escape, or a digit is refused")
				}
				continue
			}
			nVal++
			cl := ccClassOf(acc)
			switch {
			case cl == "" || strings.Contains(cl, "Z"):
				out.viol(key, at, fnName(fn), "the digit-value function accepts "+ccShow(acc)+", which is none of the digit classes: an escape with a character that is no digit is decoded instead of rejected, or a digit is refused")
			case bad != "":
				out.viol(key, at, fnName(fn), "the digit-value function accepts "+cl+" but "+bad+": an escape denotes another character than the one written")
			default:
				if cl == "[0-9A-Fa-f]" {
					nHex++
				}
				out.ok(key, at, fnName(fn), "accepts exactly "+cl+" among all arguments, each with its value as a digit")
			}
		}
		// the same for a bit mask tested with `mask&(1<<ch) != 0`
		for fn := range p.AllFns {
			if fnPkgPath(fn) != pkgParser || fn.Blocks == nil || fn.Synthetic != "" {
				continue
			}
			for _, b := range fn.Blocks {
				for _, ins := range b.Instrs {
					bo, ok := ins.(*ssa.BinOp)
					if !ok || bo.Op != token.AND {
						continue
					}
					var k int64
					var sh *ssa.BinOp
					for _, pr := range [][2]ssa.Value{{bo.X, bo.Y}, {bo.Y, bo.X}} {
						if kv, isC := constInt(pr[0]); isC {
							if s2, isS := stripConvPlain(pr[1]).(*ssa.BinOp); isS && s2.Op == token.SHL {
								if one, isOne := constInt(s2.X); isOne && one == 1 {
									k, sh = kv, s2
								}
							}
						}
					}
					if sh == nil {
						continue
					}
					if bt, ok := stripConvPlain(sh.Y).Type().Underlying().(*types.Basic); !ok || bt.Kind() != types.Int32 {
						continue
					}
					if k&(1<<' ') == 0 || k&(1<<'0') != 0 {
						continue
					}
					nSpace++
					var acc ccSet
					for i := int64(0); i < 63; i++ {
						if k&(1<<uint(i)) != 0 {
							acc = append(acc, ccPiece{lo: i, hi: i})
						}
					}
					acc = ccSet(ccPW(acc).compact())
					key := fnName(fn) + ": white space mask"
					if why := ccSpaceClass(acc); why == "" {
						out.ok(key, p.pos(bo.Pos()), fnName(fn), "the mask holds "+ccShow(acc)+": the four white space characters of JSON and nothing but white space")
					} else {
						out.viol(key, p.pos(bo.Pos()), fnName(fn), "a character mask that holds the space holds "+ccShow(acc)+": "+why)
					}
				}
			}
		}
		out.Counts["white_space_tests"] = nSpace
		out.Counts["digit_value_functions"] = nVal
		out.Counts["digit_predicates"] = nPred
		out.Counts["hex_value_functions"] = nHex
		out.Counts["not_computed"] = nSkipped
		out.Counts["digit_functions_decided"] = nVal + nPred
		out.Floors["digit_functions_decided"] = 1
		out.Counts["arguments_covered_each"] = int(ccFull().size())
		return out
	},
}

// splitNonNeg: the parts of the piece where a*c+b ≥ 0.
func splitNonNeg(q ccPiece) []ccPiece {
	if q.a == 0 {
		if q.b >= 0 {
			return []ccPiece{q}
		}
		return nil
	}
	var out ccPW
	ccCompare(q.lo, q.hi, q, ccPiece{q.lo, q.hi, 0, 0}, token.GEQ, &out)
	var res []ccPiece
	for _, t := range out {
		if t.b != 0 {
			res = append(res, ccPiece{t.lo, t.hi, q.a, q.b})
		}
	}
	return res
}

func init() { register(ruleCharClass) }

var ccAcceptedMemo = map[*ssa.Function]ccSet{}

// ccAccepted: the exact set of characters the pure one-rune predicate g
// accepts (false when g is no such function or cannot be computed).
func (p *Prog) ccAccepted(g *ssa.Function) (ccSet, bool) {
	if g == nil || g.Blocks == nil || !inModule(g) || len(g.Params) != 1 || !ccPure(g) {
		return nil, false
	}
	if r, ok := ccAcceptedMemo[g]; ok {
		return r, r != nil
	}
	ccAcceptedMemo[g] = nil
	if bt, ok := g.Params[0].Type().Underlying().(*types.Basic); !ok || bt.Kind() != types.Int32 {
		return nil, false
	}
	if bt, ok := g.Signature.Results().At(0).Type().Underlying().(*types.Basic); !ok || bt.Info()&types.IsBoolean == 0 {
		return nil, false
	}
	e := &ccEval{p: p}
	full := ccFull()
	f, err := e.run(g, []ccPW{ccIdent(full)}, full, 0)
	if err != nil {
		return nil, false
	}
	var dom, acc ccSet
	for _, q := range f {
		dom = append(dom, ccPiece{lo: q.lo, hi: q.hi})
		if q.b != 0 {
			acc = append(acc, ccPiece{lo: q.lo, hi: q.hi})
		}
	}
	if dom.size() != full.size() {
		return nil, false
	}
	acc = ccSet(ccPW(acc).compact())
	if acc == nil {
		acc = ccSet{}
	}
	ccAcceptedMemo[g] = acc
	return acc, true
}
