package main

// E3: error provenance. Every error-typed SSA value gets a set of
// (class, source site) pairs by an interprocedural fixpoint.

import (
	"fmt"
	"go/token"
	"go/types"
	"sort"
	"strings"

	"golang.org/x/tools/go/ssa"
)

// ErrSrc is one place where an error value is born.
type ErrSrc struct {
	Class string // nil | Verbose | Hard | Ctx | Invalid | NULL | CtxRaw | Bare | Foreign | Sentinel:<name> | Unknown
	Instr ssa.Instruction
	Fn    *ssa.Function
	Text  string
}

type errSet map[*ErrSrc]bool

type errEngine struct {
	p          *Prog
	srcs       map[ssa.Value]*ErrSrc // interned sources by creating value
	nilSrc     *ErrSrc
	ret        map[*ssa.Function][]errSet // per result index
	param      map[*ssa.Parameter]errSet
	dirty      bool
	globalMemo map[*ssa.Global]string
}

func (p *Prog) errors() *errEngine {
	if p.errEng != nil {
		return p.errEng
	}
	e := &errEngine{p: p, srcs: map[ssa.Value]*ErrSrc{}, ret: map[*ssa.Function][]errSet{}, param: map[*ssa.Parameter]errSet{},
		nilSrc: &ErrSrc{Class: "nil"}}
	var fns []*ssa.Function
	for fn := range p.AllFns {
		if inModule(fn) && fn.Blocks != nil {
			fns = append(fns, fn)
		}
	}
	sort.Slice(fns, func(i, j int) bool { return fns[i].String() < fns[j].String() })
	for iter := 0; iter < 30; iter++ {
		e.dirty = false
		for _, fn := range fns {
			e.summarise(fn)
		}
		if !e.dirty {
			break
		}
	}
	p.errEng = e
	return e
}

func (e *errEngine) summarise(fn *ssa.Function) {
	res := fn.Signature.Results()
	if e.ret[fn] == nil {
		e.ret[fn] = make([]errSet, res.Len())
		for i := range e.ret[fn] {
			e.ret[fn][i] = errSet{}
		}
	}
	// returns
	for _, r := range returnsOf(fn) {
		for i, v := range r.Results {
			if !isErrorType(res.At(i).Type()) {
				continue
			}
			fs := factsAt(r.Instr.Block())
			for s := range e.classify(v, fs, map[ssa.Value]bool{}) {
				if !e.ret[fn][i][s] {
					e.ret[fn][i][s] = true
					e.dirty = true
				}
			}
		}
	}
	// recover block of functions with named results set by a deferred closure
	if fn.Recover != nil {
		for _, af := range fn.AnonFuncs {
			for _, b := range af.Blocks {
				for _, ins := range b.Instrs {
					st, ok := ins.(*ssa.Store)
					if !ok || !isErrorType(st.Val.Type()) {
						continue
					}
					if _, ok := st.Addr.(*ssa.FreeVar); !ok {
						continue
					}
					for i := 0; i < res.Len(); i++ {
						if isErrorType(res.At(i).Type()) {
							for s := range e.classify(st.Val, nil, map[ssa.Value]bool{}) {
								if !e.ret[fn][i][s] {
									e.ret[fn][i][s] = true
									e.dirty = true
								}
							}
						}
					}
				}
			}
		}
	}
	// arguments → parameters of module callees
	for _, b := range fn.Blocks {
		for _, ins := range b.Instrs {
			ci, ok := ins.(ssa.CallInstruction)
			if !ok {
				continue
			}
			cc := ci.Common()
			for _, callee := range e.p.calleesOf(ci) {
				if !inModule(callee) || callee.Blocks == nil {
					continue
				}
				off := 0
				if cc.IsInvoke() {
					off = 1
				}
				for ai, a := range cc.Args {
					pi := ai + off
					if pi >= len(callee.Params) || !isErrorType(callee.Params[pi].Type()) {
						continue
					}
					q := callee.Params[pi]
					if e.param[q] == nil {
						e.param[q] = errSet{}
					}
					fs := factsAt(b)
					for s := range e.classify(a, fs, map[ssa.Value]bool{}) {
						if !e.param[q][s] {
							e.param[q][s] = true
							e.dirty = true
						}
					}
				}
			}
		}
	}
}

// calleesOf resolves a call instruction to functions (static or call graph).
func (p *Prog) calleesOf(ci ssa.CallInstruction) []*ssa.Function {
	if sc := ci.Common().StaticCallee(); sc != nil {
		return []*ssa.Function{sc}
	}
	var out []*ssa.Function
	if n := p.CG.Nodes[ci.Parent()]; n != nil {
		for _, e := range n.Out {
			if e.Site == ci {
				out = append(out, e.Callee.Func)
			}
		}
	}
	sort.Slice(out, func(i, j int) bool { return out[i].String() < out[j].String() })
	return out
}

func (e *errEngine) src(v ssa.Value, class, text string) *ErrSrc {
	if s, ok := e.srcs[v]; ok {
		return s
	}
	s := &ErrSrc{Class: class, Text: text}
	if ins, ok := v.(ssa.Instruction); ok {
		s.Instr = ins
		s.Fn = ins.Parent()
	}
	e.srcs[v] = s
	return s
}

// sentinelClass maps a module sentinel to its class.
func (e *errEngine) sentinelClass(g *ssa.Global) string {
	if g.Pkg == nil {
		return "Foreign"
	}
	a := e.p.A
	switch g.Object() {
	case a.ErrVerbose:
		return "Verbose"
	case a.ErrExecution:
		return "Hard"
	case a.ErrInvalid:
		return "Invalid"
	case a.NULL:
		return "NULL"
	}
	if strings.HasPrefix(g.Pkg.Pkg.Path(), modPath) {
		if c := e.globalInitClass(g); c != "" {
			return c
		}
		return "Sentinel:" + g.Pkg.Pkg.Name() + "." + g.Name()
	}
	return "Foreign"
}

// globalInitClass: a package-level error variable of the module that is
// stored exactly once, by its package initialiser, has the class of the value
// it is initialised with (fmt.Errorf("%w…", Sentinel) → that sentinel's class).
func (e *errEngine) globalInitClass(g *ssa.Global) string {
	if c, ok := e.globalMemo[g]; ok {
		return c
	}
	if e.globalMemo == nil {
		e.globalMemo = map[*ssa.Global]string{}
	}
	e.globalMemo[g] = "" // recursion guard
	var stores []*ssa.Store
	for fn := range e.p.AllFns {
		if !inModule(fn) {
			continue
		}
		for _, b := range fn.Blocks {
			for _, ins := range b.Instrs {
				if st, ok := ins.(*ssa.Store); ok && st.Addr == ssa.Value(g) {
					stores = append(stores, st)
				}
			}
		}
	}
	if len(stores) != 1 || stores[0].Parent().Name() != "init" || stores[0].Parent().Synthetic == "" {
		return ""
	}
	set := e.classify(stores[0].Val, nil, map[ssa.Value]bool{})
	cls := ""
	for s := range set {
		if s == e.nilSrc {
			continue
		}
		if cls != "" && cls != s.Class {
			return ""
		}
		cls = s.Class
	}
	e.globalMemo[g] = cls
	return cls
}

func (e *errEngine) classify(v ssa.Value, fs []Fact, seen map[ssa.Value]bool) errSet {
	out := errSet{}
	v = stripConv(v)
	if seen[v] {
		return out
	}
	seen[v] = true
	if fs != nil {
		if isNil, _ := nilFact(fs, v); isNil {
			out[e.nilSrc] = true
			return out
		}
	}
	add := func(s errSet) {
		for k := range s {
			out[k] = true
		}
	}
	dropNil := func() {
		if fs != nil {
			if _, nn := nilFact(fs, v); nn {
				delete(out, e.nilSrc)
			}
		}
	}
	switch x := v.(type) {
	case *ssa.Const:
		if x.Value == nil {
			out[e.nilSrc] = true
		}
	case *ssa.MakeInterface:
		if isErrorType(x.X.Type()) || types.IsInterface(x.X.Type()) {
			add(e.classify(x.X, nil, seen))
		} else {
			out[e.src(v, "Foreign", "value of type "+typeStr(x.X.Type()))] = true
		}
	case *ssa.Phi:
		for i, ed := range x.Edges {
			pred := x.Block().Preds[i]
			add(e.classify(ed, edgeFacts(pred, succIndex(pred, x.Block())), seen))
		}
		dropNil()
	case *ssa.Parameter:
		if s := e.param[x]; s != nil {
			add(s)
		}
		if len(out) == 0 {
			// no resolved caller yet (or exported API): unknown
			if n := e.p.CG.Nodes[x.Parent()]; n == nil || len(n.In) == 0 {
				out[e.src(v, "Unknown", "parameter "+x.Name()+" of "+fnName(x.Parent()))] = true
			}
		}
		dropNil()
	case *ssa.UnOp:
		if x.Op == token.MUL {
			switch a := x.X.(type) {
			case *ssa.Global:
				out[e.src(v, e.sentinelClass(a), a.Name())] = true
			case *ssa.Alloc:
				n := 0
				for _, ref := range *a.Referrers() {
					if st, ok := ref.(*ssa.Store); ok && st.Addr == a {
						n++
						add(e.classify(st.Val, factsAt(st.Block()), seen))
					}
				}
				if n == 0 {
					out[e.nilSrc] = true
				}
			default:
				out[e.src(v, "Unknown", "load "+x.X.Name())] = true
			}
		} else {
			out[e.src(v, "Unknown", x.String())] = true
		}
		dropNil()
	case *ssa.Extract:
		if c, ok := x.Tuple.(*ssa.Call); ok {
			add(e.callClasses(c, x.Index, fs))
		} else if ta, ok := x.Tuple.(*ssa.TypeAssert); ok {
			add(e.classify(ta.X, nil, seen))
		} else {
			out[e.src(v, "Unknown", x.String())] = true
		}
		dropNil()
	case *ssa.Call:
		add(e.callClasses(x, 0, fs))
		dropNil()
	case *ssa.TypeAssert:
		add(e.classify(x.X, nil, seen))
	default:
		out[e.src(v, "Unknown", fmt.Sprintf("%T %s", v, v.Name()))] = true
	}
	return out
}

func (e *errEngine) callClasses(c *ssa.Call, idx int, fs []Fact) errSet {
	out := errSet{}
	q := calleeQualified(&c.Call)
	switch q {
	case "fmt.Errorf":
		sh := e.p.shapeOf(c)
		class := "Bare"
		if len(sh.Sentinels) > 0 {
			if g := e.firstSentinelGlobal(c); g != nil {
				class = e.sentinelClass(g)
			}
			if class == "Hard" && e.wrapsCtxErr(c) {
				class = "Ctx"
			}
		} else if strings.HasPrefix(sh.Text, "%w") && len(sh.Passes) > 0 {
			// wraps a non-sentinel error first: class of that error
			for s := range e.classify(sh.Passes[0], nil, map[ssa.Value]bool{}) {
				out[s] = true
			}
			return out
		}
		out[e.src(c, class, trunc(sh.Text, 70))] = true
		return out
	case "errors.New":
		out[e.src(c, "Bare", "errors.New")] = true
		return out
	}
	if c.Call.IsInvoke() && c.Call.Method.Name() == "Err" && isContextType(c.Call.Value.Type()) {
		out[e.src(c, "CtxRaw", "ctx.Err()")] = true
		return out
	}
	callees := e.p.calleesOf(c)
	if len(callees) == 0 {
		out[e.src(c, "Unknown", "unresolved call "+c.String())] = true
		return out
	}
	for _, f := range callees {
		// a constructor helper that wraps the sentinel it is handed
		// (`notNumericErr(base error, op string) error`): the class is that of
		// the sentinel at this call
		if k := e.ctorWrappedParam(f); k >= 0 && k < len(c.Call.Args) && idx == 0 && len(callees) == 1 {
			for s := range e.classify(c.Call.Args[k], fs, map[ssa.Value]bool{}) {
				out[s] = true
			}
			continue
		}
		if inModule(f) && f.Blocks != nil {
			if rs := e.ret[f]; rs != nil && idx < len(rs) {
				for s := range rs[idx] {
					out[s] = true
				}
			}
			continue
		}
		out[e.src(c, "Foreign", "error of "+f.String())] = true
		out[e.nilSrc] = true
	}
	return out
}

// ctorWrappedParam: f is a one-block module function returning
// fmt.Errorf("%w…", p, …) with p one of its parameters; the index of p, else -1.
func (e *errEngine) ctorWrappedParam(f *ssa.Function) int {
	if !e.p.isErrCtor(f) {
		return -1
	}
	ret := f.Blocks[0].Instrs[len(f.Blocks[0].Instrs)-1].(*ssa.Return)
	inner, ok := stripConv(ret.Results[0]).(*ssa.Call)
	if !ok || len(inner.Call.Args) < 2 {
		return -1
	}
	args := errorfArgs(inner.Call.Args[1])
	pre := formatPrefix(inner.Call.Args[0])
	if pre == "" {
		return -1
	}
	verbs := formatVerbs(pre)
	for i, a := range args {
		if a == nil || i >= len(verbs) || verbs[i] != 'w' {
			continue
		}
		if q, ok := stripConv(a).(*ssa.Parameter); ok && q.Parent() == f {
			return paramIndex(q)
		}
		return -1
	}
	return -1
}

func (e *errEngine) firstSentinelGlobal(c *ssa.Call) *ssa.Global {
	if len(c.Call.Args) < 2 {
		return nil
	}
	args := errorfArgs(c.Call.Args[1])
	pre := formatPrefix(c.Call.Args[0])
	if pre == "" {
		return nil
	}
	verbs := formatVerbs(pre)
	for i, a := range args {
		if a == nil || i >= len(verbs) || verbs[i] != 'w' {
			continue
		}
		if g := loadedGlobal(a); g != nil {
			return g
		}
	}
	return nil
}

// wrapsCtxErr: one of the %w arguments is ctx.Err().
func (e *errEngine) wrapsCtxErr(c *ssa.Call) bool {
	if len(c.Call.Args) < 2 {
		return false
	}
	for _, a := range variadicArgs(c.Call.Args[1]) {
		if a == nil {
			continue
		}
		a = stripConv(a)
		if mi, ok := a.(*ssa.MakeInterface); ok {
			a = stripConv(mi.X)
		}
		if isCtxErrCall(a) {
			return true
		}
	}
	return false
}

// classesOf summarises a set: class → sorted list of source descriptions.
func (p *Prog) classNames(s errSet) []string {
	m := map[string]bool{}
	for k := range s {
		m[k.Class] = true
	}
	return sortedKeys(m)
}

func (p *Prog) srcDesc(s *ErrSrc) string {
	if s.Instr == nil {
		return s.Class
	}
	return fmt.Sprintf("%s at %s in %s (%s)", s.Class, p.pos(s.Instr.Pos()), fnName(s.Fn), s.Text)
}
