package main

// R-STATUSFLOW (C06): "nothing found" travels up.
//
// Exists without a collector (lax mode) is answered by the status alone. A
// function that hands its collector on to a continuation and then returns must
// not turn the continuation's `not found` into `found`: from every call that
// forwards the function's own collector, on the outcome (not found, nil), every
// path reaches — before another evaluation takes over — a return whose status
// is the call's own, the constant not-found (or failed), or OK backed by
// evidence on the same path (an append to the collector, or a test of the
// collector's content). A status variable left at its zero value (which is
// `found`) is the typical slip.

import (
	"fmt"
	"go/token"
	"go/types"

	"golang.org/x/tools/go/ssa"
)

// statusFlowException: the one structural exception (checked by
// collectorRequired, not keyed by name).
const statusFlowException = "the collector is required here: in the same loop a list method is called on it with no test that it is not nil, so a run without a collector cannot reach this code and found/not-found is not an answer an existence check reads (the unwrap-result helper; PostgreSQL's executeItemOptUnwrapResult returns jperOk in the same place)"

// loopsGuardedByEmptyMapTest: every loop header of fn is dominated by a test
// len(map) == 0 whose true branch returns not found.
func (p *Prog) loopsGuardedByEmptyMapTest(fn *ssa.Function) bool {
	n := 0
	for _, b := range fn.Blocks {
		isHeader := false
		for _, pr := range b.Preds {
			if b.Dominates(pr) {
				isHeader = true
			}
		}
		if !isHeader {
			continue
		}
		n++
		if !p.emptyMapReturnsNotFound(fn, b) {
			return false
		}
	}
	return n > 0
}

// collectorRequired: in the loop around block at (or anywhere in fn when at is
// nil) the collector is used unguarded — a list method is called on it where
// no test has established that it is not nil. A run without a collector
// would panic there, so the code is only ever reached with one, and whether
// it reports found or not-found is not an answer an existence check reads.
func (p *Prog) collectorRequired(fn *ssa.Function, at *ssa.BasicBlock) bool {
	coll := p.collectorParam(fn)
	if coll == nil {
		return false
	}
	// nearest loop header dominating at
	var header *ssa.BasicBlock
	if at != nil {
		for cur := at; cur != nil && header == nil; cur = cur.Idom() {
			for _, pr := range cur.Preds {
				if cur.Dominates(pr) {
					header = cur
				}
			}
		}
		if header == nil {
			return false
		}
	}
	for _, b := range fn.Blocks {
		if header != nil && !(b == header || header.Dominates(b)) {
			continue
		}
		for _, ins := range b.Instrs {
			c, ok := ins.(*ssa.Call)
			if !ok || len(c.Call.Args) == 0 || c.Call.Args[0] != ssa.Value(coll) {
				continue
			}
			sc := c.Call.StaticCallee()
			if sc == nil || sc.Signature.Recv() == nil || namedOf(sc.Signature.Recv().Type()) != p.A.ValueList {
				continue
			}
			guarded := false
			for _, f := range factsAt(b) {
				if t, used := collTruth(f.Cond, coll, true, nil, 0); used && ((t == triFalse && f.Truth) || (t == triTrue && !f.Truth)) {
					guarded = true // the fact contradicts a nil collector
				}
			}
			if !guarded {
				return true
			}
		}
	}
	return false
}

func (p *Prog) collectorParam(fn *ssa.Function) *ssa.Parameter {
	var coll *ssa.Parameter
	for _, q := range fn.Params {
		if pt, ok := q.Type().(*types.Pointer); ok && pt.Elem() == types.Type(p.A.ValueList) {
			coll = q
		}
	}
	return coll
}

// readsCollector: v is computed from the collector's content (a field load, a
// method on it, len of its list), within a few steps.
func readsCollector(v ssa.Value, coll ssa.Value, depth int) bool {
	if depth > 5 || v == nil {
		return false
	}
	switch x := v.(type) {
	case *ssa.UnOp:
		return readsCollector(x.X, coll, depth+1)
	case *ssa.FieldAddr:
		return x.X == coll || readsCollector(x.X, coll, depth+1)
	case *ssa.Field:
		return readsCollector(x.X, coll, depth+1)
	case *ssa.BinOp:
		return readsCollector(x.X, coll, depth+1) || readsCollector(x.Y, coll, depth+1)
	case *ssa.Call:
		for _, a := range x.Call.Args {
			if a == coll || readsCollector(a, coll, depth+1) {
				return true
			}
		}
	case *ssa.Phi:
		for _, e := range x.Edges {
			if readsCollector(e, coll, depth+1) {
				return true
			}
		}
	}
	return false
}

func (p *Prog) statusFlowCheck(fn *ssa.Function, c *ssa.Call, coll *ssa.Parameter) []string {
	stV, errV := extractOf(c, 0), extractOf(c, 1)
	failedK := constOf(p.A.StatusFailed)
	okK := constOf(p.A.StatusConsts["statusOK"])
	nfK := constOf(p.A.StatusConsts["statusNotFound"])
	var probs []string
	seen := map[string]bool{}
	report := func(s string) {
		if !seen[s] {
			seen[s] = true
			probs = append(probs, s)
		}
	}
	type envT map[*ssa.Phi]ssa.Value
	resolve := func(v ssa.Value, env envT) ssa.Value {
		for i := 0; i < 10; i++ {
			v = stripConv(v)
			ph, ok := v.(*ssa.Phi)
			if !ok {
				return v
			}
			nv, ok := env[ph]
			if !ok {
				return v
			}
			v = nv
		}
		return v
	}
	isSt := func(v ssa.Value, env envT) bool { return stV != nil && sameValue(resolve(v, env), stV) }
	isErr := func(v ssa.Value, env envT) bool { return errV != nil && sameValue(resolve(v, env), errV) }
	budget := 6000
	var walk func(b *ssa.BasicBlock, idx int, env envT, on map[*ssa.BasicBlock]bool, evidence bool)
	enter := func(from, to *ssa.BasicBlock, env envT, on map[*ssa.BasicBlock]bool, evidence bool) {
		if to == fn.Recover || on[to] {
			return // round the loop: the next evaluation (or this one again) takes over
		}
		nenv := make(envT, len(env)+2)
		for k, v := range env {
			nenv[k] = v
		}
		for i, pr := range to.Preds {
			if pr != from {
				continue
			}
			for _, ins := range to.Instrs {
				ph, ok := ins.(*ssa.Phi)
				if !ok {
					break
				}
				nenv[ph] = resolve(ph.Edges[i], env)
			}
		}
		non := make(map[*ssa.BasicBlock]bool, len(on)+1)
		for k := range on {
			non[k] = true
		}
		non[to] = true
		walk(to, 0, nenv, non, evidence)
	}
	walk = func(b *ssa.BasicBlock, idx int, env envT, on map[*ssa.BasicBlock]bool, evidence bool) {
		if budget <= 0 {
			report("path exploration budget exhausted (undecided)")
			return
		}
		budget--
		for i := idx; i < len(b.Instrs); i++ {
			switch x := b.Instrs[i].(type) {
			case *ssa.Call:
				if x == c {
					return
				}
				if sig := calleeSig(x); sig != nil && p.pairKind(sig) == "status" {
					return // another evaluation takes over
				}
				for _, a := range x.Call.Args {
					if a == ssa.Value(coll) && !tinyPredicate(x.Call.StaticCallee()) {
						evidence = true // an append (or another use that is not an evaluation)
					}
				}
			case *ssa.Return:
				if len(x.Results) == 0 {
					return
				}
				rv := resolve(unspill(b, x, x.Results[0]), env)
				if stV != nil && sameValue(rv, stV) {
					return
				}
				if k, ok := constInt(rv); ok {
					switch {
					case k == nfK || k == failedK:
						return
					case k == okK && evidence:
						return
					case k == okK:
						report("the return at " + p.pos(x.Pos()) + " reports `found` (a constant, or a status variable left at its zero value) after the call at " + p.pos(c.Pos()) + " found nothing")
						return
					}
				}
				if _, isPhi := rv.(*ssa.Phi); isPhi {
					return // a status carried from before the call (an earlier element's): last-status semantics
				}
				if ex, ok := rv.(*ssa.Extract); ok {
					if _, ok := ex.Tuple.(*ssa.Call); ok {
						return // the status of another evaluation
					}
				}
				report("the return at " + p.pos(x.Pos()) + " reports a status unrelated to the call at " + p.pos(c.Pos()))
				return
			case *ssa.Panic:
				return
			case *ssa.If:
				t, e := true, true
				switch cond := resolve(x.Cond, env).(type) {
				case *ssa.BinOp:
					if cond.Op == token.EQL || cond.Op == token.NEQ {
						eq := cond.Op == token.EQL
						var holds, known bool
						switch {
						case isErr(cond.X, env) && isNilConst(cond.Y), isErr(cond.Y, env) && isNilConst(cond.X):
							holds, known = true, true
						case isSt(cond.X, env):
							if k, ok := constInt(cond.Y); ok {
								holds, known = k == nfK, true
							}
						case isSt(cond.Y, env):
							if k, ok := constInt(cond.X); ok {
								holds, known = k == nfK, true
							}
						}
						if known {
							if holds == eq {
								e = false
							} else {
								t = false
							}
						}
					}
					if readsCollector(cond, coll, 0) {
						evidence = true
					}
				case *ssa.Call:
					if p.isFailedMethod(cond.Call.StaticCallee()) && isSt(cond.Call.Args[0], env) {
						t = false
					}
					if readsCollector(cond, coll, 0) {
						evidence = true
					}
				case *ssa.Const:
					if cond.Value != nil {
						if cond.Value.ExactString() == "true" {
							e = false
						} else {
							t = false
						}
					}
				default:
					if readsCollector(x.Cond, coll, 0) {
						evidence = true
					}
				}
				// an existence shortcut (found == nil) is R-EARLYEXIT's business
				// (the test may be a hoisted flag: the facts of the edge say
				// whether it implies a nil collector)
				shortcut := -1
				if impliesNilCollector(x.Cond, coll) {
					shortcut = 0
				} else if tv, u := collTruth(x.Cond, coll, false, nil, 0); u && tv == triTrue {
					shortcut = 1
				}
				for si, s := range b.Succs {
					if (si == 0 && !t) || (si == 1 && !e) {
						continue
					}
					enter(b, s, env, on, evidence || si == shortcut)
				}
				return
			case *ssa.Jump:
				enter(b, b.Succs[0], env, on, evidence)
				return
			}
		}
	}
	walk(c.Block(), instrIndex(c.Block(), c)+1, envT{}, map[*ssa.BasicBlock]bool{}, false)
	return probs
}

// zeroIterExceptions: functions whose loop cannot run zero times for a reason
// the walk cannot see; the stated premise is checked structurally.
var zeroIterExceptions = map[string]string{
	"(*path/exec.Executor).executeKeyValueMethod": "the loop over the object's keys runs at least once: an empty object has returned `not found` already",
	"path/exec.executeKeyValueMethod":             "the loop over the object's keys runs at least once: an empty object has returned `not found` already",
}

// emptyMapReturnsNotFound: a test `len(m) == 0` on a map whose true branch
// returns the constant not-found dominates block b.
func (p *Prog) emptyMapReturnsNotFound(fn *ssa.Function, b *ssa.BasicBlock) bool {
	return p.emptyMapTested(fn, b) != nil
}

// inheritsZeroIter: fn is only called from functions with a tabled
// zero-iteration exception, each call lies behind that function's `len(m) ==
// 0 ⇒ not found` test, and the map tested is handed to fn (the loop over the
// keys moved into a helper: `exec.executeKeyValuePairs(ctx, node, next, obj,
// id, found)`).
func (p *Prog) inheritsZeroIter(fn *ssa.Function) string {
	n := p.CG.Nodes[fn]
	if n == nil || len(n.In) == 0 {
		return ""
	}
	why := ""
	for _, e := range n.In {
		w := zeroIterExceptions[fnName(e.Caller.Func)]
		c, ok := e.Site.(*ssa.Call)
		if w == "" || !ok {
			return ""
		}
		m := p.emptyMapTested(e.Caller.Func, c.Block())
		if m == nil {
			return ""
		}
		handed := false
		for _, a := range c.Call.Args {
			if a == m {
				handed = true
			}
		}
		if !handed {
			return ""
		}
		why = w + " (in its only caller " + e.Caller.Func.Name() + ", which hands the object on)"
	}
	return why
}

// emptyMapTested: the map whose `len(m) == 0` test, with a true branch that
// returns the constant not-found, dominates block b (nil if none).
func (p *Prog) emptyMapTested(fn *ssa.Function, b *ssa.BasicBlock) ssa.Value {
	nfK := constOf(p.A.StatusConsts["statusNotFound"])
	for _, f := range factsAt(b) {
		bo, ok := f.Cond.(*ssa.BinOp)
		if !ok || !((bo.Op == token.EQL && !f.Truth) || (bo.Op == token.NEQ && f.Truth) || (bo.Op == token.GTR && f.Truth)) {
			continue
		}
		lc, ok := bo.X.(*ssa.Call)
		if !ok {
			continue
		}
		bi, ok := lc.Call.Value.(*ssa.Builtin)
		if !ok || bi.Name() != "len" {
			continue
		}
		if _, isMap := lc.Call.Args[0].Type().Underlying().(*types.Map); !isMap {
			continue
		}
		if k, ok := constInt(bo.Y); !ok || k != 0 {
			continue
		}
		// the other edge returns not found
		blk := bo.Block()
		if iff, ok := blk.Instrs[len(blk.Instrs)-1].(*ssa.If); ok && iff.Cond == ssa.Value(bo) {
			other := blk.Succs[0]
			if (bo.Op == token.NEQ || bo.Op == token.GTR) && f.Truth {
				other = blk.Succs[1]
			}
			if r, ok := other.Instrs[len(other.Instrs)-1].(*ssa.Return); ok && len(r.Results) == 2 {
				if k, ok := constInt(stripConv(unspill(other, r, r.Results[0]))); ok && k == nfK {
					return lc.Call.Args[0]
				}
			}
		}
	}
	return nil
}

// entryFlowCheck: paths from the entry of fn on which nothing is produced
// (no evaluation receives the collector, nothing is appended, no test of the
// collector is passed) must not return the constant `found`.
func (p *Prog) entryFlowCheck(fn *ssa.Function, coll *ssa.Parameter) []string {
	okK := constOf(p.A.StatusConsts["statusOK"])
	var probs []string
	seen := map[string]bool{}
	type envT map[*ssa.Phi]ssa.Value
	resolve := func(v ssa.Value, env envT) ssa.Value {
		for i := 0; i < 10; i++ {
			v = stripConv(v)
			ph, ok := v.(*ssa.Phi)
			if !ok {
				return v
			}
			nv, ok := env[ph]
			if !ok {
				return v
			}
			v = nv
		}
		return v
	}
	budget := 20000
	var walk func(b, from *ssa.BasicBlock, env envT, on map[*ssa.BasicBlock]bool, evidence bool)
	walk = func(b, from *ssa.BasicBlock, env envT, on map[*ssa.BasicBlock]bool, evidence bool) {
		if budget <= 0 || on[b] || b == fn.Recover {
			return
		}
		budget--
		nenv := make(envT, len(env)+2)
		for k, v := range env {
			nenv[k] = v
		}
		for i, pr := range b.Preds {
			if pr != from {
				continue
			}
			for _, ins := range b.Instrs {
				ph, ok := ins.(*ssa.Phi)
				if !ok {
					break
				}
				nenv[ph] = resolve(ph.Edges[i], env)
			}
		}
		non := make(map[*ssa.BasicBlock]bool, len(on)+1)
		for k := range on {
			non[k] = true
		}
		non[b] = true
		for _, ins := range b.Instrs {
			switch x := ins.(type) {
			case *ssa.Call:
				if tinyPredicate(x.Call.StaticCallee()) {
					continue
				}
				for _, a := range x.Call.Args {
					if a == ssa.Value(coll) {
						return // an evaluation or an append takes over
					}
				}
				// an evaluation into a list of the function's own making (an
				// operand) produces nothing for the collector: the walk goes on
			case *ssa.Return:
				if len(x.Results) != 2 {
					return
				}
				if k, ok := constInt(resolve(unspill(b, x, x.Results[0]), nenv)); ok && k == okK && !evidence {
					s := "the return at " + p.pos(x.Pos()) + " reports `found` (a constant, or a status variable still at its zero value) on a path from the entry that hands nothing on"
					if !seen[s] {
						seen[s] = true
						probs = append(probs, s)
					}
				}
				return
			case *ssa.Panic:
				return
			case *ssa.If:
				tv, _ := collTruth(x.Cond, coll, false, func(v ssa.Value) ssa.Value { return resolve(v, nenv) }, 0)
				if readsCollector(resolve(x.Cond, nenv), coll, 0) || readsCollector(x.Cond, coll, 0) {
					evidence = true // the answer is taken from the content of the list
				}
				for si, s := range b.Succs {
					// only the run with a collector is followed: without one the
					// shortcuts are R-EARLYEXIT's business
					if (si == 0 && tv == triFalse) || (si == 1 && tv == triTrue) {
						continue
					}
					if k, ok := resolve(x.Cond, nenv).(*ssa.Const); ok && k.Value != nil {
						if (k.Value.ExactString() == "true") != (si == 0) {
							continue
						}
					}
					walk(s, b, nenv, non, evidence)
				}
				return
			case *ssa.Jump:
				walk(b.Succs[0], b, nenv, non, evidence)
				return
			}
		}
	}
	walk(fn.Blocks[0], nil, envT{}, map[*ssa.BasicBlock]bool{}, false)
	return probs
}

var ruleStatusFlow = &Rule{
	Name: "R-STATUSFLOW", NeedSSA: true,
	Doc: "after every call that forwards a status function's own collector to another evaluation and whose status is read, on the outcome (not found, nil) every CFG path (phis resolved along the path, tests of the status decided) reaches, before another evaluation takes over, a return whose status is the call's own, the constant not-found or failed, a status carried from an earlier element, or OK backed by an append to the collector or a test of its content on that path; a status variable left at its zero value (`found`) turns `nothing` into `found` for Exists; tabled exception: the unwrap-result helper whose callers read the collector",
	Run: func(p *Prog) *RuleOut {
		out := newOut("R-STATUSFLOW")
		n := 0
		for _, fn := range p.execFuncs() {
			if p.pairKind(fn.Signature) != "status" {
				continue
			}
			coll := p.collectorParam(fn)
			if coll == nil {
				continue
			}
			ord := ordinals{}
			for _, b := range fn.Blocks {
				for _, ins := range b.Instrs {
					c, ok := ins.(*ssa.Call)
					if !ok {
						continue
					}
					if sig := calleeSig(c); sig == nil || p.pairKind(sig) != "status" {
						continue
					}
					fwd := false
					for _, a := range c.Call.Args {
						if a == ssa.Value(coll) {
							fwd = true
						}
					}
					if !fwd || extractOf(c, 0) == nil {
						continue // returned whole, or not read at all (R-FAILSTOP's business)
					}
					n++
					cn := calleeName(&c.Call)
					key := fmt.Sprintf("%s ← %s #%d", fnName(fn), cn, ord.next(cn))
					probs := p.statusFlowCheck(fn, c, coll)
					switch {
					case len(probs) == 0:
						out.ok(key, p.pos(c.Pos()), fnName(fn), "`not found` is returned as such, superseded by a later evaluation, or overridden only on evidence from the collector")
					case p.collectorRequired(fn, c.Block()):
						out.excepted(key, p.pos(c.Pos()), fnName(fn), statusFlowException)
					default:
						out.viol(key, p.pos(c.Pos()), fnName(fn), "`not found` becomes `found`: "+probs[0]+": Exists reports true where Query returns no item", probs...)
					}
				}
			}
		}
		// (b) from the entry: nothing handed on, yet `found`
		nent := 0
		for _, fn := range p.execFuncs() {
			if p.pairKind(fn.Signature) != "status" {
				continue
			}
			coll := p.collectorParam(fn)
			if coll == nil {
				continue
			}
			nent++
			key := fnName(fn) + ": nothing handed on is not `found`"
			probs := p.entryFlowCheck(fn, coll)
			switch {
			case len(probs) == 0:
				out.ok(key, p.pos(fn.Pos()), fnName(fn), "with a collector, every path from the entry to a constant `found` passes an evaluation that receives the collector or an append to it")
			case p.collectorRequired(fn, nil):
				out.excepted(key, p.pos(fn.Pos()), fnName(fn), statusFlowException)
			case zeroIterExceptions[fnName(fn)] != "" && p.loopsGuardedByEmptyMapTest(fn):
				out.excepted(key, p.pos(fn.Pos()), fnName(fn), zeroIterExceptions[fnName(fn)]+" (checked: a test len(map) == 0 returning not-found dominates every loop of the function)")
			case p.inheritsZeroIter(fn) != "":
				out.excepted(key, p.pos(fn.Pos()), fnName(fn), p.inheritsZeroIter(fn))
			default:
				out.viol(key, p.pos(fn.Pos()), fnName(fn), "with a collector the function can answer `found` without having handed anything on: "+probs[0]+" (a loop that runs zero times, a status variable never assigned)", probs...)
			}
		}
		out.Counts["status_functions_with_a_collector"] = nent
		out.Floors["status_functions_with_a_collector"] = 10
		out.Counts["forwarding_calls_with_status_read"] = n
		out.Floors["forwarding_calls_with_status_read"] = 3
		return out
	},
}

func init() { register(ruleStatusFlow) }

// R-COLLBLIND (C06): the evaluation is blind to whether items are collected,
// except for stopping early.
//
// Exists runs the same evaluation as Query with a nil collector. The nil test
// of a collector may decide control (shortcuts, append guards, stop at the
// first item), which R-EARLYEXIT and R-STATUSFLOW examine; it must never
// become data: passed to a call, stored, returned or converted. An argument
// computed from `found != nil` makes the callee evaluate differently for
// Exists than for Query.
var ruleCollBlind = &Rule{
	Name: "R-COLLBLIND", NeedSSA: true,
	Doc: "in every function of the executor that has a collector parameter, the result of comparing the collector with nil is used only as a branch condition, directly or through !, phis of short-circuit operators and boolean comparisons; it is never an argument, a stored value, a returned value or an operand of other computations, so that what is evaluated (as opposed to how early the evaluation stops) cannot depend on whether items are collected",
	Run: func(p *Prog) *RuleOut {
		out := newOut("R-COLLBLIND")
		n := 0
		for _, fn := range p.execFuncs() {
			coll := p.collectorParam(fn)
			if coll == nil {
				continue
			}
			ord := ordinals{}
			for _, b := range fn.Blocks {
				for _, ins := range b.Instrs {
					bo, ok := ins.(*ssa.BinOp)
					if !ok || (bo.Op != token.EQL && bo.Op != token.NEQ) {
						continue
					}
					if !(bo.X == ssa.Value(coll) && isNilConst(bo.Y)) && !(bo.Y == ssa.Value(coll) && isNilConst(bo.X)) {
						continue
					}
					n++
					key := fmt.Sprintf("%s: collector nil test #%d", fnName(fn), ord.next("t"))
					bad := ""
					seen := map[ssa.Value]bool{}
					var visit func(v ssa.Value)
					visit = func(v ssa.Value) {
						if seen[v] || bad != "" {
							return
						}
						seen[v] = true
						for _, r := range *v.Referrers() {
							switch x := r.(type) {
							case *ssa.If:
							case *ssa.Phi:
								visit(x)
							case *ssa.UnOp:
								if x.Op == token.NOT {
									visit(x)
								} else {
									bad = "operand of " + x.Op.String() + " at " + p.pos(x.Pos())
								}
							case *ssa.BinOp:
								if b, ok := x.Type().Underlying().(*types.Basic); ok && b.Info()&types.IsBoolean != 0 {
									visit(x)
								} else {
									bad = "operand of a computation at " + p.pos(x.Pos())
								}
							case *ssa.DebugRef:
							case *ssa.Call:
								bad = "argument of the call to " + calleeName(&x.Call) + " at " + p.pos(x.Pos())
							case *ssa.Return:
								// a named test may return it (`existenceOnly(next,
								// found)`, `nextUnlessDone(node, found) (ast.Node,
								// bool)`): its callers are held to the same rule for
								// that result
								h := x.Parent()
								if p.CG.Nodes[h] == nil || !inModule(h) || len(p.CG.Nodes[h].In) == 0 {
									bad = "returned at " + p.pos(x.Pos())
									break
								}
								for i, rv := range x.Results {
									if rv != v {
										continue
									}
									for _, e := range p.CG.Nodes[h].In {
										c, ok := e.Site.(*ssa.Call)
										if !ok || c.Call.StaticCallee() != h {
											bad = "returned at " + p.pos(x.Pos()) + " to a caller that is not a plain call"
											break
										}
										if len(x.Results) == 1 {
											visit(c)
											continue
										}
										for _, cr := range *c.Referrers() {
											if ex, ok := cr.(*ssa.Extract); ok && ex.Index == i {
												visit(ex)
											}
										}
									}
								}
							case *ssa.Store:
								bad = "stored at " + p.pos(x.Pos())
							default:
								bad = fmt.Sprintf("used by %T at %s", r, p.pos(r.Pos()))
							}
						}
					}
					visit(bo)
					if bad == "" {
						out.ok(key, p.pos(bo.Pos()), fnName(fn), "decides branches only")
					} else {
						out.viol(key, p.pos(bo.Pos()), fnName(fn), "whether items are collected becomes data ("+bad+"): Exists evaluates something else than Query")
					}
				}
			}
		}
		out.Counts["collector_nil_tests"] = n
		out.Floors["collector_nil_tests"] = 5
		return out
	},
}

func init() { register(ruleCollBlind) }
