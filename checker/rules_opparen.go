package main

// R-OPPAREN (C02): operands of binary operators are parenthesised whenever the
// grammar would otherwise regroup them.
//
// The grammar's binary operators are left-associative (R-PREC checks the
// precedence declarations against the printer's priorities), so printing
// `l op r` re-parses to the same tree only if
//     r is wrapped whenever priority(r) <= priority(node), and
//     l is wrapped whenever priority(l) <  priority(node).
// The withParens argument the printer hands to each operand is evaluated
// symbolically for every pair of priorities, everything else (operator
// identity, presence of a trailing chain, ...) left unknown: on the pairs
// above it must be true on every path.

import (
	"fmt"
	"go/constant"
	"go/token"
	"go/types"
	"sort"
	"strings"

	"golang.org/x/tools/go/ssa"
)

type absV struct {
	kind string // "", "bool", "int", "node"
	k    int64
	tag  string
}

var absUnknown = absV{}

type symEnv struct {
	p      *Prog
	prio   map[string]int64 // node tag → priority
	budget *int
}

type symFrame struct {
	fn    *ssa.Function
	binds map[*ssa.Parameter]absV
	prev  map[*ssa.BasicBlock]*ssa.BasicBlock
	memo  map[ssa.Value]absV
}

func (e *symEnv) eval(v ssa.Value, f *symFrame, depth int) absV {
	if depth > 30 {
		return absUnknown
	}
	switch x := v.(type) {
	case *ssa.Const:
		if x.Value == nil {
			return absUnknown
		}
		switch x.Value.Kind() {
		case constant.Bool:
			if constant.BoolVal(x.Value) {
				return absV{kind: "bool", k: 1}
			}
			return absV{kind: "bool", k: 0}
		case constant.Int:
			if k, ok := constant.Int64Val(x.Value); ok {
				return absV{kind: "int", k: k}
			}
		}
		return absUnknown
	case *ssa.Parameter:
		return f.binds[x]
	case *ssa.ChangeInterface:
		return e.eval(x.X, f, depth+1)
	case *ssa.MakeInterface:
		return e.eval(x.X, f, depth+1)
	case *ssa.ChangeType:
		return e.eval(x.X, f, depth+1)
	case *ssa.Convert:
		return e.eval(x.X, f, depth+1)
	case *ssa.TypeAssert:
		if !x.CommaOk {
			return e.eval(x.X, f, depth+1)
		}
		return absUnknown
	case *ssa.Extract:
		if ta, ok := x.Tuple.(*ssa.TypeAssert); ok && x.Index == 0 {
			return e.eval(ta.X, f, depth+1)
		}
		return absUnknown
	case *ssa.Phi:
		pr := f.prev[x.Block()]
		for i, q := range x.Block().Preds {
			if q == pr {
				return e.eval(x.Edges[i], f, depth+1)
			}
		}
		return absUnknown
	case *ssa.UnOp:
		switch x.Op {
		case token.NOT:
			a := e.eval(x.X, f, depth+1)
			if a.kind == "bool" {
				return absV{kind: "bool", k: 1 - a.k}
			}
		case token.MUL:
			if fa, ok := x.X.(*ssa.FieldAddr); ok {
				base := e.eval(fa.X, f, depth+1)
				if base.kind == "node" && base.tag == "n" {
					switch fieldName(fa) {
					case "left", "right", "operand":
						return absV{kind: "node", tag: fieldName(fa)}
					}
				}
				if base.kind == "node" && fieldName(fa) == "op" {
					return absV{kind: "op", tag: base.tag}
				}
			}
		}
		return absUnknown
	case *ssa.BinOp:
		a, b := e.eval(x.X, f, depth+1), e.eval(x.Y, f, depth+1)
		if a.kind == "int" && b.kind == "int" {
			r := false
			switch x.Op {
			case token.LSS:
				r = a.k < b.k
			case token.LEQ:
				r = a.k <= b.k
			case token.GTR:
				r = a.k > b.k
			case token.GEQ:
				r = a.k >= b.k
			case token.EQL:
				r = a.k == b.k
			case token.NEQ:
				r = a.k != b.k
			default:
				return absUnknown
			}
			if r {
				return absV{kind: "bool", k: 1}
			}
			return absV{kind: "bool", k: 0}
		}
		if a.kind == "op" && b.kind == "op" && (x.Op == token.EQL || x.Op == token.NEQ) {
			// operators of different priority are different operators
			pa, oka := e.prio[a.tag]
			pb, okb := e.prio[b.tag]
			if oka && okb && pa != pb {
				return absV{kind: "bool", k: b2i64(x.Op == token.NEQ)}
			}
			return absUnknown
		}
		if a.kind == "bool" && b.kind == "bool" {
			switch x.Op {
			case token.EQL:
				return absV{kind: "bool", k: b2i64(a.k == b.k)}
			case token.NEQ:
				return absV{kind: "bool", k: b2i64(a.k != b.k)}
			case token.AND:
				return absV{kind: "bool", k: a.k & b.k}
			case token.OR:
				return absV{kind: "bool", k: a.k | b.k}
			}
		}
		return absUnknown
	case *ssa.Call:
		// priority of a tagged node
		name := ""
		var recv ssa.Value
		if x.Call.IsInvoke() {
			name, recv = x.Call.Method.Name(), x.Call.Value
		} else if sc := x.Call.StaticCallee(); sc != nil && sc.Signature.Recv() != nil && len(x.Call.Args) > 0 {
			name, recv = sc.Name(), x.Call.Args[0]
		}
		if name == "priority" && recv != nil {
			if r := e.eval(recv, f, depth+1); r.kind == "node" {
				if k, ok := e.prio[r.tag]; ok {
					return absV{kind: "int", k: k}
				}
			}
			return absUnknown
		}
		if sc := x.Call.StaticCallee(); sc != nil && inModule(sc) && sc.Blocks != nil && sc.Signature.Results().Len() == 1 {
			if b, ok := sc.Signature.Results().At(0).Type().Underlying().(*types.Basic); ok && b.Kind() == types.Bool {
				binds := map[*ssa.Parameter]absV{}
				for i, q := range sc.Params {
					if i < len(x.Call.Args) {
						binds[q] = e.eval(x.Call.Args[i], f, depth+1)
					}
				}
				set := e.run(sc, binds, nil, nil)
				if len(set) == 1 {
					for k := range set {
						if k == "T" {
							return absV{kind: "bool", k: 1}
						}
						if k == "F" {
							return absV{kind: "bool", k: 0}
						}
					}
				}
			}
		}
		return absUnknown
	}
	return absUnknown
}

func b2i64(b bool) int64 {
	if b {
		return 1
	}
	return 0
}

// run walks fn from its entry under binds, forking at unknown conditions, and
// collects the values of pick(target) at the target instruction (or of the
// first result at returns when target is nil): a set of "T", "F", "?".
func (e *symEnv) run(fn *ssa.Function, binds map[*ssa.Parameter]absV, target ssa.Instruction, pick ssa.Value) map[string]bool {
	out := map[string]bool{}
	var walk func(b *ssa.BasicBlock, prev map[*ssa.BasicBlock]*ssa.BasicBlock, visits map[*ssa.BasicBlock]int)
	record := func(v ssa.Value, f *symFrame) {
		a := e.eval(v, f, 0)
		switch {
		case a.kind == "bool" && a.k == 1:
			out["T"] = true
		case a.kind == "bool":
			out["F"] = true
		default:
			out["?"] = true
		}
	}
	walk = func(b *ssa.BasicBlock, prev map[*ssa.BasicBlock]*ssa.BasicBlock, visits map[*ssa.BasicBlock]int) {
		if *e.budget <= 0 {
			out["?"] = true
			return
		}
		*e.budget--
		if visits[b] >= 2 {
			return
		}
		visits[b]++
		defer func() { visits[b]-- }()
		f := &symFrame{fn: fn, binds: binds, prev: prev}
		for _, ins := range b.Instrs {
			if target != nil && ins == target {
				record(pick, f)
				return
			}
			switch x := ins.(type) {
			case *ssa.Return:
				if target == nil && len(x.Results) > 0 {
					record(x.Results[0], f)
				}
				return
			case *ssa.Panic:
				return
			case *ssa.If:
				c := e.eval(x.Cond, f, 0)
				for si, s := range b.Succs {
					if c.kind == "bool" && ((si == 0) != (c.k == 1)) {
						continue
					}
					np := make(map[*ssa.BasicBlock]*ssa.BasicBlock, len(prev)+1)
					for k, v := range prev {
						np[k] = v
					}
					np[s] = b
					walk(s, np, visits)
				}
				return
			case *ssa.Jump:
				np := make(map[*ssa.BasicBlock]*ssa.BasicBlock, len(prev)+1)
				for k, v := range prev {
					np[k] = v
				}
				np[b.Succs[0]] = b
				walk(b.Succs[0], np, visits)
				return
			}
		}
	}
	walk(fn.Blocks[0], map[*ssa.BasicBlock]*ssa.BasicBlock{}, map[*ssa.BasicBlock]int{})
	return out
}

var ruleOpParen = &Rule{
	Name: "R-OPPAREN", NeedSSA: true,
	Doc: "in BinaryNode.writeTo the parenthesisation flag handed to the right operand is true on every path whenever priority(right) <= priority(node), and the one handed to the left operand whenever priority(left) < priority(node), for every pair of priorities (the operators are left-associative, so a right operand of equal priority would otherwise be regrouped to the left when the text is parsed again)",
	Run: func(p *Prog) *RuleOut {
		out := newOut("R-OPPAREN")
		fn := p.ssaFunc(pkgAST, "*BinaryNode.writeTo")
		if fn == nil {
			out.undecided("BinaryNode.writeTo", "-", "", "anchor unresolved")
			return out
		}
		// operand prints: invoke writeTo on a load of n.left / n.right, on the arm of the arithmetic/boolean operators
		type site struct {
			call *ssa.Call
			side string
		}
		var sites []site
		ei := p.A.Enums["BinaryOperator"]
		for _, b := range fn.Blocks {
			for _, ins := range b.Instrs {
				c, ok := ins.(*ssa.Call)
				if !ok || !c.Call.IsInvoke() || c.Call.Method.Name() != "writeTo" || len(c.Call.Args) != 3 {
					continue
				}
				u, ok := c.Call.Value.(*ssa.UnOp)
				if !ok {
					continue
				}
				fa, ok := u.X.(*ssa.FieldAddr)
				if !ok || fa.X != ssa.Value(fn.Params[0]) {
					continue
				}
				side := fieldName(fa)
				if side != "left" && side != "right" {
					continue
				}
				// skip arms of operators that print no infix expression (subscript `to`, decimal)
				infix := true
				for _, f := range factsAt(b) {
					bo, ok := f.Cond.(*ssa.BinOp)
					if !ok || bo.Op != token.EQL || !f.Truth || ei == nil {
						continue
					}
					if k, ok := constInt(bo.Y); ok {
						if cst := ei.byVal(k); cst != nil && (cst.Name() == "BinarySubscript" || cst.Name() == "BinaryDecimal") {
							infix = false
						}
					}
				}
				if infix {
					sites = append(sites, site{c, side})
				}
			}
		}
		out.Counts["operand_print_sites"] = len(sites)
		out.Floors["operand_print_sites"] = 2
		sort.Slice(sites, func(i, j int) bool { return sites[i].call.Pos() < sites[j].call.Pos() })
		cells := 0
		for _, s := range sites {
			key := "BinaryNode.writeTo parenthesises its " + s.side + " operand"
			var bad []string
			for po := int64(0); po <= 7; po++ {
				for pn := int64(0); pn <= 7; pn++ {
					need := po < pn || (s.side == "right" && po == pn)
					if !need {
						continue
					}
					cells++
					budget := 4000
					env := &symEnv{p: p, prio: map[string]int64{s.side: po, "n": pn}, budget: &budget}
					binds := map[*ssa.Parameter]absV{fn.Params[0]: {kind: "node", tag: "n"}}
					set := env.run(fn, binds, s.call, s.call.Call.Args[2])
					if len(set) == 0 {
						continue // unreachable for this pair
					}
					if set["F"] || set["?"] {
						bad = append(bad, fmt.Sprintf("priority(%s)=%d, priority(node)=%d", s.side, po, pn))
					}
				}
			}
			if len(bad) == 0 {
				out.ok(key, p.pos(s.call.Pos()), fnName(fn), "true on every path for every pair of priorities on which the grammar would regroup")
			} else {
				out.viol(key, p.pos(s.call.Pos()), fnName(fn), "the operand can be printed without parentheses although it does not bind tighter than the operator ("+strings.Join(shortStrs(bad, 4), "; ")+"): the printed path parses to a different tree, e.g. a − (b − c) printed as a − b − c", bad...)
			}
		}
		out.Counts["priority_pairs_checked"] = cells
		out.Floors["priority_pairs_checked"] = 40
		return out
	},
}

func shortStrs(s []string, n int) []string {
	if len(s) <= n {
		return s
	}
	return append(append([]string{}, s[:n]...), fmt.Sprintf("… %d more", len(s)-n))
}

func init() { register(ruleOpParen) }
