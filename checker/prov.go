package main

// E1 (reachability with witness paths) and E11 (provenance of written memory).

import (
	"go/token"
	"go/types"
	"sort"
	"strings"

	"golang.org/x/tools/go/callgraph"
	"golang.org/x/tools/go/ssa"
)

// Reach is the result of a forward reachability over the call graph.
type Reach struct {
	Set    map[*ssa.Function]bool
	parent map[*ssa.Function]*callgraph.Edge
}

// reachFrom computes the functions reachable from roots. Edges through
// dependencies are followed (callbacks, fmt → String), so the set is sound for
// reflection-free code under VTA.
func (p *Prog) reachFrom(roots []*ssa.Function) *Reach { return p.reachFromCut(roots, nil) }

// reachFromCut: functions for which stop returns true are included but not
// expanded.
func (p *Prog) reachFromCut(roots []*ssa.Function, stop func(*ssa.Function) bool) *Reach {
	r := &Reach{Set: map[*ssa.Function]bool{}, parent: map[*ssa.Function]*callgraph.Edge{}}
	var q []*ssa.Function
	for _, f := range roots {
		if f != nil && !r.Set[f] {
			r.Set[f] = true
			q = append(q, f)
		}
	}
	for len(q) > 0 {
		f := q[0]
		q = q[1:]
		if stop != nil && stop(f) {
			continue
		}
		n := p.CG.Nodes[f]
		if n == nil {
			continue
		}
		// deterministic order
		es := append([]*callgraph.Edge(nil), n.Out...)
		sort.SliceStable(es, func(i, j int) bool { return es[i].Callee.Func.String() < es[j].Callee.Func.String() })
		for _, e := range es {
			c := e.Callee.Func
			if !r.Set[c] {
				r.Set[c] = true
				r.parent[c] = e
				q = append(q, c)
			}
		}
		// closures created by f are considered reachable with f
		for _, af := range f.AnonFuncs {
			if !r.Set[af] {
				r.Set[af] = true
				r.parent[af] = &callgraph.Edge{Caller: n, Callee: p.cgNode(af)}
				q = append(q, af)
			}
		}
	}
	return r
}

func (p *Prog) cgNode(f *ssa.Function) *callgraph.Node {
	if n := p.CG.Nodes[f]; n != nil {
		return n
	}
	return &callgraph.Node{Func: f}
}

// path returns a witness call chain root → … → f.
func (r *Reach) path(p *Prog, f *ssa.Function) []string {
	var rev []string
	seen := map[*ssa.Function]bool{}
	for f != nil && !seen[f] {
		seen[f] = true
		e := r.parent[f]
		if e == nil {
			rev = append(rev, fnName(f)+" (root)")
			break
		}
		site := ""
		if e.Site != nil {
			site = " called at " + p.pos(e.Site.Pos())
		}
		rev = append(rev, fnName(f)+site)
		f = e.Caller.Func
	}
	for i, j := 0, len(rev)-1; i < j; i, j = i+1, j-1 {
		rev[i], rev[j] = rev[j], rev[i]
	}
	if len(rev) > 14 {
		rev = append(rev[:6], append([]string{"…"}, rev[len(rev)-7:]...)...)
	}
	return rev
}

// moduleFuncs returns the module functions of a set in deterministic order.
func moduleFuncs(set map[*ssa.Function]bool) []*ssa.Function {
	var fs []*ssa.Function
	for f := range set {
		if inModule(f) && f.Blocks != nil {
			fs = append(fs, f)
		}
	}
	sort.Slice(fs, func(i, j int) bool {
		if fs[i].String() != fs[j].String() {
			return fs[i].String() < fs[j].String()
		}
		return fs[i].Pos() < fs[j].Pos()
	})
	return fs
}

// Origin describes where a piece of memory (or a value) comes from.
type Origin struct {
	Kind  string // alloc-local | alloc-heap | make | global | param | freevar | field | call | const | other
	Val   ssa.Value
	Field *types.Var   // for Kind=field: the field
	Owner *types.Named // for Kind=field: the struct type owning the field
	Loads int          // how many loads were crossed to get here from the written address
	Via   []string
}

type provState struct {
	p    *Prog
	fn   *ssa.Function
	seen map[ssa.Value]bool
	out  []Origin
	// fields crossed anywhere on the way (for ownership by type)
	fields []fieldStep
}

type fieldStep struct {
	Owner *types.Named
	Field *types.Var
	Loads int
}

// Prov is the full provenance of an address or value: ultimate origins and
// every struct field crossed on the way.
type Prov struct {
	Origins []Origin
	Fields  []fieldStep
}

func (pv *Prov) hasKind(k string) bool {
	for _, o := range pv.Origins {
		if o.Kind == k {
			return true
		}
	}
	return false
}

// allFreshLocal reports whether every origin is an allocation made in the
// analysed function itself (Alloc, make, composite literal, new).
func (pv *Prov) allFresh() bool {
	if len(pv.Origins) == 0 {
		return false
	}
	for _, o := range pv.Origins {
		switch o.Kind {
		case "alloc-local", "alloc-heap", "make", "const":
		default:
			return false
		}
	}
	return true
}

func namedOf(t types.Type) *types.Named {
	for {
		switch tt := t.(type) {
		case *types.Pointer:
			t = tt.Elem()
		case *types.Named:
			return tt
		default:
			return nil
		}
	}
}

// provenance walks back from v (an address or a value) to its origins.
func (p *Prog) provenance(fn *ssa.Function, v ssa.Value) *Prov {
	st := &provState{p: p, fn: fn, seen: map[ssa.Value]bool{}}
	st.walk(v, 0)
	return &Prov{Origins: st.out, Fields: st.fields}
}

func (st *provState) emit(kind string, v ssa.Value, loads int) {
	st.out = append(st.out, Origin{Kind: kind, Val: v, Loads: loads})
}

func (st *provState) walk(v ssa.Value, loads int) {
	if v == nil || st.seen[v] {
		return
	}
	st.seen[v] = true
	switch x := v.(type) {
	case *ssa.Alloc:
		if x.Heap {
			// A heap Alloc that is a captured/escaping local variable holding
			// a pointer or slice: when we arrive here through a load, the
			// content is whatever was stored into it.
			if loads > 0 {
				if st.storedInto(x, loads) {
					return
				}
			}
			st.emit("alloc-heap", v, loads)
		} else {
			if loads > 0 {
				if st.storedInto(x, loads) {
					return
				}
			}
			st.emit("alloc-local", v, loads)
		}
	case *ssa.MakeSlice, *ssa.MakeMap, *ssa.MakeChan:
		st.emit("make", v, loads)
	case *ssa.Global:
		st.emit("global", v, loads)
	case *ssa.Parameter:
		st.emit("param", v, loads)
	case *ssa.FreeVar:
		// resolve through the enclosing function's MakeClosure binding
		if par := x.Parent().Parent(); par != nil {
			idx := -1
			for i, fv := range x.Parent().FreeVars {
				if fv == x {
					idx = i
				}
			}
			resolved := false
			for _, b := range par.Blocks {
				for _, ins := range b.Instrs {
					if mc, ok := ins.(*ssa.MakeClosure); ok && mc.Fn == x.Parent() && idx >= 0 && idx < len(mc.Bindings) {
						sub := &provState{p: st.p, fn: par, seen: map[ssa.Value]bool{}}
						sub.walk(mc.Bindings[idx], loads)
						for _, o := range sub.out {
							if o.Kind == "alloc-local" || o.Kind == "alloc-heap" {
								// an allocation of the enclosing function is
								// not fresh from the closure's point of view
								// unless the closure itself only exists in it;
								// keep it distinct.
								o.Kind = "outer-" + o.Kind
							}
							st.out = append(st.out, o)
						}
						st.fields = append(st.fields, sub.fields...)
						resolved = true
					}
				}
			}
			if resolved {
				return
			}
		}
		st.emit("freevar", v, loads)
	case *ssa.FieldAddr:
		st.field(x.X.Type(), x.Field, loads)
		st.walk(x.X, loads)
	case *ssa.Field:
		st.field(x.X.Type(), x.Field, loads)
		st.walk(x.X, loads)
	case *ssa.IndexAddr:
		st.walk(x.X, loads)
	case *ssa.Index:
		st.walk(x.X, loads)
	case *ssa.Lookup:
		st.walk(x.X, loads+1)
	case *ssa.Slice:
		st.walk(x.X, loads)
	case *ssa.ChangeType:
		st.walk(x.X, loads)
	case *ssa.Convert:
		st.walk(x.X, loads)
	case *ssa.ChangeInterface:
		st.walk(x.X, loads)
	case *ssa.MakeInterface:
		st.walk(x.X, loads)
	case *ssa.TypeAssert:
		st.walk(x.X, loads)
	case *ssa.SliceToArrayPointer:
		st.walk(x.X, loads)
	case *ssa.Extract:
		st.walk(x.Tuple, loads)
	case *ssa.Phi:
		for _, e := range x.Edges {
			st.walk(e, loads)
		}
	case *ssa.UnOp:
		if x.Op == token.MUL {
			st.walk(x.X, loads+1)
		} else {
			st.emit("other", v, loads)
		}
	case *ssa.Call:
		if b, ok := x.Call.Value.(*ssa.Builtin); ok && b.Name() == "append" {
			// the result aliases the first argument (or is fresh)
			st.walk(x.Call.Args[0], loads)
			st.emit("make", v, loads)
			return
		}
		st.emit("call", v, loads)
	case *ssa.Const:
		st.emit("const", v, loads)
	case *ssa.Next, *ssa.Range:
		if r, ok := v.(*ssa.Range); ok {
			st.walk(r.X, loads+1)
		} else {
			st.walk(v.(*ssa.Next).Iter, loads)
		}
	case *ssa.MakeClosure:
		st.emit("make", v, loads)
	case *ssa.Function:
		st.emit("const", v, loads)
	default:
		st.emit("other", v, loads)
	}
}

func (st *provState) field(xt types.Type, idx int, loads int) {
	t := xt
	if pt, ok := t.Underlying().(*types.Pointer); ok {
		t = pt.Elem()
	}
	n, _ := t.(*types.Named)
	s, ok := t.Underlying().(*types.Struct)
	if !ok || idx >= s.NumFields() {
		return
	}
	st.fields = append(st.fields, fieldStep{Owner: n, Field: s.Field(idx), Loads: loads})
}

// storedInto: the content of a local variable is the union of the values
// stored into it (in this function and, for escaping variables, its closures).
func (st *provState) storedInto(a *ssa.Alloc, loads int) bool {
	found := false
	var scan func(f *ssa.Function, target ssa.Value)
	scan = func(f *ssa.Function, target ssa.Value) {
		for _, b := range f.Blocks {
			for _, ins := range b.Instrs {
				if s, ok := ins.(*ssa.Store); ok && s.Addr == target {
					found = true
					st.walk(s.Val, loads-1)
				}
			}
		}
	}
	scan(a.Parent(), a)
	return found
}

// --- write census -----------------------------------------------------------

// Write is one instruction that modifies memory.
type Write struct {
	Instr ssa.Instruction
	Kind  string    // store | mapupdate | append | delete | clear | copy | sort | send | atomic
	Base  ssa.Value // the address (store) or container (others) being written
	Val   ssa.Value // value written, when there is one
}

var inPlaceStdlib = map[string]bool{
	"slices.Sort": true, "slices.SortFunc": true, "slices.SortStableFunc": true, "slices.Reverse": true,
	"sort.Slice": true, "sort.SliceStable": true, "sort.Sort": true, "sort.Stable": true, "sort.Strings": true,
	"sort.Ints": true, "sort.Float64s": true, "slices.Insert": true, "slices.Delete": true, "slices.DeleteFunc": true,
	"slices.Compact": true, "slices.CompactFunc": true, "slices.Replace": true, "maps.Copy": true, "maps.DeleteFunc": true,
	"maps.Insert": true, "slices.Grow": false, "clear": true,
}

func calleeQualified(c *ssa.CallCommon) string {
	if f := c.StaticCallee(); f != nil {
		pk := fnPkg(f)
		name := f.Name()
		if o := f.Origin(); o != nil {
			name = o.Name()
		}
		if pk != nil {
			return pk.Path() + "." + name
		}
		return name
	}
	return ""
}

// writesOf lists the memory-modifying instructions of a function.
func writesOf(fn *ssa.Function) []Write {
	var ws []Write
	for _, b := range fn.Blocks {
		for _, ins := range b.Instrs {
			switch x := ins.(type) {
			case *ssa.Store:
				ws = append(ws, Write{Instr: ins, Kind: "store", Base: x.Addr, Val: x.Val})
			case *ssa.MapUpdate:
				ws = append(ws, Write{Instr: ins, Kind: "mapupdate", Base: x.Map, Val: x.Value})
			case *ssa.Send:
				ws = append(ws, Write{Instr: ins, Kind: "send", Base: x.Chan, Val: x.X})
			case ssa.CallInstruction:
				c := x.Common()
				if b, ok := c.Value.(*ssa.Builtin); ok {
					switch b.Name() {
					case "append":
						if len(c.Args) > 0 {
							ws = append(ws, Write{Instr: ins, Kind: "append", Base: c.Args[0]})
						}
					case "delete", "clear":
						ws = append(ws, Write{Instr: ins, Kind: b.Name(), Base: c.Args[0]})
					case "copy":
						ws = append(ws, Write{Instr: ins, Kind: "copy", Base: c.Args[0]})
					}
					continue
				}
				q := calleeQualified(c)
				if inPlaceStdlib[q] && len(c.Args) > 0 {
					ws = append(ws, Write{Instr: ins, Kind: "in-place " + q, Base: c.Args[0]})
				}
				if f := c.StaticCallee(); f != nil && f.Signature.Recv() != nil && len(c.Args) > 0 {
					if pk := fnPkg(f); pk != nil && pk.Path() == "sync/atomic" {
						name := f.Name()
						if o := f.Origin(); o != nil {
							name = o.Name()
						}
						switch name {
						case "Store", "Swap", "CompareAndSwap", "Add", "And", "Or":
							ws = append(ws, Write{Instr: ins, Kind: "atomic", Base: c.Args[0]})
						}
					}
				}
				if pk := fnPkg(c.StaticCallee()); pk != nil && pk.Path() == "sync/atomic" && c.StaticCallee().Signature.Recv() == nil && len(c.Args) > 0 {
					n := c.StaticCallee().Name()
					if strings.HasPrefix(n, "Store") || strings.HasPrefix(n, "Swap") || strings.HasPrefix(n, "CompareAndSwap") || strings.HasPrefix(n, "Add") {
						ws = append(ws, Write{Instr: ins, Kind: "atomic", Base: c.Args[0]})
					}
				}
			}
		}
	}
	return ws
}

// syncGuarded reports whether the instruction is synchronised: it sits in a
// function literal passed to (*sync.Once).Do, or a call to a Lock method of a
// sync mutex dominates it in its function.
func (p *Prog) syncGuarded(ins ssa.Instruction) (bool, string) {
	fn := ins.Parent()
	// (a) inside a closure only ever passed to sync.Once.Do
	if fn.Parent() != nil {
		par := fn.Parent()
		onceOnly, any := true, false
		for _, b := range par.Blocks {
			for _, pi := range b.Instrs {
				mc, ok := pi.(*ssa.MakeClosure)
				if !ok || mc.Fn != fn {
					continue
				}
				for _, ref := range *mc.Referrers() {
					any = true
					ci, ok := ref.(ssa.CallInstruction)
					if !ok || !isSyncMethod(ci.Common(), "Once", "Do") {
						onceOnly = false
					}
				}
			}
		}
		if any && onceOnly {
			return true, "inside sync.Once.Do"
		}
	}
	// (b) dominated by Lock()
	blk := ins.Block()
	for _, b := range fn.Blocks {
		for _, bi := range b.Instrs {
			ci, ok := bi.(ssa.CallInstruction)
			if !ok {
				continue
			}
			if isSyncMethod(ci.Common(), "Mutex", "Lock") || isSyncMethod(ci.Common(), "RWMutex", "Lock") {
				if b == blk {
					if instrIndex(b, bi) < instrIndex(b, ins) {
						return true, "after Mutex.Lock"
					}
				} else if b.Dominates(blk) {
					return true, "dominated by Mutex.Lock"
				}
			}
		}
	}
	return false, ""
}

func instrIndex(b *ssa.BasicBlock, ins ssa.Instruction) int {
	for i, x := range b.Instrs {
		if x == ins {
			return i
		}
	}
	return -1
}

func isSyncMethod(c *ssa.CallCommon, typ, meth string) bool {
	f := c.StaticCallee()
	if f == nil || f.Name() != meth {
		return false
	}
	pk := fnPkg(f)
	if pk == nil || pk.Path() != "sync" {
		return false
	}
	if f.Signature.Recv() == nil {
		return false
	}
	return strings.HasSuffix(f.Signature.Recv().Type().String(), "sync."+typ)
}
