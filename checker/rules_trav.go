package main

// C15: the shared wildcard / recursive-descent traversal.

import (
	"fmt"
	"go/token"
	"go/types"
	"sort"
	"strings"

	"golang.org/x/tools/go/ssa"
)

const maxU32 = 4294967295

var ruleTraversal = &Rule{
	Name: "R-TRAVERSAL", NeedSSA: true,
	Doc: "the traversal shared by .*, [*] and .**: (a) the per-element decision table over (level, first, last, leaf?) equals the stated one — an element is emitted iff first ≤ level (≤ last), or the bounds are {last} and it is a leaf; the traversal descends iff level < last; nothing happens above last; (b) it recurses into the children of the element just visited with level+1 and otherwise unchanged arguments, after emitting it (pre-order), inside a single loop over the given sequence; (c) every outside caller starts at level 1 with bounds (1,1) or with the bounds of the .** node, and .** forces structural errors to be ignored below it",
	Run: func(p *Prog) *RuleOut {
		out := newOut("R-TRAVERSAL")
		var T *ssa.Function
		var rec *ssa.Call
		for _, fn := range p.execFuncs() {
			if !isMethodOfExecutor(p, fn) {
				continue
			}
			for _, c := range callsTo(fn, fn) {
				hasSlice := false
				for _, q := range fn.Params {
					if sl, ok := q.Type().(*types.Slice); ok && types.IsInterface(sl.Elem()) {
						hasSlice = true
					}
				}
				if hasSlice {
					T, rec = fn, c
				}
			}
		}
		if T == nil {
			out.undecided("traversal function", "-", "", "anchor unresolved: self-recursive executor method over a []any")
			return out
		}
		var valueP *ssa.Parameter
		var u32 []*ssa.Parameter
		for _, q := range T.Params {
			if sl, ok := q.Type().(*types.Slice); ok && types.IsInterface(sl.Elem()) {
				valueP = q
			}
			if b, ok := q.Type().(*types.Basic); ok && b.Kind() == types.Uint32 {
				u32 = append(u32, q)
			}
		}
		if len(u32) != 3 {
			out.undecided("level/first/last", p.pos(T.Pos()), fnName(T), "expected three uint32 parameters")
			return out
		}
		// which is level: the one incremented in the recursive call
		var level, first, last *ssa.Parameter
		for i, a := range rec.Call.Args {
			if bo, ok := a.(*ssa.BinOp); ok && bo.Op == token.ADD {
				if q, ok := bo.X.(*ssa.Parameter); ok {
					if k, ok := constInt(bo.Y); ok && k == 1 && i < len(T.Params) && T.Params[i] == q {
						level = q
					}
				}
			}
		}
		if level == nil {
			out.viol("recursion goes one level down", p.pos(rec.Pos()), fnName(T), "the recursive call does not pass level+1 in the level position")
			return out
		}
		// first/last: `level > last` guards the entry; the other is first
		for _, b := range T.Blocks {
			if iff, ok := b.Instrs[len(b.Instrs)-1].(*ssa.If); ok {
				if bo, ok := iff.Cond.(*ssa.BinOp); ok && bo.Op == token.GTR && bo.X == ssa.Value(level) {
					if q, ok := bo.Y.(*ssa.Parameter); ok {
						last = q
						// the true branch returns a non-failed status without doing anything
						if r, ok := b.Succs[0].Instrs[len(b.Succs[0].Instrs)-1].(*ssa.Return); ok {
							st := unspill(b.Succs[0], r, r.Results[0])
							if k, ok := constInt(st); ok && k != constOf(p.A.StatusFailed) {
								out.ok("nothing happens above the upper bound", p.pos(iff.Pos()), fnName(T), "level > last returns at once")
							} else {
								out.viol("nothing happens above the upper bound", p.pos(iff.Pos()), fnName(T), "level > last does not return a non-failed status at once")
							}
						}
					}
				}
			}
		}
		for _, q := range u32 {
			if q != level && q != last {
				first = q
			}
		}
		if last == nil || first == nil {
			out.viol("nothing happens above the upper bound", p.pos(T.Pos()), fnName(T), "no entry guard `level > last`")
			return out
		}
		// (b) recursion arguments
		var elem ssa.Value
		for _, b := range T.Blocks {
			for _, ins := range b.Instrs {
				if u, ok := ins.(*ssa.UnOp); ok && u.Op == token.MUL {
					if ia, ok := u.X.(*ssa.IndexAddr); ok && ia.X == ssa.Value(valueP) {
						elem = u
					}
				}
			}
		}
		if elem == nil {
			out.viol("single loop over the sequence", p.pos(T.Pos()), fnName(T), "the sequence parameter is never indexed")
			return out
		}
		okArgs := true
		var why []string
		for i, a := range rec.Call.Args {
			if i >= len(T.Params) {
				break
			}
			q := T.Params[i]
			switch {
			case q == valueP:
				c, ok := a.(*ssa.Call)
				if !ok || c.Call.StaticCallee() == nil || !inModule(c.Call.StaticCallee()) || len(c.Call.Args) != 1 || c.Call.Args[0] != elem {
					okArgs = false
					why = append(why, "the sequence argument is not the children of the element just visited")
				}
			case q == level:
			default:
				if a != ssa.Value(q) && spilledParam(a) != q {
					okArgs = false
					why = append(why, "parameter "+q.Name()+" is not passed through unchanged")
				}
			}
		}
		if okArgs {
			out.ok("recursion descends into the children of the visited element", p.pos(rec.Pos()), fnName(T), "children(element), level+1, all other arguments unchanged")
		} else {
			out.viol("recursion descends into the children of the visited element", p.pos(rec.Pos()), fnName(T), strings.Join(why, "; "))
		}
		// (a) decision table from the loop header
		var header *ssa.BasicBlock
		eb := elem.(*ssa.UnOp).Block()
		for h := eb; h != nil && header == nil; h = h.Idom() {
			for _, pr := range h.Preds {
				if eb == pr || eb.Dominates(pr) {
					header = h
				}
			}
		}
		if header == nil {
			out.viol("single loop over the sequence", p.pos(elem.Pos()), fnName(T), "the element is not loaded inside a loop")
			return out
		}
		dom := map[*ssa.Parameter][]int64{level: {1, 2, 3}, first: {0, 1, 2, 3, maxU32}, last: {1, 2, 3, maxU32}}
		tx, rows := p.extractTable(T, header, &TableCfg{IntDomain: func(v ssa.Value) []int64 {
			if q, ok := v.(*ssa.Parameter); ok {
				return dom[q]
			}
			return nil
		}, MaxPaths: 20000})
		if tx.over {
			out.undecided("decision table of the traversal step", p.pos(header.Instrs[0].Pos()), fnName(T), "too many paths")
			return out
		}
		// leaf atom
		leafAtom := ""
		for k, ai := range tx.atoms {
			if !strings.HasPrefix(k, "cond:") {
				continue
			}
			if bo, ok := ai.Val.(*ssa.BinOp); ok && isNilConst(bo.Y) {
				if c, ok := bo.X.(*ssa.Call); ok && len(c.Call.Args) == 1 && c.Call.Args[0] == elem {
					leafAtom = k
				}
			}
		}
		if leafAtom == "" {
			out.viol("decision table of the traversal step", p.pos(header.Instrs[0].Pos()), fnName(T), "the step never asks whether the element is a leaf (needed for .**{last})")
			return out
		}
		okStatus := int64(-1)
		if c := p.A.StatusConsts["statusOK"]; c != nil {
			okStatus = constOf(c)
		}
		n := 0
		var probs []string
		for _, r := range rows {
			// only iterations that load an element
			visits := false
			for _, b := range r.Blocks {
				if b == eb {
					visits = true
				}
			}
			if !visits {
				continue
			}
			emitIdx, descIdx := -1, -1
			for i, c := range r.Calls {
				if c.Call.StaticCallee() == T {
					descIdx = i
					continue
				}
				for _, a := range c.Call.Args {
					if stripConv(a) == elem && (p.pairKind(calleeSig(c)) == "status" || (c.Call.StaticCallee() != nil && c.Call.StaticCallee().Signature.Recv() != nil && namedOf(c.Call.StaticCallee().Signature.Recv().Type()) == p.A.ValueList)) {
						if emitIdx < 0 {
							emitIdx = i
						}
					}
				}
			}
			retOK := false
			if ret, ok := r.End.(*ssa.Return); ok && r.Loop == nil && len(r.Out) == 2 {
				_ = ret
				if r.Out[0].Kind == "const" && r.Out[0].K == okStatus && emitIdx < 0 && descIdx < 0 {
					retOK = true // "exists" answer for an element without collector and continuation
				}
			}
			names := tx.atomsOf(guardTerms(r)...)
			for _, must := range []*ssa.Parameter{level, first, last} {
				tx.term(must, r, 0)
				names = append(names, must.Name())
			}
			names = uniq(sortStrings(names))
			for _, as := range tx.assignments(names, nil) {
				if ok, _ := tx.satisfied(r, as); !ok {
					continue
				}
				lv, fv, la := as[level.Name()], as[first.Name()], as[last.Name()]
				if lv > la {
					continue // excluded by the entry guard
				}
				n++
				leafVals := []int64{0, 1}
				if v, ok := as[leafAtom]; ok {
					leafVals = []int64{v}
				}
				emit := emitIdx >= 0 || retOK
				desc := descIdx >= 0
				full := r.Loop == header
				for _, leaf := range leafVals {
					wantEmit := lv >= fv || (fv == maxU32 && la == maxU32 && leaf == 1)
					wantDesc := lv < la
					d := fmt.Sprintf("level=%d first=%s last=%s leaf=%v", lv, u32s(fv), u32s(la), leaf == 1)
					if emit && !wantEmit && len(leafVals) == 1 {
						probs = append(probs, d+": the element is emitted although its depth is outside the bounds")
					}
					if emit && !wantEmit && len(leafVals) == 2 && !(fv == maxU32 && la == maxU32) {
						probs = append(probs, d+": the element is emitted although its depth is outside the bounds")
					}
					if desc && !wantDesc {
						probs = append(probs, d+": descends below the upper bound")
					}
					if full {
						if wantEmit && !emit && len(leafVals) == 1 {
							probs = append(probs, d+": the element is skipped although its depth is inside the bounds")
						}
						if wantDesc && !desc {
							probs = append(probs, d+": does not descend although deeper levels are requested")
						}
					}
				}
				if emit && desc && emitIdx >= 0 && emitIdx > descIdx {
					probs = append(probs, "children are visited before the element itself (not pre-order)")
				}
			}
		}
		sort.Strings(probs)
		probs = uniq(probs)
		if len(probs) == 0 && n >= 100 {
			out.ok("decision table of the traversal step", p.pos(header.Instrs[0].Pos()), fnName(T), fmt.Sprintf("%d (level, first, last, leaf, path) combinations: emit iff first ≤ level ≤ last (or a leaf under {last}); descend iff level < last; element before children", n))
		} else {
			if len(probs) > 6 {
				probs = probs[:6]
			}
			out.viol("decision table of the traversal step", p.pos(header.Instrs[0].Pos()), fnName(T), fmt.Sprintf("%d combinations; %s", n, strings.Join(probs, "; ")), probs...)
		}
		out.Counts["traversal_cells"] = n
		out.Floors["traversal_cells"] = 100
		// (c) outside callers
		anyT, _ := lookupNamed(p.Pkgs[pkgAST].Types, "AnyNode")
		nodeCG := p.CG.Nodes[T]
		nout := 0
		idx := func(q *ssa.Parameter) int { return paramIndex(q) }
		var flagP *ssa.Parameter
		// the bool parameter that is tested before the temporary override call
		// (`if ignore { defer exec.tempSet…(true)() }`, also as one operand of
		// a conjunction)
		isOverride := func(c *ssa.Call) bool {
			g := c.Call.StaticCallee()
			if g == nil || !isMethodOfExecutor(p, g) || g.Signature.Results().Len() != 1 {
				return false
			}
			_, isFn := g.Signature.Results().At(0).Type().Underlying().(*types.Signature)
			return isFn
		}
		var overrides []*ssa.Call
		for _, c := range p.allCalls(T) {
			if !isOverride(c) || c.Block() == nil {
				continue
			}
			for _, f := range factsAt(c.Block()) {
				if q, ok := f.Cond.(*ssa.Parameter); ok && f.Truth && q.Parent() == T {
					flagP = q
					overrides = append(overrides, c)
				}
			}
		}
		// (d) wherever the traversal hands an element to the following item,
		// the override is in force when the flag asks for it: no path from the
		// function's entry reaches that evaluation with the flag true and
		// without passing an override call
		if flagP != nil {
			nev := 0
			for _, c := range p.allCalls(T) {
				if c.Call.StaticCallee() == T || c.Block() == nil || p.pairKind(calleeSig(c)) != "status" {
					continue
				}
				onElem := false
				for _, a := range c.Call.Args {
					if stripConv(a) == elem {
						onElem = true
					}
				}
				if !onElem {
					continue
				}
				nev++
				key := fmt.Sprintf("structural errors are ignored while an element is evaluated below .** #%d", nev)
				if w := pathAvoiding(T, c, overrides, map[string]bool{condKey(flagP): true}); w == "" {
					out.ok(key, p.pos(c.Pos()), fnName(T), "every path to the evaluation on which "+flagP.Name()+" is true passes the override")
				} else {
					out.viol(key, p.pos(c.Pos()), fnName(T), "with "+flagP.Name()+" true the evaluation of the following item on an element is reached without the override of the structural-error flag ("+w+"): in strict mode `$.**{last}.a` fails on the first leaf instead of skipping it")
				}
			}
			out.Counts["element_evaluations"] = nev
		}
		if nodeCG != nil {
			for _, e := range nodeCG.In {
				if e.Caller.Func == T || e.Site == nil {
					continue
				}
				nout++
				caller := e.Caller.Func
				key := fmt.Sprintf("%s starts the traversal correctly", fnName(caller))
				lvA, fA, lA := argAt(e, idx(level)), argAt(e, idx(first)), argAt(e, idx(last))
				var bad []string
				if k, ok := constInt(lvA); !ok || k != 1 {
					bad = append(bad, "does not start at level 1")
				}
				fk, fok := constInt(fA)
				lk, lok := constInt(lA)
				fromAny := false
				if fc, ok := fA.(*ssa.Call); ok {
					if lc, ok := lA.(*ssa.Call); ok {
						if fc.Call.StaticCallee() != nil && lc.Call.StaticCallee() != nil && fc.Call.StaticCallee().Name() == "First" && lc.Call.StaticCallee().Name() == "Last" &&
							namedOf(fc.Call.Args[0].Type()) == anyT && fc.Call.Args[0] == lc.Call.Args[0] {
							fromAny = true
						}
					}
				}
				switch {
				case fok && lok && fk == 1 && lk == 1:
				case fromAny:
				default:
					bad = append(bad, "bounds are neither (1, 1) nor (First(), Last()) of the .** node")
				}
				if flagP != nil {
					fa := argAt(e, idx(flagP))
					c, isC := fa.(*ssa.Const)
					isTrue := isC && c.Value != nil && c.Value.ExactString() == "true"
					if fromAny && !isTrue {
						bad = append(bad, "below .** structural errors are not forced to be ignored")
					}
					if !fromAny && isTrue {
						bad = append(bad, "structural errors are ignored below a plain wildcard")
					}
				}
				if len(bad) == 0 {
					out.ok(key, p.pos(e.Site.Pos()), fnName(caller), "level 1, proper bounds")
				} else {
					out.viol(key, p.pos(e.Site.Pos()), fnName(caller), strings.Join(bad, "; "))
				}
			}
		}
		out.Counts["outside_call_sites"] = nout
		out.Floors["outside_call_sites"] = 2
		return out
	},
}

// spilledParam: v is a load of the local cell a parameter was spilled into
// (a closure of the function captures it) and nothing else is ever stored
// there: that parameter.
func spilledParam(v ssa.Value) *ssa.Parameter {
	u, ok := v.(*ssa.UnOp)
	if !ok || u.Op != token.MUL {
		return nil
	}
	a, ok := u.X.(*ssa.Alloc)
	if !ok {
		return nil
	}
	var q *ssa.Parameter
	for _, r := range *a.Referrers() {
		st, ok := r.(*ssa.Store)
		if !ok || st.Addr != ssa.Value(a) {
			continue
		}
		pq, isP := st.Val.(*ssa.Parameter)
		if !isP || (q != nil && q != pq) {
			return nil
		}
		q = pq
	}
	// a closure that captures the cell must not write it
	for _, r := range *a.Referrers() {
		mc, ok := r.(*ssa.MakeClosure)
		if !ok {
			continue
		}
		lit, _ := mc.Fn.(*ssa.Function)
		if lit == nil {
			return nil
		}
		for i, b := range mc.Bindings {
			if b != ssa.Value(a) || i >= len(lit.FreeVars) {
				continue
			}
			for _, fr := range *lit.FreeVars[i].Referrers() {
				if st, ok := fr.(*ssa.Store); ok && st.Addr == ssa.Value(lit.FreeVars[i]) {
					return nil
				}
			}
		}
	}
	return q
}

// condKey: a canonical text for a branch condition, so that the same test
// written twice (`node != nil` before and inside a loop) is recognised.
// negated reports that the condition is the negation of the keyed one.
func condKey(v ssa.Value) string {
	k, _ := condKeyNeg(v)
	return k
}

func condKeyNeg(v ssa.Value) (string, bool) {
	v = stripConvPlain(v)
	switch x := v.(type) {
	case *ssa.UnOp:
		if x.Op == token.NOT {
			k, n := condKeyNeg(x.X)
			return k, !n
		}
	case *ssa.BinOp:
		opnd := func(o ssa.Value) string {
			o = stripConvPlain(o)
			if c, ok := o.(*ssa.Const); ok {
				return "const " + c.String()
			}
			return fmt.Sprintf("%p", o)
		}
		switch x.Op {
		case token.EQL:
			return "== " + opnd(x.X) + " " + opnd(x.Y), false
		case token.NEQ:
			return "== " + opnd(x.X) + " " + opnd(x.Y), true
		case token.LSS:
			return "< " + opnd(x.X) + " " + opnd(x.Y), false
		case token.GEQ:
			return "< " + opnd(x.X) + " " + opnd(x.Y), true
		case token.GTR:
			return "< " + opnd(x.Y) + " " + opnd(x.X), false
		case token.LEQ:
			return "< " + opnd(x.Y) + " " + opnd(x.X), true
		}
	}
	return fmt.Sprintf("%p", v), false
}

// pathAvoiding: a path in fn from its entry to the call target that passes
// none of the calls in avoid and is consistent (each distinct condition takes
// one truth along the path, starting from the given assumptions); "" if none.
func pathAvoiding(fn *ssa.Function, target *ssa.Call, avoid []*ssa.Call, assume map[string]bool) string {
	isAvoid := map[ssa.Instruction]bool{}
	for _, a := range avoid {
		isAvoid[a] = true
	}
	budget := 20000
	found := ""
	var walk func(b *ssa.BasicBlock, as map[string]bool, on map[*ssa.BasicBlock]bool, trail []string)
	walk = func(b *ssa.BasicBlock, as map[string]bool, on map[*ssa.BasicBlock]bool, trail []string) {
		if found != "" || budget <= 0 {
			return
		}
		budget--
		for _, ins := range b.Instrs {
			if isAvoid[ins] {
				return
			}
			if ins == ssa.Instruction(target) {
				found = strings.Join(trail, " → ")
				if found == "" {
					found = "straight from the entry"
				}
				return
			}
		}
		next := func(s *ssa.BasicBlock, as map[string]bool, step string) {
			if on[s] {
				return
			}
			non := make(map[*ssa.BasicBlock]bool, len(on)+1)
			for k := range on {
				non[k] = true
			}
			non[s] = true
			nt := trail
			if step != "" {
				nt = append(append([]string{}, trail...), step)
			}
			walk(s, as, non, nt)
		}
		switch x := b.Instrs[len(b.Instrs)-1].(type) {
		case *ssa.If:
			k, neg := condKeyNeg(x.Cond)
			if t, ok := as[k]; ok {
				if t != neg {
					next(b.Succs[0], as, "")
				} else {
					next(b.Succs[1], as, "")
				}
				return
			}
			for si, truth := range []bool{true, false} {
				nas := make(map[string]bool, len(as)+1)
				for kk, vv := range as {
					nas[kk] = vv
				}
				nas[k] = truth != neg
				pos := ""
				if x.Cond.Pos().IsValid() {
					pos = fmt.Sprintf("%v at line %d", truth, fn.Prog.Fset.Position(x.Cond.Pos()).Line)
				}
				next(b.Succs[si], nas, pos)
			}
		case *ssa.Jump:
			next(b.Succs[0], as, "")
		}
	}
	walk(fn.Blocks[0], assume, map[*ssa.BasicBlock]bool{fn.Blocks[0]: true}, nil)
	return found
}

func u32s(v int64) string {
	if v == maxU32 {
		return "∞"
	}
	return fmt.Sprint(v)
}

func sortStrings(s []string) []string {
	sort.Strings(s)
	return s
}

func init() {
	register(ruleTraversal)
	addProp(&PropSpec{
		ID:          "C15",
		Rules:       []string{"R-TRAVERSAL", "R-STATE", "R-POLL", "R-MODEGUARD", "R-ONELEVEL", "R-LEAF", "R-EMITORDER", "R-ERRDISCARD", "R-CTORID", "R-UNWRAPTHREAD", "R-ADDRKEY"},
		Explanation: "'Every node at depth a..b exactly once, in pre-order' quantifies over tree shapes, but the traversal that implements it is one small recursive function whose per-element step is a finite decision procedure. Its complete table over (level, first, last, leaf?) is extracted and compared with the stated rule; the recursion is shown to descend into the children of the element just visited with level+1 and otherwise unchanged arguments, after the element itself, inside a single loop over the sequence; every outside caller starts it at level 1 with the right bounds; the .** override of structural errors is forced and restored. These are necessary conditions of C15 — breaking any of them changes which nodes are visited — not a proof of 'exactly once'.",
		Decided: []string{"R-TRAVERSAL: step table (emit iff first ≤ level ≤ last, or leaf under {last}; descend iff level < last), descent structure, pre-order, callers' bounds, forced ignore flag below .**",
			"R-STATE: the override is restored on every exit", "R-POLL: the recursion polls the context", "R-LEAF: empty containers have non-nil children, so only scalars are leaves"},
		NotDecided:  []string{"'exactly once' as a global fact over arbitrary trees", "object member order"},
		Assumptions: []string{"the children function returns the members/elements of its argument (collection)"},
	})
}
