package main

// R-RUNEWRITE (C02, C03): token text is built rune by rune.

import (
	"fmt"
	"go/token"
	"go/types"
	"sort"

	"golang.org/x/tools/go/ssa"
)

var ruleRuneWrite = &Rule{
	Name: "R-RUNEWRITE", NeedSSA: true,
	Doc: "in package parser every write into a text buffer (strings.Builder / bytes.Buffer) is WriteRune, WriteString, or a WriteByte of a constant or of a value that was a byte all along; a WriteByte (or append to a byte slice) of a value narrowed from a rune or int is allowed only below a dominating test that the value is < 0x80: decoded escapes such as \\xE9 must reach the token as the code point, not as a raw byte; a byte handed back by a helper of the package is judged where the helper makes it",
	Run: func(p *Prog) *RuleOut {
		out := newOut("R-RUNEWRITE")
		nw, nb := 0, 0
		ord := ordinals{}
		isBufWrite := func(c *ssa.CallCommon, name string) bool {
			f := c.StaticCallee()
			if f == nil || f.Name() != name || f.Signature.Recv() == nil {
				return false
			}
			pk := fnPkg(f)
			return pk != nil && (pk.Path() == "strings" || pk.Path() == "bytes")
		}
		var fns []*ssa.Function
		for fn := range p.AllFns {
			if fnPkgPath(fn) == pkgParser && fn.Blocks != nil {
				fns = append(fns, fn)
			}
		}
		sortFuncs(fns)
		check := func(fn *ssa.Function, ins ssa.Instruction, v ssa.Value, what string) {
			nb++
			key := fmt.Sprintf("%s: %s #%d", fnName(fn), what, ord.next(fnName(fn)))
			cv, ok := v.(*ssa.Convert)
			if !ok {
				// a byte handed back by a helper of the package is judged
				// where the helper makes it (`b, ok := l.scanHex()`)
				if why := p.byteMadeFromRune(v, 0); why != "" {
					out.viol(key, p.pos(ins.Pos()), fnName(fn), "the byte written is "+why+": values ≥ 0x80 become a raw (invalid UTF-8) byte instead of the code point")
					return
				}
				out.ok(key, p.pos(ins.Pos()), fnName(fn), "a constant or a byte value")
				return
			}
			src := cv.X
			if b, ok := src.Type().Underlying().(*types.Basic); ok && (b.Kind() == types.Uint8 || b.Kind() == types.Int8) {
				out.ok(key, p.pos(ins.Pos()), fnName(fn), "already a byte")
				return
			}
			if _, ok := src.(*ssa.Const); ok {
				out.ok(key, p.pos(ins.Pos()), fnName(fn), "constant")
				return
			}
			for _, f := range factsAt(ins.Block()) {
				bo, ok := f.Cond.(*ssa.BinOp)
				if !ok || !sameValue(bo.X, src) {
					continue
				}
				if k, ok := constInt(bo.Y); ok {
					if (bo.Op == token.LSS && f.Truth && k <= 0x80) || (bo.Op == token.LEQ && f.Truth && k < 0x80) || (bo.Op == token.GEQ && !f.Truth && k <= 0x80) || (bo.Op == token.GTR && !f.Truth && k < 0x80) {
						out.ok(key, p.pos(ins.Pos()), fnName(fn), "narrowed below a test that the value is ASCII")
						return
					}
				}
			}
			// … or behind a named character test that accepts ASCII only
			// (`isHex(c)`, computed exactly over every code point)
			for _, f := range factsAt(ins.Block()) {
				pc, ok := f.Cond.(*ssa.Call)
				if !ok || !f.Truth || pc.Call.IsInvoke() || len(pc.Call.Args) != 1 || !sameValue(pc.Call.Args[0], src) {
					continue
				}
				if acc, ok := p.ccAccepted(pc.Call.StaticCallee()); ok && len(acc) > 0 && acc[0].lo >= 0 && acc[len(acc)-1].hi < 0x80 {
					out.ok(key, p.pos(ins.Pos()), fnName(fn), "narrowed below "+pc.Call.StaticCallee().Name()+", which accepts ASCII characters only")
					return
				}
			}
			out.viol(key, p.pos(ins.Pos()), fnName(fn), "a computed "+src.Type().String()+" is narrowed to a byte and written into the token text: values ≥ 0x80 become a raw (invalid UTF-8) byte instead of the code point")
		}
		for _, fn := range fns {
			for _, b := range fn.Blocks {
				for _, ins := range b.Instrs {
					c, ok := ins.(*ssa.Call)
					if !ok {
						continue
					}
					switch {
					case isBufWrite(&c.Call, "WriteRune"), isBufWrite(&c.Call, "WriteString"):
						nw++
					case isBufWrite(&c.Call, "WriteByte"):
						nw++
						check(fn, c, c.Call.Args[1], "WriteByte")
					default:
						if bi, ok := c.Call.Value.(*ssa.Builtin); ok && bi.Name() == "append" && len(c.Call.Args) == 2 {
							if s, ok := c.Call.Args[0].Type().Underlying().(*types.Slice); ok {
								if eb, ok := s.Elem().Underlying().(*types.Basic); ok && eb.Kind() == types.Uint8 {
									// appended elements arrive as a slice literal; look at stores into it
									for _, e := range sliceLitElems(c.Call.Args[1]) {
										nw++
										check(fn, c, e, "append to []byte")
									}
								}
							}
						}
					}
				}
			}
		}
		out.Counts["text_buffer_writes"] = nw
		out.Floors["text_buffer_writes"] = 1
		out.Counts["byte_writes_examined"] = nb
		if len(out.Obs) == 0 {
			out.ok("token text is written rune by rune", "-", "", fmt.Sprintf("%d buffer writes in package parser, none of them a byte write", nw))
		}
		return out
	},
}

// sliceLitElems: values stored into the backing array of a variadic slice literal.
func sliceLitElems(v ssa.Value) []ssa.Value {
	sl, ok := v.(*ssa.Slice)
	if !ok {
		return nil
	}
	a, ok := sl.X.(*ssa.Alloc)
	if !ok {
		return nil
	}
	var out []ssa.Value
	for _, r := range *a.Referrers() {
		ia, ok := r.(*ssa.IndexAddr)
		if !ok {
			continue
		}
		for _, r2 := range *ia.Referrers() {
			if st, ok := r2.(*ssa.Store); ok && st.Addr == ia {
				out = append(out, st.Val)
			}
		}
	}
	return out
}

func init() { register(ruleRuneWrite) }

func sortFuncs(fns []*ssa.Function) {
	sort.Slice(fns, func(i, j int) bool { return fns[i].String() < fns[j].String() })
}

// --- R-COMMENT: the comment terminator is made of characters read after the opener -----------------

// valueSources: the non-phi values v can be.
func valueSources(v ssa.Value, seen map[ssa.Value]bool, out *[]ssa.Value) {
	if v == nil || seen[v] {
		return
	}
	seen[v] = true
	switch x := v.(type) {
	case *ssa.Phi:
		for _, e := range x.Edges {
			valueSources(e, seen, out)
		}
	case *ssa.Convert:
		valueSources(x.X, seen, out)
	case *ssa.ChangeType:
		valueSources(x.X, seen, out)
	default:
		*out = append(*out, v)
	}
}

var ruleComment = &Rule{
	Name: "R-COMMENT", NeedSSA: true,
	Doc: "in the lexer's comment scanner the `*` of the closing `*/` is a character read inside the scanner, after the opener: the value compared with '*' in the terminator test never comes from the scanner's parameter (the opener's own `*`), so `/*/` does not close a comment",
	Run: func(p *Prog) *RuleOut {
		out := newOut("R-COMMENT")
		lexT, _ := lookupNamed(p.Pkgs[pkgParser].Types, "lexer")
		n := 0
		var fns []*ssa.Function
		for fn := range p.AllFns {
			if fnPkgPath(fn) == pkgParser && fn.Blocks != nil && fn.Signature.Recv() != nil && namedOf(fn.Signature.Recv().Type()) == lexT {
				fns = append(fns, fn)
			}
		}
		sortFuncs(fns)
		for _, fn := range fns {
			for _, b := range fn.Blocks {
				iff, ok := b.Instrs[len(b.Instrs)-1].(*ssa.If)
				if !ok {
					continue
				}
				bo, ok := iff.Cond.(*ssa.BinOp)
				if !ok || bo.Op != token.EQL {
					continue
				}
				if k, ok := constInt(bo.Y); !ok || k != '*' {
					continue
				}
				// the true successor tests the next character against '/'
				t := b.Succs[0]
				iff2, ok := t.Instrs[len(t.Instrs)-1].(*ssa.If)
				if !ok {
					continue
				}
				bo2, ok := iff2.Cond.(*ssa.BinOp)
				if !ok || bo2.Op != token.EQL {
					continue
				}
				if k, ok := constInt(bo2.Y); !ok || k != '/' {
					continue
				}
				n++
				key := fnName(fn) + ": the closing `*/` starts after the opener"
				var srcs []ssa.Value
				valueSources(bo.X, map[ssa.Value]bool{}, &srcs)
				bad := ""
				for _, s := range srcs {
					switch x := s.(type) {
					case *ssa.Parameter:
						bad = "parameter " + x.Name() + " (the opener's own `*`)"
					case *ssa.Call:
						// a character read by the lexer
					default:
						bad = s.String()
					}
				}
				if bad == "" {
					out.ok(key, p.pos(iff.Pos()), fnName(fn), "the `*` of the terminator is always a character read inside the scanner")
				} else {
					out.viol(key, p.pos(bo.Pos()), fnName(fn), "the first character of the terminator test can be "+bad+": the three characters `/*/` are taken for a complete comment and the rest of the comment is lexed as path text")
				}
			}
		}
		out.Counts["terminator_tests"] = n
		out.Floors["terminator_tests"] = 1
		return out
	},
}

func init() { register(ruleComment) }

// byteMadeFromRune: v is a byte that a helper of package parser returns and
// that the helper narrows from a computed wider integer whose range is not
// known to lie below 0x80; "" otherwise.
func (p *Prog) byteMadeFromRune(v ssa.Value, depth int) string {
	if depth > 3 {
		return ""
	}
	var c *ssa.Call
	idx := 0
	switch x := v.(type) {
	case *ssa.Extract:
		c, _ = x.Tuple.(*ssa.Call)
		idx = x.Index
	case *ssa.Call:
		c = x
	case *ssa.Phi:
		for _, e := range x.Edges {
			if why := p.byteMadeFromRune(e, depth+1); why != "" {
				return why
			}
		}
		return ""
	}
	if c == nil || c.Call.IsInvoke() {
		return ""
	}
	g := c.Call.StaticCallee()
	if g == nil || g.Blocks == nil || fnPkgPath(g) != pkgParser {
		return ""
	}
	var judge func(rv ssa.Value, at *ssa.BasicBlock, d int) string
	judge = func(rv ssa.Value, at *ssa.BasicBlock, d int) string {
		if d > 4 {
			return ""
		}
		switch y := rv.(type) {
		case *ssa.Const:
			return ""
		case *ssa.Phi:
			for i, e := range y.Edges {
				if why := judge(e, y.Block().Preds[i], d+1); why != "" {
					return why
				}
			}
			return ""
		case *ssa.Convert:
			if b, ok := y.X.Type().Underlying().(*types.Basic); ok && (b.Kind() == types.Uint8 || b.Kind() == types.Int8) {
				return ""
			}
			if iv, ok := p.narrowRange(y.X, y.Block(), nil, 0); ok && iv.lo >= 0 && iv.hi < 0x80 {
				return ""
			}
			return "narrowed from a computed " + y.X.Type().String() + " in " + g.Name() + " (" + p.pos(y.Pos()) + ")"
		}
		return p.byteMadeFromRune(rv, depth+1)
	}
	for _, r := range returnsOf(g) {
		if idx >= len(r.Results) {
			continue
		}
		if why := judge(r.Results[idx], r.Instr.Block(), 0); why != "" {
			return why
		}
	}
	return ""
}
