package main

// Rules added for the seventh round of seeded changes.

import (
	"fmt"
	"go/token"
	"go/types"

	"golang.org/x/tools/go/ssa"
)

// R-FOUNDKEPT (C01, C06, C11): an item found is not forgotten.
//
// In a loop over elements, pairs or subscripts the status of each evaluation
// is carried round the loop and the status of the last one is what the
// function returns after it. With a collector that is harmless (the items are
// in the list); without one (Exists, exists(), lax filters) the status is the
// only answer, so once an evaluation has answered `found` the loop must be
// left: going round again lets a later `not found` overwrite it, and the
// existence check says no where the query returns an item.
var ruleFoundKept = &Rule{
	Name: "R-FOUNDKEPT", NeedSSA: true,
	Doc: "in every status function of the executor, after a call inside a loop that forwards the function's collector and whose status is carried round the loop to the function's return: on the outcome (found, nil) without a collector, no path (phis resolved along the path, tests of that status, of its error and of the collector decided) goes round the loop again — it reaches a return first; otherwise a later element's `not found` replaces the `found`, and Exists / exists() answer false where Query returns an item",
	Run: func(p *Prog) *RuleOut {
		out := newOut("R-FOUNDKEPT")
		okK := constOf(p.A.StatusConsts["statusOK"])
		n := 0
		ord := ordinals{}
		for _, fn := range p.execFuncs() {
			if p.pairKind(fn.Signature) != "status" {
				continue
			}
			coll := p.collectorParam(fn)
			if coll == nil {
				continue
			}
			for _, c := range p.allCalls(fn) {
				sc := c.Call.StaticCallee()
				if sc == nil || p.pairKind(calleeSig(c)) != "status" || c.Block() == nil {
					continue
				}
				fwd := false
				for _, a := range c.Call.Args {
					if a == ssa.Value(coll) {
						fwd = true
					}
				}
				stV, errV := extractOf(c, 0), extractOf(c, 1)
				if !fwd || stV == nil {
					continue
				}
				// innermost loop around the call
				var head *ssa.BasicBlock
				for h := c.Block(); h != nil && head == nil; h = h.Idom() {
					for _, pr := range h.Preds {
						if h.Dominates(pr) && (pr == c.Block() || reaches(c.Block(), pr, h)) {
							head = h
						}
					}
				}
				if head == nil {
					continue
				}
				// last one wins: a phi at the loop header takes the call's status on a back edge
				carried := false
				for _, ins := range head.Instrs {
					ph, ok := ins.(*ssa.Phi)
					if !ok {
						break
					}
					for i, pr := range head.Preds {
						if head.Dominates(pr) && flowsFromValue(ph.Edges[i], stV, 0) {
							carried = true
						}
					}
				}
				if !carried {
					continue
				}
				n++
				key := fmt.Sprintf("%s: `found` from %s leaves the loop #%d", fnName(fn), sc.Name(), ord.next(fnName(fn)))
				// walk from the call on (found, nil), collector nil
				type st struct {
					b   *ssa.BasicBlock
					idx int
				}
				bad := ""
				budget := 3000
				var walk func(b *ssa.BasicBlock, idx int, env twinEnv, on map[*ssa.BasicBlock]bool)
				walk = func(b *ssa.BasicBlock, idx int, env twinEnv, on map[*ssa.BasicBlock]bool) {
					if bad != "" || budget <= 0 {
						return
					}
					budget--
					for i := idx; i < len(b.Instrs); i++ {
						switch x := b.Instrs[i].(type) {
						case *ssa.Return, *ssa.Panic:
							return
						case *ssa.Jump, *ssa.If:
							succs := b.Succs
							if iff, ok := x.(*ssa.If); ok {
								resolve := func(v ssa.Value) ssa.Value { return twinResolve(v, env) }
								atom := func(cond ssa.Value) tri {
									if ct, _ := collTruth(cond, coll, true, resolve, 0); ct != triUnknown {
										return ct
									}
									if bo, ok := cond.(*ssa.BinOp); ok && (bo.Op == token.EQL || bo.Op == token.NEQ) {
										x0, y0 := stripConv(resolve(bo.X)), stripConv(resolve(bo.Y))
										switch {
										case x0 == stV:
											if k, ok := constInt(y0); ok {
												return triOf((k == okK) == (bo.Op == token.EQL))
											}
										case errV != nil && x0 == errV && isNilConst(y0):
											return triOf(bo.Op == token.EQL)
										}
									} else if cc, ok := cond.(*ssa.Call); ok && p.isFailedMethod(cc.Call.StaticCallee()) && len(cc.Call.Args) > 0 && stripConv(resolve(cc.Call.Args[0])) == stV {
										return triFalse
									}
									return triUnknown
								}
								cond := resolve(iff.Cond)
								t := atom(cond)
								if pc, ok := cond.(*ssa.Call); ok && t == triUnknown {
									// a named test (`anyItemDone(res, found)`)
									t = predTruth(pc, atom, 0)
								}
								switch t {
								case triTrue:
									succs = b.Succs[:1]
								case triFalse:
									succs = b.Succs[1:2]
								}
							}
							for _, s := range succs {
								if s == head {
									if bad == "" {
										bad = "after the call at " + p.pos(c.Pos()) + " answered `found` the path through " + p.pos(firstPos(b)) + " goes round the loop again"
									}
									return
								}
								if on[s] {
									continue
								}
								non := map[*ssa.BasicBlock]bool{s: true}
								for k := range on {
									non[k] = true
								}
								nenv := make(twinEnv, len(env)+2)
								for k, v := range env {
									nenv[k] = v
								}
								for pi, pr := range s.Preds {
									if pr != b {
										continue
									}
									for _, ins := range s.Instrs {
										ph, ok := ins.(*ssa.Phi)
										if !ok {
											break
										}
										nenv[ph] = twinResolve(ph.Edges[pi], env)
									}
								}
								walk(s, 0, nenv, non)
							}
							return
						}
					}
				}
				// position after the call
				start := 0
				for i, ins := range c.Block().Instrs {
					if ins == ssa.Instruction(c) {
						start = i + 1
					}
				}
				walk(c.Block(), start, twinEnv{}, map[*ssa.BasicBlock]bool{c.Block(): true})
				switch {
				case budget <= 0:
					out.undecided(key, p.pos(c.Pos()), fnName(fn), "path budget exhausted")
				case bad != "":
					out.viol(key, p.pos(c.Pos()), fnName(fn), "without a collector the status of the last element is the only answer, and "+bad+": a later `not found` replaces the `found`, so Exists / exists() answer false where Query returns an item")
				default:
					out.ok(key, p.pos(c.Pos()), fnName(fn), "on (found, nil) without a collector every path reaches a return before the loop header")
				}
			}
		}
		out.Counts["loops_whose_last_status_is_returned"] = n
		out.Floors["loops_whose_last_status_is_returned"] = 2
		return out
	},
}

// reaches: block to is reachable from block from without passing through
// block stop.
func reaches(from, to, stop *ssa.BasicBlock) bool {
	seen := map[*ssa.BasicBlock]bool{}
	work := []*ssa.BasicBlock{from}
	for len(work) > 0 {
		b := work[len(work)-1]
		work = work[:len(work)-1]
		if seen[b] {
			continue
		}
		seen[b] = true
		if b == to {
			return true
		}
		for _, s := range b.Succs {
			if s != stop {
				work = append(work, s)
			}
		}
	}
	return false
}

// flowsFromValue: v is src, or a phi one of whose operands is.
func flowsFromValue(v, src ssa.Value, depth int) bool {
	if depth > 5 {
		return false
	}
	v = stripConv(v)
	if v == src {
		return true
	}
	if ph, ok := v.(*ssa.Phi); ok {
		for _, e := range ph.Edges {
			if flowsFromValue(e, src, depth+1) {
				return true
			}
		}
	}
	return false
}

func init() { register(ruleFoundKept) }

// R-NILOUT (C03, C04, C05): a nil handed over for a pointer is not written through.
//
// Where a call passes the literal nil for a pointer parameter of a module
// function, every load or store through that parameter in the callee is
// either behind a test that the parameter is not nil, or on a branch that
// cannot be taken with the constants the call passes for the other
// parameters (decided by folding those constants into the branch conditions
// and the bodies of the small predicates they use, and finding an empty
// integer interval). `digits(ch, decimal, nil)` is safe only because no
// decimal digit is ≥ '0'+10; with a variable base the same call crashes on
// `0.5e8`, which the parser then reports as a syntax error.
var ruleNilOut = &Rule{
	Name: "R-NILOUT", NeedSSA: true,
	Doc: "for every call in the module that passes the literal nil for a pointer parameter of a module function, each load or store through that parameter in the callee is dominated by a test that it is not nil, or sits on a branch whose conditions are contradictory once the constant arguments of that call are folded in (integer intervals over the compared value, looking into small predicates): otherwise some input makes the callee write through nil — a panic, or, inside the parser's recovery, a valid spelling rejected as a syntax error",
	Run: func(p *Prog) *RuleOut {
		out := newOut("R-NILOUT")
		n := 0
		ord := ordinals{}
		var fns []*ssa.Function
		for fn := range p.AllFns {
			if inModule(fn) && fn.Blocks != nil {
				fns = append(fns, fn)
			}
		}
		sortFuncs(fns)
		for _, fn := range fns {
			for _, c := range p.allCalls(fn) {
				g := c.Call.StaticCallee()
				if g == nil || !inModule(g) || g.Blocks == nil {
					continue
				}
				for ai, a := range c.Call.Args {
					if !isNilConst(a) || ai >= len(g.Params) {
						continue
					}
					if _, isPtr := g.Params[ai].Type().Underlying().(*types.Pointer); !isPtr {
						continue
					}
					q := g.Params[ai]
					// derefs of q in g
					var derefs []ssa.Instruction
					for _, b := range g.Blocks {
						for _, ins := range b.Instrs {
							switch x := ins.(type) {
							case *ssa.UnOp:
								if x.Op == token.MUL && x.X == ssa.Value(q) {
									derefs = append(derefs, x)
								}
							case *ssa.Store:
								if x.Addr == ssa.Value(q) {
									derefs = append(derefs, x)
								}
							case *ssa.FieldAddr:
								if x.X == ssa.Value(q) {
									derefs = append(derefs, x)
								}
							}
						}
					}
					if len(derefs) == 0 {
						continue
					}
					n++
					key := fmt.Sprintf("%s passes nil for %s of %s #%d", fnName(fn), q.Name(), g.Name(), ord.next(fnName(fn)+g.Name()))
					consts := map[*ssa.Parameter]int64{}
					for i, oa := range c.Call.Args {
						if i < len(g.Params) {
							if k, ok := constInt(oa); ok {
								consts[g.Params[i]] = k
							}
						}
					}
					bad := ""
					for _, d := range derefs {
						fs := factsAt(d.Block())
						if _, notNil := nilFact(fs, q); notNil {
							continue
						}
						if infeasibleAt(d.Block(), consts) {
							continue
						}
						bad = p.pos(d.Pos())
						break
					}
					if bad == "" {
						out.ok(key, p.pos(c.Pos()), fnName(fn), "every use of the parameter is behind a nil test or on a branch the constants of this call rule out")
					} else {
						out.viol(key, p.pos(c.Pos()), fnName(fn), "the callee reads or writes through the parameter at "+bad+" on a branch that the arguments of this call do not rule out: for some input it dereferences nil")
					}
				}
			}
		}
		out.Counts["nil_pointer_arguments_with_a_dereferencing_callee"] = n
		if n == 0 {
			out.ok("nil pointer arguments", "-", "", "no call passes a literal nil for a pointer parameter that its callee dereferences")
		}
		return out
	},
}

// foldInt: the integer value of v once the parameters in consts are replaced
// by their constants.
func foldInt(v ssa.Value, consts map[*ssa.Parameter]int64, depth int) (int64, bool) {
	if depth > 6 {
		return 0, false
	}
	if k, ok := constInt(v); ok {
		return k, true
	}
	switch x := v.(type) {
	case *ssa.Parameter:
		k, ok := consts[x]
		return k, ok
	case *ssa.Convert:
		return foldInt(x.X, consts, depth+1)
	case *ssa.ChangeType:
		return foldInt(x.X, consts, depth+1)
	case *ssa.BinOp:
		a, ok1 := foldInt(x.X, consts, depth+1)
		b, ok2 := foldInt(x.Y, consts, depth+1)
		if !ok1 || !ok2 {
			return 0, false
		}
		switch x.Op {
		case token.ADD:
			return a + b, true
		case token.SUB:
			return a - b, true
		case token.MUL:
			return a * b, true
		}
	}
	return 0, false
}

// contradictory: the facts bound some integer value from below and from above
// by constants (after folding) such that no value satisfies both.
func contradictory(fs []Fact, consts map[*ssa.Parameter]int64) bool {
	type iv struct {
		lo, hi int64
		v      ssa.Value
		not    []int64
	}
	var ivs []*iv
	get := func(v ssa.Value) *iv {
		for _, x := range ivs {
			if sameValue(x.v, v) {
				return x
			}
		}
		x := &iv{lo: -1 << 62, hi: 1 << 62, v: v}
		ivs = append(ivs, x)
		return x
	}
	for _, f := range fs {
		bo, ok := f.Cond.(*ssa.BinOp)
		if !ok {
			continue
		}
		op := bo.Op
		subj, other := bo.X, bo.Y
		k, okk := foldInt(other, consts, 0)
		if !okk {
			// constant on the left
			k, okk = foldInt(bo.X, consts, 0)
			if !okk {
				continue
			}
			subj = bo.Y
			switch op {
			case token.LSS:
				op = token.GTR
			case token.LEQ:
				op = token.GEQ
			case token.GTR:
				op = token.LSS
			case token.GEQ:
				op = token.LEQ
			}
		}
		if _, isC := foldInt(subj, consts, 0); isC {
			continue
		}
		// `y - c op k` is `y op k + c` (and `y + c op k` is `y op k - c`): the
		// digit's value `ch - '0'` against a base says where ch lies
		for i := 0; i < 3; i++ {
			sb, ok := stripConvPlain(subj).(*ssa.BinOp)
			if !ok || (sb.Op != token.SUB && sb.Op != token.ADD) {
				break
			}
			c, isC := foldInt(sb.Y, consts, 0)
			if !isC {
				break
			}
			if sb.Op == token.SUB {
				k += c
			} else {
				k -= c
			}
			subj = sb.X
		}
		if !f.Truth {
			switch op {
			case token.LSS:
				op = token.GEQ
			case token.LEQ:
				op = token.GTR
			case token.GTR:
				op = token.LEQ
			case token.GEQ:
				op = token.LSS
			case token.EQL:
				op = token.NEQ
			case token.NEQ:
				op = token.EQL
			}
		}
		x := get(subj)
		switch op {
		case token.LSS:
			if k-1 < x.hi {
				x.hi = k - 1
			}
		case token.LEQ:
			if k < x.hi {
				x.hi = k
			}
		case token.GTR:
			if k+1 > x.lo {
				x.lo = k + 1
			}
		case token.GEQ:
			if k > x.lo {
				x.lo = k
			}
		case token.EQL:
			if k > x.lo {
				x.lo = k
			}
			if k < x.hi {
				x.hi = k
			}
		case token.NEQ:
			x.not = append(x.not, k)
		}
	}
	for _, x := range ivs {
		if x.lo > x.hi {
			return true
		}
		if x.lo == x.hi {
			for _, k := range x.not {
				if k == x.lo {
					return true
				}
			}
		}
	}
	return false
}

// infeasibleAt: block b cannot be reached once the constants are folded in:
// its dominating facts are contradictory, or — at the nearest join above it —
// they are contradictory with the facts of every incoming edge
// (`for isDecimal(ch) || ch == '_' { if ch == '_' {…} else if ch >= max {…} }`:
// the second way into the body is ruled out by the else).
func infeasibleAt(b *ssa.BasicBlock, consts map[*ssa.Parameter]int64) bool {
	fs := factsAt(b)
	if contradictory(fs, consts) {
		return true
	}
	for cur := b; cur != nil; cur = cur.Idom() {
		if len(cur.Preds) < 2 {
			continue
		}
		for _, pr := range cur.Preds {
			if cur.Dominates(pr) {
				return false // a loop header: the back edge is not examined
			}
			efs := append(append([]Fact(nil), fs...), edgeFacts(pr, succIndex(pr, cur))...)
			if !contradictory(efs, consts) {
				return false
			}
		}
		return true
	}
	return false
}

func init() { register(ruleNilOut) }

// R-RESUPPRESS (C08, C13, C14): a suppressed failure stays suppressible.
//
// Under WithSilent (and inside filters) a failure travels as (failed, nil).
// A helper whose result type has no room for the status turns it back into an
// error (`if res == failed { if err == nil { err = fmt.Errorf(…) } }`). That
// error stands for one that was suppressible — it has just been suppressed —
// so it must wrap ErrVerbose: built directly on ErrExecution, the silent run
// returns an error for a division by zero in a subscript.
var ruleResuppress = &Rule{
	Name: "R-RESUPPRESS", NeedSSA: true,
	Doc: "every error constructed in package exec on a branch where the status of an evaluation call is known to be `failed` and its error is known to be nil (the failure was suppressed) is of the suppressible class (wraps ErrVerbose): re-raised as a non-suppressible error, a failure that WithSilent or a filter had already suppressed comes back as an error",
	Run: func(p *Prog) *RuleOut {
		out := newOut("R-RESUPPRESS")
		e := p.errors()
		failedK := constOf(p.A.StatusFailed)
		n := 0
		ord := ordinals{}
		for _, s := range e.srcs {
			if s.Fn == nil || s.Instr == nil || s.Instr.Block() == nil || fnPkgPath(s.Fn) != pkgExec || s.Class == "nil" {
				continue
			}
			switch s.Class {
			case "Verbose", "Hard", "Invalid", "Ctx":
			default:
				continue // NULL handed back by Exists / Match, foreign errors (R-ERRCLASS)
			}
			fs := factsAt(s.Instr.Block())
			suppressed := false
			var at *ssa.Call
			for _, c := range p.allCalls(s.Fn) {
				if p.pairKind(calleeSig(c)) != "status" {
					continue
				}
				stV, errV := extractOf(c, 0), extractOf(c, 1)
				if stV == nil || errV == nil {
					continue
				}
				if isNil, _ := nilFact(fs, errV); isNil && p.statusFact(fs, stV, failedK) == 1 {
					suppressed, at = true, c
				}
			}
			if !suppressed {
				continue
			}
			n++
			key := fmt.Sprintf("%s: error for a suppressed failure #%d", fnName(s.Fn), ord.next(fnName(s.Fn)))
			if s.Class == "Verbose" {
				out.ok(key, p.pos(s.Instr.Pos()), fnName(s.Fn), "suppressible, like the failure of "+calleeName(&at.Call)+" it stands for")
			} else {
				out.viol(key, p.pos(s.Instr.Pos()), fnName(s.Fn), "the failure of "+calleeName(&at.Call)+" had been suppressed (failed, nil) and is re-raised with class "+s.Class+": the silent run returns an error that the verbose run would have been allowed to suppress ("+s.Text+")")
			}
		}
		out.Counts["errors_built_for_a_suppressed_failure"] = n
		if n == 0 {
			out.ok("errors for suppressed failures", "path/exec", "", "no error is raised on a branch where a failure is known to have been suppressed")
		}
		return out
	},
}

func init() { register(ruleResuppress) }

// R-COLLGUARD (C06, C19): what runs only with (or only without) a collector
// is about the collector.
//
// R-COLLBLIND keeps the collector's nil-ness out of data. A branch on it can
// still make the evaluation differ: `if found != nil { slices.Sort(keys) }`
// hands out the generated ids of `.keyvalue()` in map order whenever only
// existence is asked. In the region that is entered only through one outcome
// of a test of the collector, every call is a builtin, takes or returns a
// value list (the collector, a fresh list, an evaluation into one), or
// constructs an error; nothing else may depend on whether items are collected.
var ruleCollGuard = &Rule{
	Name: "R-COLLGUARD", NeedSSA: true,
	Doc: "in every function of the executor with a collector parameter, the blocks entered only through one outcome of a nil test of the collector contain no call other than builtins, calls that take or return a value list (append to the collector, a fresh list, an evaluation into a list) and error constructors, and no store to a field of the Executor: otherwise the evaluation itself (ordering, generated ids, state) differs between Exists and Query, or between one run and the next",
	Run: func(p *Prog) *RuleOut {
		out := newOut("R-COLLGUARD")
		n := 0
		isList := func(t types.Type) bool {
			pt, ok := t.(*types.Pointer)
			return ok && pt.Elem() == types.Type(p.A.ValueList)
		}
		for _, fn := range p.execFuncs() {
			coll := p.collectorParam(fn)
			if coll == nil {
				continue
			}
			ord := ordinals{}
			for _, b := range fn.Blocks {
				iff, ok := b.Instrs[len(b.Instrs)-1].(*ssa.If)
				if !ok || len(b.Succs) != 2 {
					continue
				}
				cond := iff.Cond
				for {
					u, isNot := cond.(*ssa.UnOp)
					if !isNot || u.Op != token.NOT {
						break
					}
					cond = u.X
				}
				bo, ok := cond.(*ssa.BinOp)
				if !ok || (bo.Op != token.EQL && bo.Op != token.NEQ) {
					continue
				}
				if !(bo.X == ssa.Value(coll) && isNilConst(bo.Y)) && !(bo.Y == ssa.Value(coll) && isNilConst(bo.X)) {
					continue
				}
				for _, s := range b.Succs {
					if len(s.Preds) != 1 {
						continue
					}
					n++
					key := fmt.Sprintf("%s: branch on the collector #%d", fnName(fn), ord.next("b"))
					bad := ""
					for _, rb := range fn.Blocks {
						if !(rb == s || s.Dominates(rb)) || bad != "" {
							continue
						}
						for _, ins := range rb.Instrs {
							switch x := ins.(type) {
							case *ssa.Call:
								if _, isB := x.Call.Value.(*ssa.Builtin); isB {
									continue
								}
								okCall := isList(x.Type())
								for _, a := range x.Call.Args {
									if isList(a.Type()) {
										okCall = true
									}
								}
								if tp, ok := x.Type().(*types.Tuple); ok {
									for i := 0; i < tp.Len(); i++ {
										if isList(tp.At(i).Type()) {
											okCall = true
										}
									}
								}
								if q := calleeQualified(&x.Call); q == "fmt.Errorf" || q == "errors.New" || (x.Call.StaticCallee() != nil && p.isErrCtor(x.Call.StaticCallee())) {
									okCall = true
								}
								if sc := x.Call.StaticCallee(); sc != nil && (tinyPredicate(sc) || purePredicate(sc) || p.modePredicate(sc) != "") {
									okCall = true
								}
								// the evaluation into a list made for the occasion,
								// in a function of its own (`exec.queryComplete(ctx,
								// node, value)`): about the collector as well
								if sc := x.Call.StaticCallee(); sc != nil && !x.Call.IsInvoke() && p.collectsIntoOwnList(sc) && len(p.execStores(sc)) == 0 {
									okCall = true
								}
								if !okCall && bad == "" {
									bad = "the call to " + calleeName(&x.Call) + " at " + p.pos(x.Pos())
								}
							case *ssa.Store:
								if fld, _ := p.execFieldOf(x.Addr); fld != nil && bad == "" {
									bad = "the store to " + fld.Name() + " at " + p.pos(x.Pos())
								}
							}
						}
					}
					if bad == "" {
						out.ok(key, p.pos(iff.Pos()), fnName(fn), "only collector operations, exits and error construction depend on it")
					} else {
						out.viol(key, p.pos(iff.Pos()), fnName(fn), bad+" happens only when items are (or are not) being collected: the evaluation itself differs between the existence check and the query (order of generated ids, state left behind), and between runs when it replaces a deterministic order")
					}
				}
			}
		}
		out.Counts["branches_on_the_collector"] = n
		out.Floors["branches_on_the_collector"] = 3
		return out
	},
}

func init() { register(ruleCollGuard) }

// R-VARSIDENT (C19, C06, C16): the variables the executor sees are the caller's.
//
// `.keyvalue()` numbers the objects it generates from the identity of the
// object they belong to; for `$var…` that object is the variables map itself.
// An option that stores a copy of the caller's map (a "defensive" clone)
// gives every call a fresh identity: the ids of `$var.keyvalue()` then differ
// between Query and First, between one call and the next, and between
// goroutines, although nothing in the inputs changed.
var ruleVarsIdent = &Rule{
	Name: "R-VARSIDENT", NeedSSA: true,
	Doc: "every store to a map-typed field of the Executor in package exec stores a parameter or captured variable of the storing function as it is (the caller's map), nil, or a map made in a constructor: never the result of a call (maps.Clone and the like), which would give the variables a new identity per call and make the ids `.keyvalue()` derives from it differ between calls on the same inputs",
	Run: func(p *Prog) *RuleOut {
		out := newOut("R-VARSIDENT")
		n := 0
		ord := ordinals{}
		var fns []*ssa.Function
		for fn := range p.AllFns {
			if fnPkgPath(fn) == pkgExec && fn.Blocks != nil {
				fns = append(fns, fn)
			}
		}
		sortFuncs(fns)
		for _, fn := range fns {
			for _, st := range p.execStores(fn) {
				if _, isMap := st.Field.Type().Underlying().(*types.Map); !isMap {
					continue
				}
				n++
				key := fmt.Sprintf("%s stores %s #%d", fnName(fn), st.Field.Name(), ord.next(fnName(fn)+st.Field.Name()))
				v := stripConvPlain(st.Store.Val)
				switch x := v.(type) {
				case *ssa.Parameter, *ssa.FreeVar:
					out.ok(key, p.pos(st.Store.Pos()), fnName(fn), "the caller's map as it is")
				case *ssa.Const:
					out.ok(key, p.pos(st.Store.Pos()), fnName(fn), "nil")
				case *ssa.MakeMap:
					out.ok(key, p.pos(st.Store.Pos()), fnName(fn), "a fresh map of the executor's own")
				case *ssa.UnOp:
					if f, _ := p.execFieldOf(x.X); f != nil {
						out.ok(key, p.pos(st.Store.Pos()), fnName(fn), "copied from another executor field")
						continue
					}
					// a variable of the enclosing function captured by reference:
					// everything the enclosing function stores in it
					if fv, ok := x.X.(*ssa.FreeVar); ok && x.Op == token.MUL && fn.Parent() != nil {
						idx := -1
						for i, q := range fn.FreeVars {
							if q == fv {
								idx = i
							}
						}
						bad, nst := "", 0
						for _, pb := range fn.Parent().Blocks {
							for _, pi := range pb.Instrs {
								mc, ok := pi.(*ssa.MakeClosure)
								if !ok || mc.Fn != ssa.Value(fn) || idx < 0 || idx >= len(mc.Bindings) {
									continue
								}
								cell := mc.Bindings[idx]
								for _, r := range *cell.Referrers() {
									if cs, ok := r.(*ssa.Store); ok && cs.Addr == cell {
										nst++
										if _, isParam := stripConvPlain(cs.Val).(*ssa.Parameter); !isParam && bad == "" {
											bad = trunc(cs.Val.String(), 60) + " at " + p.pos(cs.Pos())
										}
									}
								}
							}
						}
						if bad == "" && nst > 0 {
							out.ok(key, p.pos(st.Store.Pos()), fnName(fn), "the enclosing function's parameter, captured: the caller's map as it is")
							continue
						}
						if bad != "" {
							out.viol(key, p.pos(st.Store.Pos()), fnName(fn), "the captured variable holds the result of "+bad+", not the caller's own map: each call sees variables with a new identity, and the ids `.keyvalue()` derives for `$var…` differ between calls on the same inputs")
							continue
						}
					}
					out.viol(key, p.pos(st.Store.Pos()), fnName(fn), "the map stored is "+trunc(v.String(), 60)+", not the caller's own map")
				default:
					out.viol(key, p.pos(st.Store.Pos()), fnName(fn), "the map stored is the result of "+trunc(v.String(), 60)+", not the caller's own map: each call sees variables with a new identity, and the ids `.keyvalue()` derives for `$var…` differ between calls on the same inputs")
				}
			}
		}
		out.Counts["stores_to_map_fields_of_the_executor"] = n
		out.Floors["stores_to_map_fields_of_the_executor"] = 1
		return out
	},
}

func init() { register(ruleVarsIdent) }

// R-JSONNUM (C14, C16, C13): a json.Number is converted by its own methods.
//
// The text of a json.Number may carry a fraction and an exponent in any
// combination (`1.5e1`, `2.5e-1`). Package exec converts such a value with
// Number.Int64 and Number.Float64 (strconv on the whole text); taking the
// text apart by hand — cutting at the dot, slicing, trimming — reads `1.5e1`
// as 1. The text is only ever handed whole to strconv or to a printer.
var ruleJSONNum = &Rule{
	Name: "R-JSONNUM", NeedSSA: true,
	Doc: "in package exec the text of a json.Number (its String() result or a string conversion of it) is never an operand of strings.Cut/Split*/Index*/Trim*/Fields/HasPrefix/HasSuffix nor of a slice expression: the value is converted with Number.Int64 / Number.Float64 or strconv on the whole text, so that a spelling with a fraction and an exponent (`1.5e1`) is not read as its first digits",
	Run: func(p *Prog) *RuleOut {
		out := newOut("R-JSONNUM")
		isNum := func(t types.Type) bool {
			nt, ok := t.(*types.Named)
			return ok && nt.Obj().Pkg() != nil && nt.Obj().Pkg().Path() == "encoding/json" && nt.Obj().Name() == "Number"
		}
		var textOf func(v ssa.Value, depth int) bool
		textOf = func(v ssa.Value, depth int) bool {
			if depth > 4 {
				return false
			}
			switch x := v.(type) {
			case *ssa.Call:
				if sc := x.Call.StaticCallee(); sc != nil && sc.Name() == "String" && sc.Signature.Recv() != nil && isNum(sc.Signature.Recv().Type()) {
					return true
				}
			case *ssa.Convert:
				return isNum(x.X.Type()) || textOf(x.X, depth+1)
			case *ssa.ChangeType:
				return isNum(x.X.Type()) || textOf(x.X, depth+1)
			case *ssa.Phi:
				for _, e := range x.Edges {
					if textOf(e, depth+1) {
						return true
					}
				}
			}
			return false
		}
		n, nuse := 0, 0
		ord := ordinals{}
		for _, fn := range p.execFuncs() {
			for _, b := range fn.Blocks {
				for _, ins := range b.Instrs {
					switch x := ins.(type) {
					case *ssa.Call:
						q := calleeQualified(&x.Call)
						for _, a := range x.Call.Args {
							if !textOf(a, 0) {
								continue
							}
							nuse++
							if len(q) > 8 && q[:8] == "strings." {
								switch q[8:] {
								case "Cut", "Split", "SplitN", "SplitAfter", "Index", "IndexByte", "IndexRune", "IndexAny", "LastIndex", "TrimLeft", "TrimRight", "Trim", "TrimPrefix", "TrimSuffix", "TrimSpace", "Fields", "HasPrefix", "HasSuffix", "Contains", "ContainsRune", "ContainsAny":
									n++
									out.viol(fmt.Sprintf("%s: text of a json.Number taken apart #%d", fnName(fn), ord.next(fnName(fn))), p.pos(x.Pos()), fnName(fn),
										"the text of a json.Number is handed to "+q+": a spelling with both a fraction and an exponent (`1.5e1`, `2.5e-1`) is read as its leading digits instead of its value")
								}
							}
						}
					case *ssa.Slice:
						if textOf(x.X, 0) {
							nuse++
							n++
							out.viol(fmt.Sprintf("%s: text of a json.Number taken apart #%d", fnName(fn), ord.next(fnName(fn))), p.pos(x.Pos()), fnName(fn),
								"the text of a json.Number is sliced: a spelling with an exponent is read as its leading digits instead of its value")
						}
					}
				}
			}
		}
		out.Counts["uses_of_the_text_of_a_json_number"] = nuse
		if n == 0 {
			out.ok("json.Number texts are converted whole", "path/exec", "", fmt.Sprintf("%d uses of such a text, none of them takes it apart", nuse))
		}
		return out
	},
}

func init() { register(ruleJSONNum) }
