package main

// E6: decision-table extraction. Acyclic CFG paths of small loop-free
// fragments are enumerated; branch conditions become guard terms over atoms
// with finite domains (three-valued outcomes, statuses, enum constants, error
// nilness, booleans, sign of a comparison); what is returned (or handed to a
// designated call) on each path is collected as terms. A rule then expands the
// rows over the complete finite domain and compares with the table the
// property states. Nothing is compiled or run.

import (
	"fmt"
	"go/constant"
	"go/token"
	"go/types"
	"sort"
	"strings"

	"golang.org/x/tools/go/ssa"
)

// Term is a symbolic value.
type Term struct {
	Kind string // const | nil | atom | op | not | call | opaque
	K    int64  // const value (bools: 0/1)
	Atom string
	Op   token.Token
	Sub  []*Term
	Fn   *ssa.Function
	Note string
	Tbl  map[int64]int64 // Kind index: the constant table being indexed (absent entries are zero)
	Idx  int             // Kind call: which result of the callee
}

func (t *Term) String() string {
	if t == nil {
		return "<nil>"
	}
	switch t.Kind {
	case "const":
		return fmt.Sprint(t.K)
	case "nil":
		return "nil"
	case "atom":
		return t.Atom
	case "op":
		return "(" + t.Sub[0].String() + " " + t.Op.String() + " " + t.Sub[1].String() + ")"
	case "not":
		return "!" + t.Sub[0].String()
	case "call":
		var a []string
		for _, s := range t.Sub {
			a = append(a, s.String())
		}
		return t.Fn.Name() + "(" + strings.Join(a, ",") + ")"
	}
	return "?" + t.Note
}

// AtomInfo describes an atom: the SSA value behind it and its domain.
type AtomInfo struct {
	Key   string
	Val   ssa.Value
	Dom   []int64
	Kind  string // int | nilness | bool | rel
	Call  *ssa.Call
	Index int
}

type Guard struct {
	T     *Term
	Truth bool
}

// PathRow is one acyclic path through a fragment.
type PathRow struct {
	Guards []Guard
	Blocks []*ssa.BasicBlock
	Calls  []*ssa.Call // non-inlined calls executed, in order
	End    ssa.Instruction
	Out    []*Term
	Loop   *ssa.BasicBlock // non-nil if the path ended at a back edge into this block
	prev   map[*ssa.BasicBlock]*ssa.BasicBlock
}

// TableCfg configures an extraction.
type TableCfg struct {
	// AtomDom gives the domain of a value that should be an atom (nil: by type).
	IntDomain func(v ssa.Value) []int64
	// Sink: a non-return instruction that ends a path; returns its outputs.
	Sink func(ins ssa.Instruction) []ssa.Value
	// SinkContinue: a sink emits a row but the path goes on (later sinks on
	// the same path are reported too).
	SinkContinue bool
	MaxPaths     int
}

type tableEx struct {
	p     *Prog
	fn    *ssa.Function
	cfg   *TableCfg
	atoms map[string]*AtomInfo
	rows  []*PathRow
	over  bool
}

func (p *Prog) extractTable(fn *ssa.Function, start *ssa.BasicBlock, cfg *TableCfg) (*tableEx, []*PathRow) {
	tx := &tableEx{p: p, fn: fn, cfg: cfg, atoms: map[string]*AtomInfo{}}
	if cfg.MaxPaths == 0 {
		cfg.MaxPaths = 4000
	}
	if start == nil {
		start = fn.Blocks[0]
	}
	row := &PathRow{prev: map[*ssa.BasicBlock]*ssa.BasicBlock{}}
	tx.walk(start, nil, row, map[*ssa.BasicBlock]bool{})
	return tx, tx.rows
}

func (tx *tableEx) walk(b, from *ssa.BasicBlock, row *PathRow, on map[*ssa.BasicBlock]bool) {
	if len(tx.rows) > tx.cfg.MaxPaths {
		tx.over = true
		return
	}
	if on[b] {
		r := tx.cloneRow(row)
		r.Loop = b
		r.prev[b] = from
		// values flowing into the loop header's phis along this back edge
		for _, ins := range b.Instrs {
			ph, ok := ins.(*ssa.Phi)
			if !ok {
				break
			}
			for i, pr := range b.Preds {
				if pr == from {
					r.Out = append(r.Out, tx.term(ph.Edges[i], r, 0))
				}
			}
		}
		tx.rows = append(tx.rows, r)
		return
	}
	on[b] = true
	defer delete(on, b)
	row = tx.cloneRow(row)
	row.Blocks = append(row.Blocks, b)
	if from != nil {
		row.prev[b] = from
	}
	for _, ins := range b.Instrs {
		switch x := ins.(type) {
		case *ssa.Call:
			if !tx.inlinable(x.Call.StaticCallee()) {
				row.Calls = append(row.Calls, x)
			}
			if tx.cfg.Sink != nil {
				if outs := tx.cfg.Sink(ins); outs != nil {
					r := tx.cloneRow(row)
					r.End = ins
					for _, o := range outs {
						r.Out = append(r.Out, tx.term(o, r, 0))
					}
					tx.rows = append(tx.rows, r)
					if !tx.cfg.SinkContinue {
						return
					}
				}
			}
		case *ssa.Return:
			r := tx.cloneRow(row)
			r.End = ins
			for _, o := range x.Results {
				r.Out = append(r.Out, tx.term(unspill(b, x, o), r, 0))
			}
			tx.rows = append(tx.rows, r)
			return
		case *ssa.Panic:
			r := tx.cloneRow(row)
			r.End = ins
			tx.rows = append(tx.rows, r)
			return
		case *ssa.If:
			ct := tx.term(x.Cond, row, 0)
			if !wellFormed(ct) {
				// a condition over values outside the finite domains: a free
				// boolean atom (both outcomes are explored)
				ct = tx.atom("cond:"+x.Cond.Name(), x.Cond, "bool", []int64{0, 1})
			}
			for si, s := range b.Succs {
				r2 := tx.cloneRow(row)
				r2.Guards = append(r2.Guards, Guard{ct, si == 0})
				tx.walk(s, b, r2, on)
			}
			return
		case *ssa.Jump:
			tx.walk(b.Succs[0], b, row, on)
			return
		}
	}
}

func (tx *tableEx) cloneRow(r *PathRow) *PathRow {
	n := &PathRow{Guards: append([]Guard(nil), r.Guards...), Blocks: append([]*ssa.BasicBlock(nil), r.Blocks...),
		Calls: append([]*ssa.Call(nil), r.Calls...), Out: append([]*Term(nil), r.Out...), End: r.End, Loop: r.Loop,
		prev: map[*ssa.BasicBlock]*ssa.BasicBlock{}}
	for k, v := range r.prev {
		n.prev[k] = v
	}
	return n
}

// inlinable: small pure module function (no loops, at most 8 blocks, only
// calls to other inlinable functions).
func (tx *tableEx) inlinable(fn *ssa.Function) bool {
	return inlinableFn(fn, 0)
}

func inlinableFn(fn *ssa.Function, depth int) bool {
	if fn == nil || fn.Blocks == nil || (fnPkgPath(fn) != pkgExec && fnPkgPath(fn) != pkgParser && fnPkgPath(fn) != pkgAST) || depth > 3 {
		return false
	}
	// package ast: small tests over flag sets and enum values (`f.has(flag)`)
	if fnPkgPath(fn) == pkgAST && (len(fn.Blocks) > 8 || fn.Signature.Results().Len() != 1) {
		return false
	}
	if fnPkgPath(fn) == pkgExec && (len(fn.Blocks) > 8 || fn.Signature.Results().Len() != 1) {
		return false
	}
	// package parser: plain functions over characters (`operatorToken(ch, next)`)
	if fnPkgPath(fn) == pkgParser && (len(fn.Blocks) > 40 || fn.Signature.Recv() != nil || fn.Signature.Results().Len() == 0 || len(fn.Params) == 0) {
		return false
	}
	for i := 0; i < fn.Signature.Results().Len(); i++ {
		if u, ok := fn.Signature.Results().At(i).Type().Underlying().(*types.Basic); !ok || (u.Kind() != types.Bool && u.Info()&types.IsInteger == 0) {
			if fnPkgPath(fn) == pkgParser {
				return false
			}
		}
	}
	// every parameter must be of a finite-domain type
	for _, q := range fn.Params {
		switch u := q.Type().Underlying().(type) {
		case *types.Basic:
			if u.Kind() != types.Bool && u.Info()&types.IsInteger == 0 {
				return false
			}
		default:
			return false
		}
	}
	for _, b := range fn.Blocks {
		for _, s := range b.Succs {
			if s.Dominates(b) {
				return false // a loop
			}
		}
		for _, ins := range b.Instrs {
			switch x := ins.(type) {
			case *ssa.Call:
				if !inlinableFn(x.Call.StaticCallee(), depth+1) {
					return false
				}
			case *ssa.Store, *ssa.MapUpdate, *ssa.Defer, *ssa.Go, *ssa.Send:
				return false
			}
		}
	}
	return true
}

func (tx *tableEx) atom(key string, v ssa.Value, kind string, dom []int64) *Term {
	if _, ok := tx.atoms[key]; !ok {
		tx.atoms[key] = &AtomInfo{Key: key, Val: v, Dom: dom, Kind: kind}
	}
	return &Term{Kind: "atom", Atom: key}
}

func (tx *tableEx) domainOf(v ssa.Value) ([]int64, string) {
	t := v.Type()
	if tx.cfg.IntDomain != nil {
		if d := tx.cfg.IntDomain(v); d != nil {
			return d, "int"
		}
	}
	switch {
	case isErrorType(t):
		return []int64{0, 1}, "nilness"
	case types.Identical(t, tx.p.A.PredType):
		return constsOf(tx.p.A.PredConsts), "int"
	case types.Identical(t, tx.p.A.StatusType):
		return constsOf(tx.p.A.StatusConsts), "int"
	}
	if ei := tx.p.enumOf(t); ei != nil {
		var d []int64
		for _, c := range ei.Consts {
			if iv, ok := constant.Int64Val(c.Val()); ok {
				d = append(d, iv)
			}
		}
		return d, "int"
	}
	if b, ok := t.Underlying().(*types.Basic); ok && b.Kind() == types.Bool {
		return []int64{0, 1}, "bool"
	}
	return nil, ""
}

func constsOf(m map[string]*types.Const) []int64 {
	var d []int64
	for _, c := range m {
		d = append(d, constOf(c))
	}
	sort.Slice(d, func(i, j int) bool { return d[i] < d[j] })
	return d
}

// term builds the symbolic value of v on the path described by row.
func (tx *tableEx) term(v ssa.Value, row *PathRow, depth int) *Term {
	if depth > 12 {
		return &Term{Kind: "opaque", Note: "depth"}
	}
	switch x := v.(type) {
	case *ssa.Const:
		if x.Value == nil {
			return &Term{Kind: "nil"}
		}
		switch x.Value.Kind() {
		case constant.Bool:
			if constant.BoolVal(x.Value) {
				return &Term{Kind: "const", K: 1}
			}
			return &Term{Kind: "const", K: 0}
		case constant.Int:
			if iv, ok := constant.Int64Val(x.Value); ok {
				return &Term{Kind: "const", K: iv}
			}
		}
		return &Term{Kind: "opaque", Note: "const " + x.String()}
	case *ssa.MakeInterface:
		return tx.term(x.X, row, depth+1)
	case *ssa.ChangeType:
		return tx.term(x.X, row, depth+1)
	case *ssa.ChangeInterface:
		return tx.term(x.X, row, depth+1)
	case *ssa.Convert:
		return tx.term(x.X, row, depth+1)
	case *ssa.Phi:
		pr := row.prev[x.Block()]
		for i, q := range x.Block().Preds {
			if q == pr {
				return tx.term(x.Edges[i], row, depth+1)
			}
		}
		// a materialised `a && b` / `a || b` computed before the path starts
		if ops, isOr, ok := shortCircuit(x, 0); ok {
			op := token.LAND
			if isOr {
				op = token.LOR
			}
			t := tx.term(ops[0], row, depth+1)
			for _, o := range ops[1:] {
				t = &Term{Kind: "op", Op: op, Sub: []*Term{t, tx.term(o, row, depth+1)}}
			}
			return t
		}
		return &Term{Kind: "opaque", Note: "phi off path"}
	case *ssa.Parameter:
		if dom, kind := tx.domainOf(x); dom != nil {
			return tx.atom(x.Name(), x, kind, dom)
		}
		return &Term{Kind: "opaque", Note: "param " + x.Name()}
	case *ssa.UnOp:
		switch x.Op {
		case token.NOT:
			return &Term{Kind: "not", Sub: []*Term{tx.term(x.X, row, depth+1)}}
		case token.MUL:
			// an element of a local constant table: `t := [...]uint8{A: 1, B: 2}; t[i]`
			if ia, ok := x.X.(*ssa.IndexAddr); ok {
				if al, ok := ia.X.(*ssa.Alloc); ok {
					if tbl, ok := localConstTable(al); ok {
						return &Term{Kind: "index", Sub: []*Term{tx.term(ia.Index, row, depth+1)}, Tbl: tbl}
					}
				}
				// … or of a package-level array of integer constants that only
				// its declaration sets (`var priorities = [...]uint8{OpAnd: 1, …}`)
				if g, ok := ia.X.(*ssa.Global); ok && g.Pkg != nil && strings.HasPrefix(g.Pkg.Pkg.Path(), modPath) {
					if pt, ok := g.Type().Underlying().(*types.Pointer); ok {
						if at, ok := pt.Elem().Underlying().(*types.Array); ok {
							if bt, ok := at.Elem().Underlying().(*types.Basic); ok && bt.Info()&types.IsInteger != 0 {
								if tbl := runeArrayLiteral(tx.p, g); len(tbl) > 0 {
									return &Term{Kind: "index", Sub: []*Term{tx.term(ia.Index, row, depth+1)}, Tbl: tbl}
								}
							}
						}
					}
				}
			}
			// a package-level error of the module, set once by the package
			// initialiser to a constructed error (`errOutOfBounds =
			// fmt.Errorf("%w: …", ErrVerbose)`): never nil
			if g, ok := x.X.(*ssa.Global); ok && isErrorType(x.Type()) && g.Pkg != nil && strings.HasPrefix(g.Pkg.Pkg.Path(), modPath) {
				if e := tx.p.errors(); e.globalInitClass(g) != "" || g.Object() == types.Object(tx.p.A.ErrVerbose) || g.Object() == types.Object(tx.p.A.ErrExecution) || g.Object() == types.Object(tx.p.A.ErrInvalid) {
					return &Term{Kind: "fresh", Note: "sentinel " + g.Name()}
				}
			}
			if fa, ok := x.X.(*ssa.FieldAddr); ok {
				if dom, kind := tx.domainOf(x); dom != nil {
					return tx.atom("field:"+fieldName(fa), x, kind, dom)
				}
			}
			if a, ok := x.X.(*ssa.Alloc); ok {
				// spill slot written on this path
				var last ssa.Value
				for _, b := range row.Blocks {
					for _, ins := range b.Instrs {
						if st, ok := ins.(*ssa.Store); ok && st.Addr == a {
							last = st.Val
						}
					}
				}
				if last != nil {
					return tx.term(last, row, depth+1)
				}
			}
		case token.SUB:
			return &Term{Kind: "op", Op: token.SUB, Sub: []*Term{{Kind: "const", K: 0}, tx.term(x.X, row, depth+1)}}
		}
		return &Term{Kind: "opaque", Note: x.String()}
	case *ssa.BinOp:
		l, r := tx.term(x.X, row, depth+1), tx.term(x.Y, row, depth+1)
		// relation between two non-constant integer values: a relational atom
		if (x.Op == token.LSS || x.Op == token.GTR || x.Op == token.LEQ || x.Op == token.GEQ || x.Op == token.EQL || x.Op == token.NEQ) &&
			l.Kind == "opaque" && r.Kind == "opaque" {
			if px, ok := x.X.(*ssa.Parameter); ok {
				if py, ok := x.Y.(*ssa.Parameter); ok {
					// canonical orientation: the atom is the sign of (earlier
					// parameter − later parameter), whichever way round the
					// comparison is written
					op := x.Op
					if paramIndex(px) > paramIndex(py) {
						px, py = py, px
						switch op {
						case token.LSS:
							op = token.GTR
						case token.GTR:
							op = token.LSS
						case token.LEQ:
							op = token.GEQ
						case token.GEQ:
							op = token.LEQ
						}
					}
					key := "rel(" + px.Name() + "," + py.Name() + ")"
					a := tx.atom(key, x, "rel", []int64{-1, 0, 1})
					return &Term{Kind: "op", Op: op, Sub: []*Term{a, {Kind: "const", K: 0}}}
				}
			}
		}
		return &Term{Kind: "op", Op: x.Op, Sub: []*Term{l, r}}
	case *ssa.Extract:
		switch t := x.Tuple.(type) {
		case *ssa.Call:
			return tx.callTerm(t, x.Index, x, row, depth)
		case *ssa.TypeAssert:
			key := fmt.Sprintf("%s.(%s)", t.X.Name(), typeStr(t.AssertedType))
			if x.Index == 1 {
				return tx.atom(key+"ok", x, "bool", []int64{0, 1})
			}
			if dom, kind := tx.domainOf(x); dom != nil {
				return tx.atom(key, x, kind, dom)
			}
			return &Term{Kind: "opaque", Note: key}
		}
	case *ssa.Call:
		return tx.callTerm(x, 0, x, row, depth)
	}
	return &Term{Kind: "opaque", Note: fmt.Sprintf("%T", v)}
}

// localConstTable: al is a local array every write to which stores a constant
// at a constant index, and whose address goes nowhere else: the table.
func localConstTable(al *ssa.Alloc) (map[int64]int64, bool) {
	pt, ok := al.Type().Underlying().(*types.Pointer)
	if !ok {
		return nil, false
	}
	if _, isArr := pt.Elem().Underlying().(*types.Array); !isArr {
		return nil, false
	}
	tbl := map[int64]int64{}
	for _, r := range *al.Referrers() {
		switch x := r.(type) {
		case *ssa.DebugRef:
		case *ssa.IndexAddr:
			for _, u := range *x.Referrers() {
				switch y := u.(type) {
				case *ssa.Store:
					k, ok1 := constInt(x.Index)
					v, ok2 := constInt(y.Val)
					if y.Addr != ssa.Value(x) || !ok1 || !ok2 {
						return nil, false
					}
					tbl[k] = v
				case *ssa.UnOp:
					if y.Op != token.MUL {
						return nil, false
					}
				case *ssa.DebugRef:
				default:
					return nil, false
				}
			}
		case *ssa.Store:
			// whole-array initialisation from a constant composite is not modelled
			return nil, false
		default:
			return nil, false
		}
	}
	return tbl, true
}

func (tx *tableEx) callTerm(c *ssa.Call, idx int, v ssa.Value, row *PathRow, depth int) *Term {
	if bi, ok := c.Call.Value.(*ssa.Builtin); ok && (bi.Name() == "min" || bi.Name() == "max") && len(c.Call.Args) >= 1 {
		t := &Term{Kind: "minmax", Note: bi.Name()}
		for _, a := range c.Call.Args {
			t.Sub = append(t.Sub, tx.term(a, row, depth+1))
		}
		return t
	}
	callee := c.Call.StaticCallee()
	if tx.inlinable(callee) {
		t := &Term{Kind: "call", Fn: callee, Idx: idx}
		for _, a := range c.Call.Args {
			t.Sub = append(t.Sub, tx.term(a, row, depth+1))
		}
		return t
	}
	// mode predicates share one atom per callee
	if m := tx.p.modePredicate(callee); m != "" {
		return tx.atom("mode:"+m, v, "bool", []int64{0, 1})
	}
	if isCtxErrCall(c) {
		return tx.atom("ctx.Err()", v, "nilness", []int64{0, 1})
	}
	// a freshly constructed error is never nil
	if q := calleeQualified(&c.Call); q == "errors.New" || q == "fmt.Errorf" || (callee != nil && tx.p.isErrCtor(callee)) {
		return &Term{Kind: "fresh", Note: c.Name()}
	}
	// so is what an allocating constructor of the module returns (`newList()`)
	if allocCtor(callee) && idx == 0 {
		return &Term{Kind: "fresh", Note: c.Name()}
	}
	if dom, kind := tx.domainOf(v); dom != nil {
		key := fmt.Sprintf("%s#%d", c.Name(), idx)
		t := tx.atom(key, v, kind, dom)
		tx.atoms[key].Call, tx.atoms[key].Index = c, idx
		return t
	}
	return &Term{Kind: "opaque", Note: "call " + calleeName(&c.Call)}
}

// allocCtor: a module function with one pointer result every return of which
// hands back an allocation made in the function.
func allocCtor(fn *ssa.Function) bool {
	if fn == nil || !inModule(fn) || fn.Blocks == nil || fn.Signature.Results().Len() != 1 {
		return false
	}
	if _, ok := fn.Signature.Results().At(0).Type().Underlying().(*types.Pointer); !ok {
		return false
	}
	n := 0
	for _, r := range returnsOf(fn) {
		if _, ok := stripConvPlain(r.Results[0]).(*ssa.Alloc); !ok {
			return false
		}
		n++
	}
	return n > 0
}

type subTab struct {
	tx   *tableEx
	rows []*PathRow
}

var subTables = map[*ssa.Function]*subTab{}

// subTable: the table of an inlinable callee (memoised). Its integer
// parameters are atoms whatever their type: they are always assigned from the
// evaluated arguments.
func (p *Prog) subTable(fn *ssa.Function) (*tableEx, []*PathRow) {
	if st, ok := subTables[fn]; ok {
		return st.tx, st.rows
	}
	tx, rows := p.extractTable(fn, nil, &TableCfg{IntDomain: func(v ssa.Value) []int64 {
		if q, ok := v.(*ssa.Parameter); ok {
			if b, ok := q.Type().Underlying().(*types.Basic); ok && b.Info()&types.IsInteger != 0 {
				return []int64{0}
			}
		}
		return nil
	}})
	subTables[fn] = &subTab{tx, rows}
	return tx, rows
}

// --- evaluation under an assignment ------------------------------------------------

type Assign map[string]int64

// Val is a concrete symbolic value: an integer/bool, nil, or "the value of
// atom a" (for errors and opaque payloads).
type Val struct {
	Kind string // int | nil | ref | bad
	K    int64
	Ref  string
}

func (tx *tableEx) eval(t *Term, as Assign, depth int) Val {
	if depth > 10 {
		return Val{Kind: "bad"}
	}
	switch t.Kind {
	case "const":
		return Val{Kind: "int", K: t.K}
	case "nil":
		return Val{Kind: "nil"}
	case "fresh":
		return Val{Kind: "ref", Ref: "fresh:" + t.Note}
	case "index":
		iv := tx.eval(t.Sub[0], as, depth+1)
		if iv.Kind != "int" {
			return Val{Kind: "bad"}
		}
		return Val{Kind: "int", K: t.Tbl[iv.K]}
	case "minmax":
		var best Val
		for i, sub := range t.Sub {
			v := tx.eval(sub, as, depth+1)
			if v.Kind != "int" {
				return Val{Kind: "bad"}
			}
			if i == 0 || (t.Note == "min" && v.K < best.K) || (t.Note == "max" && v.K > best.K) {
				best = v
			}
		}
		return best
	case "atom":
		ai := tx.atoms[t.Atom]
		k, ok := as[t.Atom]
		if !ok || ai == nil {
			return Val{Kind: "bad"}
		}
		if ai.Kind == "nilness" {
			if k == 0 {
				return Val{Kind: "nil"}
			}
			return Val{Kind: "ref", Ref: t.Atom}
		}
		return Val{Kind: "int", K: k}
	case "not":
		v := tx.eval(t.Sub[0], as, depth+1)
		if v.Kind != "int" {
			return Val{Kind: "bad"}
		}
		return Val{Kind: "int", K: 1 - v.K}
	case "op":
		l, r := tx.eval(t.Sub[0], as, depth+1), tx.eval(t.Sub[1], as, depth+1)
		b2i := func(b bool) Val {
			if b {
				return Val{Kind: "int", K: 1}
			}
			return Val{Kind: "int", K: 0}
		}
		if t.Op == token.EQL || t.Op == token.NEQ {
			// nil comparisons
			if l.Kind == "nil" || r.Kind == "nil" || l.Kind == "ref" || r.Kind == "ref" {
				if l.Kind == "bad" || r.Kind == "bad" {
					return Val{Kind: "bad"}
				}
				eq := l.Kind == r.Kind && l.Ref == r.Ref && l.K == r.K
				return b2i(eq == (t.Op == token.EQL))
			}
		}
		if l.Kind != "int" || r.Kind != "int" {
			return Val{Kind: "bad"}
		}
		switch t.Op {
		case token.EQL:
			return b2i(l.K == r.K)
		case token.NEQ:
			return b2i(l.K != r.K)
		case token.LSS:
			return b2i(l.K < r.K)
		case token.LEQ:
			return b2i(l.K <= r.K)
		case token.GTR:
			return b2i(l.K > r.K)
		case token.GEQ:
			return b2i(l.K >= r.K)
		case token.AND:
			return Val{Kind: "int", K: l.K & r.K}
		case token.OR:
			return Val{Kind: "int", K: l.K | r.K}
		case token.AND_NOT:
			return Val{Kind: "int", K: l.K &^ r.K}
		case token.XOR:
			return Val{Kind: "int", K: l.K ^ r.K}
		case token.SUB:
			return Val{Kind: "int", K: l.K - r.K}
		case token.ADD:
			return Val{Kind: "int", K: l.K + r.K}
		case token.LAND:
			return b2i(l.K != 0 && r.K != 0)
		case token.LOR:
			return b2i(l.K != 0 || r.K != 0)
		}
		return Val{Kind: "bad"}
	case "call":
		// expand the callee's own table with its parameters bound to the
		// evaluated arguments
		sub, rows := tx.p.subTable(t.Fn)
		as2 := Assign{}
		var argv []Val
		for _, s := range t.Sub {
			argv = append(argv, tx.eval(s, as, depth+1))
		}
		for i, q := range t.Fn.Params {
			if i < len(argv) && argv[i].Kind == "int" {
				as2[q.Name()] = argv[i].K
			} else if i < len(argv) && argv[i].Kind == "nil" {
				as2[q.Name()] = 0
			} else if i < len(argv) && argv[i].Kind == "ref" {
				as2[q.Name()] = 1
			}
		}
		for _, r := range rows {
			if r.Loop != nil || len(r.Out) == 0 {
				continue
			}
			ok := true
			for _, g := range r.Guards {
				gv := sub.eval(g.T, as2, depth+1)
				if gv.Kind != "int" || (gv.K != 0) != g.Truth {
					ok = false
					break
				}
			}
			if ok && t.Idx < len(r.Out) {
				return sub.eval(r.Out[t.Idx], as2, depth+1)
			}
		}
		return Val{Kind: "bad"}
	}
	return Val{Kind: "bad"}
}

// atomsOfRow: atoms mentioned by the guards and outputs of a row.
func (tx *tableEx) atomsOf(ts ...*Term) []string {
	m := map[string]bool{}
	var rec func(t *Term)
	rec = func(t *Term) {
		if t == nil {
			return
		}
		if t.Kind == "atom" {
			m[t.Atom] = true
		}
		for _, s := range t.Sub {
			rec(s)
		}
	}
	for _, t := range ts {
		rec(t)
	}
	return sortedKeys(m)
}

// assignments enumerates the product of the domains of the named atoms.
func (tx *tableEx) assignments(names []string, fixed Assign) []Assign {
	out := []Assign{{}}
	for k, v := range fixed {
		out[0][k] = v
	}
	for _, n := range names {
		if _, ok := fixed[n]; ok {
			continue
		}
		ai := tx.atoms[n]
		if ai == nil {
			continue
		}
		var next []Assign
		for _, a := range out {
			for _, d := range ai.Dom {
				b := Assign{}
				for k, v := range a {
					b[k] = v
				}
				b[n] = d
				next = append(next, b)
			}
		}
		out = next
	}
	return out
}

// satisfied: all guards of the row hold under the assignment; bad guards
// (opaque conditions) are reported.
func (tx *tableEx) satisfied(r *PathRow, as Assign) (bool, string) {
	for _, g := range r.Guards {
		v := tx.eval(g.T, as, 0)
		if v.Kind != "int" {
			return false, "condition not understood: " + g.T.String()
		}
		if (v.K != 0) != g.Truth {
			return false, ""
		}
	}
	return true, ""
}

func wellFormed(t *Term) bool {
	if t == nil || t.Kind == "opaque" {
		return false
	}
	for _, s := range t.Sub {
		if !wellFormed(s) {
			return false
		}
	}
	return true
}

// models enumerates the assignments of the named atoms under which every guard
// of the row holds, pruning as soon as a guard's atoms are all assigned (the
// same set `assignments`+`satisfied` gives, without building the product).
func (tx *tableEx) models(r *PathRow, names []string) []Assign {
	var ns []string
	idx := map[string]int{}
	for _, n := range names {
		if tx.atoms[n] != nil {
			idx[n] = len(ns)
			ns = append(ns, n)
		}
	}
	// guard → position after which it can be decided
	at := make([][]Guard, len(ns)+1)
	for _, g := range r.Guards {
		last := 0
		decidable := true
		for _, a := range tx.atomsOf(g.T) {
			i, ok := idx[a]
			if !ok {
				decidable = false
				break
			}
			if i+1 > last {
				last = i + 1
			}
		}
		if !decidable {
			last = len(ns)
		}
		at[last] = append(at[last], g)
	}
	var out []Assign
	cur := Assign{}
	holds := func(gs []Guard) bool {
		for _, g := range gs {
			v := tx.eval(g.T, cur, 0)
			if v.Kind != "int" || (v.K != 0) != g.Truth {
				return false
			}
		}
		return true
	}
	var rec func(i int)
	rec = func(i int) {
		if !holds(at[i]) {
			return
		}
		if i == len(ns) {
			b := Assign{}
			for k, v := range cur {
				b[k] = v
			}
			out = append(out, b)
			return
		}
		for _, d := range tx.atoms[ns[i]].Dom {
			cur[ns[i]] = d
			rec(i + 1)
		}
		delete(cur, ns[i])
	}
	rec(0)
	return out
}
