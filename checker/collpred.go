package main

// Conditions on a collector, seen through tiny predicate helpers.
//
// The executor asks `found == nil` (often `next == nil && found == nil`) in
// many places; a maintainer may give that test a name
// (`existenceOnly(next, found)`). The rules that reason about the collector's
// nil-ness evaluate a condition in three-valued logic given only that fact,
// looking into helper functions whose body is nothing but comparisons of their
// parameters with nil or constants joined by !, && and ||.

import (
	"go/constant"
	"go/token"

	"golang.org/x/tools/go/ssa"
)

// tinyPredicate: fn returns one bool computed only from comparisons of its
// parameters with constants, !, && and || (no calls, loads or stores).
func tinyPredicate(fn *ssa.Function) bool {
	if fn == nil || fn.Blocks == nil || len(fn.Blocks) > 8 || fn.Signature.Results().Len() != 1 {
		return false
	}
	for _, b := range fn.Blocks {
		for _, ins := range b.Instrs {
			switch x := ins.(type) {
			case *ssa.If, *ssa.Jump, *ssa.Return, *ssa.Phi, *ssa.DebugRef:
			case *ssa.UnOp:
				if x.Op != token.NOT {
					return false
				}
			case *ssa.BinOp:
				for _, o := range []ssa.Value{x.X, x.Y} {
					switch o.(type) {
					case *ssa.Parameter, *ssa.Const:
					default:
						return false
					}
				}
			default:
				return false
			}
		}
	}
	return true
}

// tri is a three-valued truth.
type tri int

const (
	triUnknown tri = iota
	triTrue
	triFalse
)

func triOf(b bool) tri {
	if b {
		return triTrue
	}
	return triFalse
}

func (t tri) not() tri {
	switch t {
	case triTrue:
		return triFalse
	case triFalse:
		return triTrue
	}
	return triUnknown
}

// collTruth evaluates cond knowing only whether the collector coll is nil.
// resolve maps a phi to the value it has on the path being walked (or returns
// its argument). usedColl reports whether the collector's nil-ness decided.
func collTruth(cond ssa.Value, coll ssa.Value, collIsNil bool, resolve func(ssa.Value) ssa.Value, depth int) (t tri, usedColl bool) {
	if depth > 8 || cond == nil {
		return triUnknown, false
	}
	if resolve != nil {
		cond = resolve(cond)
	}
	switch x := cond.(type) {
	case *ssa.Const:
		if x.Value != nil {
			switch x.Value.ExactString() {
			case "true":
				return triTrue, false
			case "false":
				return triFalse, false
			}
		}
	case *ssa.UnOp:
		if x.Op == token.NOT {
			t, u := collTruth(x.X, coll, collIsNil, resolve, depth+1)
			return t.not(), u
		}
	case *ssa.BinOp:
		if x.Op == token.EQL || x.Op == token.NEQ {
			if (x.X == coll && isNilConst(x.Y)) || (x.Y == coll && isNilConst(x.X)) {
				return triOf(collIsNil == (x.Op == token.EQL)), true
			}
		}
	case *ssa.Phi:
		if ops, isOr, ok := shortCircuit(x, 0); ok {
			anyUnknown, used := false, false
			for _, o := range ops {
				t, u := collTruth(o, coll, collIsNil, resolve, depth+1)
				used = used || u
				if (isOr && t == triTrue) || (!isOr && t == triFalse) {
					return t, u
				}
				if t == triUnknown {
					anyUnknown = true
				}
			}
			if !anyUnknown {
				return triOf(!isOr), used
			}
		}
	case *ssa.Call:
		h := x.Call.StaticCallee()
		if h == nil || !inModule(h) || !tinyPredicate(h) {
			return triUnknown, false
		}
		idx := -1
		for i, a := range x.Call.Args {
			if a == coll {
				idx = i
			}
		}
		if idx < 0 || idx >= len(h.Params) {
			return triUnknown, false
		}
		// the helper's single return value, with its own parameter as collector
		for _, b := range h.Blocks {
			if r, ok := b.Instrs[len(b.Instrs)-1].(*ssa.Return); ok && len(r.Results) == 1 {
				if len(returnsOf(h)) != 1 {
					return triUnknown, false
				}
				return collTruth(r.Results[0], h.Params[idx], collIsNil, nil, depth+1)
			}
		}
	}
	return triUnknown, false
}

// impliesNilCollector: cond can only be true when coll is nil.
func impliesNilCollector(cond ssa.Value, coll ssa.Value) bool {
	t, used := collTruth(cond, coll, false, nil, 0)
	return used && t == triFalse
}

// impliesCollector: cond can only be true when coll is non-nil.
func impliesCollector(cond ssa.Value, coll ssa.Value) bool {
	t, used := collTruth(cond, coll, true, nil, 0)
	return used && t == triFalse
}

// predTruth evaluates a call of a named test (purePredicate) in three-valued
// logic: the callee's branches are followed with its conditions rebuilt over
// the caller's values and judged by atom (which knows what the rule assumes on
// the path being walked); both branches are taken where atom does not know.
// The answer is a truth only when every return reached agrees.
func predTruth(c *ssa.Call, atom func(ssa.Value) tri, depth int) tri {
	if c == nil || c.Call.IsInvoke() || depth > 3 {
		return triUnknown
	}
	h := c.Call.StaticCallee()
	if h == nil || !inModule(h) || !purePredicate(h) || len(h.Blocks) == 0 {
		return triUnknown
	}
	var evalV func(v ssa.Value, env map[*ssa.Phi]tri) tri
	evalV = func(v ssa.Value, env map[*ssa.Phi]tri) tri {
		switch x := v.(type) {
		case *ssa.Const:
			if x.Value != nil && x.Value.Kind() == constant.Bool {
				return triOf(constant.BoolVal(x.Value))
			}
			return triUnknown
		case *ssa.Phi:
			if t, ok := env[x]; ok {
				return t
			}
			return triUnknown
		case *ssa.UnOp:
			if x.Op == token.NOT {
				return evalV(x.X, env).not()
			}
		}
		sv := substInto(c, h, v, 0)
		if sv == nil {
			return triUnknown
		}
		if t := atom(sv); t != triUnknown {
			return t
		}
		if sc, ok := sv.(*ssa.Call); ok && sc != c {
			return predTruth(sc, atom, depth+1)
		}
		return triUnknown
	}
	result, any := triUnknown, false
	mixed := false
	budget := 200
	var walk func(b, from *ssa.BasicBlock, env map[*ssa.Phi]tri)
	walk = func(b, from *ssa.BasicBlock, env map[*ssa.Phi]tri) {
		if budget <= 0 {
			mixed = true
			return
		}
		budget--
		nenv := make(map[*ssa.Phi]tri, len(env)+2)
		for k, v := range env {
			nenv[k] = v
		}
		for _, ins := range b.Instrs {
			ph, ok := ins.(*ssa.Phi)
			if !ok {
				break
			}
			for i, pr := range b.Preds {
				if pr == from {
					nenv[ph] = evalV(ph.Edges[i], env)
				}
			}
		}
		switch x := b.Instrs[len(b.Instrs)-1].(type) {
		case *ssa.Return:
			t := evalV(x.Results[0], nenv)
			if t == triUnknown || (any && t != result) {
				mixed = true
			}
			result, any = t, true
		case *ssa.If:
			switch evalV(x.Cond, nenv) {
			case triTrue:
				walk(b.Succs[0], b, nenv)
			case triFalse:
				walk(b.Succs[1], b, nenv)
			default:
				walk(b.Succs[0], b, nenv)
				walk(b.Succs[1], b, nenv)
			}
		case *ssa.Jump:
			walk(b.Succs[0], b, nenv)
		default:
			mixed = true
		}
	}
	walk(h.Blocks[0], nil, map[*ssa.Phi]tri{})
	if mixed || !any {
		return triUnknown
	}
	return result
}
