package main

// sqljsonlint: repository-specific static checker for theory/sqljson.
//
//   sqljsonlint -prop C04 -tier quick            run the rules of one property on -repo
//   sqljsonlint -mode control ...                (internal) run rules under an overlay, print JSON
//   sqljsonlint -replay replays/C04-1.json       re-evaluate one recorded obligation
//
// Nothing here executes sqljson code; every verdict is computed from the
// type-checked source, its SSA form, its call graph, the goyacc automaton and
// the Go compiler's own diagnostics.

import (
	"bytes"
	"encoding/json"
	"flag"
	"fmt"
	"os"
	"os/exec"
	"path/filepath"
	"runtime/debug"
	"runtime/pprof"
	"sort"
	"strconv"
	"strings"
	"sync"
	"time"
)

var (
	flagRepo    = flag.String("repo", "/repo", "repository root")
	flagVerif   = flag.String("verif", "/verif", "verification root")
	flagProp    = flag.String("prop", "", "property id")
	flagTier    = flag.String("tier", "quick", "quick|thorough")
	flagMode    = flag.String("mode", "check", "check|control|list")
	flagControl = flag.String("control", "", "control/mutant JSON file (mode=control)")
	flagIndex   = flag.Int("index", 0, "index inside the control file")
	flagReplay  = flag.String("replay", "", "replay file")
	flagEnv     = flag.String("env", "", "extra env for the loader, e.g. GOARCH=386 (comma separated)")
	flagRules   = flag.String("rules", "", "restrict to these rules (comma separated; debugging)")
	flagVerbose = flag.Bool("v", false, "print every obligation")
)

// Control is a positive control / stored mutation: an in-memory edit of the
// repository under which the named rules must fire.
type Control struct {
	Name   string   `json:"name"`
	Why    string   `json:"why,omitempty"`
	Subs   []Subst  `json:"subs"`
	Expect []Expect `json:"expect"`
}

type Expect struct {
	Rule        string `json:"rule"`
	KeyContains string `json:"key_contains,omitempty"`
}

type controlResult struct {
	Name       string   `json:"name"`
	Stale      string   `json:"stale,omitempty"`
	LoadError  string   `json:"load_error,omitempty"`
	Violations []Ob     `json:"violations"`
	Missing    []Expect `json:"missing,omitempty"`
}

func main() {
	debug.SetGCPercent(200)
	flag.Parse()
	if pf := os.Getenv("VERIF_CPUPROFILE"); pf != "" {
		f, err := os.Create(pf)
		if err == nil {
			_ = pprof.StartCPUProfile(f)
			defer pprof.StopCPUProfile()
		}
	}
	if *flagReplay != "" {
		os.Exit(runReplay(*flagReplay))
	}
	switch *flagMode {
	case "all":
		// development aid for patch sweeps: load the tree once, run every rule
		// once, and print the violations of every property in the format the
		// sweep scripts read ("Cxx VIOLATION rule=… key=…"). No evidence, no
		// controls, no known-finding filtering: the registered checks are the
		// per-property ones.
		os.Exit(runAllMode())
	case "list":
		for _, id := range propOrder {
			fmt.Println(id, strings.Join(props[id].Rules, " "))
		}
	case "table":
		// debugging aid: dump the decision table of one function (-rules pkg:func)
		p, err := Load(*flagRepo, nil, nil, true)
		if err != nil {
			fmt.Println(err)
			os.Exit(1)
		}
		parts := strings.SplitN(*flagRules, ":", 2)
		fn := p.ssaFunc(parts[0], parts[1])
		if fn == nil {
			fmt.Println("no such function")
			os.Exit(1)
		}
		tx, rows := p.extractTable(fn, nil, &TableCfg{})
		for k, ai := range tx.atoms {
			fmt.Printf("atom %s kind=%s dom=%v\n", k, ai.Kind, ai.Dom)
		}
		for i, r := range rows {
			var gs []string
			for _, g := range r.Guards {
				gs = append(gs, fmt.Sprintf("%v:%s", g.Truth, g.T))
			}
			var os_ []string
			for _, o := range r.Out {
				os_ = append(os_, o.String())
			}
			var cs []string
			for _, c := range r.Calls {
				cs = append(cs, c.Name()+"="+calleeName(&c.Call))
			}
			fmt.Printf("row %d end=%s loop=%v\n  guards: %s\n  calls: %s\n  out: %s\n", i, p.pos(r.End.Pos()), r.Loop != nil, strings.Join(gs, " ∧ "), strings.Join(cs, " "), strings.Join(os_, ", "))
		}
	case "gram":
		p, err := Load(*flagRepo, nil, nil, true)
		if err != nil {
			fmt.Println(err)
			os.Exit(1)
		}
		g, err := p.grammar()
		if err != nil {
			fmt.Println(err)
			os.Exit(1)
		}
		fmt.Printf("rules=%d conflicts=%d/%d unknown=%v setPred=%v setResult=%v\n", len(g.Rules), g.SR, g.RR, g.Unknown, g.SetPredIn, g.SetResIn)
		var nts []string
		for nt := range g.Vals {
			nts = append(nts, nt)
		}
		sort.Strings(nts)
		for _, nt := range nts {
			v := g.Vals[nt]
			fmt.Printf("%s: nodes=%v head=%v tail=%v enums=%v stale=%v\n", nt, p.shapeStrings(v.Nodes), p.shapeStrings(v.Head), p.shapeStrings(v.Tail), len(v.Enums), v.Stale)
		}
		fmt.Println("ROOT:", p.shapeStrings(g.RootShapes))
		fmt.Println("NEXT:", p.shapeStrings(g.NextShapes))
		var sk []string
		for k, v := range g.Slots {
			sk = append(sk, fmt.Sprintf("%s.%s = %v", p.shapeString(NShape{T: k.T, Enum: k.Enum}), k.Field.Name(), p.shapeStrings(v)))
		}
		sort.Strings(sk)
		for _, s := range sk {
			fmt.Println("SLOT", s)
		}
	case "manifest":
		fmt.Println(mustJSON(manifest()))
	case "control":
		os.Exit(runControlMode())
	case "check":
		rc := runCheck()
		pprof.StopCPUProfile()
		os.Exit(rc)
	default:
		fmt.Fprintln(os.Stderr, "unknown mode")
		os.Exit(2)
	}
}

func extraEnv() []string {
	if *flagEnv == "" {
		return nil
	}
	return strings.Split(*flagEnv, ",")
}

// runRules runs the rules of a property on a loaded program.
func runRules(p *Prog, spec *PropSpec) []*RuleOut {
	var outs []*RuleOut
	only := map[string]bool{}
	if *flagRules != "" {
		for _, r := range strings.Split(*flagRules, ",") {
			only[r] = true
		}
	}
	for _, rn := range spec.Rules {
		if len(only) > 0 && !only[rn] {
			continue
		}
		r := rules[rn]
		if r == nil {
			o := newOut(rn)
			o.viol("rule-missing", "-", "", "rule "+rn+" is not implemented")
			outs = append(outs, o)
			continue
		}
		outs = append(outs, safeRun(r, p))
	}
	return outs
}

func safeRun(r *Rule, p *Prog) (out *RuleOut) {
	defer func() {
		if e := recover(); e != nil {
			if os.Getenv("VERIF_DEBUG_PANIC") != "" {
				fmt.Fprintf(os.Stderr, "rule %s panicked: %v\n%s\n", r.Name, e, debug.Stack())
			}
			out = newOut(r.Name)
			out.viol("checker-panic", "-", "", fmt.Sprintf("rule panicked: %v", e))
		}
	}()
	return r.Run(p)
}

func runAllMode() int {
	p, err := Load(*flagRepo, nil, extraEnv(), true)
	if err != nil {
		for _, id := range propOrder {
			fmt.Printf("%s LOAD ERROR %v\n", id, err)
		}
		return 1
	}
	done := map[string]*RuleOut{}
	for _, id := range propOrder {
		for _, rn := range props[id].Rules {
			o, ok := done[rn]
			if !ok {
				if r := rules[rn]; r != nil {
					o = safeRun(r, p)
					for k, f := range o.Floors {
						if o.Counts[k] < f {
							o.viol("vacuity:"+k, "-", "", fmt.Sprintf("rule analysed %d %s, fewer than the floor %d", o.Counts[k], k, f))
						}
					}
					sortObs(o.Obs)
				}
				done[rn] = o
			}
			if o == nil {
				fmt.Printf("%s VIOLATION rule=%s key=\"rule-missing\"\n", id, rn)
				continue
			}
			for _, ob := range o.Obs {
				switch ob.Status {
				case "violation":
					fmt.Printf("%s VIOLATION rule=%s key=%q site=%s func=%s: %s\n", id, ob.Rule, ob.Key, ob.Site, ob.Func, ob.Detail)
				case "undecided":
					fmt.Printf("%s UNDECIDED rule=%s key=%q site=%s func=%s: %s\n", id, ob.Rule, ob.Key, ob.Site, ob.Func, ob.Detail)
				}
			}
		}
	}
	return 0
}

func needSSA(spec *PropSpec) bool {
	for _, rn := range spec.Rules {
		if r := rules[rn]; r != nil && r.NeedSSA {
			return true
		}
	}
	return false
}

func runControlMode() int {
	spec := props[*flagProp]
	if spec == nil {
		fmt.Fprintln(os.Stderr, "unknown property")
		return 2
	}
	var ctrls []Control
	b, err := os.ReadFile(*flagControl)
	if err != nil {
		fmt.Fprintln(os.Stderr, err)
		return 2
	}
	if err := json.Unmarshal(b, &ctrls); err != nil {
		fmt.Fprintln(os.Stderr, err)
		return 2
	}
	c := ctrls[*flagIndex]
	res := controlResult{Name: c.Name, Violations: []Ob{}}
	ov, err := buildOverlay(*flagRepo, c.Subs)
	if err != nil {
		res.Stale = err.Error()
		fmt.Println(mustJSON(res))
		return 0
	}
	p, err := Load(*flagRepo, ov, extraEnv(), needSSA(spec))
	if err != nil {
		res.LoadError = err.Error()
		fmt.Println(mustJSON(res))
		return 0
	}
	for _, o := range runRules(p, spec) {
		for _, ob := range o.Obs {
			if ob.Status == "violation" || ob.Status == "undecided" {
				res.Violations = append(res.Violations, ob)
			}
		}
		for k, f := range o.Floors {
			if o.Counts[k] < f {
				res.Violations = append(res.Violations, Ob{Rule: o.Rule, Key: "vacuity:" + k, Status: "violation",
					Detail: fmt.Sprintf("count %d below floor %d", o.Counts[k], f)})
			}
		}
	}
	for _, e := range c.Expect {
		hit := false
		for _, v := range res.Violations {
			if v.Rule == e.Rule && strings.Contains(v.Key, e.KeyContains) {
				hit = true
			}
		}
		if !hit {
			res.Missing = append(res.Missing, e)
		}
	}
	fmt.Println(mustJSON(res))
	return 0
}

// firedUnderOtherKeys: every rule the control expects reports at least as
// many violations that the unmutated tree does not have as the control
// expects of it. A missing key match is then a matter of naming (the function
// the key names was renamed, split or merged), not a dead rule.
func firedUnderOtherKeys(cr controlResult, c Control, base []Ob) bool {
	have := map[string]bool{}
	for _, ob := range base {
		if ob.Status == "violation" || ob.Status == "undecided" || ob.Status == "known" {
			have[ob.Rule+"\x00"+ob.Key] = true
		}
	}
	want := map[string]int{}
	for _, e := range c.Expect {
		want[e.Rule]++
	}
	got := map[string]int{}
	for _, v := range cr.Violations {
		if !have[v.Rule+"\x00"+v.Key] {
			got[v.Rule]++
		}
	}
	for r, n := range want {
		if got[r] < n {
			return false
		}
	}
	return true
}

func loadControls(path string) ([]Control, error) {
	b, err := os.ReadFile(path)
	if err != nil {
		if os.IsNotExist(err) {
			return nil, nil
		}
		return nil, err
	}
	var cs []Control
	if err := json.Unmarshal(b, &cs); err != nil {
		return nil, fmt.Errorf("%s: %w", path, err)
	}
	return cs, nil
}

// spawnControls runs each control of a file in its own process (bounded
// parallelism, bounded memory) and returns their results.
func spawnControls(prop, file string, n int, par int) []controlResult {
	res := make([]controlResult, n)
	sem := make(chan struct{}, par)
	var wg sync.WaitGroup
	self, _ := os.Executable()
	for i := 0; i < n; i++ {
		wg.Add(1)
		go func(i int) {
			defer wg.Done()
			sem <- struct{}{}
			defer func() { <-sem }()
			cmd := exec.Command(self, "-mode", "control", "-prop", prop, "-control", file, "-index", strconv.Itoa(i),
				"-repo", *flagRepo, "-verif", *flagVerif)
			var out, errb bytes.Buffer
			cmd.Stdout, cmd.Stderr = &out, &errb
			err := cmd.Run()
			if err != nil {
				res[i] = controlResult{Name: fmt.Sprintf("#%d", i), LoadError: "control process failed: " + err.Error() + ": " + trunc(errb.String(), 400)}
				return
			}
			if e := json.Unmarshal(out.Bytes(), &res[i]); e != nil {
				res[i] = controlResult{Name: fmt.Sprintf("#%d", i), LoadError: "control output unparsable: " + trunc(out.String(), 200)}
			}
		}(i)
	}
	wg.Wait()
	return res
}

func runCheck() int {
	start := time.Now()
	id := *flagProp
	spec := props[id]
	if spec == nil {
		fmt.Fprintf(os.Stderr, "unknown property %q\n", id)
		return 2
	}
	tier := *flagTier
	if t := os.Getenv("VERIF_TIER"); t != "" && *flagTier == "" {
		tier = t
	}
	seed := 0
	if s, err := strconv.Atoi(os.Getenv("VERIF_SEED")); err == nil {
		seed = s
	}
	evPath := filepath.Join(*flagVerif, "evidence", id+".json")
	kf, err := loadKnown(filepath.Join(*flagVerif, "known_findings.json"))
	if err != nil {
		return failHard(id, evPath, tier, seed, start, err)
	}

	// Controls run concurrently with the main analysis.
	ctrlFile := filepath.Join(*flagVerif, "controls", id+".json")
	ctrls, err := loadControls(ctrlFile)
	if err != nil {
		return failHard(id, evPath, tier, seed, start, err)
	}
	var ctrlRes []controlResult
	var cwg sync.WaitGroup
	if len(ctrls) > 0 {
		cwg.Add(1)
		go func() { defer cwg.Done(); ctrlRes = spawnControls(id, ctrlFile, len(ctrls), 6) }()
	}

	p, err := Load(*flagRepo, nil, extraEnv(), needSSA(spec))
	if err != nil {
		cwg.Wait()
		return failHard(id, evPath, tier, seed, start, err)
	}
	outs := runRules(p, spec)

	var all []Ob
	ruleSummaries := []map[string]any{}
	var problems []string
	for _, o := range outs {
		sortObs(o.Obs)
		for k, f := range o.Floors {
			if o.Counts[k] < f {
				o.viol("vacuity:"+k, "-", "", fmt.Sprintf("rule analysed %d %s, fewer than the floor %d confirmed on the pinned tree: the rule would pass vacuously", o.Counts[k], k, f))
			}
		}
		st := map[string]int{}
		for i := range o.Obs {
			ob := &o.Obs[i]
			if ob.Status == "violation" || ob.Status == "undecided" {
				if k := kf.match(id, ob); k != nil && ob.Status == "violation" {
					ob.Status = "known"
					ob.Detail += " [known finding: " + k.What + "]"
				}
			}
			st[ob.Status]++
		}
		all = append(all, o.Obs...)
		ruleSummaries = append(ruleSummaries, map[string]any{"rule": o.Rule, "doc": ruleDoc(o.Rule), "obligations": len(o.Obs),
			"status": st, "counts": o.Counts, "floors": o.Floors, "notes": o.Notes})
	}

	// extra build configurations (thorough)
	var extraCfg []map[string]any
	if tier == "thorough" && *flagEnv == "" {
		for _, cfg := range spec.ExtraConfigs {
			v, n, e := runOtherConfig(id, cfg)
			extraCfg = append(extraCfg, map[string]any{"env": cfg, "obligations": n, "violations": len(v), "error": e})
			if e != "" {
				problems = append(problems, "config "+cfg+": "+e)
			}
			for _, ob := range v {
				ob.Key = ob.Key + " [" + cfg + "]"
				if k := kf.match(id, &Ob{Rule: ob.Rule, Key: strings.TrimSuffix(ob.Key, " ["+cfg+"]")}); k != nil {
					continue
				}
				all = append(all, ob)
			}
		}
	}

	cwg.Wait()
	ctrlSummary := []map[string]any{}
	for i, cr := range ctrlRes {
		s := map[string]any{"name": ctrls[i].Name, "expect": ctrls[i].Expect}
		switch {
		case cr.Stale != "":
			s["result"] = "stale (repository text changed; control skipped): " + cr.Stale
		case cr.LoadError != "":
			// A control that does not type-check is a defect of the control.
			s["result"] = "control did not load: " + cr.LoadError
			problems = append(problems, "control "+ctrls[i].Name+" did not load: "+cr.LoadError)
		case len(cr.Missing) > 0 && !firedUnderOtherKeys(cr, ctrls[i], all):
			s["result"] = "RULE DEAD"
			for _, m := range cr.Missing {
				problems = append(problems, fmt.Sprintf("positive control %q: rule %s did not fire (expected key containing %q) — rule dead", ctrls[i].Name, m.Rule, m.KeyContains))
			}
		case len(cr.Missing) > 0:
			// the code the control mutates has been reorganised (renamed or
			// moved functions): the rule still reports as many new
			// violations as the control expects of it, under other keys
			s["result"] = "fired (under other keys than recorded: the mutated code has moved)"
			var ks []string
			for _, v := range cr.Violations {
				ks = append(ks, v.Rule+":"+v.Key)
			}
			s["reported"] = ks
		default:
			s["result"] = "fired"
			var ks []string
			for _, v := range cr.Violations {
				ks = append(ks, v.Rule+":"+v.Key)
			}
			s["reported"] = ks
		}
		ctrlSummary = append(ctrlSummary, s)
	}

	// thorough: self-validation sweep over stored mutations + seeded patches,
	// cross-reference with generic tools
	var sweep, xref []map[string]any
	if tier == "thorough" {
		sweep, problems = runSweep(id, spec, problems)
		var xp []string
		xref, xp = crossRef(p, id, all)
		problems = append(problems, xp...)
	}

	// verdict
	sortObs(all)
	sort.SliceStable(all, func(i, j int) bool { return statusRank(all[i].Status) < statusRank(all[j].Status) })
	nViol := 0
	discharged := 0
	replayDir := filepath.Join(*flagVerif, "replays")
	for i := range all {
		ob := &all[i]
		switch ob.Status {
		case "known":
			fmt.Printf("KNOWN-FINDING: property=%s rule=%s key=%q site=%s %s\n", id, ob.Rule, ob.Key, ob.Site, ob.Detail)
			discharged++
		case "violation", "undecided":
			nViol++
			rp := filepath.Join(replayDir, fmt.Sprintf("%s-%d.json", id, nViol))
			_ = writeJSON(rp, map[string]any{"property": id, "rule": ob.Rule, "key": ob.Key, "site": ob.Site, "func": ob.Func,
				"status": ob.Status, "detail": ob.Detail, "witness": ob.Witness, "env": *flagEnv})
			fmt.Printf("%s rule=%s key=%q site=%s func=%s: %s\n", strings.ToUpper(ob.Status), ob.Rule, ob.Key, ob.Site, ob.Func, ob.Detail)
			for _, w := range ob.Witness {
				fmt.Printf("    %s\n", w)
			}
			fmt.Printf("VIOLATION property=%s replay=%s\n", id, rp)
		default:
			discharged++
			if *flagVerbose {
				fmt.Printf("%s rule=%s key=%q site=%s %s\n", ob.Status, ob.Rule, ob.Key, ob.Site, ob.Detail)
			}
		}
	}
	for _, pr := range problems {
		nViol++
		rp := filepath.Join(replayDir, fmt.Sprintf("%s-%d.json", id, nViol))
		_ = writeJSON(rp, map[string]any{"property": id, "rule": "checker", "key": "checker-problem", "detail": pr})
		fmt.Printf("CHECKER-PROBLEM: %s\n", pr)
		fmt.Printf("VIOLATION property=%s replay=%s\n", id, rp)
	}

	nfn, nmodfn := 0, 0
	for fn := range p.AllFns {
		nfn++
		if inModule(fn) {
			nmodfn++
		}
	}
	var pkgNames []string
	for _, pk := range p.ModPkgs {
		pkgNames = append(pkgNames, pk.PkgPath)
	}
	self, _ := os.Executable()
	ev := Evidence{PropertyID: id, Tier: tier, Seed: seed, Level: "other", WallS: time.Since(start).Seconds(), Violations: nViol,
		Assumptions: append([]string{}, spec.Assumptions...)}
	ev.Coverage = map[string]any{
		"explanation":        spec.Explanation,
		"decided_clauses":    decidedClauses(spec),
		"not_decided":        spec.NotDecided,
		"obligations":        len(all),
		"discharged":         discharged,
		"checker_cmd":        fmt.Sprintf("%s -prop %s -tier %s -repo %s", self, id, tier, *flagRepo),
		"trusted_base":       spec.Trusted,
		"rules":              ruleSummaries,
		"packages_analysed":  pkgNames,
		"functions_analysed": map[string]int{"module": nmodfn, "with_dependencies": nfn},
		"positive_controls":  ctrlSummary,
		"samples":            sampleObs(all, 6),
		"exhaustive":         false,
	}
	if extraCfg != nil {
		ev.Coverage["extra_build_configurations"] = extraCfg
	}
	if sweep != nil {
		ev.Coverage["self_validation_sweep"] = sweep
	}
	if xref != nil {
		ev.Coverage["cross_reference"] = xref
	}
	if err := writeJSON(evPath, ev); err != nil {
		fmt.Fprintln(os.Stderr, "evidence:", err)
		return 2
	}
	fmt.Printf("property=%s tier=%s rules=%d obligations=%d discharged=%d violations=%d wall=%.1fs\n",
		id, tier, len(outs), len(all), discharged, nViol, time.Since(start).Seconds())
	if nViol > 0 {
		return 1
	}
	return 0
}

func ruleDoc(name string) string {
	if r := rules[name]; r != nil {
		return r.Doc
	}
	return ""
}

// failHard: the analysis could not be carried out (load/type error, anchor
// unresolved). That is a failure of the check, never a silent pass.
func failHard(id, evPath, tier string, seed int, start time.Time, err error) int {
	rp := filepath.Join(*flagVerif, "replays", id+"-1.json")
	_ = writeJSON(rp, map[string]any{"property": id, "rule": "loader", "key": "analysis-failed", "detail": err.Error()})
	ev := Evidence{PropertyID: id, Tier: tier, Seed: seed, Level: "other", WallS: time.Since(start).Seconds(), Violations: 1,
		Assumptions: []string{},
		Coverage: map[string]any{"explanation": "analysis could not be carried out: " + err.Error(), "obligations": 0, "discharged": 0,
			"samples": []any{map[string]any{"error": err.Error()}}}}
	_ = writeJSON(evPath, ev)
	fmt.Printf("ANALYSIS-FAILED: %v\n", err)
	fmt.Printf("VIOLATION property=%s replay=%s\n", id, rp)
	return 1
}

// runOtherConfig re-runs the property's rules under another GOOS/GOARCH in a
// child process and returns its violations.
func runOtherConfig(id, cfg string) ([]Ob, int, string) {
	self, _ := os.Executable()
	tmp, err := os.MkdirTemp("", "sqljsonlint-cfg-")
	if err != nil {
		return nil, 0, err.Error()
	}
	defer os.RemoveAll(tmp)
	cmd := exec.Command(self, "-mode", "control", "-prop", id, "-control", writeTmpControl(tmp), "-index", "0",
		"-repo", *flagRepo, "-verif", *flagVerif, "-env", cfg)
	var out, errb bytes.Buffer
	cmd.Stdout, cmd.Stderr = &out, &errb
	if err := cmd.Run(); err != nil {
		return nil, 0, err.Error() + ": " + trunc(errb.String(), 300)
	}
	var cr controlResult
	if err := json.Unmarshal(out.Bytes(), &cr); err != nil {
		return nil, 0, "unparsable: " + trunc(out.String(), 200)
	}
	if cr.LoadError != "" {
		return nil, 0, cr.LoadError
	}
	return cr.Violations, len(cr.Violations), ""
}

func writeTmpControl(dir string) string {
	f := filepath.Join(dir, "empty.json")
	_ = os.WriteFile(f, []byte(`[{"name":"identity","subs":[],"expect":[]}]`), 0o644)
	return f
}

func runReplay(path string) int {
	b, err := os.ReadFile(path)
	if err != nil {
		fmt.Fprintln(os.Stderr, err)
		return 2
	}
	var r struct {
		Property, Rule, Key, Env string
	}
	if err := json.Unmarshal(b, &r); err != nil {
		fmt.Fprintln(os.Stderr, err)
		return 2
	}
	spec := props[r.Property]
	if spec == nil {
		fmt.Fprintln(os.Stderr, "replay: unknown property")
		return 2
	}
	var env []string
	if r.Env != "" {
		env = strings.Split(r.Env, ",")
	}
	p, err := Load(*flagRepo, nil, env, needSSA(spec))
	if err != nil {
		fmt.Printf("ANALYSIS-FAILED: %v\nVIOLATION property=%s replay=%s\n", err, r.Property, path)
		return 1
	}
	key := r.Key
	if i := strings.LastIndex(key, " ["); i > 0 && strings.HasSuffix(key, "]") {
		key = key[:i]
	}
	for _, o := range runRules(p, spec) {
		for k, f := range o.Floors {
			if o.Counts[k] < f {
				o.viol("vacuity:"+k, "-", "", "below floor")
			}
		}
		for _, ob := range o.Obs {
			if ob.Rule == r.Rule && ob.Key == key && (ob.Status == "violation" || ob.Status == "undecided") {
				fmt.Printf("%s rule=%s key=%q site=%s func=%s: %s\n", strings.ToUpper(ob.Status), ob.Rule, ob.Key, ob.Site, ob.Func, ob.Detail)
				for _, w := range ob.Witness {
					fmt.Printf("    %s\n", w)
				}
				fmt.Printf("VIOLATION property=%s replay=%s\n", r.Property, path)
				return 1
			}
		}
	}
	fmt.Printf("replay: obligation rule=%s key=%q no longer in violation on the current tree\n", r.Rule, r.Key)
	return 0
}
