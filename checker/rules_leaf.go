package main

// R-LEAF (C15): an empty container is not a scalar leaf.
//
// `.**{last}` selects the scalar leaves. The traversal recognises a leaf by the
// nil-ness of "the children of the element" (a []any computed by a helper).
// That is only a type test if the helper returns a non-nil slice for every
// container, including the empty ones. For each return of the helper on a path
// where the element has been found to be a map or a slice, the returned slice
// must be provably non-nil: a make, a slice of an array, an append with a
// non-nil base or at least one element, slices.AppendSeq on a non-nil base, or
// the asserted element itself. slices.Collect, slices.Sorted, append on a nil
// base inside a loop that may not run: all return nil for an empty container.

import (
	"fmt"
	"go/token"
	"go/types"

	"golang.org/x/tools/go/ssa"
)

// nonNilSlice: v is a slice that cannot be nil.
func nonNilSlice(v ssa.Value, depth int) (bool, string) {
	if depth > 6 {
		return false, "too deep"
	}
	switch x := stripConv(v).(type) {
	case *ssa.MakeSlice:
		return true, ""
	case *ssa.Slice:
		if _, ok := x.X.(*ssa.Alloc); ok {
			return true, ""
		}
		return nonNilSlice(x.X, depth+1)
	case *ssa.TypeAssert:
		return true, "" // the element itself (a []any held in an interface)
	case *ssa.Extract:
		if _, ok := x.Tuple.(*ssa.TypeAssert); ok && x.Index == 0 {
			return true, ""
		}
	case *ssa.Phi:
		for _, e := range x.Edges {
			if ok, why := nonNilSlice(e, depth+1); !ok {
				return false, why
			}
		}
		return true, ""
	case *ssa.Const:
		return false, "nil"
	case *ssa.Call:
		if bi, ok := x.Call.Value.(*ssa.Builtin); ok && bi.Name() == "append" && len(x.Call.Args) == 2 {
			if ok, _ := nonNilSlice(x.Call.Args[0], depth+1); ok {
				return true, ""
			}
			// append(s, e1, …): the variadic part is a slice of a fixed array
			if sl, ok := x.Call.Args[1].(*ssa.Slice); ok {
				if a, ok := sl.X.(*ssa.Alloc); ok {
					if at, ok := a.Type().(*types.Pointer).Elem().Underlying().(*types.Array); ok && at.Len() > 0 {
						return true, ""
					}
				}
			}
			return false, "append on a base that may be nil with no certain element"
		}
		if q := calleeQualified(&x.Call); q == "slices.AppendSeq" || q == "slices.Grow" || q == "slices.Clip" {
			if len(x.Call.Args) > 0 {
				return nonNilSlice(x.Call.Args[0], depth+1)
			}
		}
		return false, "the result of " + calleeName(&x.Call) + " (nil when there is nothing to return)"
	}
	return false, fmt.Sprintf("%T", v)
}

var ruleLeaf = &Rule{
	Name: "R-LEAF", NeedSSA: true,
	Doc: "where the traversal decides `leaf` by comparing the children of the element (a []any computed by a helper from the element) with nil, every return of that helper on a path where the element was found to be a map or a slice yields a provably non-nil slice (make, slice of an array, append with a non-nil base or a certain element, slices.AppendSeq on a non-nil base, the asserted element itself): otherwise an empty object or array counts as a scalar leaf and `.**{last}` returns it",
	Run: func(p *Prog) *RuleOut {
		out := newOut("R-LEAF")
		// the traversal: the self-recursive executor method over a []any
		var T *ssa.Function
		for _, fn := range p.execFuncs() {
			if !isMethodOfExecutor(p, fn) || len(callsTo(fn, fn)) == 0 {
				continue
			}
			for _, q := range fn.Params {
				if sl, ok := q.Type().(*types.Slice); ok && types.IsInterface(sl.Elem()) {
					T = fn
				}
			}
		}
		if T == nil {
			out.undecided("traversal function", "-", "", "anchor unresolved: self-recursive executor method over a []any")
			return out
		}
		n := 0
		for _, b := range T.Blocks {
			for _, ins := range b.Instrs {
				bo, ok := ins.(*ssa.BinOp)
				if !ok || (bo.Op != token.EQL && bo.Op != token.NEQ) || !isNilConst(bo.Y) {
					continue
				}
				if _, isSl := bo.X.Type().Underlying().(*types.Slice); !isSl {
					continue
				}
				c, ok := bo.X.(*ssa.Call)
				if !ok || c.Call.StaticCallee() == nil || !inModule(c.Call.StaticCallee()) || len(c.Call.Args) != 1 {
					continue
				}
				h := c.Call.StaticCallee()
				if len(h.Params) != 1 || !types.IsInterface(h.Params[0].Type()) {
					continue
				}
				n++
				ord := 0
				for _, r := range expandedReturns(h) {
					if len(r.Results) != 1 {
						continue
					}
					// the dynamic type established on the way to this return
					kind := ""
					for _, f := range r.Facts {
						if !f.Truth {
							continue
						}
						ex, ok := f.Cond.(*ssa.Extract)
						if !ok || ex.Index != 1 {
							continue
						}
						ta, ok := ex.Tuple.(*ssa.TypeAssert)
						if !ok || ta.X != ssa.Value(h.Params[0]) {
							continue
						}
						switch ta.AssertedType.Underlying().(type) {
						case *types.Map:
							kind = "object"
						case *types.Slice:
							kind = "array"
						}
					}
					if kind == "" {
						continue
					}
					ord++
					key := fmt.Sprintf("%s: children of an %s (return #%d)", fnName(h), kind, ord)
					if ok, why := nonNilSlice(r.Results[0], 0); ok {
						out.ok(key, p.pos(r.Instr.Pos()), fnName(h), "never nil: an empty "+kind+" is not taken for a leaf")
					} else {
						out.viol(key, p.pos(r.Instr.Pos()), fnName(h), "the children of an empty "+kind+" may be a nil slice ("+why+"), and "+fnName(T)+" takes nil children for a scalar leaf at "+p.pos(bo.Pos())+": `.**{last}` returns empty "+kind+"s among the scalar leaves")
					}
				}
			}
		}
		out.Counts["leaf_tests_by_nil_children"] = n
		if n == 0 {
			out.ok("leaf test", p.pos(T.Pos()), fnName(T), "the traversal does not decide `leaf` by the nil-ness of a computed children slice")
		}
		return out
	},
}

func init() { register(ruleLeaf) }

// R-EMITORDER (C15, C09): the traversal emits one element at a time.
//
// Document pre-order requires that an element is emitted and its subtree
// visited before its next sibling is emitted. In the traversal function the
// result list is therefore written only by handing it the element just loaded
// from the sequence (inside the loop); a store to the list's fields, an append
// of the whole sequence, or a list method receiving anything but that element
// emits siblings ahead of descendants.
var ruleEmitOrder = &Rule{
	Name: "R-EMITORDER", NeedSSA: true,
	Doc: "in the traversal function (the self-recursive executor method over a []any) the result list is written only by a list method that receives the element just loaded from the sequence; no store to the list's fields, no builtin append on them, no list method receiving the sequence or anything else: a bulk emission of a level puts siblings before descendants and breaks document pre-order",
	Run: func(p *Prog) *RuleOut {
		out := newOut("R-EMITORDER")
		var T *ssa.Function
		var valueP *ssa.Parameter
		for _, fn := range p.execFuncs() {
			if !isMethodOfExecutor(p, fn) || len(callsTo(fn, fn)) == 0 {
				continue
			}
			for _, q := range fn.Params {
				if sl, ok := q.Type().(*types.Slice); ok && types.IsInterface(sl.Elem()) {
					T, valueP = fn, q
				}
			}
		}
		coll := (*ssa.Parameter)(nil)
		if T != nil {
			coll = p.collectorParam(T)
		}
		if T == nil || coll == nil {
			out.undecided("traversal function", "-", "", "anchor unresolved: self-recursive executor method over a []any with a collector")
			return out
		}
		isElem := func(v ssa.Value) bool {
			u, ok := stripConv(v).(*ssa.UnOp)
			if !ok || u.Op != token.MUL {
				return false
			}
			ia, ok := u.X.(*ssa.IndexAddr)
			return ok && ia.X == ssa.Value(valueP)
		}
		nw := 0
		var bad []string
		for _, b := range T.Blocks {
			for _, ins := range b.Instrs {
				switch x := ins.(type) {
				case *ssa.Store:
					if fa, ok := x.Addr.(*ssa.FieldAddr); ok && fa.X == ssa.Value(coll) {
						nw++
						bad = append(bad, "a store to the result list's field at "+p.pos(x.Pos()))
					}
				case *ssa.Call:
					sc := x.Call.StaticCallee()
					if sc == nil || sc.Signature.Recv() == nil || namedOf(sc.Signature.Recv().Type()) != p.A.ValueList || len(x.Call.Args) == 0 || x.Call.Args[0] != ssa.Value(coll) {
						continue
					}
					if len(writesOf(sc)) == 0 {
						continue // a reader (isEmpty, len)
					}
					nw++
					if len(x.Call.Args) != 2 || !isElem(x.Call.Args[1]) {
						bad = append(bad, "the list method "+sc.Name()+" at "+p.pos(x.Pos())+" receives something other than the element just visited")
					}
				}
			}
		}
		out.Counts["writes_to_the_result_list_in_the_traversal"] = nw
		out.Floors["writes_to_the_result_list_in_the_traversal"] = 1
		if len(bad) == 0 {
			out.ok("the traversal emits one element at a time", p.pos(T.Pos()), fnName(T), fmt.Sprintf("%d write(s) to the result list, each handing over the element just loaded from the sequence", nw))
		} else {
			out.viol("the traversal emits one element at a time", p.pos(T.Pos()), fnName(T), bad[0]+": a level emitted in bulk puts siblings ahead of the descendants of earlier siblings (document pre-order is lost)", bad...)
		}
		return out
	},
}

func init() { register(ruleEmitOrder) }
