package main

import (
	"fmt"
	"go/token"
	"go/types"
	"sort"
	"strings"

	"golang.org/x/tools/go/ssa"
)

// reachesTZ: functions from which types.TZFromContext is reachable.
func (p *Prog) reachesTZ() map[*ssa.Function]bool {
	target := p.ssaOf(p.A.TZFromContext)
	out := map[*ssa.Function]bool{}
	if target == nil {
		return out
	}
	out[target] = true
	work := []*ssa.Function{target}
	for len(work) > 0 {
		f := work[0]
		work = work[1:]
		n := p.CG.Nodes[f]
		if n == nil {
			continue
		}
		for _, e := range n.In {
			c := e.Caller.Func
			if !out[c] && inModule(c) {
				out[c] = true
				work = append(work, c)
			}
		}
	}
	return out
}

// sliceCalls: the calls in the backward slice of v (within its function).
func sliceCalls(v ssa.Value, seen map[ssa.Value]bool, out *[]*ssa.Call) {
	if v == nil || seen[v] {
		return
	}
	seen[v] = true
	switch x := v.(type) {
	case *ssa.Call:
		*out = append(*out, x)
		for _, a := range x.Call.Args {
			sliceCalls(a, seen, out)
		}
		if x.Call.IsInvoke() {
			sliceCalls(x.Call.Value, seen, out)
		}
	case *ssa.Extract:
		sliceCalls(x.Tuple, seen, out)
	case *ssa.Phi:
		for _, e := range x.Edges {
			sliceCalls(e, seen, out)
		}
	case *ssa.UnOp:
		sliceCalls(x.X, seen, out)
	case *ssa.BinOp:
		sliceCalls(x.X, seen, out)
		sliceCalls(x.Y, seen, out)
	case *ssa.MakeInterface:
		sliceCalls(x.X, seen, out)
	case *ssa.ChangeType:
		sliceCalls(x.X, seen, out)
	case *ssa.Convert:
		sliceCalls(x.X, seen, out)
	case *ssa.FieldAddr:
		sliceCalls(x.X, seen, out)
	case *ssa.Field:
		sliceCalls(x.X, seen, out)
	}
}

func (p *Prog) dependsOnTZ(v ssa.Value, tz map[*ssa.Function]bool) bool {
	var calls []*ssa.Call
	sliceCalls(v, map[ssa.Value]bool{}, &calls)
	for _, c := range calls {
		for _, f := range p.calleesOf(c) {
			if tz[f] {
				return true
			}
		}
	}
	return false
}

// useTZFact: facts say the WithTZ option is on (want=true) or off.
func (p *Prog) useTZFact(fs []Fact, want bool) bool {
	for _, f := range fs {
		if p.isUseTZValue(f.Cond, 0) && f.Truth == want {
			return true
		}
		// `if err := requireTZ(useTZ, …); err != nil`: the error of a guard
		// helper is nil exactly when its bool argument is true
		if bo, ok := f.Cond.(*ssa.BinOp); ok && (bo.Op == token.EQL || bo.Op == token.NEQ) && isNilConst(bo.Y) {
			if c, ok := bo.X.(*ssa.Call); ok {
				if arg, ok := boolGuardArg(c); ok && p.isUseTZValue(arg, 0) {
					if errIsNil := (bo.Op == token.EQL) == f.Truth; errIsNil == want {
						return true
					}
				}
			}
		}
	}
	return false
}

// boolGuardArg: c calls a module function returning only an error that is nil
// exactly on the paths where one of its bool parameters is true; the argument
// passed for that parameter.
func boolGuardArg(c *ssa.Call) (ssa.Value, bool) {
	h := c.Call.StaticCallee()
	if h == nil || !inModule(h) || h.Blocks == nil || h.Signature.Results().Len() != 1 || !isErrorType(h.Signature.Results().At(0).Type()) {
		return nil, false
	}
	for i, q := range h.Params {
		if b, ok := q.Type().Underlying().(*types.Basic); !ok || b.Kind() != types.Bool {
			continue
		}
		good, n := true, 0
		for _, r := range expandedReturns(h) {
			n++
			wantTrue := isNilConst(stripConv(r.Results[0]))
			found := false
			for _, f := range r.Facts {
				if f.Cond == ssa.Value(q) && f.Truth == wantTrue {
					found = true
				}
			}
			if !found {
				good = false
			}
		}
		if good && n >= 2 && i < len(c.Call.Args) {
			return c.Call.Args[i], true
		}
	}
	// … or where a bool field of one of its parameters (the receiver) is true:
	// the callee's own load of that field stands for the value
	cands := map[ssa.Value]bool{}
	rets := expandedReturns(h)
	for _, r := range rets {
		for _, f := range r.Facts {
			if u, ok := f.Cond.(*ssa.UnOp); ok && u.Op == token.MUL {
				if fa, ok := u.X.(*ssa.FieldAddr); ok {
					if _, isParam := fa.X.(*ssa.Parameter); isParam {
						cands[u] = true
					}
				}
			}
		}
	}
	for q := range cands {
		good := len(rets) >= 2
		for _, r := range rets {
			wantTrue := isNilConst(stripConv(r.Results[0]))
			found := false
			for _, f := range r.Facts {
				if sameValue(f.Cond, q) && f.Truth == wantTrue {
					found = true
				}
			}
			if !found {
				good = false
			}
		}
		if good {
			return q, true
		}
	}
	return nil, false
}

// Tabled exception of R-ZONE(b).
var zoneExceptions = map[string]string{
	"cast TimeTZ → Time": "dropping the offset of a time with time zone needs no zone (PostgreSQL's timetz → time does the same)",
}

var ruleZone = &Rule{
	Name: "R-ZONE", NeedSSA: true,
	Doc: "for every cast cell and every comparison cell between a zone-less and a zone-aware datetime type: (a) the conversion is taken only where the WithTZ option is on and the other branch returns a non-suppressible error; cells between types of the same zone-awareness never raise that error; (b) the converted value depends on a call that reaches types.TZFromContext, so the zone carried by the context decides the instant",
	Run: func(p *Prog) *RuleOut {
		out := newOut("R-ZONE")
		e, err := p.exhEngine()
		if err != nil {
			out.undecided("engine", "-", "", err.Error())
			return out
		}
		ee := p.errors()
		tz := p.reachesTZ()
		out.Counts["functions_reaching_TZFromContext"] = len(tz)
		out.Floors["functions_reaching_TZFromContext"] = 3
		zoned := map[string]bool{"TimeTZ": true, "TimestampTZ": true}
		name := func(n *types.Named) string { return n.Obj().Name() }
		// --- casts: methods of Executor with a types.DateTime parameter returning (*types.X, error)
		ncast := 0
		for _, fn := range p.execFuncs() {
			if !isMethodOfExecutor(p, fn) || fn.Signature.Results().Len() != 2 || !lastIsError(fn.Signature) {
				continue
			}
			pt, ok := fn.Signature.Results().At(0).Type().(*types.Pointer)
			if !ok {
				continue
			}
			dst, ok := pt.Elem().(*types.Named)
			if !ok || dst.Obj().Pkg() == nil || dst.Obj().Pkg().Path() != pkgTypes {
				continue
			}
			var tv *ssa.Parameter
			for _, q := range fn.Params {
				if types.Identical(q.Type(), p.A.DateTime) {
					tv = q
				}
			}
			if tv == nil {
				continue
			}
			for _, src := range p.A.DateTimeImpls {
				ctx := &Ctx{fn: fn, bind: map[*ssa.Parameter]*AV{tv: {kind: "types", Types: []types.Type{types.NewPointer(src)}}}, desc: "cast cell"}
				key := fmt.Sprintf("cast %s → %s", name(src), name(dst))
				var hard, conv, other int
				var probs []string
				for _, r := range e.feasibleReturns(fn, ctx) {
					fs := factsAt(r.Instr.Block())
					cls := p.classNames(ee.classify(r.Results[1], fs, map[ssa.Value]bool{}))
					switch {
					case len(cls) == 1 && cls[0] == "Hard":
						hard++
						if !p.useTZFact(fs, false) {
							probs = append(probs, "the time-zone error is not on the branch where WithTZ is off")
						}
					case len(cls) == 1 && cls[0] == "nil":
						if _, isCall := stripConv(r.Results[0]).(*ssa.Call); isCall {
							conv++
							if zoned[name(src)] != zoned[name(dst)] {
								if !p.useTZFact(fs, true) {
									probs = append(probs, "a conversion between zone-less and zone-aware values is performed without the WithTZ option being tested")
								}
								if _, tabled := zoneExceptions[key]; !tabled && !p.dependsOnTZ(r.Results[0], tz) {
									probs = append(probs, "the converted value does not depend on the time zone carried by the context (no call reaching TZFromContext)")
								}
							}
						} else {
							other++ // identity
						}
					case len(cls) == 1 && cls[0] == "Invalid":
						probs = append(probs, "the cast has no arm for this source type: it returns the implementation-bug error ErrInvalid")
					default:
						other++
					}
				}
				ncast++
				cross := zoned[name(src)] != zoned[name(dst)]
				switch {
				case cross && conv > 0 && hard == 0:
					probs = append(probs, "zone-awareness changes but there is no non-suppressible error for the case WithTZ is off")
				case !cross && hard > 0:
					probs = append(probs, "a time-zone error is raised although source and target have the same zone-awareness")
				}
				sort.Strings(probs)
				if len(probs) == 0 {
					detail := fmt.Sprintf("conversions=%d tz-errors=%d other=%d", conv, hard, other)
					if why, ok := zoneExceptions[key]; ok && cross && conv > 0 {
						out.excepted(key, p.pos(fn.Pos()), fnName(fn), why)
					} else {
						out.ok(key, p.pos(fn.Pos()), fnName(fn), detail)
					}
				} else {
					out.viol(key, p.pos(fn.Pos()), fnName(fn), strings.Join(uniq(probs), "; "))
				}
			}
		}
		out.Counts["cast_cells"] = ncast
		out.Floors["cast_cells"] = 25
		// --- comparisons: three-way helpers with a typed datetime first parameter
		ncmp := 0
		for _, fn := range p.execFuncs() {
			if fn.Signature.Recv() != nil || fn.Signature.Results().Len() != 2 || !lastIsError(fn.Signature) {
				continue
			}
			if b, ok := fn.Signature.Results().At(0).Type().(*types.Basic); !ok || b.Kind() != types.Int {
				continue
			}
			var v1, v2 *ssa.Parameter
			var left *types.Named
			for _, q := range fn.Params {
				if pt, ok := q.Type().(*types.Pointer); ok {
					if n, ok := pt.Elem().(*types.Named); ok && n.Obj().Pkg() != nil && n.Obj().Pkg().Path() == pkgTypes {
						v1, left = q, n
					}
				}
				if it, ok := q.Type().Underlying().(*types.Interface); ok && it.NumMethods() == 0 {
					v2 = q
				}
			}
			if v1 == nil || v2 == nil {
				continue
			}
			for _, right := range p.A.DateTimeImpls {
				ctx := &Ctx{fn: fn, bind: map[*ssa.Parameter]*AV{v2: {kind: "types", Types: []types.Type{types.NewPointer(right)}}}, desc: "compare cell"}
				key := fmt.Sprintf("compare %s with %s", name(left), name(right))
				cross := zoned[name(left)] != zoned[name(right)]
				var probs []string
				hard, three := 0, 0
				for _, r := range e.feasibleReturns(fn, ctx) {
					fs := factsAt(r.Instr.Block())
					cls := p.classNames(ee.classify(r.Results[1], fs, map[ssa.Value]bool{}))
					if len(cls) == 1 && cls[0] == "Hard" {
						hard++
						if !p.useTZFact(fs, false) {
							probs = append(probs, "the time-zone error is not on the branch where WithTZ is off")
						}
						continue
					}
					if len(cls) == 1 && cls[0] == "Invalid" {
						probs = append(probs, "the comparison has no arm for this datetime type: it returns the implementation-bug error ErrInvalid")
						three++
						continue
					}
					if len(cls) != 1 || cls[0] != "nil" {
						continue
					}
					if k, ok := constInt(r.Results[0]); ok && k < -1 {
						continue // incomparable
					}
					three++
					if cross {
						if !p.useTZFact(fs, true) {
							probs = append(probs, "values of different zone-awareness are compared without the WithTZ option being tested")
						}
						if !p.dependsOnTZ(r.Results[0], tz) {
							probs = append(probs, "the zone-less operand is turned into an instant without consulting the time zone carried by the context (no call reaching TZFromContext)")
						}
						// direction: the zone-less operand is lifted to an instant; the
						// zone-aware one is never flattened to a wall-clock reading
						// (two instants an hour apart read the same in a DST overlap)
						var calls []*ssa.Call
						sliceCalls(r.Results[0], map[ssa.Value]bool{}, &calls)
						for _, c := range calls {
							reaches := false
							for _, f := range p.calleesOf(c) {
								if tz[f] {
									reaches = true
								}
							}
							if !reaches || len(c.Call.Args) == 0 {
								continue
							}
							if pt, ok := c.Call.Args[0].Type().(*types.Pointer); ok {
								if n, ok := pt.Elem().(*types.Named); ok && n.Obj().Pkg() != nil && n.Obj().Pkg().Path() == pkgTypes && zoned[name(n)] {
									probs = append(probs, "the zone-aware operand is converted with the context zone ("+calleeName(&c.Call)+") instead of the zone-less one: instants are compared as wall-clock readings, which coincide for different instants where the zone repeats an hour")
								}
							}
						}
					}
				}
				if three == 0 {
					continue // incomparable cell: judged by R-CMPMATRIX
				}
				ncmp++
				if cross && hard == 0 {
					probs = append(probs, "zone-awareness differs but there is no non-suppressible error for the case WithTZ is off")
				}
				if !cross && hard > 0 {
					probs = append(probs, "a time-zone error is raised although both operands have the same zone-awareness")
				}
				sort.Strings(probs)
				if len(probs) == 0 {
					out.ok(key, p.pos(fn.Pos()), fnName(fn), fmt.Sprintf("three-way=%d tz-errors=%d", three, hard))
				} else {
					out.viol(key, p.pos(fn.Pos()), fnName(fn), strings.Join(uniq(probs), "; "))
				}
			}
		}
		out.Counts["comparable_compare_cells"] = ncmp
		out.Floors["comparable_compare_cells"] = 10
		return out
	},
}

func init() {
	register(ruleZone)
	addProp(&PropSpec{
		ID:          "C17",
		Rules:       []string{"R-ZONE", "R-HARD", "R-CMPMATRIX-DT", "R-PREDLOOP", "R-PAIR-C", "R-CTXZONE", "R-EMPTYPROD", "R-LAYOUT", "R-WALLCLOCK", "R-TIMEPIN"},
		Explanation: "The time-zone rules as shapes of the 5×5 cast and comparison matrices: each cell is walked with the source type fixed (abstract interpretation); a cell that crosses zone-awareness must be guarded by the WithTZ option, fail with a non-suppressible error otherwise, and compute its result through a call that reaches the context's time zone; cells that do not cross never raise that error; both matrices are exhaustive over the five types.",
		Decided: []string{"R-ZONE: guard, hard error and context-zone dependence of every crossing cast/compare cell; no tz error in non-crossing cells",
			"R-HARD: the tz errors are built directly on ErrExecution", "R-CMPMATRIX-DT: comparable iff both time-only or both date-bearing (25 cells)", "R-ZONE also reports a cast or comparison switch that lacks an arm for one of the five types"},
		NotDecided:  []string{"parsing of ISO-8601 forms and the choice of the most specific type", "fractional-second rounding and the precision cap", "antisymmetry/transitivity of instants (value level)"},
		Assumptions: []string{"types.TZFromContext is the only way the context's zone is read"},
	})
}

// --- R-CTXZONE: conversions interpret wall-clock fields in the context's location ------------------

var ruleCtxZone = &Rule{
	Name: "R-CTXZONE", NeedSSA: true,
	Doc: "in every conversion method of the datetime types that takes a context (To*), the location handed to time.Date or Time.In is the result of TZFromContext applied to the method's own context, itself: not a fixed-offset zone or a location derived from another instant (the offset of a named zone depends on the instant, so a zone computed for a different instant applies the wrong rule around DST changes); a zone-less value converted to a zone-aware type consults the context zone this way at least once",
	Run: func(p *Prog) *RuleOut {
		out := newOut("R-CTXZONE")
		var fns []*ssa.Function
		for fn := range p.AllFns {
			if fnPkgPath(fn) != pkgTypes || fn.Blocks == nil || fn.Signature.Recv() == nil || !strings.HasPrefix(fn.Name(), "To") || fn.Synthetic != "" {
				continue
			}
			fns = append(fns, fn)
		}
		sortFuncs(fns)
		n := 0
		for _, fn := range fns {
			var ctxP *ssa.Parameter
			for _, q := range fn.Params {
				if isContextType(q.Type()) {
					ctxP = q
				}
			}
			if ctxP == nil {
				continue
			}
			// values of an unexported helper of the package are read through
			// the arguments the method hands it (`wallClockIn(ctx, t)`,
			// `wallClock(t, TZFromContext(ctx))`)
			type bindT map[*ssa.Parameter]ssa.Value
			resolve := func(v ssa.Value, binds []bindT) ssa.Value {
				for i := len(binds) - 1; i >= 0; i-- {
					q, ok := v.(*ssa.Parameter)
					if !ok {
						break
					}
					nv, ok := binds[i][q]
					if !ok {
						break
					}
					v = nv
				}
				return v
			}
			var isCtxLoc func(v ssa.Value, binds []bindT) bool
			isCtxLoc = func(v ssa.Value, binds []bindT) bool {
				// the helper's own TZFromContext(its ctx), or the location it was handed
				for i := len(binds); i >= 0; i-- {
					c, ok := v.(*ssa.Call)
					if ok && c.Call.StaticCallee() != nil && c.Call.StaticCallee().Name() == "TZFromContext" && fnPkgPath(c.Call.StaticCallee()) == pkgTypes && len(c.Call.Args) == 1 {
						return resolve(c.Call.Args[0], binds[:i]) == ssa.Value(ctxP)
					}
					q, isP := v.(*ssa.Parameter)
					if !isP || i == 0 {
						return false
					}
					nv, has := binds[i-1][q]
					if !has {
						return false
					}
					v = nv
				}
				return false
			}
			consults, placed := 0, 0
			ord := 0
			var scan func(h *ssa.Function, binds []bindT, depth int)
			scan = func(h *ssa.Function, binds []bindT, depth int) {
				for _, b := range h.Blocks {
					for _, ins := range b.Instrs {
						c, ok := ins.(*ssa.Call)
						if !ok {
							continue
						}
						var loc ssa.Value
						what := ""
						switch calleeQualified(&c.Call) {
						case "time.Date":
							loc, what = c.Call.Args[len(c.Call.Args)-1], "time.Date"
						case "time.In":
							loc, what = c.Call.Args[len(c.Call.Args)-1], "Time.In"
						default:
							// an unexported helper of the package that is handed
							// the context or a location
							g := c.Call.StaticCallee()
							if g == nil || c.Call.IsInvoke() || depth >= 2 || fnPkgPath(g) != pkgTypes || g.Blocks == nil || g.Object() == nil || g.Object().Exported() || g == h {
								continue
							}
							takes := false
							bind := bindT{}
							for i, a := range c.Call.Args {
								if i < len(g.Params) {
									bind[g.Params[i]] = a
									if isContextType(a.Type()) {
										takes = true
									}
									if nn := namedOf(a.Type()); nn != nil && nn.Obj().Name() == "Location" {
										takes = true
									}
								}
							}
							if takes {
								scan(g, append(append([]bindT{}, binds...), bind), depth+1)
							}
							continue
						}
						n++
						ord++
						key := fmt.Sprintf("%s: location of %s #%d", fnName(fn), what, ord)
						if isCtxLoc(loc, binds) {
							consults++
							if what == "time.Date" {
								placed++
							}
							out.ok(key, p.pos(c.Pos()), fnName(fn), "TZFromContext(ctx) itself")
						} else {
							out.viol(key, p.pos(c.Pos()), fnName(fn), "the wall-clock fields are interpreted in a location that is not the context's zone itself ("+trunc(loc.String(), 60)+"): around daylight-saving changes the offset of a different instant is applied")
						}
					}
				}
			}
			scan(fn, nil, 0)
			// zone-less receiver → zone-aware result must consult the context zone
			recv := namedOf(fn.Signature.Recv().Type())
			res := fn.Signature.Results()
			if recv != nil && res.Len() == 1 {
				rn := namedOf(res.At(0).Type())
				if rn != nil && strings.HasSuffix(rn.Obj().Name(), "TZ") && !strings.HasSuffix(recv.Obj().Name(), "TZ") {
					key := fnName(fn) + " consults the context zone"
					delegates := false
					for _, c := range p.allCalls(fn) {
						if sc := c.Call.StaticCallee(); sc != nil && fnPkgPath(sc) == pkgTypes && strings.HasPrefix(sc.Name(), "To") {
							for _, a := range c.Call.Args {
								if a == ssa.Value(ctxP) {
									delegates = true
								}
							}
						}
					}
					if placed > 0 || delegates {
						out.ok(key, p.pos(fn.Pos()), fnName(fn), "the zone-less value is placed in TZFromContext(ctx)")
					} else if consults > 0 {
						out.viol(key, p.pos(fn.Pos()), fnName(fn), "a wall-clock value is made zone-aware by converting an instant into the context zone (Time.In) instead of interpreting its fields in that zone (time.Date(…, TZFromContext(ctx))): the offset is looked up for a different instant, wrong around daylight-saving changes")
					} else {
						out.viol(key, p.pos(fn.Pos()), fnName(fn), "a zone-less value becomes zone-aware without the context zone being consulted")
					}
				}
			}
		}
		// the context constructor stores every non-nil zone
		for fn := range p.AllFns {
			if fnPkgPath(fn) != pkgTypes || fn.Blocks == nil || fn.Signature.Recv() != nil || fn.Signature.Params().Len() != 2 || fn.Signature.Results().Len() != 1 {
				continue
			}
			if !isContextType(fn.Signature.Params().At(0).Type()) || !isContextType(fn.Signature.Results().At(0).Type()) {
				continue
			}
			locP := fn.Params[1]
			if n := namedOf(locP.Type()); n == nil || n.Obj().Name() != "Location" {
				continue
			}
			key := fnName(fn) + " stores every zone it is given"
			bad := ""
			stores := 0
			for _, r := range expandedReturns(fn) {
				v := stripConv(r.Results[0])
				if c, ok := v.(*ssa.Call); ok && calleeQualified(&c.Call) == "context.WithValue" {
					stores++
					continue
				}
				if isNil, _ := nilFact(r.Facts, locP); !isNil {
					bad = "return at " + p.pos(r.Instr.Pos()) + " hands the context back unchanged although the zone may be non-nil"
				}
			}
			if bad == "" && stores > 0 {
				out.ok(key, p.pos(fn.Pos()), fnName(fn), "the context is returned unchanged only for a nil zone")
			} else if bad != "" {
				out.viol(key, p.pos(fn.Pos()), fnName(fn), bad+": a context derived from one that already carries a zone keeps the parent's zone")
			}
		}
		out.Counts["zone_consulting_calls"] = n
		out.Floors["zone_consulting_calls"] = 2
		return out
	},
}

func (p *Prog) allCalls(fn *ssa.Function) []*ssa.Call {
	var out []*ssa.Call
	for _, b := range fn.Blocks {
		for _, ins := range b.Instrs {
			if c, ok := ins.(*ssa.Call); ok {
				out = append(out, c)
			}
		}
	}
	return out
}

func init() { register(ruleCtxZone) }

// --- R-TIMEPIN: time-of-day values keep their date pinned ------------------------------------------

var ruleTimePin = &Rule{
	Name: "R-TIMEPIN", NeedSSA: true,
	Doc: "the time-of-day types (types.Time, types.TimeTZ) compare as instants and rely on every value having the date 0000-01-01: wherever packages types and exec fill the Time field of one of them, the value is the result of time.Date with the constants 0, 1, 1 for year, month and day (the constructors), or — in the JSON readers only — what time.Parse made of the type's own time-only layouts; anything else (a rounded, shifted or copied time.Time stored directly) can carry another date, e.g. after rounding 23:59:59.9996 up",
	Run: func(p *Prog) *RuleOut {
		out := newOut("R-TIMEPIN")
		ty := p.Pkgs[pkgTypes]
		if ty == nil {
			out.undecided("package types", "-", "", "anchor unresolved")
			return out
		}
		tod := map[*types.Named]bool{}
		for _, n := range []string{"Time", "TimeTZ"} {
			if t, _ := lookupNamed(ty.Types, n); t != nil {
				tod[t] = true
			}
		}
		if len(tod) != 2 {
			out.undecided("types.Time / types.TimeTZ", "-", "", "anchor unresolved")
			return out
		}
		var pinned func(v ssa.Value, inReader bool, depth int) string
		pinned = func(v ssa.Value, inReader bool, depth int) string {
			if depth > 4 {
				return "a value too deep to follow"
			}
			switch x := v.(type) {
			case *ssa.Phi:
				for _, e := range x.Edges {
					if why := pinned(e, inReader, depth+1); why != "" {
						return why
					}
				}
				return ""
			case *ssa.Extract:
				if c, ok := x.Tuple.(*ssa.Call); ok && x.Index == 0 {
					q := calleeQualified(&c.Call)
					if q == "time.Parse" || q == "time.ParseInLocation" {
						if inReader {
							return ""
						}
						return "the result of " + q + " outside a JSON reader"
					}
					if sc := c.Call.StaticCallee(); sc != nil && !c.Call.IsInvoke() && inModule(sc) && sc.Blocks != nil {
						for _, r := range returnsOf(sc) {
							if len(r.Results) == 0 {
								continue
							}
							if why := pinned(r.Results[0], inReader, depth+1); why != "" {
								return why
							}
						}
						return ""
					}
				}
			case *ssa.Call:
				if calleeQualified(&x.Call) == "time.Date" && len(x.Call.Args) == 8 {
					y, ok1 := constInt(x.Call.Args[0])
					m, ok2 := constInt(x.Call.Args[1])
					d, ok3 := constInt(x.Call.Args[2])
					if ok1 && ok2 && ok3 && y == 0 && m == 1 && d == 1 {
						return ""
					}
					return "time.Date with a date other than the constants 0, 1, 1 (" + p.pos(x.Pos()) + ")"
				}
				if sc := x.Call.StaticCallee(); sc != nil && !x.Call.IsInvoke() && inModule(sc) && sc.Blocks != nil && sc.Signature.Results().Len() == 1 {
					for _, r := range returnsOf(sc) {
						if why := pinned(r.Results[0], inReader, depth+1); why != "" {
							return why
						}
					}
					return ""
				}
				return "the result of " + calleeName(&x.Call) + " (" + p.pos(x.Pos()) + ")"
			case *ssa.Const:
				return "" // the zero time.Time{} of an error return
			case *ssa.UnOp:
				// the zero value of a local that is returned with an error
				if al, ok := x.X.(*ssa.Alloc); ok && x.Op == token.MUL {
					stored := false
					for _, r := range *al.Referrers() {
						if _, ok := r.(*ssa.Store); ok {
							stored = true
						}
					}
					if !stored {
						return ""
					}
				}
			}
			return trunc(v.String(), 50)
		}
		n := 0
		ord := ordinals{}
		var fns []*ssa.Function
		for fn := range p.AllFns {
			if (fnPkgPath(fn) == pkgTypes || fnPkgPath(fn) == pkgExec) && fn.Blocks != nil {
				fns = append(fns, fn)
			}
		}
		sortFuncs(fns)
		for _, fn := range fns {
			inReader := false
			for f := fn; f != nil; f = f.Parent() {
				if f.Name() == "UnmarshalJSON" {
					inReader = true
				}
			}
			for _, b := range fn.Blocks {
				for _, ins := range b.Instrs {
					st, ok := ins.(*ssa.Store)
					if !ok {
						continue
					}
					fa, ok := st.Addr.(*ssa.FieldAddr)
					if !ok {
						continue
					}
					pt, ok := fa.X.Type().Underlying().(*types.Pointer)
					if !ok {
						continue
					}
					nt := namedOf(pt.Elem())
					if nt == nil || !tod[nt] {
						continue
					}
					n++
					key := fmt.Sprintf("%s fills %s.Time #%d", fnName(fn), nt.Obj().Name(), ord.next(fnName(fn)))
					if why := pinned(st.Val, inReader, 0); why != "" {
						out.viol(key, p.pos(st.Pos()), fnName(fn), "a "+nt.Obj().Name()+" is built around "+why+" instead of going through the constructor, which pins the date to 0000-01-01: a value that crossed midnight (rounding up 23:59:59.9996) prints as 00:00:00 but compares a day later than every other time of day")
					} else {
						out.ok(key, p.pos(st.Pos()), fnName(fn), "time.Date(0, 1, 1, …) or the type's own time-only layouts")
					}
				}
			}
		}
		out.Counts["time_of_day_values_built"] = n
		out.Floors["time_of_day_values_built"] = 2
		return out
	},
}

func init() { register(ruleTimePin) }
