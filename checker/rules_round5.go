package main

// Rules added for the fifth round of seeded changes.

import (
	"fmt"
	"go/token"
	"go/types"
	"strings"

	"golang.org/x/tools/go/ssa"
)

// R-UNMARSHAL-ID (C02): what is read back is what was written.
//
// MarshalText/MarshalBinary/Value write String(); the reading side must hand
// the text it receives to the parser as it is. In UnmarshalText,
// UnmarshalBinary and Scan every value passed to parser.Parse (or to another of
// these methods) is the method's own parameter, looked at only through
// conversions between string and []byte, type assertions and merges of those:
// no slicing, trimming, unquoting or other rewriting, which would make some
// canonical text read back as another path.
var ruleUnmarshalID = &Rule{
	Name: "R-UNMARSHAL-ID", NeedSSA: true,
	Doc: "in (*Path).UnmarshalText, UnmarshalBinary and Scan the text handed to parser.Parse, or to another of these methods, is the method's own parameter seen only through string/[]byte conversions, type assertions and merges of those — never a slice of it or the result of a call: a text that MarshalText wrote (for instance one that begins and ends with a quote) must not be rewritten before it is parsed",
	Run: func(p *Prog) *RuleOut {
		out := newOut("R-UNMARSHAL-ID")
		parse := p.ssaFunc(pkgParser, "Parse")
		names := []string{"*Path.UnmarshalText", "*Path.UnmarshalBinary", "*Path.Scan"}
		fns := map[*ssa.Function]bool{}
		for _, n := range names {
			if f := p.ssaFunc(pkgPath, n); f != nil {
				fns[f] = true
			}
		}
		if parse == nil || len(fns) < 3 {
			out.undecided("reading methods", "-", "", "anchor unresolved: parser.Parse and the three reading methods of *Path")
			return out
		}
		var pure func(fn *ssa.Function, v ssa.Value, depth int) string
		pure = func(fn *ssa.Function, v ssa.Value, depth int) string {
			if depth > 8 {
				return "too deep"
			}
			switch x := v.(type) {
			case *ssa.Parameter:
				return ""
			case *ssa.Convert:
				return pure(fn, x.X, depth+1)
			case *ssa.ChangeType:
				return pure(fn, x.X, depth+1)
			case *ssa.MakeInterface:
				return pure(fn, x.X, depth+1)
			case *ssa.TypeAssert:
				return pure(fn, x.X, depth+1)
			case *ssa.Extract:
				if ta, ok := x.Tuple.(*ssa.TypeAssert); ok && x.Index == 0 {
					return pure(fn, ta.X, depth+1)
				}
			case *ssa.Phi:
				for _, e := range x.Edges {
					if why := pure(fn, e, depth+1); why != "" {
						return why
					}
				}
				return ""
			case *ssa.Slice:
				return "a slice of the input (" + p.pos(x.Pos()) + ")"
			case *ssa.Call:
				return "the result of " + calleeName(&x.Call) + " (" + p.pos(x.Pos()) + ")"
			}
			return fmt.Sprintf("%T", v)
		}
		// helpers of the package on the way to the parser: functions that
		// (transitively) call parser.Parse; they are held to the same rule
		reach := map[*ssa.Function]bool{}
		for changed := true; changed; {
			changed = false
			for g := range p.AllFns {
				if fnPkgPath(g) != pkgPath || g.Blocks == nil || reach[g] || fns[g] {
					continue
				}
				for _, c := range p.allCalls(g) {
					if sc := c.Call.StaticCallee(); sc == parse || reach[sc] {
						reach[g] = true
						changed = true
						break
					}
				}
			}
		}
		textArgs := func(c *ssa.Call) []ssa.Value {
			var as []ssa.Value
			for _, a := range c.Call.Args {
				if isErrorType(a.Type()) {
					continue // a sentinel handed along is not text
				}
				switch t := a.Type().Underlying().(type) {
				case *types.Basic:
					if t.Info()&types.IsString != 0 {
						as = append(as, a)
					}
				case *types.Slice, *types.Interface:
					as = append(as, a)
				}
			}
			return as
		}
		helperBad := map[*ssa.Function]string{}
		var helperWhy func(g *ssa.Function, depth int) string
		helperWhy = func(g *ssa.Function, depth int) string {
			if w, ok := helperBad[g]; ok {
				return w
			}
			helperBad[g] = ""
			if depth > 4 {
				return ""
			}
			for _, c := range p.allCalls(g) {
				sc := c.Call.StaticCallee()
				if sc != parse && !reach[sc] {
					continue
				}
				for _, a := range textArgs(c) {
					if why := pure(g, a, 0); why != "" {
						helperBad[g] = "in " + fnName(g) + " the text handed to " + calleeName(&c.Call) + " is " + why
						return helperBad[g]
					}
				}
				if sc != parse {
					if why := helperWhy(sc, depth+1); why != "" {
						helperBad[g] = why
						return why
					}
				}
			}
			return ""
		}
		n := 0
		for fn := range fns {
			bad := ""
			calls := 0
			for _, c := range p.allCalls(fn) {
				sc := c.Call.StaticCallee()
				if sc != parse && !fns[sc] && !reach[sc] {
					continue
				}
				calls++
				for _, arg := range textArgs(c) {
					if why := pure(fn, arg, 0); why != "" && bad == "" {
						bad = "the text handed to " + calleeName(&c.Call) + " is " + why + ", not the input itself"
					}
				}
				if reach[sc] && bad == "" {
					if why := helperWhy(sc, 0); why != "" {
						bad = why + ", not the input itself"
					}
				}
			}
			n += calls
			key := fnName(fn) + " parses the text it is given"
			switch {
			case calls == 0:
				out.viol(key, p.pos(fn.Pos()), fnName(fn), "does not reach parser.Parse or a sibling reading method")
			case bad != "":
				out.viol(key, p.pos(fn.Pos()), fnName(fn), bad+": a canonical text can be read back as a different path")
			default:
				out.ok(key, p.pos(fn.Pos()), fnName(fn), "the parameter, through conversions and type assertions only")
			}
		}
		out.Counts["parse_calls_in_reading_methods"] = n
		out.Floors["parse_calls_in_reading_methods"] = 3
		return out
	},
}

// R-FMTCONST (C02): data never becomes a format string.
//
// The printer builds text with fmt.Fprintf and friends; a format string that
// contains data (a pattern, a key) re-interprets every % in it.
var ruleFmtConst = &Rule{
	Name: "R-FMTCONST", NeedSSA: true,
	Doc: "in package ast every format string handed to fmt.Sprintf, Fprintf, Appendf or Errorf is a compile-time constant: a format that contains data turns each % of a pattern, key or literal into a verb, so the printed text no longer re-parses to the same path",
	Run: func(p *Prog) *RuleOut {
		out := newOut("R-FMTCONST")
		n := 0
		for fn := range p.AllFns {
			if fnPkgPath(fn) != pkgAST || fn.Blocks == nil {
				continue
			}
			ord := 0
			for _, c := range p.allCalls(fn) {
				q := calleeQualified(&c.Call)
				idx := -1
				switch q {
				case "fmt.Sprintf", "fmt.Errorf":
					idx = 0
				case "fmt.Fprintf", "fmt.Appendf":
					idx = 1
				}
				if idx < 0 || idx >= len(c.Call.Args) {
					continue
				}
				n++
				if _, isC := c.Call.Args[idx].(*ssa.Const); isC {
					continue
				}
				ord++
				out.viol(fmt.Sprintf("%s: format string is not a constant #%d", fnName(fn), ord), p.pos(c.Pos()), fnName(fn), "the format of "+q+" is computed from data: every % in a pattern, key or literal is taken for a verb and the text written is not the canonical text")
			}
		}
		out.Counts["format_calls_in_the_printer"] = n
		out.Floors["format_calls_in_the_printer"] = 2
		if len(out.Obs) == 0 {
			out.ok("format strings are constants", "path/ast", "", fmt.Sprintf("%d format calls, each with a constant format", n))
		}
		return out
	},
}

// R-NEXTBLIND (C09): a step does not look at whether another follows.
//
// Composition (P S = S applied to each item of P) needs every step to select
// the same items whatever comes after it. The only thing the absence of a
// next node may decide, outside the continuation function itself, is the
// existence shortcut, where it is tested together with the absence of a
// collector.
var ruleNextBlind = &Rule{
	Name: "R-NEXTBLIND", NeedSSA: true,
	Doc: "in the executor's status functions (other than the continuation function that dispatches on it) the result of node.Next() is compared with nil only as part of the existence shortcut, i.e. in conjunction with the collector's nil test (directly, as a hoisted flag or through a named test): a branch on `next == nil` alone makes a step select differently depending on whether another step follows, which breaks composition",
	Run: func(p *Prog) *RuleOut {
		out := newOut("R-NEXTBLIND")
		n := 0
		for _, fn := range p.execFuncs() {
			if p.pairKind(fn.Signature) != "status" {
				continue
			}
			coll := p.collectorParam(fn)
			// the continuation function: takes the next node as a parameter and tests it
			ord := 0
			for _, b := range fn.Blocks {
				iff, ok := b.Instrs[len(b.Instrs)-1].(*ssa.If)
				if !ok {
					continue
				}
				// conjuncts / disjuncts of the condition
				var leaves []ssa.Value
				var collect func(v ssa.Value, d int)
				collect = func(v ssa.Value, d int) {
					if d > 6 {
						return
					}
					switch x := v.(type) {
					case *ssa.UnOp:
						if x.Op == token.NOT {
							collect(x.X, d+1)
							return
						}
					case *ssa.Phi:
						if ops, _, ok := shortCircuit(x, 0); ok {
							for _, o := range ops {
								collect(o, d+1)
							}
							return
						}
					}
					leaves = append(leaves, v)
				}
				collect(iff.Cond, 0)
				for _, lf := range leaves {
					bo, ok := lf.(*ssa.BinOp)
					if !ok || (bo.Op != token.EQL && bo.Op != token.NEQ) || !isNilConst(bo.Y) {
						continue
					}
					c, ok := bo.X.(*ssa.Call)
					if !ok || !isNextGetter(p, c) {
						continue
					}
					n++
					// in conjunction with the collector test? (same short-circuit
					// chain: the collector test is a leaf of this condition, or the
					// branch facts on either side establish the collector's nil-ness)
					withColl := false
					if coll != nil {
						for _, l2 := range leaves {
							if t, used := collTruth(l2, coll, true, nil, 0); used && t != triUnknown {
								withColl = true
							}
						}
						for _, f := range factsAt(b) {
							if _, used := collTruth(f.Cond, coll, true, nil, 0); used {
								withColl = true
							}
						}
						// direct short-circuit: `found == nil && next == nil` compiles to
						// two Ifs; the other one is the sole predecessor or successor
						for _, nb := range append(append([]*ssa.BasicBlock{}, b.Preds...), b.Succs...) {
							if i2, ok := nb.Instrs[len(nb.Instrs)-1].(*ssa.If); ok {
								if _, used := collTruth(i2.Cond, coll, true, nil, 0); used {
									withColl = true
								}
							}
						}
					}
					if withColl {
						continue
					}
					ord++
					out.viol(fmt.Sprintf("%s: branch on the absence of a next step #%d", fnName(fn), ord), p.pos(bo.Pos()), fnName(fn), "`next == nil` decides a branch on its own (not as part of the existence shortcut with the collector test): the step behaves differently when another step follows, so Query(P S) is not S applied to the items of Query(P)")
				}
			}
		}
		out.Counts["tests_of_the_next_node"] = n
		out.Floors["tests_of_the_next_node"] = 2
		if len(out.Obs) == 0 {
			out.ok("steps do not look at what follows", "path/exec", "", fmt.Sprintf("%d nil tests of node.Next(), each part of an existence shortcut", n))
		}
		return out
	},
}

// isNextGetter: c calls the Next() method of the node interface or of a node type.
func isNextGetter(p *Prog, c *ssa.Call) bool {
	if c.Call.IsInvoke() {
		return c.Call.Method.Name() == "Next" && types.Identical(c.Call.Value.Type(), p.A.Node)
	}
	sc := c.Call.StaticCallee()
	return sc != nil && sc.Name() == "Next" && fnPkgPath(sc) == pkgAST && strings.HasPrefix(fnName(sc), "(")
}

func init() { register(ruleUnmarshalID, ruleFmtConst, ruleNextBlind) }

// R-NUMCLASS (C02): a numeric literal prints as a numeric literal.
//
// The lexer has two classes of number: INT_P (digits only, read with
// ParseInt) and NUMERIC_P (a '.', an exponent). The canonical text of a
// NumericNode is what a float formatter writes, and the shortest text of an
// integral double has neither: 4.0 prints `4` and is read back as the integer
// 4 (`4.0/3` becomes an integer division), 1e19 prints twenty digits that
// ParseInt rejects. Where the constructor of the numeric node stores the
// formatter's output verbatim, nothing keeps the class.
var ruleNumClass = &Rule{
	Name: "R-NUMCLASS", NeedSSA: true,
	Doc: "in the constructor of the numeric (non-integer) literal node the canonical text is not the verbatim output of a float formatter (json.Marshal of a float64, strconv.FormatFloat/AppendFloat, fmt %v/%g): the shortest text of an integral double has no '.' and no exponent, so the printed literal is lexed as an integer (other type, integer division) or, beyond int64, not at all",
	Run: func(p *Prog) *RuleOut {
		out := newOut("R-NUMCLASS")
		num, _ := lookupNamed(p.Pkgs[pkgAST].Types, "NumericNode")
		if num == nil {
			out.undecided("NumericNode", "-", "", "anchor unresolved")
			return out
		}
		n := 0
		for fn := range p.AllFns {
			if fnPkgPath(fn) != pkgAST || fn.Blocks == nil || fn.Signature.Results().Len() != 1 {
				continue
			}
			pt, ok := fn.Signature.Results().At(0).Type().(*types.Pointer)
			if !ok || pt.Elem() != types.Type(num) {
				continue
			}
			// constructors: functions returning *NumericNode that parse a float
			parses := false
			for _, c := range p.allCalls(fn) {
				if calleeQualified(&c.Call) == "strconv.ParseFloat" {
					parses = true
				}
			}
			if !parses {
				continue
			}
			for _, b := range fn.Blocks {
				for _, ins := range b.Instrs {
					st, ok := ins.(*ssa.Store)
					if !ok {
						continue
					}
					fa, ok := st.Addr.(*ssa.FieldAddr)
					if !ok {
						continue
					}
					if bt, ok := st.Val.Type().Underlying().(*types.Basic); !ok || bt.Info()&types.IsString == 0 {
						continue
					}
					// verbatim formatter output?
					v := st.Val
					for i := 0; i < 6; i++ {
						switch x := v.(type) {
						case *ssa.Convert:
							v = x.X
							continue
						case *ssa.ChangeType:
							v = x.X
							continue
						}
						break
					}
					src := ""
					switch x := v.(type) {
					case *ssa.Extract:
						if c, ok := x.Tuple.(*ssa.Call); ok && x.Index == 0 && calleeQualified(&c.Call) == "encoding/json.Marshal" {
							src = "json.Marshal"
						}
					case *ssa.Call:
						if q := calleeQualified(&x.Call); q == "strconv.FormatFloat" || q == "strconv.AppendFloat" {
							src = q
						}
					}
					if src == "" {
						continue
					}
					n++
					key := fmt.Sprintf("%s stores the text of a float verbatim in %s", fnName(fn), fieldName(fa))
					out.viol(key, p.pos(st.Pos()), fnName(fn), "the canonical text of a numeric literal is the verbatim output of "+src+": for an integral value it has no '.' and no exponent, so `4.0` prints `4` and re-parses as an integer (`4.0/3` → `(4 / 3)`, an integer division) and `1e19` prints twenty digits that Parse rejects")
				}
			}
		}
		out.Counts["verbatim_float_texts"] = n
		if n == 0 {
			out.ok("numeric literals keep their class", "path/ast", "", "no constructor of the numeric node stores a float formatter's output verbatim")
		}
		return out
	},
}

func init() { register(ruleNumClass) }
