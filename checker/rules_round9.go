package main

// Rules added after the ninth round of seeded changes (slips inside
// refactorings).

import (
	"fmt"
	"go/constant"
	"go/types"
	"sort"

	"golang.org/x/tools/go/ssa"
)

// R-OKFLAG: a value that comes with a validity flag is not used without it.
//
// `roundToInt64(f) (int64, bool)` answers (0, false) for a double that no
// int64 holds. A caller that writes `n, _ = roundToInt64(f)` goes on with the
// zero: `.integer()` of 1e300 is 0 instead of an error. The rule looks at every
// call, in the module's non-test packages, of a module function whose last
// result is a bool that some return sets to false beside zero values: when the
// caller uses another result of the call it also uses the flag.
var ruleOKFlag = &Rule{
	Name: "R-OKFLAG", NeedSSA: true,
	Doc: "at every call of a module function with results (…, bool) some return of which answers false beside zero values for the others (`single() (any, bool)`, `roundToInt64(f) (int64, bool)`), a caller that uses another result of the call also uses the flag (branches on it, returns it, hands it on): a value computed under a validity flag is never taken without looking at the flag, which would turn the refused input into the zero value",
	Run: func(p *Prog) *RuleOut {
		out := newOut("R-OKFLAG")
		flagged := map[*ssa.Function]bool{}
		isFlagged := func(g *ssa.Function) bool {
			if g == nil || g.Blocks == nil || !inModule(g) {
				return false
			}
			if r, ok := flagged[g]; ok {
				return r
			}
			flagged[g] = false
			rs := g.Signature.Results()
			if rs.Len() < 2 {
				return false
			}
			bt, ok := rs.At(rs.Len() - 1).Type().Underlying().(*types.Basic)
			if !ok || bt.Info()&types.IsBoolean == 0 {
				return false
			}
			// an error result beside the flag: the error is the validity
			for i := 0; i < rs.Len(); i++ {
				if isErrorType(rs.At(i).Type()) {
					return false
				}
			}
			for _, r := range returnsOf(g) {
				last := stripConvPlain(r.Results[len(r.Results)-1])
				k, isC := last.(*ssa.Const)
				if !isC || k.Value == nil || constant.BoolVal(k.Value) {
					continue
				}
				zeros := true
				for _, v := range r.Results[:len(r.Results)-1] {
					if !isZeroConst(stripConvPlain(v)) {
						zeros = false
					}
				}
				if zeros {
					flagged[g] = true
					return true
				}
			}
			return false
		}
		var fns []*ssa.Function
		for fn := range p.AllFns {
			if fn.Blocks == nil || !inModule(fn) {
				continue
			}
			fns = append(fns, fn)
		}
		sort.Slice(fns, func(i, j int) bool { return fns[i].String() < fns[j].String() })
		n := 0
		for _, fn := range fns {
			ord := ordinals{}
			for _, b := range fn.Blocks {
				for _, ins := range b.Instrs {
					c, ok := ins.(*ssa.Call)
					if !ok || c.Call.IsInvoke() {
						continue
					}
					g := c.Call.StaticCallee()
					if !isFlagged(g) {
						continue
					}
					n++
					key := fmt.Sprintf("%s: call #%d of %s", fnName(fn), ord.next(fnName(g)), fnName(g))
					last := g.Signature.Results().Len() - 1
					used := func(v ssa.Value) bool {
						if v == nil {
							return false
						}
						for _, r := range *v.Referrers() {
							if _, dbg := r.(*ssa.DebugRef); !dbg {
								return true
							}
						}
						return false
					}
					valueUsed, whole := false, false
					for _, r := range *c.Referrers() {
						switch x := r.(type) {
						case *ssa.Extract:
							if x.Index != last && used(x) {
								valueUsed = true
							}
						case *ssa.DebugRef:
						default:
							// `return g(…)`: the tuple is handed on whole
							whole = true
						}
					}
					switch {
					case whole:
						out.ok(key, p.pos(c.Pos()), fnName(fn), "the results are handed on together")
					case !valueUsed:
						out.ok(key, p.pos(c.Pos()), fnName(fn), "no other result is used")
					case used(extractOf(c, last)):
						out.ok(key, p.pos(c.Pos()), fnName(fn), "the flag is used")
					default:
						out.viol(key, p.pos(c.Pos()), fnName(fn), "a result of "+fnName(g)+" is used while its validity flag is thrown away: where the callee refuses its input (false beside the zero value) the caller goes on with the zero")
					}
				}
			}
		}
		out.Counts["calls_of_flagged_functions"] = n
		if n == 0 {
			out.ok("values with validity flags", "module", "", "no module function answers (zero, false)")
		}
		return out
	},
}

func isZeroConst(v ssa.Value) bool {
	k, ok := v.(*ssa.Const)
	if !ok {
		return false
	}
	if k.Value == nil {
		return true
	}
	switch k.Value.Kind() {
	case constant.Int, constant.Float:
		return constant.Sign(k.Value) == 0
	case constant.Bool:
		return !constant.BoolVal(k.Value)
	case constant.String:
		return constant.StringVal(k.Value) == ""
	}
	return false
}

func init() { register(ruleOKFlag) }

// R-VALUETYPES (C09, C10, C18, C19): the datetime values are values.
//
// A *types.Timestamp travels through the executor as an item: it is @ in a
// filter, it is compared, cast, printed, compared again. The exported methods
// of the five datetime types therefore never write through their receiver
// (the JSON/text/SQL decoding methods excepted, whose job it is): a cast that
// re-zones its receiver in place returns the right value and leaves the item
// denoting another instant for every later step.
var ruleValueTypes = &Rule{
	Name: "R-VALUETYPES", NeedSSA: true,
	Doc: "no exported method of the five datetime types (UnmarshalJSON, UnmarshalText, UnmarshalBinary and Scan excepted) stores through its receiver or hands the receiver, or a pointer into it, to a function that may write through that parameter (callees followed; an unexported helper that works in place is fine on a fresh value): items are not altered by being cast or compared",
	Run: func(p *Prog) *RuleOut {
		out := newOut("R-VALUETYPES")
		n := 0
		for _, d := range p.A.DateTimeImpls {
			for _, recvT := range []types.Type{d, types.NewPointer(d)} {
				ms := p.SSA.MethodSets.MethodSet(recvT)
				for i := 0; i < ms.Len(); i++ {
					m := p.SSA.MethodValue(ms.At(i))
					if m == nil || m.Blocks == nil || m.Synthetic != "" || m.Object() == nil || !m.Object().Exported() || fnPkgPath(m) != pkgTypes {
						continue
					}
					// methods declared on the pointer only (value methods work on a copy)
					if _, isPtr := m.Signature.Recv().Type().(*types.Pointer); !isPtr {
						continue
					}
					switch m.Name() {
					case "UnmarshalJSON", "UnmarshalText", "UnmarshalBinary", "Scan":
						continue
					}
					if _, isPtrT := recvT.(*types.Pointer); !isPtrT {
						continue
					}
					n++
					recv := m.Params[0]
					fromRecv := func(v ssa.Value) bool {
						if v == nil {
							return false
						}
						for _, o := range p.provenance(m, v).Origins {
							if o.Val == ssa.Value(recv) && o.Loads == 0 {
								return true
							}
						}
						return false
					}
					key := fnName(m) + " leaves its receiver as it is"
					bad := ""
					for _, w := range writesOf(m) {
						if fromRecv(w.Base) && bad == "" {
							bad = w.Kind + " through the receiver at " + p.pos(w.Instr.Pos())
						}
					}
					for _, b := range m.Blocks {
						for _, ins := range b.Instrs {
							ci, ok := ins.(ssa.CallInstruction)
							if !ok || bad != "" {
								continue
							}
							if _, isB := ci.Common().Value.(*ssa.Builtin); isB {
								continue
							}
							for ai, a := range ci.Common().Args {
								if _, isPtr := a.Type().Underlying().(*types.Pointer); !isPtr || !fromRecv(a) {
									continue
								}
								callee := ci.Common().StaticCallee()
								if ci.Common().IsInvoke() {
									callee = nil
								}
								if callee != nil && !inModule(callee) {
									continue // the standard library's time and fmt read their receivers
								}
								if why := p.paramMayBeWritten(callee, ai, 0); why != "" {
									bad = "the receiver is handed to " + calleeName(ci.Common()) + " at " + p.pos(ins.Pos()) + ", which may write through it (" + why + ")"
								}
							}
						}
					}
					if bad == "" {
						out.ok(key, p.pos(m.Pos()), fnName(m), "no write through the receiver, here or in a callee it is handed to")
					} else {
						out.viol(key, p.pos(m.Pos()), fnName(m), bad+": the value an item denotes changes by being cast or compared, so @ means something else for the next step")
					}
				}
			}
		}
		out.Counts["exported_pointer_methods_of_datetime_types"] = n
		out.Floors["exported_pointer_methods_of_datetime_types"] = 10
		return out
	},
}

func init() { register(ruleValueTypes) }
