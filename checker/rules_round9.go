package main

// Rules added after the ninth round of seeded changes (slips inside
// refactorings).

import (
	"fmt"
	"go/constant"
	"go/types"
	"sort"

	"golang.org/x/tools/go/ssa"
)

// R-OKFLAG: a value that comes with a validity flag is not used without it.
//
// `roundToInt64(f) (int64, bool)` answers (0, false) for a double that no
// int64 holds. A caller that writes `n, _ = roundToInt64(f)` goes on with the
// zero: `.integer()` of 1e300 is 0 instead of an error. The rule looks at every
// call, in the module's non-test packages, of a module function whose last
// result is a bool that some return sets to false beside zero values: when the
// caller uses another result of the call it also uses the flag.
var ruleOKFlag = &Rule{
	Name: "R-OKFLAG", NeedSSA: true,
	Doc: "at every call of a module function with results (…, bool) some return of which answers false beside zero values for the others (`single() (any, bool)`, `roundToInt64(f) (int64, bool)`), a caller that uses another result of the call also uses the flag (branches on it, returns it, hands it on): a value computed under a validity flag is never taken without looking at the flag, which would turn the refused input into the zero value",
	Run: func(p *Prog) *RuleOut {
		out := newOut("R-OKFLAG")
		flagged := map[*ssa.Function]bool{}
		isFlagged := func(g *ssa.Function) bool {
			if g == nil || g.Blocks == nil || !inModule(g) {
				return false
			}
			if r, ok := flagged[g]; ok {
				return r
			}
			flagged[g] = false
			rs := g.Signature.Results()
			if rs.Len() < 2 {
				return false
			}
			bt, ok := rs.At(rs.Len() - 1).Type().Underlying().(*types.Basic)
			if !ok || bt.Info()&types.IsBoolean == 0 {
				return false
			}
			// an error result beside the flag: the error is the validity
			for i := 0; i < rs.Len(); i++ {
				if isErrorType(rs.At(i).Type()) {
					return false
				}
			}
			for _, r := range returnsOf(g) {
				last := stripConvPlain(r.Results[len(r.Results)-1])
				k, isC := last.(*ssa.Const)
				if !isC || k.Value == nil || constant.BoolVal(k.Value) {
					continue
				}
				zeros := true
				for _, v := range r.Results[:len(r.Results)-1] {
					if !isZeroConst(stripConvPlain(v)) {
						zeros = false
					}
				}
				if zeros {
					flagged[g] = true
					return true
				}
			}
			return false
		}
		var fns []*ssa.Function
		for fn := range p.AllFns {
			if fn.Blocks == nil || !inModule(fn) {
				continue
			}
			fns = append(fns, fn)
		}
		sort.Slice(fns, func(i, j int) bool { return fns[i].String() < fns[j].String() })
		n := 0
		for _, fn := range fns {
			ord := ordinals{}
			for _, b := range fn.Blocks {
				for _, ins := range b.Instrs {
					c, ok := ins.(*ssa.Call)
					if !ok || c.Call.IsInvoke() {
						continue
					}
					g := c.Call.StaticCallee()
					if !isFlagged(g) {
						continue
					}
					n++
					key := fmt.Sprintf("%s: call #%d of %s", fnName(fn), ord.next(fnName(g)), fnName(g))
					last := g.Signature.Results().Len() - 1
					used := func(v ssa.Value) bool {
						if v == nil {
							return false
						}
						for _, r := range *v.Referrers() {
							if _, dbg := r.(*ssa.DebugRef); !dbg {
								return true
							}
						}
						return false
					}
					valueUsed, whole := false, false
					for _, r := range *c.Referrers() {
						switch x := r.(type) {
						case *ssa.Extract:
							if x.Index != last && used(x) {
								valueUsed = true
							}
						case *ssa.DebugRef:
						default:
							// `return g(…)`: the tuple is handed on whole
							whole = true
						}
					}
					switch {
					case whole:
						out.ok(key, p.pos(c.Pos()), fnName(fn), "the results are handed on together")
					case !valueUsed:
						out.ok(key, p.pos(c.Pos()), fnName(fn), "no other result is used")
					case used(extractOf(c, last)):
						out.ok(key, p.pos(c.Pos()), fnName(fn), "the flag is used")
					default:
						out.viol(key, p.pos(c.Pos()), fnName(fn), "a result of "+fnName(g)+" is used while its validity flag is thrown away: where the callee refuses its input (false beside the zero value) the caller goes on with the zero")
					}
				}
			}
		}
		out.Counts["calls_of_flagged_functions"] = n
		if n == 0 {
			out.ok("values with validity flags", "module", "", "no module function answers (zero, false)")
		}
		return out
	},
}

func isZeroConst(v ssa.Value) bool {
	k, ok := v.(*ssa.Const)
	if !ok {
		return false
	}
	if k.Value == nil {
		return true
	}
	switch k.Value.Kind() {
	case constant.Int, constant.Float:
		return constant.Sign(k.Value) == 0
	case constant.Bool:
		return !constant.BoolVal(k.Value)
	case constant.String:
		return constant.StringVal(k.Value) == ""
	}
	return false
}

func init() { register(ruleOKFlag) }
