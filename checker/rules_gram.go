package main

// C02/C03 (and part of C04): grammar, lexer and printer agreement.

import (
	"bytes"
	"fmt"
	"go/ast"
	"go/constant"
	"go/format"
	"go/parser"
	"go/token"
	"go/types"
	"os"
	"regexp"
	"sort"
	"strings"

	"golang.org/x/tools/go/ssa"
)

// normGo parses Go source and prints it without comments (and therefore
// without //line directives), so two generated files can be compared.
func normGo(src []byte) (string, error) {
	fset := token.NewFileSet()
	f, err := parser.ParseFile(fset, "x.go", src, 0)
	if err != nil {
		return "", err
	}
	var buf bytes.Buffer
	if err := format.Node(&buf, fset, f); err != nil {
		return "", err
	}
	return buf.String(), nil
}

var ruleGramSync = &Rule{
	Name: "R-GRAMSYNC", NeedSSA: true,
	Doc: "the compiled parser is the grammar: grammar.go equals what goyacc generates from grammar.y today (tables and action code compared as Go syntax trees, comments and //line directives ignored), and the grammar has no shift/reduce or reduce/reduce conflict, so the precedence declarations alone decide nesting",
	Run: func(p *Prog) *RuleOut {
		out := newOut("R-GRAMSYNC")
		g, err := p.grammar()
		if err != nil {
			out.undecided("goyacc", "-", "", err.Error())
			return out
		}
		out.Counts["productions"] = len(g.Rules)
		out.Floors["productions"] = 50
		if g.SR == 0 && g.RR == 0 {
			out.ok("grammar has no conflicts", "path/parser/grammar.y", "", "0 shift/reduce, 0 reduce/reduce")
		} else {
			out.viol("grammar has no conflicts", "path/parser/grammar.y", "", fmt.Sprintf("%d shift/reduce and %d reduce/reduce conflicts: nesting is decided by goyacc's defaults, not by the documented precedence", g.SR, g.RR))
		}
		var cur []byte
		for _, f := range p.Pkgs[pkgParser].Syntax {
			name := p.Fset.File(f.Pos()).Name()
			if strings.HasSuffix(name, "grammar.go") {
				if ov, ok := p.Overlay[name]; ok {
					cur = ov
				} else {
					cur, _ = readFile(name)
				}
			}
		}
		if cur == nil {
			out.undecided("grammar.go", "-", "", "generated parser source not found")
			return out
		}
		a, err1 := normGo(cur)
		b, err2 := normGo(g.GenSrc)
		if err1 != nil || err2 != nil {
			out.undecided("grammar.go is generated from grammar.y", "path/parser/grammar.go", "", fmt.Sprint(err1, err2))
			return out
		}
		if a == b {
			out.ok("grammar.go is generated from grammar.y", "path/parser/grammar.go", "", fmt.Sprintf("identical syntax trees (%d bytes normalised)", len(a)))
		} else {
			la, lb := strings.Split(a, "\n"), strings.Split(b, "\n")
			d := "length differs"
			for i := 0; i < len(la) && i < len(lb); i++ {
				if la[i] != lb[i] {
					d = fmt.Sprintf("first difference at normalised line %d: compiled %q vs regenerated %q", i+1, trunc(strings.TrimSpace(la[i]), 80), trunc(strings.TrimSpace(lb[i]), 80))
					break
				}
			}
			out.viol("grammar.go is generated from grammar.y", "path/parser/grammar.go", "", "the compiled parser is stale or hand-edited: "+d)
		}
		return out
	},
}

func readFile(name string) ([]byte, error) { return osReadFile(name) }

// prodBuilding: productions whose action builds a node of kind T with enum
// constant e, with the tokens of their right-hand side.
type prodInfo struct {
	N      int
	Tokens []string
	RHS    []string
}

func (g *Grammar) prodsBuilding(kind string, enum int64) []prodInfo {
	var out []prodInfo
	for _, n := range g.RuleOrder {
		v := g.ProdVals[n]
		if v == nil {
			continue
		}
		hit := false
		for _, s := range v.Nodes {
			if !s.Nil && s.T.Obj().Name() == kind && s.Enum == enum {
				hit = true
			}
		}
		if !hit {
			continue
		}
		// only productions whose own action constructs a node
		r := g.Rules[n]
		if !actionMentions(g.Actions[n], "New") {
			continue
		}
		pi := prodInfo{N: n, RHS: r.RHS}
		for _, s := range r.RHS {
			if g.Tokens[s] {
				pi.Tokens = append(pi.Tokens, s)
			}
		}
		out = append(out, pi)
	}
	return out
}

func actionMentions(cc *ast.CaseClause, prefix string) bool {
	if cc == nil {
		return false
	}
	found := false
	for _, st := range cc.Body {
		ast.Inspect(st, func(n ast.Node) bool {
			if se, ok := n.(*ast.SelectorExpr); ok && strings.HasPrefix(se.Sel.Name, prefix) {
				if id, ok := se.X.(*ast.Ident); ok && id.Name == "ast" {
					found = true
				}
			}
			return !found
		})
	}
	return found
}

// printerPriority extracts the priority table of an enum's priority method.
func (p *Prog) printerPriority(enumName string) (map[int64]int64, *ssa.Function, error) {
	ei := p.A.Enums[enumName]
	var fn *ssa.Function
	ms := p.SSA.MethodSets.MethodSet(ei.Type)
	for i := 0; i < ms.Len(); i++ {
		f := p.SSA.MethodValue(ms.At(i))
		if f == nil || f.Blocks == nil || f.Signature.Results().Len() != 1 || len(f.Params) != 1 {
			continue
		}
		if b, ok := f.Signature.Results().At(0).Type().(*types.Basic); ok && b.Kind() == types.Uint8 {
			fn = f
		}
	}
	if fn == nil {
		return nil, nil, fmt.Errorf("priority method of %s not found", enumName)
	}
	tx, rows := p.extractTable(fn, nil, &TableCfg{})
	out := map[int64]int64{}
	for _, c := range ei.Consts {
		k := constOf(c)
		as := Assign{fn.Params[0].Name(): k}
		for _, r := range rows {
			if r.Loop != nil || len(r.Out) != 1 {
				continue
			}
			tx.term(fn.Params[0], r, 0)
			if ok, _ := tx.satisfied(r, as); ok {
				if v := tx.eval(r.Out[0], as, 0); v.Kind == "int" {
					out[k] = v.K
				}
			}
		}
	}
	return out, fn, nil
}

// documentedStratum: the precedence strata of the SQL/JSON path language as
// documented (lowest binds loosest).
var documentedStratum = map[string]int{
	"BinaryOr": 1, "BinaryAnd": 2,
	"BinaryEqual": 3, "BinaryNotEqual": 3, "BinaryLess": 3, "BinaryLessOrEqual": 3, "BinaryGreater": 3, "BinaryGreaterOrEqual": 3, "BinaryStartsWith": 3,
	"BinaryAdd": 4, "BinarySub": 4,
	"BinaryMul": 5, "BinaryDiv": 5, "BinaryMod": 5,
	"UnaryPlus": 6, "UnaryMinus": 6,
}

var rulePrec = &Rule{
	Name: "R-PREC", NeedSSA: true,
	Doc: "the printer's priority table orders the operators exactly as the grammar does: || < && < comparisons/starts with (the predicate stratum: operands are expressions, results feed && and ||) < + − < * / % < unary ± — tokens are mapped to operator constants through the grammar actions, levels come from the %left/%right declarations",
	Run: func(p *Prog) *RuleOut {
		out := newOut("R-PREC")
		g, err := p.grammar()
		if err != nil {
			out.undecided("goyacc", "-", "", err.Error())
			return out
		}
		bprio, bfn, err1 := p.printerPriority("BinaryOperator")
		uprio, ufn, err2 := p.printerPriority("UnaryOperator")
		if err1 != nil || err2 != nil {
			out.undecided("priority tables", "-", "", fmt.Sprint(err1, err2))
			return out
		}
		bi, ui := p.A.Enums["BinaryOperator"], p.A.Enums["UnaryOperator"]
		// grammar level of each operator: declared precedence of its token; the
		// comparison operators and `starts with` have none: they live in the
		// predicate stratum between AND_P and '+'.
		type lvl struct {
			name  string
			level float64
			prio  int64
		}
		var ops []lvl
		andL, addL := float64(g.Prec["AND_P"]), float64(g.Prec["'+'"])
		if andL == 0 || addL == 0 || andL >= addL {
			out.viol("precedence declarations", "path/parser/grammar.y", "", "AND_P must be declared below '+'")
			return out
		}
		for _, c := range bi.Consts {
			prods := g.prodsBuilding("BinaryNode", constOf(c))
			if len(prods) == 0 {
				continue
			}
			level := -1.0
			for _, pr := range prods {
				// yacc's rule: the production's %prec token, else its last
				// terminal with a declared precedence
				if l, tok := g.prodLevelTok(pr.N); l > 0 && tok != "'('" && tok != "')'" {
					if level > 0 && level != float64(l) {
						out.viol("productions of "+c.Name()+" share one precedence level", "path/parser/grammar.y", "", fmt.Sprintf("productions building %s have levels %.0f and %d", c.Name(), level, l))
					}
					level = float64(l)
				}
			}
			lhs := g.Rules[prods[0].N].LHS
			switch {
			case level > 0:
			case lhs == "predicate":
				level = (andL + addL) / 2
			default:
				continue // subscript ranges and .decimal(): not operators of the expression language
			}
			ops = append(ops, lvl{c.Name(), level, bprio[constOf(c)]})
		}
		if g.ProdPrecErr != "" {
			out.undecided("%prec annotations", "path/parser/grammar.y", "", g.ProdPrecErr)
			return out
		}
		// unary sign operators: the level of the productions that build them
		// (their %prec annotation; without it, the level of the sign token,
		// which is the binary operator's)
		for _, n := range []string{"UnaryPlus", "UnaryMinus"} {
			c := ui.byName(n)
			if c == nil {
				continue
			}
			level := 0
			for _, pr := range g.prodsBuilding("UnaryNode", constOf(c)) {
				if g.Rules[pr.N].LHS != "expr" {
					continue // signs inside argument lists are not operators of the expression language
				}
				if l, tok := g.prodLevelTok(pr.N); l > level && tok != "'('" && tok != "')'" {
					level = l
				}
			}
			if level > 0 {
				ops = append(ops, lvl{n, float64(level), uprio[constOf(c)]})
			}
		}
		if debugExh {
			for _, o := range ops {
				fmt.Println("PREC", o.name, o.level, o.prio)
			}
		}
		out.Counts["operators_with_a_grammar_level"] = len(ops)
		out.Floors["operators_with_a_grammar_level"] = 14
		nbad := 0
		for i := range ops {
			for j := range ops {
				a, b := ops[i], ops[j]
				if (a.level < b.level) != (a.prio < b.prio) || (a.level == b.level) != (a.prio == b.prio) {
					if i < j {
						nbad++
						out.viol(fmt.Sprintf("priority of %s vs %s", a.name, b.name), p.pos(bfn.Pos()), fnName(bfn),
							fmt.Sprintf("grammar levels %.1f vs %.1f but printer priorities %d vs %d: parentheses will be dropped or misplaced, changing the tree on re-parse", a.level, b.level, a.prio, b.prio))
					}
				}
			}
		}
		// the documented strata (PostgreSQL's jsonpath: || < && < comparison
		// < additive < multiplicative < unary sign), by operator constant
		ndoc := 0
		for i := range ops {
			for j := i + 1; j < len(ops); j++ {
				a, b := ops[i], ops[j]
				da, oka := documentedStratum[a.name]
				db, okb := documentedStratum[b.name]
				if !oka || !okb {
					continue
				}
				ndoc++
				if (a.level < b.level) != (da < db) || (a.level == b.level) != (da == db) {
					nbad++
					out.viol(fmt.Sprintf("grammar level of %s vs %s", a.name, b.name), "path/parser/grammar.y", "",
						fmt.Sprintf("grammar levels %.1f vs %.1f but the documented strata are %d vs %d: expressions mixing the two nest differently from the documented precedence", a.level, b.level, da, db))
				}
			}
		}
		out.Counts["operator_pairs_against_documented_strata"] = ndoc
		out.Floors["operator_pairs_against_documented_strata"] = 100
		if nbad == 0 {
			out.ok("printer priorities follow the grammar", p.pos(bfn.Pos()), fnName(bfn)+" / "+fnName(ufn), fmt.Sprintf("%d operators, all pairs ordered alike", len(ops)))
		}
		// everything else has the lowest priority (never parenthesised as an operand for precedence reasons)
		lowest := int64(-1)
		for _, v := range bprio {
			if v > lowest {
				lowest = v
			}
		}
		for _, a := range ops {
			if a.prio >= lowest {
				out.viol("priority of "+a.name+" is below the default", p.pos(bfn.Pos()), fnName(bfn), "an operator shares the priority of atoms")
			}
		}
		// associativity: binary operators are %left
		for _, t := range []string{"OR_P", "AND_P", "'+'", "'-'", "'*'", "'/'", "'%'"} {
			if g.Assoc[t] != "left" {
				out.viol("associativity of "+t, "path/parser/grammar.y", "", "declared "+g.Assoc[t]+", documented left-associative")
			}
		}
		return out
	},
}

// keywordTable extracts from the lexer the map keyword → token constant and
// whether the keyword is matched case-sensitively.
type kwEntry struct {
	Token    string
	CaseSens bool
	Pos      token.Pos
}

func (p *Prog) keywordTable() (map[string]kwEntry, *types.Func, error) {
	pk := p.Pkgs[pkgParser]
	// candidate functions: func(string) T with switches over string constants
	// returning token constants; one may hand its (lower-cased) word on to
	// another (`return keywordToken(strings.ToLower(ident))`)
	type deleg struct {
		to      *types.Func
		lowered bool
	}
	type cand struct {
		fo   *types.Func
		own  map[string]kwEntry
		dels []deleg
	}
	cands := map[*types.Func]*cand{}
	var order []*types.Func
	for _, f := range pk.Syntax {
		for _, d := range f.Decls {
			fd, ok := d.(*ast.FuncDecl)
			if !ok || fd.Body == nil || fd.Recv != nil || fd.Type.Params.NumFields() != 1 {
				continue
			}
			fo, _ := pk.TypesInfo.Defs[fd.Name].(*types.Func)
			if fo == nil {
				continue
			}
			sig := fo.Type().(*types.Signature)
			if !types.Identical(sig.Params().At(0).Type(), types.Typ[types.String]) || sig.Results().Len() != 1 {
				continue
			}
			// lowered: the expression is strings.ToLower(…), or a variable
			// only ever assigned such a call
			var lowered func(e ast.Expr, depth int) bool
			lowered = func(e ast.Expr, depth int) bool {
				switch x := e.(type) {
				case *ast.ParenExpr:
					return lowered(x.X, depth)
				case *ast.CallExpr:
					if se, ok := x.Fun.(*ast.SelectorExpr); ok && se.Sel.Name == "ToLower" {
						if id, ok := se.X.(*ast.Ident); ok {
							if pn, ok := pk.TypesInfo.Uses[id].(*types.PkgName); ok && pn.Imported().Path() == "strings" {
								return true
							}
						}
					}
				case *ast.Ident:
					obj := pk.TypesInfo.ObjectOf(x)
					if obj == nil || depth > 2 {
						return false
					}
					n, all := 0, true
					ast.Inspect(fd.Body, func(nd ast.Node) bool {
						switch a := nd.(type) {
						case *ast.AssignStmt:
							for i, l := range a.Lhs {
								if id, ok := l.(*ast.Ident); ok && pk.TypesInfo.ObjectOf(id) == obj {
									n++
									if len(a.Rhs) != len(a.Lhs) || !lowered(a.Rhs[i], depth+1) {
										all = false
									}
								}
							}
						case *ast.ValueSpec:
							for i, id := range a.Names {
								if pk.TypesInfo.ObjectOf(id) == obj && i < len(a.Values) {
									n++
									if !lowered(a.Values[i], depth+1) {
										all = false
									}
								}
							}
						}
						return true
					})
					return n > 0 && all
				}
				return false
			}
			c := &cand{fo: fo, own: map[string]kwEntry{}}
			ast.Inspect(fd.Body, func(n ast.Node) bool {
				switch x := n.(type) {
				case *ast.SwitchStmt:
					if x.Tag == nil {
						return true
					}
					caseSens := !lowered(x.Tag, 0)
					for _, cl := range x.Body.List {
						cc := cl.(*ast.CaseClause)
						var tok string
						for _, st := range cc.Body {
							if r, ok := st.(*ast.ReturnStmt); ok && len(r.Results) == 1 {
								if id, ok := r.Results[0].(*ast.Ident); ok {
									tok = id.Name
								}
							}
						}
						for _, e := range cc.List {
							if tv, ok := pk.TypesInfo.Types[e]; ok && tv.Value != nil && tv.Value.Kind() == constant.String && tok != "" {
								c.own[constant.StringVal(tv.Value)] = kwEntry{tok, caseSens, e.Pos()}
							}
						}
					}
				case *ast.ReturnStmt:
					if len(x.Results) != 1 {
						return true
					}
					call, ok := x.Results[0].(*ast.CallExpr)
					if !ok || len(call.Args) != 1 {
						return true
					}
					id, ok := call.Fun.(*ast.Ident)
					if !ok {
						return true
					}
					if to, ok := pk.TypesInfo.Uses[id].(*types.Func); ok && to != fo {
						c.dels = append(c.dels, deleg{to, lowered(call.Args[0], 0)})
					}
				}
				return true
			})
			cands[fo] = c
			order = append(order, fo)
		}
	}
	var merged func(fo *types.Func, depth int) map[string]kwEntry
	merged = func(fo *types.Func, depth int) map[string]kwEntry {
		c := cands[fo]
		if c == nil || depth > 3 {
			return nil
		}
		m := map[string]kwEntry{}
		for _, d := range c.dels {
			for k, e := range merged(d.to, depth+1) {
				if d.lowered {
					e.CaseSens = false
				}
				m[k] = e
			}
		}
		for k, e := range c.own {
			m[k] = e
		}
		return m
	}
	var best map[string]kwEntry
	var bestFo *types.Func
	for _, fo := range order {
		if m := merged(fo, 0); len(m) > len(best) {
			best, bestFo = m, fo
		}
	}
	if len(best) >= 10 {
		return best, bestFo, nil
	}
	return nil, nil, fmt.Errorf("anchor unresolved: keyword table (func(string) token with switches over string constants)")
}

var ruleKeywords = &Rule{
	Name: "R-KEYWORDS", NeedSSA: true,
	Doc: "the lexer's keyword table and the grammar agree: every keyword token of the grammar is produced by exactly one lower-case keyword; true, false and null are matched case-sensitively and every other keyword through strings.ToLower; every keyword token is also accepted as a key name (so `$.last`, `$.type` … are member accesses)",
	Run: func(p *Prog) *RuleOut {
		out := newOut("R-KEYWORDS")
		g, err := p.grammar()
		if err != nil {
			out.undecided("goyacc", "-", "", err.Error())
			return out
		}
		tab, fo, err := p.keywordTable()
		if err != nil {
			out.undecided("keyword table", "-", "", err.Error())
			return out
		}
		out.Counts["keywords"] = len(tab)
		out.Floors["keywords"] = 30
		fname := fo.Name()
		byTok := map[string][]string{}
		for kw, e := range tab {
			byTok[e.Token] = append(byTok[e.Token], kw)
			if kw != strings.ToLower(kw) {
				out.viol("keyword "+kw+" is lower case", p.pos(e.Pos), fname, "a case-insensitive keyword is listed with upper-case letters and can never match the lower-cased identifier")
			}
			want := kw == "true" || kw == "false" || kw == "null"
			if e.CaseSens != want {
				if want {
					out.viol("keyword "+kw+" is case-sensitive", p.pos(e.Pos), fname, "true/false/null must be matched exactly (TRUE is an identifier)")
				} else {
					out.viol("keyword "+kw+" is case-insensitive", p.pos(e.Pos), fname, "keyword is matched case-sensitively; the documented syntax is case-insensitive")
				}
			}
		}
		// key_name alternatives
		keyTok := map[string]bool{}
		for _, r := range g.Rules {
			if r.LHS == "key_name" && len(r.RHS) == 1 {
				keyTok[r.RHS[0]] = true
			}
		}
		out.Counts["key_name_alternatives"] = len(keyTok)
		out.Floors["key_name_alternatives"] = 30
		// keyword tokens of the grammar: tokens ending in _P that are produced by the table
		for tok, kws := range byTok {
			sort.Strings(kws)
			if len(kws) != 1 {
				out.viol("token "+tok+" has one spelling", p.pos(fo.Pos()), fname, "produced by several keywords: "+strings.Join(kws, ", "))
			}
			if !g.Tokens[tok] {
				out.viol("token "+tok+" is used by the grammar", p.pos(fo.Pos()), fname, "the lexer produces a token no production mentions")
				continue
			}
			if !keyTok[tok] {
				out.viol("keyword "+kws[0]+" is accepted as a key name", "path/parser/grammar.y", "", "token "+tok+" is missing from the key_name alternatives: `$."+kws[0]+"` would be a syntax error")
			} else {
				out.ok("keyword "+kws[0]+" ↔ "+tok, p.pos(tab[kws[0]].Pos), fname, "one spelling, used by the grammar, accepted as key name")
			}
		}
		// every identifier-like token of the grammar (…_P used in key_name, other than the generic ones) has a keyword
		generic := map[string]bool{"IDENT_P": true, "STRING_P": true}
		for tok := range keyTok {
			if generic[tok] {
				continue
			}
			if len(byTok[tok]) == 0 {
				out.viol("token "+tok+" has a keyword", p.pos(fo.Pos()), fname, "the grammar uses a keyword token the lexer never produces")
			}
		}
		return out
	},
}

// stringerTable reads the names the generated String method prints for an
// enum: _<T>_name constant and _<T>_index array.
func (p *Prog) stringerTable(ei *EnumInfo) (map[int64]string, error) {
	pk := p.Pkgs[pkgAST]
	tn := ei.Type.Obj().Name()
	var names string
	var idx []int64
	for _, f := range pk.Syntax {
		for _, d := range f.Decls {
			gd, ok := d.(*ast.GenDecl)
			if !ok {
				continue
			}
			for _, sp := range gd.Specs {
				vs, ok := sp.(*ast.ValueSpec)
				if !ok {
					continue
				}
				for i, nm := range vs.Names {
					switch nm.Name {
					case "_" + tn + "_name":
						if tv, ok := pk.TypesInfo.Types[vs.Values[i]]; ok && tv.Value != nil {
							names = constant.StringVal(tv.Value)
						}
					case "_" + tn + "_index":
						if cl, ok := vs.Values[i].(*ast.CompositeLit); ok {
							for _, e := range cl.Elts {
								if tv, ok := pk.TypesInfo.Types[e]; ok && tv.Value != nil {
									v, _ := constant.Int64Val(tv.Value)
									idx = append(idx, v)
								}
							}
						}
					}
				}
			}
		}
	}
	if names == "" || len(idx) < 2 {
		return nil, fmt.Errorf("stringer tables of %s not found", tn)
	}
	out := map[int64]string{}
	for i := 0; i+1 < len(idx); i++ {
		out[int64(i)] = names[idx[i]:idx[i+1]]
	}
	return out, nil
}

var wordRe = regexp.MustCompile(`[A-Za-z_]+`)

var ruleVocab = &Rule{
	Name: "R-VOCAB", NeedSSA: true,
	Doc: "printer ↔ lexer ↔ grammar vocabulary: for every enum constant whose printed form contains keywords (methods, datetime methods, exists, is unknown, starts with, last, to, true/false/null, .decimal()), each printed word is a keyword of the lexer, and a production that consumes exactly those keyword tokens builds a node with that very constant",
	Run: func(p *Prog) *RuleOut {
		out := newOut("R-VOCAB")
		g, err := p.grammar()
		if err != nil {
			out.undecided("goyacc", "-", "", err.Error())
			return out
		}
		tab, _, err := p.keywordTable()
		if err != nil {
			out.undecided("keyword table", "-", "", err.Error())
			return out
		}
		kinds := map[string]string{"Constant": "ConstNode", "BinaryOperator": "BinaryNode", "UnaryOperator": "UnaryNode", "MethodName": "MethodNode"}
		n := 0
		for _, en := range []string{"Constant", "BinaryOperator", "UnaryOperator", "MethodName"} {
			ei := p.A.Enums[en]
			st, err := p.stringerTable(ei)
			if err != nil {
				out.undecided("printed names of "+en, "-", "", err.Error())
				continue
			}
			for _, c := range ei.Consts {
				k := constOf(c)
				printed, ok := st[k]
				if !ok {
					out.viol("printed name of "+c.Name(), "path/ast/ast_string.go", "", "the generated String method has no entry for this constant")
					continue
				}
				words := wordRe.FindAllString(printed, -1)
				if len(words) == 0 {
					continue // punctuation operators: lexer side not decided here
				}
				n++
				key := fmt.Sprintf("%s prints %q", c.Name(), printed)
				var toks []string
				bad := ""
				for _, w := range words {
					e, ok := tab[w]
					if !ok {
						bad = "printed word " + w + " is not a keyword of the lexer"
						break
					}
					toks = append(toks, e.Token)
				}
				if bad != "" {
					out.viol(key, "path/ast/ast_string.go", "", bad+": the printed path does not parse back")
					continue
				}
				prods := g.prodsBuilding(kinds[en], k)
				hit := false
				for _, pr := range prods {
					have := map[string]bool{}
					for _, t := range pr.Tokens {
						have[t] = true
					}
					all := true
					for _, t := range toks {
						if !have[t] {
							all = false
						}
					}
					if all {
						hit = true
					}
				}
				if hit {
					out.ok(key, "path/parser/grammar.y", "", "keywords "+strings.Join(toks, " ")+" → a production building "+c.Name())
				} else {
					out.viol(key, "path/parser/grammar.y", "", "no production consuming "+strings.Join(toks, " ")+" builds "+c.Name()+": the printed keyword parses to a different node (or not at all)")
				}
			}
		}
		out.Counts["keyword_bearing_constants"] = n
		out.Floors["keyword_bearing_constants"] = 25
		return out
	},
}

// --- R-LEXRESET -----------------------------------------------------------------------------

var ruleLexReset = &Rule{
	Name: "R-LEXRESET", NeedSSA: true,
	Doc: "the token text buffer is discarded only at the start of a token (in Lex) or on paths on which an error has been recorded: the value of a token cannot depend on whether the end of the input follows it",
	Run: func(p *Prog) *RuleOut {
		out := newOut("R-LEXRESET")
		lexT, err := lookupNamed(p.Pkgs[pkgParser].Types, "lexer")
		if err != nil {
			out.undecided("lexer type", "-", "", err.Error())
			return out
		}
		// the reset method: a method of lexer that calls (*strings.Builder).Reset
		var reset *ssa.Function
		for fn := range p.AllFns {
			if fnPkgPath(fn) != pkgParser || fn.Signature.Recv() == nil || namedOf(fn.Signature.Recv().Type()) != lexT {
				continue
			}
			for _, b := range fn.Blocks {
				for _, ins := range b.Instrs {
					if c, ok := ins.(*ssa.Call); ok && calleeQualified(&c.Call) == "strings.Reset" {
						reset = fn
					}
				}
			}
		}
		if reset == nil {
			out.undecided("buffer reset method", "-", "", "anchor unresolved: method of lexer calling strings.Builder.Reset")
			return out
		}
		n := 0
		for fn := range p.AllFns {
			if fnPkgPath(fn) != pkgParser || fn.Blocks == nil {
				continue
			}
			calls := callsTo(fn, reset)
			if len(calls) == 0 {
				continue
			}
			// forward dataflow: "an error has been recorded on every path to here"
			rec := p.errorRecordedAt(fn, lexT)
			for _, c := range calls {
				n++
				key := fnName(fn) + " discards the token buffer"
				if fn.Name() == "Lex" {
					out.ok(key, p.pos(c.Pos()), fnName(fn), "start of a new token")
					continue
				}
				if rec[c] {
					out.ok(key, p.pos(c.Pos()), fnName(fn), "only after an error was recorded")
				} else {
					out.viol(key, p.pos(c.Pos()), fnName(fn), "the buffer is discarded on a path without a recorded error (e.g. when the end of the input follows): the token silently loses its text")
				}
			}
		}
		out.Counts["reset_call_sites"] = n
		out.Floors["reset_call_sites"] = 3
		return out
	},
}

// errorRecordedAt: for every call instruction of fn, whether on all paths an
// error was recorded (call to an error-recording method, or the true edge of
// hasError()).
func (p *Prog) errorRecordedAt(fn *ssa.Function, lexT *types.Named) map[*ssa.Call]bool {
	isHasError := func(v ssa.Value) bool {
		c, ok := v.(*ssa.Call)
		if !ok || c.Call.StaticCallee() == nil {
			return false
		}
		sc := c.Call.StaticCallee()
		if sc.Signature.Recv() == nil || namedOf(sc.Signature.Recv().Type()) != lexT || len(sc.Blocks) != 1 {
			return false
		}
		r, ok := sc.Blocks[0].Instrs[len(sc.Blocks[0].Instrs)-1].(*ssa.Return)
		if !ok || len(r.Results) != 1 {
			return false
		}
		bo, ok := r.Results[0].(*ssa.BinOp)
		if !ok || bo.Op != token.GTR {
			return false
		}
		lc, ok := bo.X.(*ssa.Call)
		if !ok {
			return false
		}
		if bi, ok := lc.Call.Value.(*ssa.Builtin); !ok || bi.Name() != "len" {
			return false
		}
		_, ok = loadOfField(lc.Call.Args[0], "errors")
		return ok
	}
	// errCond: +1 if the condition being true means an error has been
	// recorded, -1 if its being false does, 0 otherwise. Recognises the
	// hasError() helper and the comparison it stands for, written in place.
	var errCond func(v ssa.Value) int
	errCond = func(v ssa.Value) int {
		if isHasError(v) {
			return 1
		}
		switch x := v.(type) {
		case *ssa.UnOp:
			if x.Op == token.NOT {
				return -errCond(x.X)
			}
		case *ssa.BinOp:
			lc, ok := x.X.(*ssa.Call)
			if !ok {
				return 0
			}
			if bi, ok := lc.Call.Value.(*ssa.Builtin); !ok || bi.Name() != "len" {
				return 0
			}
			if _, ok := loadOfField(lc.Call.Args[0], "errors"); !ok {
				return 0
			}
			k, ok := constInt(x.Y)
			if !ok {
				return 0
			}
			switch {
			case x.Op == token.GTR && k == 0, x.Op == token.NEQ && k == 0, x.Op == token.GEQ && k == 1:
				return 1
			case x.Op == token.EQL && k == 0, x.Op == token.LEQ && k == 0, x.Op == token.LSS && k == 1:
				return -1
			}
		}
		return 0
	}
	in := map[*ssa.BasicBlock]bool{}
	outS := map[*ssa.BasicBlock]bool{}
	seen := map[*ssa.BasicBlock]bool{}
	// initialise optimistic (true) except entry; iterate to the greatest fixpoint of AND
	for _, b := range fn.Blocks {
		in[b], outS[b] = true, true
	}
	in[fn.Blocks[0]] = false
	res := map[*ssa.Call]bool{}
	for iter := 0; iter < 50; iter++ {
		changed := false
		for _, b := range fn.Blocks {
			st := in[b]
			if b != fn.Blocks[0] {
				st = true
				for _, pr := range b.Preds {
					es := outS[pr]
					if iff, ok := pr.Instrs[len(pr.Instrs)-1].(*ssa.If); ok && len(pr.Succs) == 2 {
						switch errCond(iff.Cond) {
						case 1:
							if pr.Succs[0] == b {
								es = true
							}
						case -1:
							if pr.Succs[1] == b {
								es = true
							}
						}
					}
					if !es {
						st = false
					}
				}
				if len(b.Preds) == 0 {
					st = false
				}
			}
			in[b] = st
			for _, ins := range b.Instrs {
				if c, ok := ins.(*ssa.Call); ok {
					res[c] = st
				}
				if recordsError(ins, lexT) {
					st = true
				}
			}
			if outS[b] != st || !seen[b] {
				outS[b] = st
				seen[b] = true
				changed = true
			}
		}
		if !changed {
			break
		}
	}
	return res
}

// --- R-PRED ----------------------------------------------------------------------------------

var rulePred = &Rule{
	Name: "R-PRED", NeedSSA: true,
	Doc: "the predicate flag is set by exactly the production expr_or_predicate: predicate, flows through setResult into ast.New, and IsPredicate (hence PgIndexOperator and ExistsOrMatch) reads that one field",
	Run: func(p *Prog) *RuleOut {
		out := newOut("R-PRED")
		g, err := p.grammar()
		if err != nil {
			out.undecided("goyacc", "-", "", err.Error())
			return out
		}
		var want []int
		for _, n := range g.RuleOrder {
			r := g.Rules[n]
			if r.LHS == "expr_or_predicate" && len(r.RHS) == 1 && r.RHS[0] == "predicate" {
				want = append(want, n)
			}
		}
		sort.Ints(g.SetPredIn)
		if len(want) == 1 && len(g.SetPredIn) == 1 && g.SetPredIn[0] == want[0] {
			out.ok("the flag is set by expr_or_predicate: predicate only", "path/parser/grammar.y", "", fmt.Sprintf("production %d", want[0]))
		} else {
			out.viol("the flag is set by expr_or_predicate: predicate only", "path/parser/grammar.y", "", fmt.Sprintf("setPred is called in productions %v; expected exactly %v", g.SetPredIn, want))
		}
		if len(g.SetResIn) == 1 && g.Rules[g.SetResIn[0]].LHS == "result" {
			out.ok("the result is published by the start production", "path/parser/grammar.y", "", fmt.Sprintf("production %d", g.SetResIn[0]))
		} else {
			out.viol("the result is published by the start production", "path/parser/grammar.y", "", fmt.Sprintf("setResult is called in productions %v", g.SetResIn))
		}
		// ast.New stores its pred parameter; IsPredicate returns that field
		astNew := p.ssaFunc(pkgAST, "New")
		isPred := p.ssaFunc(pkgAST, "*AST.IsPredicate")
		if astNew == nil || isPred == nil {
			out.undecided("ast.New / IsPredicate", "-", "", "anchor unresolved")
			return out
		}
		var predField string
		if f, ok := p.getterField(isPred); ok {
			predField = f
		}
		stored := false
		for _, b := range astNew.Blocks {
			for _, ins := range b.Instrs {
				if st, ok := ins.(*ssa.Store); ok {
					if fa, ok := st.Addr.(*ssa.FieldAddr); ok && fieldName(fa) == predField {
						if q, ok := st.Val.(*ssa.Parameter); ok && paramIndex(q) == 1 {
							stored = true
						}
					}
				}
			}
		}
		if predField != "" && stored {
			out.ok("IsPredicate reads the field ast.New fills from its predicate argument", p.pos(isPred.Pos()), fnName(isPred), "field "+predField)
		} else {
			out.viol("IsPredicate reads the field ast.New fills from its predicate argument", p.pos(isPred.Pos()), fnName(isPred), "the flag returned by IsPredicate is not the one given to ast.New")
		}
		// setResult passes the lexer's flag, which only setPred sets
		lexT, _ := lookupNamed(p.Pkgs[pkgParser].Types, "lexer")
		var flagField string
		okPass := false
		for fn := range p.AllFns {
			if fnPkgPath(fn) != pkgParser || fn.Blocks == nil {
				continue
			}
			for _, c := range callsTo(fn, astNew) {
				if base, ok := loadOfFieldAny(c.Call.Args[1]); ok && namedOf(base.Type()) == lexT {
					flagField = base.FieldName
					okPass = true
				}
			}
		}
		if !okPass {
			out.viol("the parser hands its predicate flag to ast.New", "-", "", "the second argument of ast.New is not a field of the lexer")
			return out
		}
		var setters []string
		for fn := range p.AllFns {
			if fnPkgPath(fn) != pkgParser || fn.Blocks == nil {
				continue
			}
			for _, b := range fn.Blocks {
				for _, ins := range b.Instrs {
					if st, ok := ins.(*ssa.Store); ok {
						if fa, ok := st.Addr.(*ssa.FieldAddr); ok && namedOf(fa.X.Type()) == lexT && fieldName(fa) == flagField {
							if _, fresh := fa.X.(*ssa.Alloc); !fresh {
								setters = append(setters, fn.Name())
							}
						}
					}
				}
			}
		}
		sort.Strings(setters)
		if len(setters) == 1 {
			out.ok("only one function sets the lexer's predicate flag", "-", setters[0], "field "+flagField)
		} else {
			out.viol("only one function sets the lexer's predicate flag", "-", "", "setters: "+strings.Join(setters, ", "))
		}
		// PgIndexOperator calls IsPredicate
		if pg := p.ssaFunc(pkgPath, "*Path.PgIndexOperator"); pg != nil {
			reach := p.reachFrom([]*ssa.Function{pg})
			if reach.Set[isPred] {
				out.ok("PgIndexOperator is decided by IsPredicate", p.pos(pg.Pos()), fnName(pg), "")
			} else {
				out.viol("PgIndexOperator is decided by IsPredicate", p.pos(pg.Pos()), fnName(pg), "does not consult the predicate flag")
			}
		}
		return out
	},
}

type fieldLoad struct {
	ssa.Value
	FieldName string
}

func loadOfFieldAny(v ssa.Value) (fieldLoad, bool) {
	u, ok := v.(*ssa.UnOp)
	if !ok || u.Op != token.MUL {
		return fieldLoad{}, false
	}
	fa, ok := u.X.(*ssa.FieldAddr)
	if !ok {
		return fieldLoad{}, false
	}
	return fieldLoad{fa.X, fieldName(fa)}, true
}

// getterField: fn's body is `return recv.f`.
func (p *Prog) getterField(fn *ssa.Function) (string, bool) {
	if len(fn.Blocks) != 1 {
		return "", false
	}
	r, ok := fn.Blocks[0].Instrs[len(fn.Blocks[0].Instrs)-1].(*ssa.Return)
	if !ok || len(r.Results) != 1 {
		return "", false
	}
	fl, ok := loadOfFieldAny(r.Results[0])
	return fl.FieldName, ok
}

// --- R-NILNODE ----------------------------------------------------------------------------------

var ruleNilNode = &Rule{
	Name: "R-NILNODE", NeedSSA: true,
	Doc: "no grammar action publishes a nil node silently: every path through an action whose $$ is a node either assigns $$ (from a constructor or another semantic value) or records an error; an ε-production always assigns; a constructor returning (node, error) is called with its error checked and recorded",
	Run: func(p *Prog) *RuleOut {
		out := newOut("R-NILNODE")
		g, err := p.grammar()
		if err != nil {
			out.undecided("goyacc", "-", "", err.Error())
			return out
		}
		n := 0
		for _, rn := range g.RuleOrder {
			r := g.Rules[rn]
			v := g.Vals[r.LHS]
			if v == nil || (len(v.Nodes) == 0 && len(v.Head) == 0) {
				continue // not node-valued
			}
			cc := g.Actions[rn]
			key := fmt.Sprintf("production %d (%s: %s)", rn, r.LHS, strings.Join(r.RHS, " "))
			if cc == nil {
				if len(r.RHS) == 0 {
					out.viol(key, "path/parser/grammar.y", "", "an ε-production without an action leaves $$ holding a stale stack slot")
				}
				continue
			}
			n++
			// node-valued first symbol: the default $$ = $1 is a node already
			defaultOK := len(r.RHS) > 0 && g.isNT(r.RHS[0]) && g.Vals[r.RHS[0]] != nil && (len(g.Vals[r.RHS[0]].Nodes) > 0 || len(g.Vals[r.RHS[0]].Head) > 0)
			if defaultOK || mustAssignOrError(cc.Body) {
				out.ok(key, p.pos(cc.Pos()), "", "every path assigns $$ or records an error")
			} else {
				out.viol(key, p.pos(cc.Pos()), "", "a path through the action neither assigns $$ nor records an error: parsing continues with a nil node")
			}
		}
		out.Counts["node_valued_actions"] = n
		out.Floors["node_valued_actions"] = 20
		return out
	},
}

// mustAssignOrError: every path through stmts assigns pathVAL.<f> or calls
// pathlex.Error.
func mustAssignOrError(stmts []ast.Stmt) bool {
	for _, st := range stmts {
		switch x := st.(type) {
		case *ast.AssignStmt:
			for _, l := range x.Lhs {
				if se, ok := l.(*ast.SelectorExpr); ok {
					if id, ok := se.X.(*ast.Ident); ok && id.Name == "pathVAL" {
						return true
					}
				}
			}
		case *ast.ExprStmt:
			if call, ok := x.X.(*ast.CallExpr); ok {
				if se, ok := call.Fun.(*ast.SelectorExpr); ok && se.Sel.Name == "Error" {
					return true
				}
			}
		case *ast.IfStmt:
			if x.Else != nil {
				eb, ok := x.Else.(*ast.BlockStmt)
				if ok && mustAssignOrError(x.Body.List) && mustAssignOrError(eb.List) {
					return true
				}
			}
		case *ast.SwitchStmt:
			hasDefault := false
			all := true
			for _, cl := range x.Body.List {
				cc := cl.(*ast.CaseClause)
				if cc.List == nil {
					hasDefault = true
				}
				if !mustAssignOrError(cc.Body) {
					all = false
				}
			}
			if hasDefault && all {
				return true
			}
		case *ast.BlockStmt:
			if mustAssignOrError(x.List) {
				return true
			}
		}
	}
	return false
}

func init() {
	register(ruleGramSync, rulePrec, ruleKeywords, ruleVocab, ruleLexReset, rulePred, ruleNilNode)
}

func osReadFile(name string) ([]byte, error) { return os.ReadFile(name) }

// --- R-OPTOKENS: punctuation operators -------------------------------------------------------

// tokenNames: value → name of the token constants of the generated parser.
func (p *Prog) tokenNames() map[int64]string {
	out := map[int64]string{}
	sc := p.Pkgs[pkgParser].Types.Scope()
	for _, n := range sc.Names() {
		if c, ok := sc.Lookup(n).(*types.Const); ok && strings.HasSuffix(n, "_P") && c.Val().Kind() == constant.Int {
			v, _ := constant.Int64Val(c.Val())
			out[v] = n
		}
	}
	return out
}

var ruleOpTokens = &Rule{
	Name: "R-OPTOKENS", NeedSSA: true,
	Doc: "the hand-written operator scanner's complete table over (first character, next character) is extracted; every punctuation operator the printer can emit (==, !=, <, <=, >, >=, &&, ||, !, +, -, *, /, %, **) is scanned to a token whose production builds the very constant that prints it; != and <> give the same token",
	Run: func(p *Prog) *RuleOut {
		out := newOut("R-OPTOKENS")
		g, err := p.grammar()
		if err != nil {
			out.undecided("goyacc", "-", "", err.Error())
			return out
		}
		lexT, _ := lookupNamed(p.Pkgs[pkgParser].Types, "lexer")
		// the operator scanner: method (rune) (rune, rune) of lexer
		var fn *ssa.Function
		best := 3
		for f := range p.AllFns {
			if fnPkgPath(f) != pkgParser || f.Blocks == nil || f.Signature.Recv() == nil || namedOf(f.Signature.Recv().Type()) != lexT {
				continue
			}
			if f.Signature.Params().Len() != 1 || f.Signature.Results().Len() != 2 {
				continue
			}
			isRune := func(t types.Type) bool { b, ok := t.(*types.Basic); return ok && b.Kind() == types.Int32 }
			if isRune(f.Signature.Params().At(0).Type()) && isRune(f.Signature.Results().At(0).Type()) && isRune(f.Signature.Results().At(1).Type()) {
				// the one that compares its parameter with punctuation constants
				n := 0
				var count func(g *ssa.Function, q ssa.Value, depth int)
				count = func(g *ssa.Function, q ssa.Value, depth int) {
					for _, b := range g.Blocks {
						for _, ins := range b.Instrs {
							if bo, ok := ins.(*ssa.BinOp); ok && bo.Op == token.EQL && bo.X == q {
								if k, ok := constInt(bo.Y); ok && strings.ContainsRune("=<>!&|*", rune(k)) {
									n++
								}
							}
							// a plain function of the package that is handed the character
							if c, ok := ins.(*ssa.Call); ok && depth == 0 {
								if sc := c.Call.StaticCallee(); sc != nil && inlinableFn(sc, 0) && fnPkgPath(sc) == pkgParser {
									for i, a := range c.Call.Args {
										if a == q && i < len(sc.Params) {
											count(sc, sc.Params[i], depth+1)
										}
									}
								}
							}
						}
					}
				}
				count(f, f.Params[1], 0)
				if n > best {
					fn, best = f, n
				}
			}
		}
		if fn == nil {
			out.undecided("operator scanner", "-", "", "anchor unresolved: lexer method (rune) (rune, rune)")
			return out
		}
		chars := []int64{'=', '>', '<', '!', '&', '|', '*', '+', '-', '/', '%', '?', 'a'}
		chP := fn.Params[1]
		var nextAtom string
		tx, rows := p.extractTable(fn, nil, &TableCfg{IntDomain: func(v ssa.Value) []int64 {
			if v == ssa.Value(chP) {
				return chars
			}
			if c, ok := v.(*ssa.Call); ok && c.Call.StaticCallee() != nil && c.Call.StaticCallee().Name() == "next" {
				return chars
			}
			return nil
		}})
		for k, ai := range tx.atoms {
			if ai.Call != nil && ai.Call.Block() == fn.Blocks[0] {
				nextAtom = k
			}
		}
		if nextAtom == "" {
			out.undecided("operator scanner", p.pos(fn.Pos()), fnName(fn), "look-ahead atom not found")
			return out
		}
		names := p.tokenNames()
		table := map[string]string{} // spelling → token
		ncell := 0
		for _, c1 := range chars {
			for _, c2 := range chars {
				as := Assign{chP.Name(): c1, nextAtom: c2}
				for _, r := range rows {
					if r.Loop != nil || len(r.Out) != 2 {
						continue
					}
					tx.term(chP, r, 0)
					ok, _ := tx.satisfied(r, as)
					if !ok {
						continue
					}
					ncell++
					tok := tx.eval(r.Out[0], as, 0)
					// consumed two characters iff the second result is a fresh look-ahead
					two := r.Out[1].Kind == "atom" && r.Out[1].Atom != nextAtom
					if tok.Kind != "int" {
						// the path ends in a small helper of the lexer that is
						// handed the characters and the tokens to choose from
						// (`return l.digraph(next, '=', EQUAL_P, ch)`)
						k, t2, ok := p.scanThroughHelper(tx, r, as, lexT, nextAtom, chars)
						if !ok {
							continue
						}
						tok, two = Val{Kind: "int", K: k}, t2
					}
					spelling := string(rune(c1))
					if two {
						spelling += string(rune(c2))
					}
					name, isTok := names[tok.K]
					if !isTok {
						name = "'" + string(rune(tok.K)) + "'"
					}
					if prev, ok := table[spelling]; ok && prev != name {
						out.viol("operator "+spelling+" is scanned consistently", p.pos(fn.Pos()), fnName(fn), "scanned as "+prev+" and as "+name+" depending on what follows")
					}
					table[spelling] = name
				}
			}
		}
		out.Counts["scanner_cells"] = ncell
		out.Floors["scanner_cells"] = 100
		// printer side: punctuation names of the enums
		n := 0
		for _, en := range []string{"BinaryOperator", "UnaryOperator"} {
			ei := p.A.Enums[en]
			st, err := p.stringerTable(ei)
			if err != nil {
				continue
			}
			kind := map[string]string{"BinaryOperator": "BinaryNode", "UnaryOperator": "UnaryNode"}[en]
			for _, c := range ei.Consts {
				printed := st[constOf(c)]
				if printed == "" || wordRe.MatchString(printed) {
					continue
				}
				n++
				key := fmt.Sprintf("%s prints %q", c.Name(), printed)
				tok, ok := table[printed]
				if !ok {
					out.viol(key, p.pos(fn.Pos()), fnName(fn), "the operator scanner has no path producing a token for this spelling")
					continue
				}
				// a production (or comp_op alternative) consuming tok that yields the constant
				hit := false
				for _, pr := range g.prodsBuilding(kind, constOf(c)) {
					for _, t := range pr.Tokens {
						if t == tok {
							hit = true
						}
					}
					// through comp_op
					for _, s := range pr.RHS {
						if s == "comp_op" {
							for _, rn := range g.RuleOrder {
								r := g.Rules[rn]
								if r.LHS == "comp_op" && len(r.RHS) == 1 && r.RHS[0] == tok && g.ProdVals[rn] != nil && g.ProdVals[rn].Enums[constOf(c)] {
									hit = true
								}
							}
						}
					}
				}
				if hit {
					out.ok(key, p.pos(fn.Pos()), fnName(fn), printed+" → "+tok+" → a production building "+c.Name())
				} else {
					out.viol(key, "path/parser/grammar.y", "", "the printed operator scans to "+tok+", but no production consuming that token builds "+c.Name())
				}
			}
		}
		out.Counts["punctuation_operators"] = n
		out.Floors["punctuation_operators"] = 12
		if table["!="] != "" && table["!="] == table["<>"] {
			out.ok("!= and <> are the same token", p.pos(fn.Pos()), fnName(fn), table["!="])
		} else {
			out.viol("!= and <> are the same token", p.pos(fn.Pos()), fnName(fn), fmt.Sprintf("!= → %q, <> → %q", table["!="], table["<>"]))
		}
		if table["**"] == "ANY_P" {
			out.ok("** is the recursive-descent token", p.pos(fn.Pos()), fnName(fn), "ANY_P")
		} else {
			out.viol("** is the recursive-descent token", p.pos(fn.Pos()), fnName(fn), "** scans to "+table["**"])
		}
		return out
	},
}

func init() { register(ruleOpTokens) }

var scanHelperTables = map[*ssa.Function]*subTab{}

// scanThroughHelper: row r of the operator scanner returns both results of one
// call of a loop-free lexer method whose other parameters and results are all
// characters. The helper's own table is evaluated with its parameters bound
// to the values of the call's arguments under as; the second result is a
// fresh look-ahead when it is a call made in the helper (`l.next()`), or a
// parameter handed something other than the scanner's look-ahead.
func (p *Prog) scanThroughHelper(tx *tableEx, r *PathRow, as Assign, lexT *types.Named, nextAtom string, chars []int64) (int64, bool, bool) {
	ret, ok := r.End.(*ssa.Return)
	if !ok || len(ret.Results) != 2 {
		return 0, false, false
	}
	e0, ok0 := ret.Results[0].(*ssa.Extract)
	e1, ok1 := ret.Results[1].(*ssa.Extract)
	if !ok0 || !ok1 || e0.Tuple != e1.Tuple || e0.Index != 0 || e1.Index != 1 {
		return 0, false, false
	}
	hc, ok := e0.Tuple.(*ssa.Call)
	if !ok {
		return 0, false, false
	}
	h := hc.Call.StaticCallee()
	if h == nil || h.Blocks == nil || len(h.Blocks) > 16 || fnPkgPath(h) != pkgParser || h.Signature.Recv() == nil || namedOf(h.Signature.Recv().Type()) != lexT ||
		h.Signature.Results().Len() != 2 || len(h.Params) < 2 || len(hc.Call.Args) != len(h.Params) {
		return 0, false, false
	}
	isRune := func(t types.Type) bool {
		b, ok := t.Underlying().(*types.Basic)
		return ok && b.Info()&types.IsInteger != 0
	}
	for _, q := range h.Params[1:] {
		if !isRune(q.Type()) {
			return 0, false, false
		}
	}
	for _, b := range h.Blocks {
		for _, s := range b.Succs {
			if s.Dominates(b) {
				return 0, false, false
			}
		}
	}
	st := scanHelperTables[h]
	if st == nil {
		htx, hrows := p.extractTable(h, nil, &TableCfg{IntDomain: func(v ssa.Value) []int64 {
			if q, ok := v.(*ssa.Parameter); ok && isRune(q.Type()) {
				return []int64{0}
			}
			if c, ok := v.(*ssa.Call); ok && c.Call.StaticCallee() != nil && c.Call.StaticCallee().Name() == "next" {
				return chars
			}
			return nil
		}})
		st = &subTab{htx, hrows}
		scanHelperTables[h] = st
	}
	has := Assign{}
	lookahead := map[string]bool{} // parameter ← the scanner's own look-ahead
	for i, q := range h.Params[1:] {
		t := tx.term(hc.Call.Args[i+1], r, 0)
		v := tx.eval(t, as, 0)
		if v.Kind != "int" {
			return 0, false, false
		}
		has[q.Name()] = v.K
		lookahead[q.Name()] = t.Kind == "atom" && t.Atom == nextAtom
	}
	for _, hr := range st.rows {
		if hr.Loop != nil || len(hr.Out) != 2 {
			continue
		}
		for _, q := range h.Params[1:] {
			st.tx.term(q, hr, 0)
		}
		if ok, _ := st.tx.satisfied(hr, has); !ok {
			continue
		}
		tok := st.tx.eval(hr.Out[0], has, 0)
		if tok.Kind != "int" {
			return 0, false, false
		}
		two := false
		if o := hr.Out[1]; o.Kind == "atom" {
			if ai := st.tx.atoms[o.Atom]; ai != nil && ai.Call != nil {
				two = true
			} else if _, isParam := has[o.Atom]; isParam {
				two = !lookahead[o.Atom]
			}
		}
		return tok.K, two, true
	}
	return 0, false, false
}

// --- R-EMPTYPROD: empty productions set their value --------------------------------------------

var typeDeclRe = regexp.MustCompile(`^%type\s+<([A-Za-z_0-9]+)>\s*(.*)$`)

// declaredTypes: nonterminal → union field, from the %type declarations of
// grammar.y (continuation lines are indented).
func (g *Grammar) declaredTypes() map[string]string {
	out := map[string]string{}
	cur := ""
	for _, ln := range strings.Split(g.YSrc, "\n") {
		if strings.HasPrefix(ln, "%%") {
			break
		}
		if m := typeDeclRe.FindStringSubmatch(ln); m != nil {
			cur = m[1]
			for _, n := range strings.Fields(m[2]) {
				out[n] = cur
			}
			continue
		}
		if cur != "" && (strings.HasPrefix(ln, "\t") || strings.HasPrefix(ln, " ")) && strings.TrimSpace(ln) != "" && !strings.HasPrefix(strings.TrimSpace(ln), "%") {
			for _, n := range strings.Fields(ln) {
				out[n] = cur
			}
			continue
		}
		cur = ""
	}
	return out
}

var ruleEmptyProd = &Rule{
	Name: "R-EMPTYPROD", NeedSSA: false,
	Doc: "every empty production of a nonterminal that carries a value (%type) assigns $$ in its action: goyacc does not clear $$ (before a reduction it copies whatever last occupied that slot of the value stack), so an optional argument written without an explicit `$$ = nil` inherits the value of an unrelated earlier sub-expression",
	Run: func(p *Prog) *RuleOut {
		out := newOut("R-EMPTYPROD")
		g, err := p.grammar()
		if err != nil {
			out.undecided("goyacc", "-", "", err.Error())
			return out
		}
		types_ := g.declaredTypes()
		out.Counts["typed_nonterminals"] = len(types_)
		out.Floors["typed_nonterminals"] = 20
		n := 0
		for _, rn := range g.RuleOrder {
			r := g.Rules[rn]
			if len(r.RHS) != 0 {
				continue
			}
			field := types_[r.LHS]
			if field == "" {
				continue
			}
			n++
			key := fmt.Sprintf("empty production of %s (rule %d)", r.LHS, rn)
			assigned := false
			if cc := g.Actions[rn]; cc != nil {
				for _, st := range cc.Body {
					ast.Inspect(st, func(nd ast.Node) bool {
						as, ok := nd.(*ast.AssignStmt)
						if !ok {
							return true
						}
						for _, l := range as.Lhs {
							if se, ok := l.(*ast.SelectorExpr); ok && se.Sel.Name == field {
								if id, ok := se.X.(*ast.Ident); ok && id.Name == "pathVAL" {
									assigned = true
								}
							}
						}
						return true
					})
				}
			}
			if assigned {
				out.ok(key, "path/parser/grammar.y", "", "the action assigns $$ (pathVAL."+field+")")
			} else {
				out.viol(key, "path/parser/grammar.y", "", "the action does not assign $$ (pathVAL."+field+"): the value is whatever an earlier, unrelated symbol left in that slot of the parser's value stack")
			}
		}
		out.Counts["empty_typed_productions"] = n
		out.Floors["empty_typed_productions"] = 3
		return out
	},
}

func init() { register(ruleEmptyProd) }
