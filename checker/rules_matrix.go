package main

import (
	"fmt"
	"go/token"
	"go/types"
	"sort"
	"strings"

	"golang.org/x/tools/go/ssa"
)

// feasibleReturns lists the returns of fn reachable under ctx.
func (e *exh) feasibleReturns(fn *ssa.Function, ctx *Ctx) []RetSite {
	var out []RetSite
	for _, r := range returnsOf(fn) {
		if e.feasible(r.Instr.Block(), ctx) {
			out = append(out, r)
		}
	}
	return out
}

// subCtx binds the callee's parameters to the call's arguments under ctx.
func (e *exh) subCtx(c *ssa.Call, callee *ssa.Function, ctx *Ctx) *Ctx {
	sub := &Ctx{fn: callee, bind: map[*ssa.Parameter]*AV{}, desc: "matrix"}
	for pi, q := range callee.Params {
		if a := argForParam(&c.Call, pi); a != nil {
			sub.bind[q] = e.evalAt(a, ctx, c.Block())
		}
	}
	return sub
}

// cmpKinds classifies what a three-way (int, error) function can answer under
// ctx: threeway | incomparable | tzerror | invalid.
func (e *exh) cmpKinds(fn *ssa.Function, ctx *Ctx, depth int, out map[string]bool) {
	ee := e.p.errors()
	for _, r := range e.feasibleReturns(fn, ctx) {
		if len(r.Results) != 2 {
			out["?"] = true
			continue
		}
		// both results of one call to a module function: descend
		if c0, i0 := callOf(r.Results[0]); c0 != nil {
			if c1, i1 := callOf(r.Results[1]); c1 == c0 && i0 == 0 && i1 == 1 {
				if sc := c0.Call.StaticCallee(); sc != nil && inModule(sc) && sc.Blocks != nil && depth < 4 {
					// a helper that only builds an error
					cls := e.p.classNames(ee.ret[sc][len(ee.ret[sc])-1])
					if len(cls) == 1 && cls[0] == "Invalid" {
						out["invalid"] = true
						continue
					}
					e.cmpKinds(sc, e.subCtx(c0, sc, ctx), depth+1, out)
					continue
				}
			}
		}
		cls := e.p.classNames(ee.classify(r.Results[1], factsAt(r.Instr.Block()), map[ssa.Value]bool{}))
		switch {
		case len(cls) == 1 && cls[0] == "nil":
			if k, ok := constInt(r.Results[0]); ok && k < -1 {
				out["incomparable"] = true
			} else {
				out["threeway"] = true
			}
		case len(cls) == 1 && cls[0] == "Hard":
			out["tzerror"] = true
		case len(cls) == 1 && cls[0] == "Invalid":
			out["invalid"] = true
		default:
			out["?"+strings.Join(cls, ",")] = true
		}
	}
}

var ruleCmpMatrix = mkCmpMatrix("R-CMPMATRIX", false)
var ruleCmpMatrixDT = mkCmpMatrix("R-CMPMATRIX-DT", true)

func mkCmpMatrix(ruleName string, onlyDT bool) *Rule {
	return &Rule{
		Name: ruleName, NeedSSA: true,
		Doc: map[bool]string{true: "(restricted to the 5×5 datetime cells) ", false: ""}[onlyDT] + "the comparison dispatcher is walked once per ordered pair of the 13 item types (169 cells): same kind ⇒ three-way comparison; the numeric tower is mutually comparable; null only with null (null rule otherwise); containers and mixed kinds ⇒ unknown; datetime 5×5: comparable iff both time-only or both date-bearing, guarded by the time-zone option iff zone-awareness differs, incomparable otherwise",
		Run: func(p *Prog) *RuleOut {
			out := newOut(ruleName)
			e, err := p.exhEngine()
			if err != nil {
				out.undecided("engine", "-", "", err.Error())
				return out
			}
			// the comparison callback: a (outcome, error) method with two `any`
			// parameters that calls the operator-application function
			var cmp *ssa.Function
			for _, fn := range p.execFuncs() {
				if p.pairKind(fn.Signature) != "pred" || !isMethodOfExecutor(p, fn) {
					continue
				}
				nAny := 0
				for _, q := range fn.Params {
					if it, ok := q.Type().Underlying().(*types.Interface); ok && it.NumMethods() == 0 {
						nAny++
					}
				}
				if nAny != 2 {
					continue
				}
				for _, b := range fn.Blocks {
					for _, ins := range b.Instrs {
						if c, ok := ins.(*ssa.Call); ok && c.Call.StaticCallee() != nil {
							sig := c.Call.StaticCallee().Signature
							if sig.Recv() == nil && sig.Params().Len() == 2 && p.pairKind(sig) == "pred" && p.enumOf(sig.Params().At(0).Type()) != nil {
								cmp = fn
							}
						}
					}
				}
			}
			if cmp == nil {
				out.undecided("comparison dispatcher", "-", "", "anchor unresolved")
				return out
			}
			var anyParams []*ssa.Parameter
			var nodeParam *ssa.Parameter
			for _, q := range cmp.Params {
				if it, ok := q.Type().Underlying().(*types.Interface); ok && it.NumMethods() == 0 {
					anyParams = append(anyParams, q)
				}
				if types.Identical(q.Type(), p.A.Node) {
					nodeParam = q
				}
			}
			base := e.contexts(cmp, e.depthCap)
			if len(base) == 0 || nodeParam == nil {
				out.undecided("comparison dispatcher", p.pos(cmp.Pos()), fnName(cmp), "no call context")
				return out
			}
			T, _, conv, _ := p.predTF()
			_ = T
			isDT := func(t types.Type) bool {
				pt, ok := t.(*types.Pointer)
				if !ok {
					return false
				}
				for _, d := range p.A.DateTimeImpls {
					if pt.Elem() == types.Type(d) {
						return true
					}
				}
				return false
			}
			dtName := func(t types.Type) string { return t.(*types.Pointer).Elem().(*types.Named).Obj().Name() }
			kindOfT := func(t types.Type) string {
				s := typeStr(t)
				switch {
				case s == "untyped nil":
					return "null"
				case s == "bool":
					return "bool"
				case s == "int64" || s == "float64" || s == "encoding/json.Number":
					return "number"
				case s == "string":
					return "string"
				case isDT(t):
					return "datetime"
				}
				return "container"
			}
			timeOnly := map[string]bool{"Time": true, "TimeTZ": true}
			zoned := map[string]bool{"TimeTZ": true, "TimestampTZ": true}
			ncell := 0
			invalidBy := map[string][]string{}
			for _, t1 := range p.A.ItemTypes {
				for _, t2 := range p.A.ItemTypes {
					if onlyDT && !(isDT(t1) && isDT(t2)) {
						continue
					}
					ncell++
					ctx := &Ctx{fn: cmp, bind: map[*ssa.Parameter]*AV{}, desc: "matrix cell"}
					ctx.bind[nodeParam] = base[0].bind[nodeParam]
					ctx.bind[anyParams[0]] = &AV{kind: "types", Types: []types.Type{t1}}
					ctx.bind[anyParams[1]] = &AV{kind: "types", Types: []types.Type{t2}}
					kinds := map[string]bool{}
					calleeKinds := map[string]bool{}
					viaCallee := false
					for _, r := range e.feasibleReturns(cmp, ctx) {
						o0, o1 := stripConv(r.Results[0]), stripConv(r.Results[1])
						c0, _ := callOf(o0)
						switch {
						case c0 != nil && extractOf(c0, 1) == o1 && p.pairKind(calleeSig(c0)) == "pred":
							kinds["threeway"] = true
						case isNilConst(o1):
							if k, ok := constInt(o0); ok && k == constOf(p.A.PredUnknown) {
								// … behind a test of the three-way result of a module
								// comparison (`if cmp < -1 { return unknown, nil }`): the
								// callee decides which cells come here
								var via *ssa.Call
								for _, f := range factsAt(r.Instr.Block()) {
									bo, ok := f.Cond.(*ssa.BinOp)
									if !ok {
										continue
									}
									// the fact must put the result below the three-way range
									kk, isK := constInt(bo.Y)
									below := isK && ((bo.Op == token.LSS && f.Truth && kk <= -1) || (bo.Op == token.LEQ && f.Truth && kk <= -2) ||
										(bo.Op == token.EQL && f.Truth && kk < -1) || (bo.Op == token.GEQ && !f.Truth && kk <= -1) || (bo.Op == token.GTR && !f.Truth && kk <= -2))
									if !below {
										continue
									}
									for _, side := range []ssa.Value{bo.X} {
										if cc, idx := callOf(side); cc != nil && idx == 0 && cc.Call.StaticCallee() != nil && inModule(cc.Call.StaticCallee()) {
											if sg := cc.Call.StaticCallee().Signature; sg.Results().Len() == 2 && lastIsError(sg) {
												if bt, ok := sg.Results().At(0).Type().Underlying().(*types.Basic); ok && bt.Info()&types.IsInteger != 0 {
													via = cc
												}
											}
										}
									}
								}
								if via != nil {
									sub := map[string]bool{}
									e.cmpKinds(via.Call.StaticCallee(), e.subCtx(via, via.Call.StaticCallee(), ctx), 0, sub)
									viaCallee = true
									for k := range sub {
										calleeKinds[k] = true
									}
								} else {
									kinds["unknown"] = true
								}
							} else if call, ok := o0.(*ssa.Call); ok && call.Call.StaticCallee() == conv {
								// conv(op == NotEqual) is the null rule; conv(cmp == 0) a three-way result
								arg := call.Call.Args[0]
								if bo, ok := arg.(*ssa.BinOp); ok && p.enumOf(bo.X.Type()) != nil {
									kinds["nullrule"] = true
								} else {
									kinds["threeway"] = true
								}
							} else if hc, hi := callOf(o0); hc != nil && hi == 0 && !hc.Call.IsInvoke() && hc.Call.StaticCallee() != nil && inModule(hc.Call.StaticCallee()) && hc.Call.StaticCallee().Blocks != nil && p.pairKind(calleeSig(hc)) == "" {
								// the outcome a small helper worked out (`res, ok :=
								// compareNull(op, left, right)`): its feasible returns
								// for this pair of types, those the flag's test at the
								// use rules out left aside
								h := hc.Call.StaticCallee()
								sub := e.subCtx(hc, h, ctx)
								facts := realFacts(factsAt(r.Instr.Block()))
								nret := 0
								for _, hr := range e.feasibleReturns(h, sub) {
									if e.returnExcluded(hc, hr, facts) {
										continue
									}
									nret++
									ho := stripConv(hr.Results[0])
									if call, ok := ho.(*ssa.Call); ok && call.Call.StaticCallee() == conv {
										arg := call.Call.Args[0]
										if bo, ok := arg.(*ssa.BinOp); ok && p.enumOf(bo.X.Type()) != nil {
											kinds["nullrule"] = true
										} else {
											kinds["threeway"] = true
										}
									} else if k, ok := constInt(ho); ok && k == constOf(p.A.PredUnknown) {
										kinds["unknown"] = true
									} else {
										kinds["?const"] = true
									}
								}
								if nret == 0 {
									kinds["?const"] = true
								}
							} else {
								kinds["?const"] = true
							}
						default:
							// (unknown, err) after the datetime comparison, or an invalid-error return
							if c1, _ := callOf(o1); c1 != nil && c1.Call.StaticCallee() != nil && inModule(c1.Call.StaticCallee()) {
								sub := map[string]bool{}
								e.cmpKinds(c1.Call.StaticCallee(), e.subCtx(c1, c1.Call.StaticCallee(), ctx), 0, sub)
								// the callee decides: its three-way answers leave through the
								// operator-application return, the others through this one
								viaCallee = true
								for k := range sub {
									calleeKinds[k] = true
								}
							} else {
								cls := p.classNames(p.errors().classify(o1, factsAt(r.Instr.Block()), map[ssa.Value]bool{}))
								if len(cls) == 1 && cls[0] == "Invalid" {
									kinds["invalid"] = true
								} else {
									kinds["?"+strings.Join(cls, ",")] = true
								}
							}
						}
					}
					if viaCallee {
						delete(kinds, "threeway")
						for k := range calleeKinds {
							kinds[k] = true
						}
					}
					got := sortedKeys(kinds)
					k1, k2 := kindOfT(t1), kindOfT(t2)
					var want []string
					switch {
					case k1 == "null" && k2 == "null":
						want = []string{"threeway"}
					case k1 == "null" || k2 == "null":
						want = []string{"nullrule"}
					case k1 == "container" || k2 == "container":
						want = []string{"unknown"}
					case k1 != k2:
						want = []string{"unknown"}
					case k1 == "number":
						want = []string{"threeway"}
						if typeStr(t1) == "encoding/json.Number" || typeStr(t2) == "encoding/json.Number" {
							want = []string{"threeway", "unknown"} // a json.Number beyond float64 range compares as unknown
						}
					case k1 == "datetime":
						n1, n2 := dtName(t1), dtName(t2)
						if timeOnly[n1] != timeOnly[n2] {
							want = []string{"incomparable"}
						} else if zoned[n1] != zoned[n2] {
							want = []string{"threeway", "tzerror"}
						} else {
							want = []string{"threeway"}
						}
					default:
						want = []string{"threeway"}
					}
					key := fmt.Sprintf("cell %s × %s", typeStr(t1), typeStr(t2))
					if strings.Join(got, ",") == strings.Join(want, ",") {
						out.ok(key, p.pos(cmp.Pos()), fnName(cmp), strings.Join(got, "+"))
						continue
					}
					if k1 == "datetime" && k2 != "datetime" && k2 != "null" && strings.Join(got, ",") == "invalid" {
						invalidBy[dtName(t1)] = append(invalidBy[dtName(t1)], typeStr(t2))
						continue
					}
					out.viol(key, p.pos(cmp.Pos()), fnName(cmp), fmt.Sprintf("comparison of these item types answers {%s}, the stated order requires {%s}", strings.Join(got, ", "), strings.Join(want, ", ")))
				}
			}
			for _, n := range sortedKeys(boolKeys(invalidBy)) {
				rs := invalidBy[n]
				sort.Strings(rs)
				out.viol("datetime left "+n+" × non-datetime right", p.pos(cmp.Pos()), fnName(cmp),
					"items of different types must compare as unknown, but a "+n+" compared with "+strings.Join(rs, ", ")+" returns the implementation-bug error ErrInvalid")
			}
			out.Counts["cells"] = ncell
			out.Floors["cells"] = 169
			if onlyDT {
				out.Floors["cells"] = 25
			}
			return out
		},
	}
}

func init() {
	register(ruleCmpMatrix, ruleCmpMatrixDT)
}
