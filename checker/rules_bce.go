package main

import (
	"bytes"
	"encoding/json"
	"fmt"
	"go/ast"
	"go/token"
	"go/types"
	"os"
	"os/exec"
	"path/filepath"
	"regexp"
	"sort"
	"strconv"
	"strings"

	"golang.org/x/tools/go/ssa"
)

// E9: the Go compiler's prove pass as decision procedure for index safety.

type bceFinding struct {
	File string
	Line int
	Col  int
	Kind string
}

var bceLine = regexp.MustCompile(`^(.+\.go):(\d+):(\d+): Found (IsInBounds|IsSliceInBounds)`)

// compilerBCE runs `go build -gcflags=-d=ssa/check_bce/debug=1` on one package
// (honouring the in-memory overlay) and returns every bounds check the
// compiler could not prove away.
func (p *Prog) compilerBCE(pkgRel string) ([]bceFinding, error) {
	args := []string{"build", "-gcflags=-d=ssa/check_bce/debug=1"}
	if len(p.Overlay) > 0 {
		tmp, err := os.MkdirTemp("", "sqljsonlint-ov-")
		if err != nil {
			return nil, err
		}
		defer os.RemoveAll(tmp)
		rep := map[string]string{}
		i := 0
		for path, content := range p.Overlay {
			f := filepath.Join(tmp, fmt.Sprintf("f%d.go", i))
			i++
			if err := os.WriteFile(f, content, 0o644); err != nil {
				return nil, err
			}
			rep[path] = f
		}
		b, _ := json.Marshal(map[string]any{"Replace": rep})
		ovf := filepath.Join(tmp, "overlay.json")
		if err := os.WriteFile(ovf, b, 0o644); err != nil {
			return nil, err
		}
		args = append(args, "-overlay", ovf)
	}
	args = append(args, pkgRel)
	cmd := exec.Command("go", args...)
	cmd.Dir = p.RepoDir
	cmd.Env = p.Env
	var out bytes.Buffer
	cmd.Stdout, cmd.Stderr = &out, &out
	err := cmd.Run()
	var fs []bceFinding
	var other []string
	for _, ln := range strings.Split(out.String(), "\n") {
		ln = strings.TrimSpace(ln)
		if ln == "" || strings.HasPrefix(ln, "#") {
			continue
		}
		m := bceLine.FindStringSubmatch(ln)
		if m == nil {
			other = append(other, ln)
			continue
		}
		l, _ := strconv.Atoi(m[2])
		c, _ := strconv.Atoi(m[3])
		f := m[1]
		if !filepath.IsAbs(f) {
			f = filepath.Join(p.RepoDir, f)
		}
		fs = append(fs, bceFinding{f, l, c, m[4]})
	}
	if err != nil {
		return nil, fmt.Errorf("go build failed: %v: %s", err, trunc(strings.Join(other, "; "), 400))
	}
	if len(other) > 0 {
		return nil, fmt.Errorf("unexpected compiler output: %s", trunc(strings.Join(other, "; "), 300))
	}
	return fs, nil
}

// enclosingFunc maps a position to the function declaration containing it.
func (p *Prog) enclosingFunc(pkg string, file string, line, col int) (*types.Func, *ast.FuncDecl) {
	pk := p.Pkgs[pkg]
	if pk == nil {
		return nil, nil
	}
	for _, f := range pk.Syntax {
		tf := p.Fset.File(f.Pos())
		if tf == nil || tf.Name() != file {
			continue
		}
		if line > tf.LineCount() {
			return nil, nil
		}
		pos := tf.LineStart(line) + token.Pos(col-1)
		for _, d := range f.Decls {
			if fd, ok := d.(*ast.FuncDecl); ok && fd.Pos() <= pos && pos <= fd.End() {
				fo, _ := pk.TypesInfo.Defs[fd.Name].(*types.Func)
				return fo, fd
			}
		}
	}
	return nil, nil
}

func (p *Prog) unmarshalRoots() []*ssa.Function {
	var roots []*ssa.Function
	for _, d := range p.A.DateTimeImpls {
		ms := p.SSA.MethodSets.MethodSet(types.NewPointer(d))
		for i := 0; i < ms.Len(); i++ {
			if ms.At(i).Obj().Name() == "UnmarshalJSON" {
				if f := p.SSA.MethodValue(ms.At(i)); f != nil {
					roots = append(roots, f)
				}
			}
		}
	}
	return roots
}

var ruleBCE = &Rule{
	Name:    "R-BCE",
	NeedSSA: true,
	Doc:     "no index or slice operation the compiler's prove pass cannot show in-bounds in any module function reachable from the UnmarshalJSON methods of the five datetime types",
	Run: func(p *Prog) *RuleOut {
		out := newOut("R-BCE")
		roots := p.unmarshalRoots()
		out.Counts["unmarshal_roots"] = len(roots)
		out.Floors["unmarshal_roots"] = 5
		reach := p.reachFrom(roots)
		mods := moduleFuncs(reach.Set)
		nidx := 0
		for _, fn := range mods {
			for _, b := range fn.Blocks {
				for _, ins := range b.Instrs {
					switch ins.(type) {
					case *ssa.IndexAddr, *ssa.Index, *ssa.Slice:
						nidx++
					}
				}
			}
		}
		out.Counts["index_and_slice_operations_reachable"] = nidx
		out.Floors["index_and_slice_operations_reachable"] = 5
		fs, err := p.compilerBCE("./path/types")
		if err != nil {
			out.undecided("compiler prove pass", "-", "", err.Error())
			return out
		}
		out.Counts["unproven_checks_in_package"] = len(fs)
		sort.Slice(fs, func(i, j int) bool {
			if fs[i].File != fs[j].File {
				return fs[i].File < fs[j].File
			}
			if fs[i].Line != fs[j].Line {
				return fs[i].Line < fs[j].Line
			}
			return fs[i].Col < fs[j].Col
		})
		ord := map[string]int{}
		for _, f := range fs {
			fo, _ := p.enclosingFunc(pkgTypes, f.File, f.Line, f.Col)
			if fo == nil {
				out.undecided(fmt.Sprintf("unproven %s at %s:%d", f.Kind, filepath.Base(f.File), f.Line), "-", "", "cannot map the compiler's position to a function")
				continue
			}
			sf := p.ssaOf(fo)
			name := fnName(sf)
			ord[name+f.Kind]++
			key := fmt.Sprintf("%s: unproven %s #%d", name, f.Kind, ord[name+f.Kind])
			rel, _ := filepath.Rel(p.RepoDir, f.File)
			site := fmt.Sprintf("%s:%d", rel, f.Line)
			if sf != nil && reach.Set[sf] {
				out.viol(key, site, name, "the compiler cannot prove this index/slice in bounds and the function is reachable from UnmarshalJSON: hostile JSON can panic", reach.path(p, sf)...)
			} else {
				out.ok(key, site, name, "unproven, but not reachable from any UnmarshalJSON")
			}
		}
		for _, fn := range roots {
			out.ok(fnName(fn)+": all bounds checks proven", p.pos(fn.Pos()), fnName(fn), "compiler reports no unproven bounds check in functions reachable from this root")
		}
		return out
	},
}

// R-UNMARSHAL-ERR: error class of UnmarshalJSON.
var ruleUnmarshalErr = &Rule{
	Name:    "R-UNMARSHAL-ERR",
	NeedSSA: true,
	Doc:     "every non-nil error returned by the five UnmarshalJSON methods is built with %w of types.ErrSQLType; the failure of time.Parse is returned, not dropped",
	Run: func(p *Prog) *RuleOut {
		out := newOut("R-UNMARSHAL-ERR")
		roots := p.unmarshalRoots()
		out.Counts["unmarshal_roots"] = len(roots)
		out.Floors["unmarshal_roots"] = 5
		for _, fn := range roots {
			nerr := 0
			for _, r := range returnsOf(fn) {
				e := p.shapeOf(r.Results[0])
				key := fmt.Sprintf("%s returns %s", fnName(fn), e)
				switch {
				case e.Kind == "nil":
					// success must be on the branch where time.Parse's error is nil
					guarded := false
					for _, b := range fn.Blocks {
						for _, ins := range b.Instrs {
							if c, ok := ins.(*ssa.Call); ok && calleeQualified(&c.Call) == "time.Parse" {
								if ev := extractOf(c, 1); ev != nil {
									if isNil, _ := nilFact(factsAt(r.Instr.Block()), ev); isNil {
										guarded = true
									}
								}
							}
						}
					}
					if guarded {
						out.ok(key, p.pos(r.Instr.Pos()), fnName(fn), "success only where time.Parse succeeded")
					} else {
						out.viol(key, p.pos(r.Instr.Pos()), fnName(fn), "nil error returned on a path where time.Parse's error was not checked")
					}
				case e.Kind == "errorf" && len(e.Sentinels) > 0 && e.Sentinels[0] == "types.ErrSQLType":
					nerr++
					out.ok(key, p.pos(r.Instr.Pos()), fnName(fn), "wraps ErrSQLType")
				default:
					out.viol(key, p.pos(r.Instr.Pos()), fnName(fn), "error does not wrap types.ErrSQLType")
				}
			}
			if nerr == 0 {
				out.viol(fnName(fn)+" has an error exit", p.pos(fn.Pos()), fnName(fn), "no ErrSQLType error return at all")
			}
		}
		return out
	},
}

func unmarshalRootsFn(p *Prog) []*ssa.Function { return p.unmarshalRoots() }

var rulePanicUnmarshal = rulePanic("R-PANIC-UNMARSHAL",
	"no explicit panic, Must* call or unchecked type assertion reachable from the UnmarshalJSON methods",
	unmarshalRootsFn, "", 5)

func init() {
	register(ruleBCE, ruleUnmarshalErr, rulePanicUnmarshal)
	addProp(&PropSpec{
		ID:    "C18",
		Rules: []string{"R-BCE", "R-PANIC-UNMARSHAL", "R-UNMARSHAL-ERR"},
		Explanation: "Totality of UnmarshalJSON on hostile input, decided with the Go compiler's own prove pass as the decision procedure for index safety: " +
			"every bounds check the compiler cannot discharge in a function reachable from the five UnmarshalJSON methods is a violation; explicit panics are enumerated over the call graph; returned errors wrap ErrSQLType. " +
			"Only the 'hostile input returns an error instead of panicking' clause of C18 is decided.",
		Decided:     []string{"R-BCE: zero unproven bounds checks reachable from UnmarshalJSON", "R-PANIC-UNMARSHAL: no explicit panic reachable", "R-UNMARSHAL-ERR: errors wrap ErrSQLType; success only after time.Parse succeeded"},
		NotDecided:  []string{"String/ParseTime/JSON round trips (value level)", "commutation of conversions with the context zone", "nil dereference inside the standard library"},
		Assumptions: []string{"the compiler's prove pass is sound (it only removes checks it has proven)", "time.Parse does not panic"},
		Trusted:     append(append([]string{}, baseTrusted...), "cmd/compile prove pass (-d=ssa/check_bce)"),
	})
}
