package main

import (
	"bytes"
	"encoding/json"
	"fmt"
	"go/ast"
	"go/constant"
	"go/token"
	"go/types"
	"os"
	"os/exec"
	"path/filepath"
	"regexp"
	"sort"
	"strconv"
	"strings"

	"golang.org/x/tools/go/ssa"
)

// E9: the Go compiler's prove pass as decision procedure for index safety.

type bceFinding struct {
	File string
	Line int
	Col  int
	Kind string
}

var bceLine = regexp.MustCompile(`^(.+\.go):(\d+):(\d+): Found (IsInBounds|IsSliceInBounds)`)

// bceSentinel is compiled together with the package on every run: the
// compiler must report the index at line 4 (nothing bounds i) and must not
// report the one at line 8 (the length test proves it). A run in which the
// first report is missing has not seen the prove pass's output at all; a run
// in which the second appears was compiled without the prove pass.
const bceSentinel = `package %s

func sqljsonlintSentinelUnproven(s []int, i int) int {
	return s[i]
}

func sqljsonlintSentinelProven(s []int) int {
	if len(s) > 3 {
		return s[3]
	}
	return 0
}
`

const (
	bceSentinelUnprovenLine = 4
)

type listedPkg struct {
	Dir           string
	ImportPath    string
	Name          string
	Export        string
	DepOnly       bool
	Standard      bool
	GoFiles       []string
	CgoFiles      []string
	SFiles        []string
	EmbedPatterns []string
	ImportMap     map[string]string
	Module        *struct{ GoVersion string }
}

// compilerBCE compiles one package with -d=ssa/check_bce/debug=1 (honouring
// the in-memory overlay) and returns every bounds check the compiler could
// not prove away.
//
// The compiler is run directly (`go tool compile` with an import
// configuration taken from `go list -export -deps`), never through `go
// build`: for a package that is up to date `go build` does not compile, it
// replays the compiler output stored in the build cache, and prints nothing —
// with exit status 0 — when that stored output has gone (a cache trimmed or
// restored in part). An empty report would discharge every obligation.
func (p *Prog) compilerBCE(pkgRel string) ([]bceFinding, error) {
	tmp, err := os.MkdirTemp("", "sqljsonlint-bce-")
	if err != nil {
		return nil, err
	}
	defer os.RemoveAll(tmp)
	run := func(args ...string) (string, string, error) {
		cmd := exec.Command("go", args...)
		cmd.Dir = p.RepoDir
		cmd.Env = p.Env
		var out, errb bytes.Buffer
		cmd.Stdout, cmd.Stderr = &out, &errb
		err := cmd.Run()
		return out.String(), errb.String(), err
	}

	// the overlay, on disk: original path → replacement and back
	rep, back := map[string]string{}, map[string]string{}
	var paths []string
	for path := range p.Overlay {
		paths = append(paths, path)
	}
	sort.Strings(paths)
	for i, path := range paths {
		f := filepath.Join(tmp, fmt.Sprintf("f%d.go", i))
		if err := os.WriteFile(f, p.Overlay[path], 0o644); err != nil {
			return nil, err
		}
		rep[path], back[f] = f, path
	}
	listArgs := []string{"list", "-export", "-deps",
		"-json=Dir,ImportPath,Name,Export,DepOnly,Standard,GoFiles,CgoFiles,SFiles,EmbedPatterns,ImportMap,Module"}
	if len(rep) > 0 {
		b, _ := json.Marshal(map[string]any{"Replace": rep})
		ovf := filepath.Join(tmp, "overlay.json")
		if err := os.WriteFile(ovf, b, 0o644); err != nil {
			return nil, err
		}
		listArgs = append(listArgs, "-overlay", ovf)
	}
	listArgs = append(listArgs, pkgRel)
	out, errOut, err := run(listArgs...)
	if err != nil {
		return nil, fmt.Errorf("go list -export failed: %v: %s", err, trunc(strings.Join(strings.Fields(errOut), " "), 400))
	}
	var target *listedPkg
	var cfg strings.Builder
	dec := json.NewDecoder(strings.NewReader(out))
	for dec.More() {
		var lp listedPkg
		if err := dec.Decode(&lp); err != nil {
			return nil, fmt.Errorf("go list -export: %v", err)
		}
		if !lp.DepOnly {
			if target != nil {
				return nil, fmt.Errorf("go list -export %s: more than one package", pkgRel)
			}
			t := lp
			target = &t
			continue
		}
		if lp.Export != "" {
			fmt.Fprintf(&cfg, "packagefile %s=%s\n", lp.ImportPath, lp.Export)
		}
	}
	if target == nil {
		return nil, fmt.Errorf("go list -export %s: package not listed", pkgRel)
	}
	if n := len(target.CgoFiles) + len(target.SFiles) + len(target.EmbedPatterns); n > 0 {
		return nil, fmt.Errorf("%s has cgo, assembly or embedded files: it cannot be compiled on its own", target.ImportPath)
	}
	if len(target.GoFiles) == 0 {
		return nil, fmt.Errorf("%s has no Go files", target.ImportPath)
	}
	for from, to := range target.ImportMap {
		fmt.Fprintf(&cfg, "importmap %s=%s\n", from, to)
	}
	cfgFile := filepath.Join(tmp, "importcfg")
	if err := os.WriteFile(cfgFile, []byte(cfg.String()), 0o644); err != nil {
		return nil, err
	}
	sentinel := filepath.Join(tmp, "zz_sqljsonlint_sentinel.go")
	if err := os.WriteFile(sentinel, []byte(fmt.Sprintf(bceSentinel, target.Name)), 0o644); err != nil {
		return nil, err
	}
	args := []string{"tool", "compile", "-o", filepath.Join(tmp, "pkg.a"), "-p", target.ImportPath}
	if target.Module != nil && target.Module.GoVersion != "" {
		v := strings.Split(target.Module.GoVersion, ".")
		if len(v) >= 2 {
			args = append(args, "-lang=go"+v[0]+"."+v[1])
		}
	}
	args = append(args, "-complete", "-nolocalimports", "-importcfg", cfgFile, "-pack", "-d=ssa/check_bce/debug=1")
	for _, f := range target.GoFiles {
		abs := filepath.Join(target.Dir, f)
		if r, ok := rep[abs]; ok {
			abs = r
		}
		args = append(args, abs)
	}
	args = append(args, sentinel)
	out, errOut, err = run(args...)
	var fs []bceFinding
	var other []string
	sentinelSeen, sentinelExtra := false, false
	for _, ln := range strings.Split(out+"\n"+errOut, "\n") {
		ln = strings.TrimSpace(ln)
		if ln == "" || strings.HasPrefix(ln, "#") {
			continue
		}
		m := bceLine.FindStringSubmatch(ln)
		if m == nil {
			other = append(other, ln)
			continue
		}
		l, _ := strconv.Atoi(m[2])
		c, _ := strconv.Atoi(m[3])
		f := m[1]
		if f == sentinel {
			if l == bceSentinelUnprovenLine {
				sentinelSeen = true
			} else {
				sentinelExtra = true
			}
			continue
		}
		if o, ok := back[f]; ok {
			f = o
		}
		if !filepath.IsAbs(f) {
			f = filepath.Join(p.RepoDir, f)
		}
		fs = append(fs, bceFinding{f, l, c, m[4]})
	}
	if err != nil {
		return nil, fmt.Errorf("go tool compile failed: %v: %s", err, trunc(strings.Join(other, "; "), 400))
	}
	if len(other) > 0 {
		return nil, fmt.Errorf("unexpected compiler output: %s", trunc(strings.Join(other, "; "), 300))
	}
	if !sentinelSeen {
		return nil, fmt.Errorf("the compiler did not report the unbounded index of the sentinel function compiled with %s: its bounds-check report is not being seen, nothing can be concluded from it", target.ImportPath)
	}
	if sentinelExtra {
		return nil, fmt.Errorf("the compiler reported the length-tested index of the sentinel function compiled with %s: the prove pass did not run, its report proves nothing", target.ImportPath)
	}
	return fs, nil
}

// enclosingFunc maps a position to the function declaration containing it.
func (p *Prog) enclosingFunc(pkg string, file string, line, col int) (*types.Func, *ast.FuncDecl) {
	pk := p.Pkgs[pkg]
	if pk == nil {
		return nil, nil
	}
	for _, f := range pk.Syntax {
		tf := p.Fset.File(f.Pos())
		if tf == nil || tf.Name() != file {
			continue
		}
		if line > tf.LineCount() {
			return nil, nil
		}
		pos := tf.LineStart(line) + token.Pos(col-1)
		for _, d := range f.Decls {
			if fd, ok := d.(*ast.FuncDecl); ok && fd.Pos() <= pos && pos <= fd.End() {
				fo, _ := pk.TypesInfo.Defs[fd.Name].(*types.Func)
				return fo, fd
			}
		}
	}
	return nil, nil
}

func (p *Prog) unmarshalRoots() []*ssa.Function {
	var roots []*ssa.Function
	for _, d := range p.A.DateTimeImpls {
		ms := p.SSA.MethodSets.MethodSet(types.NewPointer(d))
		for i := 0; i < ms.Len(); i++ {
			if ms.At(i).Obj().Name() == "UnmarshalJSON" {
				if f := p.SSA.MethodValue(ms.At(i)); f != nil {
					roots = append(roots, f)
				}
			}
		}
	}
	return roots
}

var ruleBCE = &Rule{
	Name:    "R-BCE",
	NeedSSA: true,
	Doc:     "no index or slice operation the compiler's prove pass cannot show in-bounds in any module function reachable from the UnmarshalJSON methods of the five datetime types (one structural argument is accepted besides: s[len(s)-k] under len(s) >= k where every call site passes a positive constant k)",
	Run: func(p *Prog) *RuleOut {
		out := newOut("R-BCE")
		roots := p.unmarshalRoots()
		out.Counts["unmarshal_roots"] = len(roots)
		out.Floors["unmarshal_roots"] = 5
		reach := p.reachFrom(roots)
		mods := moduleFuncs(reach.Set)
		nidx := 0
		for _, fn := range mods {
			for _, b := range fn.Blocks {
				for _, ins := range b.Instrs {
					switch ins.(type) {
					case *ssa.IndexAddr, *ssa.Index, *ssa.Slice:
						nidx++
					}
				}
			}
		}
		out.Counts["index_and_slice_operations_reachable"] = nidx
		out.Floors["index_and_slice_operations_reachable"] = 2
		fs, err := p.compilerBCE("./path/types")
		if err != nil {
			out.undecided("compiler prove pass", "-", "", err.Error())
			return out
		}
		out.Counts["compiler_sentinel_confirmed"] = 1 // compilerBCE fails unless the sentinel function was reported as expected
		out.Floors["compiler_sentinel_confirmed"] = 1
		out.Counts["unproven_checks_in_package"] = len(fs)
		sort.Slice(fs, func(i, j int) bool {
			if fs[i].File != fs[j].File {
				return fs[i].File < fs[j].File
			}
			if fs[i].Line != fs[j].Line {
				return fs[i].Line < fs[j].Line
			}
			return fs[i].Col < fs[j].Col
		})
		ord := map[string]int{}
		for _, f := range fs {
			fo, _ := p.enclosingFunc(pkgTypes, f.File, f.Line, f.Col)
			if fo == nil {
				out.undecided(fmt.Sprintf("unproven %s at %s:%d", f.Kind, filepath.Base(f.File), f.Line), "-", "", "cannot map the compiler's position to a function")
				continue
			}
			sf := p.ssaOf(fo)
			name := fnName(sf)
			ord[name+f.Kind]++
			key := fmt.Sprintf("%s: unproven %s #%d", name, f.Kind, ord[name+f.Kind])
			rel, _ := filepath.Rel(p.RepoDir, f.File)
			site := fmt.Sprintf("%s:%d", rel, f.Line)
			if sf != nil && reach.Set[sf] {
				// a structural argument of our own: s[len(s)-k] under len(s) >= k, k positive at every call site
				proved := ""
				for _, b := range sf.Blocks {
					for _, ins := range b.Instrs {
						ia, ok := ins.(*ssa.IndexAddr)
						if !ok {
							continue
						}
						if pos := p.Fset.Position(ia.Pos()); pos.Filename == f.File && pos.Line == f.Line && pos.Column == f.Col {
							if why, good := p.lenMinusPositive(ia); good {
								proved = why
							}
						}
					}
				}
				if proved != "" {
					out.ok(key, site, name, "unproven by the compiler, discharged structurally: "+proved)
					continue
				}
				out.viol(key, site, name, "the compiler cannot prove this index/slice in bounds and the function is reachable from UnmarshalJSON: hostile JSON can panic", reach.path(p, sf)...)
			} else {
				out.ok(key, site, name, "unproven, but not reachable from any UnmarshalJSON")
			}
		}
		for _, fn := range roots {
			out.ok(fnName(fn)+": all bounds checks proven", p.pos(fn.Pos()), fnName(fn), "compiler reports no unproven bounds check in functions reachable from this root")
		}
		return out
	},
}

// R-UNMARSHAL-ERR: error class of UnmarshalJSON.
var ruleUnmarshalErr = &Rule{
	Name:    "R-UNMARSHAL-ERR",
	NeedSSA: true,
	Doc:     "every non-nil error returned by the five UnmarshalJSON methods is built with %w of types.ErrSQLType; the failure of time.Parse is returned, not dropped",
	Run: func(p *Prog) *RuleOut {
		out := newOut("R-UNMARSHAL-ERR")
		roots := p.unmarshalRoots()
		out.Counts["unmarshal_roots"] = len(roots)
		out.Floors["unmarshal_roots"] = 5
		// parsed: the error result of calls in fn that stand for the parse:
		// time.Parse itself, or a helper of the package whose own nil-error
		// returns all lie where such an error is nil
		// (`tim, err := parseQuotedJSON(data, layout)`)
		var parseErrs func(fn *ssa.Function, depth int) []ssa.Value
		var guardsParse func(h *ssa.Function, idx, depth int) bool
		guardsParse = func(h *ssa.Function, idx, depth int) bool {
			if h == nil || h.Blocks == nil || !inModule(h) || depth > 3 {
				return false
			}
			evs := parseErrs(h, depth+1)
			n := 0
			for _, r := range returnsOf(h) {
				if idx >= len(r.Results) {
					continue
				}
				if rv := stripConv(r.Results[idx]); !isNilConst(rv) {
					// the error of a helper that guards the parse itself,
					// handed on (`return parseUnquoted(…)`), or a constructed one
					if c2, i2 := callOf(rv); c2 != nil && !c2.Call.IsInvoke() && c2.Call.StaticCallee() != h && guardsParse(c2.Call.StaticCallee(), i2, depth+1) {
						n++
						continue
					}
					if sh := p.shapeOf(rv); sh.Kind == "errorf" {
						continue
					}
					return false
				}
				n++
				ok := false
				for _, ev := range evs {
					if isNil, _ := nilFact(factsAt(r.Instr.Block()), ev); isNil {
						ok = true
					}
				}
				if !ok {
					return false
				}
			}
			return n > 0
		}
		parseErrs = func(fn *ssa.Function, depth int) []ssa.Value {
			var out []ssa.Value
			for _, b := range fn.Blocks {
				for _, ins := range b.Instrs {
					c, ok := ins.(*ssa.Call)
					if !ok || c.Call.IsInvoke() {
						continue
					}
					if calleeQualified(&c.Call) == "time.Parse" {
						if ev := extractOf(c, 1); ev != nil {
							out = append(out, ev)
						}
						continue
					}
					h := c.Call.StaticCallee()
					if h == nil || !inModule(h) || h == fn || !lastIsError(h.Signature) {
						continue
					}
					li := h.Signature.Results().Len() - 1
					if guardsParse(h, li, depth) {
						var ev ssa.Value
						if li == 0 {
							ev = c
						} else {
							ev = extractOf(c, li)
						}
						if ev != nil {
							out = append(out, ev)
						}
					}
				}
			}
			return out
		}
		// wraps: every non-nil value of the error v is built with %w of ErrSQLType
		var wraps func(v ssa.Value, depth int) (ok, mayErr bool)
		wraps = func(v ssa.Value, depth int) (bool, bool) {
			v = stripConv(v)
			if depth > 4 {
				return false, false
			}
			if isNilConst(v) {
				return true, false
			}
			if sh := p.shapeOf(v); sh.Kind == "errorf" && len(sh.Sentinels) > 0 && sh.Sentinels[0] == "types.ErrSQLType" {
				return true, true
			}
			if ph, isPhi := v.(*ssa.Phi); isPhi {
				all, some := true, false
				for _, e := range ph.Edges {
					o, m := wraps(e, depth+1)
					all, some = all && o, some || m
				}
				return all, some
			}
			var c *ssa.Call
			idx := 0
			if ex, isEx := v.(*ssa.Extract); isEx {
				c, _ = ex.Tuple.(*ssa.Call)
				idx = ex.Index
			} else if cc, isCall := v.(*ssa.Call); isCall {
				c = cc
			}
			if c == nil || c.Call.IsInvoke() {
				return false, false
			}
			h := c.Call.StaticCallee()
			if h == nil || !inModule(h) || h.Blocks == nil {
				return false, false
			}
			all, some, n := true, false, 0
			for _, r := range returnsOf(h) {
				if idx >= len(r.Results) {
					continue
				}
				n++
				o, m := wraps(r.Results[idx], depth+1)
				all, some = all && o, some || m
			}
			return all && n > 0, some
		}
		for _, fn := range roots {
			nerr := 0
			pes := parseErrs(fn, 0)
			for _, r := range returnsOf(fn) {
				e := p.shapeOf(r.Results[0])
				key := fmt.Sprintf("%s returns %s", fnName(fn), e)
				if e.Kind != "nil" && !(e.Kind == "errorf") {
					// an error handed on from a helper of the package
					if ok, may := wraps(r.Results[0], 0); ok {
						if may {
							nerr++
						}
						out.ok(key, p.pos(r.Instr.Pos()), fnName(fn), "every error the helper returns wraps ErrSQLType")
						continue
					}
				}
				switch {
				case e.Kind == "nil":
					// success must be on the branch where time.Parse's error is nil
					guarded := false
					for _, ev := range pes {
						if isNil, _ := nilFact(factsAt(r.Instr.Block()), ev); isNil {
							guarded = true
						}
					}
					if guarded {
						out.ok(key, p.pos(r.Instr.Pos()), fnName(fn), "success only where time.Parse succeeded")
					} else {
						out.viol(key, p.pos(r.Instr.Pos()), fnName(fn), "nil error returned on a path where time.Parse's error was not checked")
					}
				case e.Kind == "errorf" && len(e.Sentinels) > 0 && e.Sentinels[0] == "types.ErrSQLType":
					nerr++
					out.ok(key, p.pos(r.Instr.Pos()), fnName(fn), "wraps ErrSQLType")
				default:
					out.viol(key, p.pos(r.Instr.Pos()), fnName(fn), "error does not wrap types.ErrSQLType")
				}
			}
			if nerr == 0 {
				out.viol(fnName(fn)+" has an error exit", p.pos(fn.Pos()), fnName(fn), "no ErrSQLType error return at all")
			}
		}
		return out
	},
}

func unmarshalRootsFn(p *Prog) []*ssa.Function { return p.unmarshalRoots() }

var rulePanicUnmarshal = rulePanic("R-PANIC-UNMARSHAL",
	"no explicit panic, Must* call or unchecked type assertion reachable from the UnmarshalJSON methods",
	unmarshalRootsFn, "", 5)

func init() {
	register(ruleBCE, ruleUnmarshalErr, rulePanicUnmarshal)
	addProp(&PropSpec{
		ID:    "C18",
		Rules: []string{"R-BCE", "R-PANIC-UNMARSHAL", "R-UNMARSHAL-ERR", "R-LAYOUT", "R-CTXZONE", "R-GLOBALS", "R-WALLCLOCK", "R-OKFLAG", "R-VALUETYPES", "R-TIMEPIN"},
		Explanation: "Totality of UnmarshalJSON on hostile input, decided with the Go compiler's own prove pass as the decision procedure for index safety: " +
			"every bounds check the compiler cannot discharge in a function reachable from the five UnmarshalJSON methods is a violation; explicit panics are enumerated over the call graph; returned errors wrap ErrSQLType. " +
			"Only the 'hostile input returns an error instead of panicking' clause of C18 is decided.",
		Decided:     []string{"R-BCE: zero unproven bounds checks reachable from UnmarshalJSON", "R-PANIC-UNMARSHAL: no explicit panic reachable", "R-UNMARSHAL-ERR: errors wrap ErrSQLType; success only after time.Parse succeeded", "R-LAYOUT: String/MarshalJSON share one layout per type; UnmarshalJSON and the matching ParseTime branch accept it"},
		NotDecided:  []string{"String/ParseTime/JSON round trips (value level)", "commutation of conversions with the context zone", "nil dereference inside the standard library"},
		Assumptions: []string{"the compiler's prove pass is sound (it only removes checks it has proven)", "time.Parse does not panic"},
		Trusted:     append(append([]string{}, baseTrusted...), "cmd/compile prove pass (-d=ssa/check_bce)"),
	})
}

// --- R-LAYOUT ------------------------------------------------------------------------------------

// stringConstsReaching: string constants that can reach v (through phis and
// loads from a literal array).
func stringConstsReaching(v ssa.Value, seen map[ssa.Value]bool, out map[string]bool) {
	if v == nil || seen[v] {
		return
	}
	seen[v] = true
	switch x := v.(type) {
	case *ssa.Const:
		if x.Value != nil && x.Value.Kind() == constant.String {
			out[constant.StringVal(x.Value)] = true
		}
	case *ssa.Phi:
		for _, e := range x.Edges {
			stringConstsReaching(e, seen, out)
		}
	case *ssa.Call:
		stringConstsOfResult(x, 0, seen, out)
	case *ssa.Extract:
		if c, ok := x.Tuple.(*ssa.Call); ok {
			stringConstsOfResult(c, x.Index, seen, out)
		}
	case *ssa.UnOp:
		if ia, ok := x.X.(*ssa.IndexAddr); ok {
			stringConstsReaching(ia.X, seen, out)
		}
		if a, ok := x.X.(*ssa.Alloc); ok {
			for _, r := range *a.Referrers() {
				if st, ok := r.(*ssa.Store); ok && st.Addr == a {
					stringConstsReaching(st.Val, seen, out)
				}
			}
		}
	case *ssa.Slice:
		stringConstsReaching(x.X, seen, out)
	case *ssa.Alloc:
		for _, r := range *x.Referrers() {
			if ia, ok := r.(*ssa.IndexAddr); ok {
				for _, r2 := range *ia.Referrers() {
					if st, ok := r2.(*ssa.Store); ok && st.Addr == ia {
						stringConstsReaching(st.Val, seen, out)
					}
				}
			}
		}
	}
}

func normLayout(l string, stripFraction bool) string {
	l = strings.ReplaceAll(l, "-07:00", "Z07:00")
	if stripFraction {
		l = strings.ReplaceAll(l, ".999999999", "")
	}
	return l
}

var ruleLayout = &Rule{
	Name: "R-LAYOUT", NeedSSA: true,
	Doc: "for each of the five datetime types: String() and MarshalJSON() format with the same layout constant; UnmarshalJSON parses with a layout that accepts that output (zone element -07:00 vs Z07:00 normalised); the ParseTime branch that constructs the type uses a layout that accepts the String() output (fractional seconds are accepted by time.Parse after the seconds field)",
	Run: func(p *Prog) *RuleOut {
		out := newOut("R-LAYOUT")
		// the layout constants that reach argument idx of the calls of callee
		// made by fn — or by a helper of package types fn hands the layout to
		// (`parseQuotedJSON(data, dateFormat)`): a layout that is a parameter of
		// the helper is looked up at the helper's call
		var layoutDeep func(fn *ssa.Function, callee string, idx, depth int) (map[string]bool, map[*ssa.Parameter]bool)
		paramsReaching := func(v ssa.Value) map[*ssa.Parameter]bool {
			out := map[*ssa.Parameter]bool{}
			seen := map[ssa.Value]bool{}
			var walk func(v ssa.Value)
			walk = func(v ssa.Value) {
				if v == nil || seen[v] {
					return
				}
				seen[v] = true
				switch x := v.(type) {
				case *ssa.Parameter:
					out[x] = true
				case *ssa.Phi:
					for _, e := range x.Edges {
						walk(e)
					}
				case *ssa.ChangeType:
					walk(x.X)
				case *ssa.Convert:
					walk(x.X)
				}
			}
			walk(v)
			return out
		}
		layoutDeep = func(fn *ssa.Function, callee string, idx, depth int) (map[string]bool, map[*ssa.Parameter]bool) {
			res, pending := map[string]bool{}, map[*ssa.Parameter]bool{}
			if fn == nil || fn.Blocks == nil || depth > 3 {
				return res, pending
			}
			take := func(v ssa.Value) {
				stringConstsReaching(v, map[ssa.Value]bool{}, res)
				for q := range paramsReaching(v) {
					if q.Parent() == fn {
						pending[q] = true
					}
				}
			}
			for _, b := range fn.Blocks {
				for _, ins := range b.Instrs {
					c, ok := ins.(*ssa.Call)
					if !ok || c.Call.IsInvoke() {
						continue
					}
					if calleeQualified(&c.Call) == callee && idx < len(c.Call.Args) {
						take(c.Call.Args[idx])
						continue
					}
					h := c.Call.StaticCallee()
					if h == nil || h == fn || fnPkgPath(h) != pkgTypes || h.Blocks == nil {
						continue
					}
					hc, hp := layoutDeep(h, callee, idx, depth+1)
					if len(hp) == 0 {
						continue // the helper's own constants are its own business
					}
					_ = hc
					for q := range hp {
						if i := paramIndex(q); i >= 0 && i < len(c.Call.Args) {
							take(c.Call.Args[i])
						}
					}
				}
			}
			return res, pending
		}
		layoutArg := func(fn *ssa.Function, callee string, idx int) map[string]bool {
			res, _ := layoutDeep(fn, callee, idx, 0)
			return res
		}
		// ParseTime: layout → constructed type
		pt := p.ssaFunc(pkgTypes, "ParseTime")
		byType := map[string]map[string]bool{}
		if pt == nil {
			out.undecided("ParseTime", "-", "", "anchor unresolved")
		} else {
			// ParseTime and the helpers of package types it delegates to
			var scan []*ssa.Function
			for _, f := range moduleFuncs(p.reachFrom([]*ssa.Function{pt}).Set) {
				if fnPkgPath(f) == pkgTypes && f.Blocks != nil {
					scan = append(scan, f)
				}
			}
			sortFuncs(scan)
			// a helper of the package that tries layouts it is handed
			// (`parseFirst(src, layouts...) (time.Time, bool)`): its
			// time.Parse takes the layout from a parameter
			triesLayouts := func(h *ssa.Function) bool {
				if h == nil || h.Blocks == nil || fnPkgPath(h) != pkgTypes || h.Object() == nil || h.Object().Exported() {
					return false
				}
				for _, hc := range p.allCalls(h) {
					if calleeQualified(&hc.Call) != "time.Parse" {
						continue
					}
					own := map[string]bool{}
					stringConstsReaching(hc.Call.Args[0], map[ssa.Value]bool{}, own)
					if len(own) == 0 {
						return true
					}
				}
				return false
			}
			for _, pt := range scan {
				for _, b := range pt.Blocks {
					for _, ins := range b.Instrs {
						c, ok := ins.(*ssa.Call)
						if !ok {
							continue
						}
						ls := map[string]bool{}
						var errV, okV ssa.Value
						switch {
						case calleeQualified(&c.Call) == "time.Parse":
							stringConstsReaching(c.Call.Args[0], map[ssa.Value]bool{}, ls)
							errV = extractOf(c, 1)
						case !c.Call.IsInvoke() && triesLayouts(c.Call.StaticCallee()):
							for _, a := range c.Call.Args {
								stringConstsReaching(a, map[ssa.Value]bool{}, ls)
							}
							rs := c.Call.StaticCallee().Signature.Results()
							for ri := 0; ri < rs.Len(); ri++ {
								if isErrorType(rs.At(ri).Type()) {
									errV = extractOf(c, ri)
								} else if bt, isB := rs.At(ri).Type().Underlying().(*types.Basic); isB && bt.Kind() == types.Bool {
									okV = extractOf(c, ri)
								}
							}
						default:
							continue
						}
						if errV == nil && okV == nil {
							continue
						}
						for _, b2 := range pt.Blocks {
							success := false
							if errV != nil {
								success, _ = nilFact(factsAt(b2), errV)
							}
							if okV != nil {
								for _, f := range factsAt(b2) {
									if sameValue(f.Cond, okV) && f.Truth {
										success = true
									}
								}
							}
							if !success {
								continue
							}
							for _, i2 := range b2.Instrs {
								c2, ok := i2.(*ssa.Call)
								if !ok || c2.Call.StaticCallee() == nil || fnPkgPath(c2.Call.StaticCallee()) != pkgTypes {
									continue
								}
								if ptr, ok := c2.Type().(*types.Pointer); ok {
									if n, ok := ptr.Elem().(*types.Named); ok {
										if byType[n.Obj().Name()] == nil {
											byType[n.Obj().Name()] = map[string]bool{}
										}
										for l := range ls {
											byType[n.Obj().Name()][l] = true
										}
									}
								}
							}
						}
					}
				}
			}
		}
		n := 0
		for _, d := range p.A.DateTimeImpls {
			name := d.Obj().Name()
			str := layoutArg(p.ssaFunc(pkgTypes, "*"+name+".String"), "time.Format", 1)
			mj := layoutArg(p.ssaFunc(pkgTypes, "*"+name+".MarshalJSON"), "time.AppendFormat", 2)
			uj := layoutArg(p.ssaFunc(pkgTypes, "*"+name+".UnmarshalJSON"), "time.Parse", 0)
			n++
			key := name + ": one layout for String and MarshalJSON"
			if len(str) == 1 && len(mj) == 1 && sortedKeys(str)[0] == sortedKeys(mj)[0] {
				out.ok(key, "path/types", name, sortedKeys(str)[0])
			} else {
				out.viol(key, "path/types", name, fmt.Sprintf("String uses %v, MarshalJSON uses %v: json.Marshal and .string() print different text", sortedKeys(str), sortedKeys(mj)))
				continue
			}
			outL := sortedKeys(str)[0]
			key = name + ": UnmarshalJSON accepts what MarshalJSON writes"
			hit := false
			for u := range uj {
				if normLayout(u, false) == normLayout(outL, false) {
					hit = true
				}
			}
			if hit {
				out.ok(key, "path/types", name, "output "+outL+" ∈ accepted "+strings.Join(sortedKeys(uj), " | "))
			} else {
				out.viol(key, "path/types", name, "output layout "+outL+" is not among the layouts UnmarshalJSON parses with ("+strings.Join(sortedKeys(uj), ", ")+")")
			}
			key = name + ": ParseTime reads String() back as the same type"
			hit = false
			for l := range byType[name] {
				if normLayout(l, true) == normLayout(outL, true) {
					hit = true
				}
			}
			if hit {
				out.ok(key, "path/types", "ParseTime", "a branch constructing "+name+" parses "+normLayout(outL, true))
			} else {
				out.viol(key, "path/types", "ParseTime", "no ParseTime branch that constructs "+name+" uses a layout accepting "+outL+" (has "+strings.Join(sortedKeys(byType[name]), ", ")+")")
			}
		}
		// length shortcuts of the parser admit every String() output
		maxOut := 0
		for _, d := range p.A.DateTimeImpls {
			for l := range layoutArg(p.ssaFunc(pkgTypes, "*"+d.Obj().Name()+".String"), "time.Format", 1) {
				if len(l) > maxOut {
					maxOut = len(l)
				}
			}
		}
		if pt != nil && maxOut > 0 {
			nlen := 0
			for _, f := range moduleFuncs(p.reachFrom([]*ssa.Function{pt}).Set) {
				if fnPkgPath(f) != pkgTypes || f.Blocks == nil {
					continue
				}
				for _, b := range f.Blocks {
					iff, ok := b.Instrs[len(b.Instrs)-1].(*ssa.If)
					if !ok {
						continue
					}
					bo, ok := iff.Cond.(*ssa.BinOp)
					if !ok {
						continue
					}
					lc, ok := bo.X.(*ssa.Call)
					if !ok {
						continue
					}
					bi, ok := lc.Call.Value.(*ssa.Builtin)
					if !ok || bi.Name() != "len" {
						continue
					}
					if _, isParam := lc.Call.Args[0].(*ssa.Parameter); !isParam || !types.Identical(lc.Call.Args[0].Type(), types.Typ[types.String]) {
						continue
					}
					k, ok := constInt(bo.Y)
					if !ok {
						continue
					}
					var rejectsAbove int64 = -1 // inputs longer than this are rejected
					switch bo.Op {
					case token.GTR:
						rejectsAbove = k
					case token.GEQ:
						rejectsAbove = k - 1
					default:
						continue
					}
					nlen++
					key := fmt.Sprintf("%s: upper length shortcut (> %d)", fnName(f), rejectsAbove)
					if rejectsAbove >= int64(maxOut) {
						out.ok(key, p.pos(iff.Pos()), fnName(f), fmt.Sprintf("admits the longest String() output (%d bytes)", maxOut))
					} else {
						out.viol(key, p.pos(iff.Pos()), fnName(f), fmt.Sprintf("input longer than %d bytes is rejected before any layout is tried, but String() prints up to %d bytes (nine fractional digits and a zone offset): ParseTime(String(v)) fails for such values", rejectsAbove, maxOut))
					}
				}
			}
			out.Counts["length_shortcuts_in_the_parser"] = nlen
		}
		out.Counts["datetime_types"] = n
		out.Floors["datetime_types"] = 5
		return out
	},
}

func init() { register(ruleLayout) }

// stringConstsOfResult: string constants that result idx of a call to a module
// function can be: what the callee's returns yield, with the callee's own
// parameters (also behind phis) replaced by the arguments of this call.
func stringConstsOfResult(c *ssa.Call, idx int, seen map[ssa.Value]bool, out map[string]bool) {
	sc := c.Call.StaticCallee()
	if sc == nil || !inModule(sc) || sc.Blocks == nil {
		return
	}
	var follow func(v ssa.Value, depth int)
	follow = func(v ssa.Value, depth int) {
		if depth > 6 {
			return
		}
		switch y := v.(type) {
		case *ssa.Parameter:
			for i, q := range sc.Params {
				if q == y && i < len(c.Call.Args) {
					stringConstsReaching(c.Call.Args[i], seen, out)
				}
			}
		case *ssa.Phi:
			for _, e := range y.Edges {
				follow(e, depth+1)
			}
		default:
			stringConstsReaching(v, seen, out)
		}
	}
	for _, r := range returnsOf(sc) {
		if idx < len(r.Results) {
			follow(r.Results[idx], 0)
		}
	}
}
