package main

// R-ERRFIRST (C13, C16, C05): the error comes first.
//
// For a call returning (value…, error) whose error the caller does look at,
// the other results mean nothing until the error is known to be nil
// (strconv.ParseInt returns the clamped limit together with a range error,
// json.Number.Int64 likewise). Every use of such a result must sit where the
// branch facts establish err == nil, be a return that hands the same error
// on, or be a merge whose incoming edge has the fact. Evaluation functions
// returning (status, error) or (outcome, error) are exempt: their first result
// is meaningful together with an error.

import (
	"fmt"
	"go/token"
	"go/types"

	"golang.org/x/tools/go/ssa"
)

// localAddr: the address of a local variable or of a field or element of one.
func localAddr(a ssa.Value) bool {
	for i := 0; i < 6; i++ {
		switch x := a.(type) {
		case *ssa.Alloc:
			return true
		case *ssa.FieldAddr:
			a = x.X
		case *ssa.IndexAddr:
			a = x.X
		default:
			return false
		}
	}
	return false
}

var ruleErrFirst = &Rule{
	Name: "R-ERRFIRST", NeedSSA: true,
	Doc: "in package exec, for every call returning (value…, error) — standard library or module, evaluation functions returning a status or outcome excepted — whose error result is examined, every use of the other results is dominated by the fact err == nil, or is a return that also returns that error, or enters a merge over an edge carrying the fact: a value read before its error is the clamped or zero value of a failed conversion",
	Run: func(p *Prog) *RuleOut {
		out := newOut("R-ERRFIRST")
		ncalls := 0
		for _, fn := range p.execFuncs() {
			ord := ordinals{}
			for _, b := range fn.Blocks {
				for _, ins := range b.Instrs {
					c, ok := ins.(*ssa.Call)
					if !ok {
						continue
					}
					sig := calleeSig(c)
					if sig == nil || sig.Results().Len() < 2 || !lastIsError(sig) || p.pairKind(sig) != "" {
						continue
					}
					errV := extractOf(c, sig.Results().Len()-1)
					if errV == nil {
						continue // the error is discarded: a stated belief, other rules' business
					}
					ncalls++
					var bad []string
					seen := map[ssa.Value]bool{}
					// check: every use of v is behind ev == nil (ev is the error
					// that travels with v: the call's own, or the merge of errors
					// that sits beside a merge of values)
					var check func(v, ev ssa.Value, depth int)
					check = func(v, ev ssa.Value, depth int) {
						if seen[v] || depth > 6 {
							return
						}
						seen[v] = true
						for _, r := range *v.Referrers() {
							switch x := r.(type) {
							case *ssa.DebugRef:
								continue
							case *ssa.Store:
								// an assignment to a local variable or a field of one
								// (`idx.from, err = f()`) moves the value, it does not
								// read it
								if x.Val == v && localAddr(x.Addr) {
									continue
								}
							case *ssa.MakeInterface, *ssa.ChangeType, *ssa.ChangeInterface, *ssa.Convert:
								// a conversion on the way: judged where the converted value is used
								if isNil, _ := nilFact(factsAt(r.Block()), ev); !isNil {
									check(r.(ssa.Value), ev, depth+1)
								}
								continue
							case *ssa.Call:
								// `g(f())`, `g(v, err)`: the value and its error go into
								// a module function together; the rule follows them
								// there (the parameters take their places)
								if g := x.Call.StaticCallee(); g != nil && !x.Call.IsInvoke() && inModule(g) && g.Blocks != nil {
									vi, ei := -1, -1
									for k, a := range x.Call.Args {
										if a == v {
											vi = k
										}
										if sameValue(a, ev) {
											ei = k
										}
									}
									if vi >= 0 && ei >= 0 && vi < len(g.Params) && ei < len(g.Params) {
										check(g.Params[vi], g.Params[ei], depth+1)
										continue
									}
								}
							case *ssa.Return:
								carries := false
								for _, rv := range x.Results {
									if sameValue(stripConv(unspill(x.Block(), x, rv)), ev) {
										carries = true
									}
								}
								if carries {
									continue
								}
							case *ssa.Phi:
								// every way in that carries the value knows the error to be nil
								// (the start of a loop over a range the call returned)
								direct := true
								for k, e := range x.Edges {
									if e != v {
										continue
									}
									pred := x.Block().Preds[k]
									if isNil, _ := nilFact(edgeFacts(pred, succIndex(pred, x.Block())), ev); !isNil {
										direct = false
									}
								}
								if direct {
									continue
								}
								// the error merged beside it, edge for edge
								var pe *ssa.Phi
								for _, ins2 := range x.Block().Instrs {
									q, ok := ins2.(*ssa.Phi)
									if !ok {
										break
									}
									if q == x || !isErrorType(q.Type()) {
										continue
									}
									match := true
									for k, e := range x.Edges {
										if e != v || sameValue(q.Edges[k], ev) {
											continue
										}
										// another error travels on this edge: fine if it
										// is known to be non-nil there (the merged error
										// then keeps the value from being used)
										pred := x.Block().Preds[k]
										if _, nn := nilFact(edgeFacts(pred, succIndex(pred, x.Block())), q.Edges[k]); !nn {
											match = false
										}
									}
									if match {
										pe = q
									}
								}
								if pe != nil {
									check(x, pe, depth+1)
									continue
								}
								okAll := true
								for k, e := range x.Edges {
									if e != v {
										continue
									}
									pred := x.Block().Preds[k]
									efs := edgeFacts(pred, succIndex(pred, x.Block()))
									if isNil, _ := nilFact(efs, ev); !isNil {
										// … or the status that travels with the error is known good
										good := false
										// … or the ok flag that is only set together with a nil error
										for _, ef := range efs {
											if ex, ok := ef.Cond.(*ssa.Extract); ok && ex.Tuple == ssa.Value(c) && ef.Truth && okImpliesNoError(c.Call.StaticCallee(), ex.Index) {
												good = true
											}
										}
										if j, kind := p.statusAmongResults(c.Call.StaticCallee()); kind != "" {
											if sv := extractOf(c, j); sv != nil && p.statusFact(efs, sv, p.badConstFor(kind)) == -1 {
												good = true
											}
										}
										if !good {
											okAll = false
										}
									}
								}
								if okAll {
									continue
								}
							}
							if isNil, _ := nilFact(factsAt(r.Block()), ev); isNil {
								continue
							}
							// `v, ok, err := f()`: where the callee sets ok only with a
							// nil error, the ok branch is as good as err == nil; and
							// branching on ok itself reads nothing
							if _, isIf := r.(*ssa.If); isIf {
								continue
							}
							if u, ok := r.(*ssa.UnOp); ok && u.Op == token.NOT {
								onlyIf := true
								for _, uu := range *u.Referrers() {
									if _, isIf := uu.(*ssa.If); !isIf {
										onlyIf = false
									}
								}
								if onlyIf {
									continue
								}
							}
							okBranch := false
							for _, f := range factsAt(r.Block()) {
								if ex, ok := f.Cond.(*ssa.Extract); ok && ex.Tuple == ssa.Value(c) && f.Truth && okImpliesNoError(c.Call.StaticCallee(), ex.Index) {
									okBranch = true
								}
							}
							if okBranch {
								continue
							}
							// `seq, res, err := f()` where f sets the error only with the
							// failed status: behind `res != failed` the error is nil
							if j, kind := p.statusAmongResults(c.Call.StaticCallee()); kind != "" {
								if sv := extractOf(c, j); sv != nil && p.statusFact(factsAt(r.Block()), sv, p.badConstFor(kind)) == -1 {
									continue
								}
							}
							// a comparison that only decides a branch reads nothing out
							// of the value; what the branches do with it is judged there
							if bo, ok := r.(*ssa.BinOp); ok {
								if bt, ok := bo.Type().Underlying().(*types.Basic); ok && bt.Info()&types.IsBoolean != 0 {
									onlyIf := true
									for _, u := range *bo.Referrers() {
										if _, isIf := u.(*ssa.If); !isIf {
											onlyIf = false
										}
									}
									if onlyIf {
										continue
									}
								}
							}
							bad = append(bad, p.pos(r.Pos()))
						}
					}
					for i := 0; i < sig.Results().Len()-1; i++ {
						if v := extractOf(c, i); v != nil {
							check(v, errV, 0)
						}
					}
					if len(bad) > 0 {
						cn := calleeName(&c.Call)
						key := fmt.Sprintf("%s: result of %s read before its error #%d", fnName(fn), cn, ord.next(cn))
						out.viol(key, p.pos(c.Pos()), fnName(fn), "a result of "+cn+" is used at "+bad[0]+" where its error is not known to be nil: on failure the value is the zero or the clamped limit, not the number that was asked for", bad...)
					}
				}
			}
		}
		out.Counts["value_error_calls_examined"] = ncalls
		out.Floors["value_error_calls_examined"] = 7
		if len(out.Obs) == 0 {
			out.ok("results are read after their error", "path/exec", "", fmt.Sprintf("%d calls returning (value, error) with the error examined: every use of the value is behind err == nil", ncalls))
		}
		return out
	},
}

func init() { register(ruleErrFirst) }

// R-ERRDISCARD (C03, C04): the parser does not throw a conversion error away.
//
// `$$, _ = strconv.Atoi($1)` turns every spelling Atoi does not understand
// (0x2, 1_0) into level 0 without a word. In package parser (the lexer and the
// compiled grammar actions) no call returning (value…, error) has its error
// result left unread while a value result is used.
var ruleErrDiscard = &Rule{
	Name: "R-ERRDISCARD", NeedSSA: true,
	Doc: "in package parser (lexer and compiled grammar actions) every call returning (value…, error) whose value is used also has its error result read: a discarded error turns a spelling the conversion rejects into the zero value, silently",
	Run: func(p *Prog) *RuleOut {
		out := newOut("R-ERRDISCARD")
		n := 0
		for fn := range p.AllFns {
			if fnPkgPath(fn) != pkgParser || fn.Blocks == nil {
				continue
			}
			ord := ordinals{}
			for _, b := range fn.Blocks {
				for _, ins := range b.Instrs {
					c, ok := ins.(*ssa.Call)
					if !ok {
						continue
					}
					sig := calleeSig(c)
					if sig == nil || sig.Results().Len() < 2 || !lastIsError(sig) {
						continue
					}
					n++
					if ev := extractOf(c, sig.Results().Len()-1); ev != nil && len(*ev.Referrers()) > 0 {
						continue
					}
					used := false
					for i := 0; i < sig.Results().Len()-1; i++ {
						if v := extractOf(c, i); v != nil && len(*v.Referrers()) > 0 {
							used = true
						}
					}
					if !used {
						continue
					}
					cn := calleeName(&c.Call)
					out.viol(fmt.Sprintf("%s: error of %s discarded #%d", fnName(fn), cn, ord.next(cn)), p.pos(c.Pos()), fnName(fn), "the value of "+cn+" is used but its error is never read: input the conversion rejects becomes the zero value without an error")
				}
			}
		}
		out.Counts["value_error_calls_in_the_parser"] = n
		out.Floors["value_error_calls_in_the_parser"] = 3
		if len(out.Obs) == 0 {
			out.ok("conversion errors are read", "path/parser", "", fmt.Sprintf("%d calls returning (value, error): every error result is read", n))
		}
		return out
	},
}

func init() { register(ruleErrDiscard) }
