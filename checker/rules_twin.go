package main

// R-TWINRAISE (C06): an element that makes the collecting evaluation raise an
// error does not make the existence check answer "found".
//
// Exists (lax) runs the evaluation with a nil collector. For every error this
// function raises itself (an error value constructed here) on a path of the
// collecting run (collector non-nil) that passed a test of the collector,
// the same decisions on all other tests are replayed with a nil collector:
// the replay must raise too, or give up without claiming anything. If it goes
// on to hand the element to the continuation, or returns the constant `found`,
// then an existence shortcut (or a materialised `found == nil && …` flag)
// sits in front of a validity check: Exists reports true for an element that
// Query rejects with an error.

import (
	"fmt"
	"go/token"
	"sort"

	"golang.org/x/tools/go/ssa"
)

type twinEnv map[*ssa.Phi]ssa.Value

func twinResolve(v ssa.Value, env twinEnv) ssa.Value {
	for i := 0; i < 10; i++ {
		ph, ok := v.(*ssa.Phi)
		if !ok {
			return v
		}
		nv, ok := env[ph]
		if !ok {
			return v
		}
		v = nv
	}
	return v
}

// twinEval: the truth of a condition when only the collector's nil-ness
// (isNil) and constants are known. usedColl reports whether the nil-ness
// mattered.
func twinEval(v ssa.Value, env twinEnv, coll ssa.Value, isNil bool, depth int) (val, known, usedColl bool) {
	t, u := collTruth(v, coll, isNil, func(x ssa.Value) ssa.Value { return twinResolve(x, env) }, depth)
	return t == triTrue, t != triUnknown, u
}

// twinBase strips negations from a resolved condition: the value a decision
// is remembered for, and whether the condition is its negation.
func twinBase(v ssa.Value, env twinEnv) (ssa.Value, bool) {
	neg := false
	for i := 0; i < 8; i++ {
		v = twinResolve(v, env)
		u, ok := v.(*ssa.UnOp)
		if !ok || u.Op != token.NOT {
			break
		}
		v, neg = u.X, !neg
	}
	return v, neg
}

type twinWalker struct {
	p      *Prog
	fn     *ssa.Function
	coll   *ssa.Parameter
	raises map[ssa.Instruction]bool
	budget int
}

func (w *twinWalker) enterEnv(from, to *ssa.BasicBlock, env twinEnv) twinEnv {
	nenv := make(twinEnv, len(env)+2)
	for k, v := range env {
		nenv[k] = v
	}
	for i, pr := range to.Preds {
		if pr != from {
			continue
		}
		for _, ins := range to.Instrs {
			ph, ok := ins.(*ssa.Phi)
			if !ok {
				break
			}
			nenv[ph] = twinResolve(ph.Edges[i], env)
		}
	}
	return nenv
}

func (w *twinWalker) forwards(ins ssa.Instruction) bool {
	c, ok := ins.(*ssa.Call)
	if !ok || tinyPredicate(c.Call.StaticCallee()) {
		return false
	}
	for _, a := range c.Call.Args {
		if a == ssa.Value(w.coll) {
			return true
		}
	}
	return false
}

// collecting walks the paths of the run with a collector and calls visit for
// each raise reached on a path that consulted the collector.
func (w *twinWalker) collecting(b, from *ssa.BasicBlock, env twinEnv, on map[*ssa.BasicBlock]bool, dec map[ssa.Value]bool, used bool, visit func(r ssa.Instruction, dec map[ssa.Value]bool)) {
	if w.budget <= 0 || on[b] || b == w.fn.Recover {
		return
	}
	w.budget--
	if from != nil {
		env = w.enterEnv(from, b, env)
	}
	non := make(map[*ssa.BasicBlock]bool, len(on)+1)
	for k := range on {
		non[k] = true
	}
	non[b] = true
	for _, ins := range b.Instrs {
		if w.raises[ins] {
			if used {
				visit(ins, dec)
			}
			return
		}
		if w.forwards(ins) {
			return // produced: later elements are another matter
		}
		switch x := ins.(type) {
		case *ssa.Return, *ssa.Panic:
			return
		case *ssa.Jump:
			w.collecting(b.Succs[0], b, env, non, dec, used, visit)
			return
		case *ssa.If:
			val, known, u := twinEval(x.Cond, env, w.coll, false, 0)
			if known {
				si := 1
				if val {
					si = 0
				}
				w.collecting(b.Succs[si], b, env, non, dec, used || u, visit)
				return
			}
			base, neg := twinBase(x.Cond, env)
			if tv, ok := dec[base]; ok {
				si := 1
				if tv != neg {
					si = 0
				}
				w.collecting(b.Succs[si], b, env, non, dec, used, visit)
				return
			}
			for si := range b.Succs {
				nd := make(map[ssa.Value]bool, len(dec)+1)
				for k, v := range dec {
					nd[k] = v
				}
				nd[base] = (si == 0) != neg
				w.collecting(b.Succs[si], b, env, non, nd, used, visit)
			}
			return
		}
	}
}

// existence replays the decisions with a nil collector; it returns a
// description of how the replay claims success, or "".
func (w *twinWalker) existence(b, from *ssa.BasicBlock, env twinEnv, on map[*ssa.BasicBlock]bool, dec map[ssa.Value]bool) string {
	if w.budget <= 0 || on[b] || b == w.fn.Recover {
		return ""
	}
	w.budget--
	if from != nil {
		env = w.enterEnv(from, b, env)
	}
	non := make(map[*ssa.BasicBlock]bool, len(on)+1)
	for k := range on {
		non[k] = true
	}
	non[b] = true
	okK := constOf(w.p.A.StatusConsts["statusOK"])
	for _, ins := range b.Instrs {
		if w.raises[ins] {
			return ""
		}
		if w.forwards(ins) {
			return "hands the element to " + calleeName(&ins.(*ssa.Call).Call) + " at " + w.p.pos(ins.Pos())
		}
		switch x := ins.(type) {
		case *ssa.Panic:
			return ""
		case *ssa.Return:
			if len(x.Results) > 0 {
				if k, isC := constInt(stripConv(twinResolve(unspill(b, x, x.Results[0]), env))); isC && k == okK {
					return "returns `found` at " + w.p.pos(x.Pos())
				}
			}
			return ""
		case *ssa.Jump:
			return w.existence(b.Succs[0], b, env, non, dec)
		case *ssa.If:
			val, known, _ := twinEval(x.Cond, env, w.coll, true, 0)
			if !known {
				base, neg := twinBase(x.Cond, env)
				if tv, ok := dec[base]; ok {
					si := 1
					if tv != neg {
						si = 0
					}
					return w.existence(b.Succs[si], b, env, non, dec)
				}
				for si := range b.Succs {
					nd := make(map[ssa.Value]bool, len(dec)+1)
					for k, v := range dec {
						nd[k] = v
					}
					nd[base] = (si == 0) != neg
					if s := w.existence(b.Succs[si], b, env, non, nd); s != "" {
						return s
					}
				}
				return ""
			}
			si := 1
			if val {
				si = 0
			}
			return w.existence(b.Succs[si], b, env, non, dec)
		}
	}
	return ""
}

var ruleTwinRaise = &Rule{
	Name: "R-TWINRAISE", NeedSSA: true,
	Doc: "for every error a status function of the executor constructs itself on a path of the collecting run (collector non-nil) that passed a test of the collector, the replay of the same decisions with a nil collector also raises or claims nothing: it never hands the element to the continuation nor returns the constant `found`; otherwise an existence shortcut sits in front of a validity check and Exists reports true for an element Query rejects",
	Run: func(p *Prog) *RuleOut {
		out := newOut("R-TWINRAISE")
		e := p.errors()
		byFn := map[*ssa.Function]map[ssa.Instruction]bool{}
		add := func(fn *ssa.Function, ins ssa.Instruction) {
			if byFn[fn] == nil {
				byFn[fn] = map[ssa.Instruction]bool{}
			}
			byFn[fn][ins] = true
		}
		for _, s := range e.srcs {
			if s.Fn != nil && s.Instr != nil && s.Class != "nil" {
				add(s.Fn, s.Instr)
			}
		}
		nfn, nraise := 0, 0
		for _, fn := range p.execFuncs() {
			if p.pairKind(fn.Signature) != "status" {
				continue
			}
			coll := p.collectorParam(fn)
			if coll == nil {
				continue
			}
			for _, c := range p.allCalls(fn) {
				if sc := c.Call.StaticCallee(); sc != nil && p.isErrCtor(sc) {
					add(fn, c)
				}
			}
			raises := byFn[fn]
			if len(raises) == 0 {
				continue
			}
			// only functions that test their collector at all
			tests := false
			for _, b := range fn.Blocks {
				for _, ins := range b.Instrs {
					if bo, ok := ins.(*ssa.BinOp); ok && (bo.Op == token.EQL || bo.Op == token.NEQ) && bo.X == ssa.Value(coll) && isNilConst(bo.Y) {
						tests = true
					}
					if c, ok := ins.(*ssa.Call); ok && tinyPredicate(c.Call.StaticCallee()) {
						for _, a := range c.Call.Args {
							if a == ssa.Value(coll) {
								tests = true
							}
						}
					}
				}
			}
			if !tests {
				continue
			}
			nfn++
			// ordinals of the raise sites, in source order
			var sites []ssa.Instruction
			for r := range raises {
				if r.Block() != nil && r.Parent() == fn {
					sites = append(sites, r)
				}
			}
			sort.Slice(sites, func(i, j int) bool { return sites[i].Pos() < sites[j].Pos() })
			ordOf := map[ssa.Instruction]int{}
			for i, s := range sites {
				ordOf[s] = i + 1
			}
			nraise += len(sites)
			w := &twinWalker{p: p, fn: fn, coll: coll, raises: raises, budget: 200000}
			bad := map[ssa.Instruction]string{}
			reached := map[ssa.Instruction]bool{}
			w.collecting(fn.Blocks[0], nil, twinEnv{}, map[*ssa.BasicBlock]bool{}, map[ssa.Value]bool{}, false, func(r ssa.Instruction, dec map[ssa.Value]bool) {
				reached[r] = true
				if bad[r] != "" {
					return
				}
				if s := w.existence(fn.Blocks[0], nil, twinEnv{}, map[*ssa.BasicBlock]bool{}, dec); s != "" {
					bad[r] = s
				}
			})
			if w.budget <= 0 {
				out.undecided(fnName(fn)+": twin exploration", p.pos(fn.Pos()), fnName(fn), "path budget exhausted")
				continue
			}
			// one obligation per function: the sites move when the function is
			// reorganised (one raise split in two, a flag turned into returns)
			key := fnName(fn) + ": raises also raised without a collector"
			var bads []string
			nreached := 0
			for _, s := range sites {
				if reached[s] {
					nreached++
				}
				if bad[s] != "" {
					bads = append(bads, fmt.Sprintf("the error raised at %s: without a collector the same decisions %s", p.pos(s.Pos()), bad[s]))
				}
			}
			if len(bads) > 0 {
				out.viol(key, p.pos(fn.Pos()), fnName(fn), "with a collector an element is rejected with an error, but without one the evaluation goes on or answers `found` ("+bads[0]+"): Exists reports true for an element Query rejects", bads...)
			} else {
				out.ok(key, p.pos(fn.Pos()), fnName(fn), fmt.Sprintf("%d raise sites, %d of them behind a test of the collector: the run without a collector raises too, or claims nothing", len(sites), nreached))
			}
		}
		out.Counts["functions_testing_their_collector_and_raising"] = nfn
		out.Counts["raise_sites"] = nraise
		out.Floors["functions_testing_their_collector_and_raising"] = 3
		return out
	},
}

func init() { register(ruleTwinRaise) }
