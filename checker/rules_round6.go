package main

// Rules added for the sixth round of seeded changes.

import (
	"fmt"
	"go/token"
	"go/types"
	"sort"

	"golang.org/x/tools/go/ssa"
)

// R-ARITHOP (C13, C01): the operator table of the arithmetic functions.
//
// A function of package exec that takes two numbers of one machine type and a
// binary operator and returns a number of that type computes, on the branch
// of each arithmetic operator constant, exactly the Go operation of that
// name on its two operands in that order: + − * / and % (math.Mod for
// doubles, which is the exact IEEE remainder). The int64 and float64
// implementations are siblings and must agree with the operator's name.
var ruleArithOp = &Rule{
	Name: "R-ARITHOP", NeedSSA: true,
	Doc: "in every function of package exec with two operands of one numeric machine type and an ast.BinaryOperator parameter that returns a number of that type, the value returned on the branch of BinaryAdd/Sub/Mul/Div/Mod is the Go operation + − * / % (math.Mod for float64) applied to the two operand parameters in their order: a remainder put together from other operations, swapped operands or a different operator is not the IEEE-754 / exact integer result the operator names. Values obtained through other module functions are not judged",
	Run: func(p *Prog) *RuleOut {
		out := newOut("R-ARITHOP")
		bi := p.A.Enums["BinaryOperator"]
		if bi == nil {
			out.undecided("BinaryOperator", "-", "", "anchor unresolved")
			return out
		}
		want := map[int64]token.Token{}
		names := map[int64]string{}
		for n, t := range map[string]token.Token{"BinaryAdd": token.ADD, "BinarySub": token.SUB, "BinaryMul": token.MUL, "BinaryDiv": token.QUO, "BinaryMod": token.REM} {
			if c := bi.byName(n); c != nil {
				want[constOf(c)] = t
				names[constOf(c)] = n
			}
		}
		nfn, ncell := 0, 0
		for _, fn := range p.execFuncs() {
			if fn.Signature.Results().Len() != 2 || !lastIsError(fn.Signature) {
				continue
			}
			rt, ok := fn.Signature.Results().At(0).Type().(*types.Basic)
			if !ok || (rt.Kind() != types.Int64 && rt.Kind() != types.Float64) {
				continue
			}
			var opP *ssa.Parameter
			var nums []*ssa.Parameter
			for _, q := range fn.Params {
				switch {
				case types.Identical(q.Type(), bi.Type):
					opP = q
				case types.Identical(q.Type(), rt):
					nums = append(nums, q)
				}
			}
			if opP == nil || len(nums) != 2 {
				continue
			}
			nfn++
			x, y := nums[0], nums[1]
			isFloat := rt.Kind() == types.Float64
			// the operator known on a branch
			opOf := func(fs []Fact) (int64, bool) {
				for _, f := range fs {
					bo, ok := f.Cond.(*ssa.BinOp)
					if !ok || bo.Op != token.EQL || !f.Truth || bo.X != ssa.Value(opP) {
						continue
					}
					if k, ok := constInt(bo.Y); ok {
						return k, true
					}
				}
				return 0, false
			}
			seen := map[int64]bool{}
			var probs []string
			judge := func(v ssa.Value, fs []Fact, site token.Pos) {
				k, ok := opOf(fs)
				if !ok {
					return
				}
				wt, arith := want[k]
				if !arith {
					return
				}
				v = stripConv(v)
				if c, isC := v.(*ssa.Const); isC && c.Value != nil {
					return // the zero beside an error
				}
				good, judged := false, true
				switch e := v.(type) {
				case *ssa.BinOp:
					ordered := e.X == ssa.Value(x) && e.Y == ssa.Value(y)
					swapped := e.X == ssa.Value(y) && e.Y == ssa.Value(x)
					switch {
					case wt == token.REM && isFloat:
						good = false
					case e.Op != wt:
						good = false
					case wt == token.ADD || wt == token.MUL:
						good = ordered || swapped
					default:
						good = ordered
					}
				case *ssa.Call:
					q := calleeQualified(&e.Call)
					switch {
					case q == "math.Mod":
						good = wt == token.REM && isFloat && len(e.Call.Args) == 2 && e.Call.Args[0] == ssa.Value(x) && e.Call.Args[1] == ssa.Value(y)
					case e.Call.StaticCallee() != nil && inModule(e.Call.StaticCallee()):
						judged = false
					default:
						good = false
					}
				default:
					judged = false
				}
				if !judged {
					return
				}
				ncell++
				seen[k] = true
				if !good {
					probs = append(probs, fmt.Sprintf("%s at %s is computed as %s", names[k], p.pos(site), trunc(v.String(), 60)))
				}
			}
			for _, r := range expandedReturns(fn) {
				v := stripConv(r.Results[0])
				if ph, ok := v.(*ssa.Phi); ok {
					for i, e := range ph.Edges {
						pred := ph.Block().Preds[i]
						pos := ph.Pos()
						if ei, ok := e.(ssa.Instruction); ok && ei.Pos().IsValid() {
							pos = ei.Pos()
						}
						judge(e, edgeFacts(pred, succIndex(pred, ph.Block())), pos)
					}
					continue
				}
				judge(v, r.Facts, r.Instr.Pos())
			}
			key := fnName(fn) + ": operator table"
			sort.Strings(probs)
			probs = uniq(probs)
			if len(probs) > 0 {
				out.viol(key, p.pos(fn.Pos()), fnName(fn), "the value returned for an arithmetic operator is not that operator applied to the two operands in order: "+probs[0]+"; the result differs from the exact / IEEE-754 result the property names for some operands", probs...)
			} else {
				out.ok(key, p.pos(fn.Pos()), fnName(fn), fmt.Sprintf("%d operator branches return the Go operation of the same name on (%s, %s)", len(seen), x.Name(), y.Name()))
			}
		}
		out.Counts["arithmetic_functions"] = nfn
		out.Floors["arithmetic_functions"] = 1
		out.Counts["operator_cells_judged"] = ncell
		out.Floors["operator_cells_judged"] = 5
		return out
	},
}

func init() { register(ruleArithOp) }

// R-WALLCLOCK (C17, C18): a datetime value is the wall clock of its source.
//
// The constructors of package types (New<T>(…, src time.Time)) build the value
// from the calendar and clock fields that src shows in its own zone. Going
// through the instant instead (In, UTC, Local, Truncate, Round, Add, Unix…)
// silently moves the wall clock whenever src is not at offset zero, and every
// cast that hands a zone-adjusted time to a constructor (ToDate, ToTime, …)
// relies on the fields being read as they stand.
var wallClockReaders = map[string]bool{"Year": true, "Month": true, "Day": true, "Date": true, "Clock": true, "Hour": true, "Minute": true,
	"Second": true, "Nanosecond": true, "YearDay": true, "Weekday": true, "Zone": true, "Location": true, "IsZero": true}

var ruleWallClock = &Rule{
	Name: "R-WALLCLOCK", NeedSSA: true,
	Doc: "in every exported constructor New<T> of package types, the time.Time parameter is only read through the wall-clock accessors of time.Time (Year, Month, Day, Date, Clock, Hour, Minute, Second, Nanosecond, YearDay, Weekday, Zone, Location) or handed to a function of the package: it is never converted through its instant (In, UTC, Local, Truncate, Round, Add, Unix…) nor stored whole, which would shift the calendar day or the time of day of every source that is not at offset zero",
	Run: func(p *Prog) *RuleOut {
		out := newOut("R-WALLCLOCK")
		n := 0
		var fns []*ssa.Function
		for fn := range p.AllFns {
			if fnPkgPath(fn) == pkgTypes && fn.Blocks != nil && fn.Signature.Recv() == nil && len(fn.Name()) > 3 && fn.Name()[:3] == "New" && fn.Object() != nil && fn.Object().Exported() {
				fns = append(fns, fn)
			}
		}
		sortFuncs(fns)
		isTime := func(t types.Type) bool {
			nt, ok := t.(*types.Named)
			return ok && nt.Obj().Pkg() != nil && nt.Obj().Pkg().Path() == "time" && nt.Obj().Name() == "Time"
		}
		for _, fn := range fns {
			for _, q := range fn.Params {
				if !isTime(q.Type()) {
					continue
				}
				n++
				key := fnName(fn) + ": the source's wall clock"
				var bad []string
				var visit func(v ssa.Value, depth int)
				visit = func(v ssa.Value, depth int) {
					if depth > 3 {
						return
					}
					for _, r := range *v.Referrers() {
						switch x := r.(type) {
						case *ssa.DebugRef:
						case *ssa.Call:
							sc := x.Call.StaticCallee()
							switch {
							case sc != nil && sc.Signature.Recv() != nil && isTime(sc.Signature.Recv().Type()) && len(x.Call.Args) > 0 && x.Call.Args[0] == v:
								if !wallClockReaders[sc.Name()] {
									bad = append(bad, fmt.Sprintf("%s.%s() at %s goes through the instant", q.Name(), sc.Name(), p.pos(x.Pos())))
								}
							case sc != nil && fnPkgPath(sc) == pkgTypes:
								// judged in that function when it is a constructor; helpers read the zone
							default:
								bad = append(bad, fmt.Sprintf("%s is handed to %s at %s", q.Name(), calleeName(&x.Call), p.pos(x.Pos())))
							}
						case *ssa.Store:
							if al, ok := x.Addr.(*ssa.Alloc); ok && x.Val == v && !al.Heap {
								// a spill slot: its loads are the same value
								for _, lr := range *al.Referrers() {
									if ld, ok := lr.(*ssa.UnOp); ok && ld.Op == token.MUL {
										visit(ld, depth+1)
									}
								}
								continue
							}
							if x.Val == v {
								bad = append(bad, fmt.Sprintf("%s is stored whole at %s", q.Name(), p.pos(x.Pos())))
							}
						default:
							if ri, ok := r.(ssa.Instruction); ok {
								bad = append(bad, fmt.Sprintf("%s is used by %T at %s", q.Name(), r, p.pos(ri.Pos())))
							}
						}
					}
				}
				visit(q, 0)
				sort.Strings(bad)
				bad = uniq(bad)
				if len(bad) == 0 {
					out.ok(key, p.pos(fn.Pos()), fnName(fn), "read only through wall-clock accessors")
				} else {
					out.viol(key, p.pos(fn.Pos()), fnName(fn), "the value is not built from the fields the source shows in its own zone: "+bad[0]+"; for a source that is not at offset zero the calendar day or time of day moves", bad...)
				}
			}
		}
		out.Counts["constructors_taking_a_time"] = n
		out.Floors["constructors_taking_a_time"] = 5
		return out
	},
}

func init() { register(ruleWallClock) }

// R-DIGITRANGE (C16): a digit is 0 to 9.
//
// Where package exec classifies a character of a formatted number as a digit
// by a range test whose lower end is '1' and whose upper end is '9', the same
// character must also be compared with '0' in that function: a count of the
// digits before the decimal point that skips the zeros takes 100 for a
// one-digit number, and `.decimal(2,0)` accepts it.
var ruleDigitRange = &Rule{
	Name: "R-DIGITRANGE", NeedSSA: true,
	Doc: "in package exec, a character compared against both '1' (as a lower bound) and '9' (as an upper bound) is also compared with '0' in the same function: a digit test that leaves the zero out counts the digits of 100 as one, so a value outside the declared precision of `.decimal(p,s)` is returned instead of an error",
	Run: func(p *Prog) *RuleOut {
		out := newOut("R-DIGITRANGE")
		n := 0
		for _, fn := range p.execFuncs() {
			type cmp struct {
				v  ssa.Value
				k  int64
				op token.Token
				at token.Pos
			}
			var cs []cmp
			for _, b := range fn.Blocks {
				for _, ins := range b.Instrs {
					bo, ok := ins.(*ssa.BinOp)
					if !ok {
						continue
					}
					switch bo.Op {
					case token.LSS, token.LEQ, token.GTR, token.GEQ, token.EQL, token.NEQ:
					default:
						continue
					}
					if k, ok := constInt(bo.Y); ok {
						cs = append(cs, cmp{bo.X, k, bo.Op, bo.Pos()})
					} else if k, ok := constInt(bo.X); ok {
						// constant on the left: mirror the operator
						op := bo.Op
						switch op {
						case token.LSS:
							op = token.GTR
						case token.LEQ:
							op = token.GEQ
						case token.GTR:
							op = token.LSS
						case token.GEQ:
							op = token.LEQ
						}
						cs = append(cs, cmp{bo.Y, k, op, bo.Pos()})
					}
				}
			}
			ord := 0
			for _, lo := range cs {
				// v >= '1'  (or v > '0' is a test that mentions the zero: fine)
				if !(lo.k == '1' && (lo.op == token.GEQ || lo.op == token.LSS)) {
					continue
				}
				if bt, ok := lo.v.Type().Underlying().(*types.Basic); !ok || bt.Info()&types.IsInteger == 0 {
					continue
				}
				hasNine, hasZero := false, false
				for _, o := range cs {
					if !sameValue(o.v, lo.v) {
						continue
					}
					if o.k == '9' && (o.op == token.LEQ || o.op == token.GTR) {
						hasNine = true
					}
					if o.k == '0' {
						hasZero = true
					}
				}
				if !hasNine {
					continue
				}
				n++
				ord++
				key := fmt.Sprintf("%s: digit range #%d", fnName(fn), ord)
				if hasZero {
					out.ok(key, p.pos(lo.at), fnName(fn), "the character is compared with '0' as well")
				} else {
					out.viol(key, p.pos(lo.at), fnName(fn), "a character is taken for a digit only from '1' to '9' and is never compared with '0': zeros are not counted, so the number of digits before the decimal point of 100 is one and a value outside the declared precision passes")
				}
			}
		}
		out.Counts["digit_range_tests"] = n
		if n == 0 {
			out.ok("digit ranges include the zero", "path/exec", "", "no '1'..'9' range test in the package")
		}
		return out
	},
}

func init() { register(ruleDigitRange) }
