package main

import (
	"encoding/json"
	"fmt"
	"os"
	"path/filepath"
	"regexp"
	"sort"
	"strings"
)

// Ob is one obligation: a construct a rule looked at and its verdict.
type Ob struct {
	Rule    string   `json:"rule"`
	Key     string   `json:"key"` // semantic site key: rule-specific, never a line number
	Site    string   `json:"site"`
	Func    string   `json:"func,omitempty"`
	Status  string   `json:"status"` // ok | violation | known | undecided | excepted
	Detail  string   `json:"detail,omitempty"`
	Witness []string `json:"witness,omitempty"`
}

// RuleOut is the result of one rule.
type RuleOut struct {
	Rule   string         `json:"rule"`
	Obs    []Ob           `json:"-"`
	Counts map[string]int `json:"counts"`
	Floors map[string]int `json:"floors"`
	Notes  []string       `json:"notes,omitempty"`
}

func newOut(rule string) *RuleOut {
	return &RuleOut{Rule: rule, Counts: map[string]int{}, Floors: map[string]int{}}
}

func (o *RuleOut) add(status, key, site, fn, detail string, witness ...string) {
	o.Obs = append(o.Obs, Ob{Rule: o.Rule, Key: key, Site: site, Func: fn, Status: status, Detail: detail, Witness: witness})
}
func (o *RuleOut) ok(key, site, fn, detail string)        { o.add("ok", key, site, fn, detail) }
func (o *RuleOut) excepted(key, site, fn, detail string)  { o.add("excepted", key, site, fn, detail) }
func (o *RuleOut) undecided(key, site, fn, detail string) { o.add("undecided", key, site, fn, detail) }
func (o *RuleOut) viol(key, site, fn, detail string, witness ...string) {
	o.add("violation", key, site, fn, detail, witness...)
}
func (o *RuleOut) note(f string, a ...any) { o.Notes = append(o.Notes, fmt.Sprintf(f, a...)) }

// Rule is one static rule.
type Rule struct {
	Name    string
	Doc     string
	NeedSSA bool
	Run     func(p *Prog) *RuleOut
}

// Known findings ------------------------------------------------------------

type KnownFinding struct {
	Property   string `json:"property"`
	Rule       string `json:"rule"`
	Key        string `json:"key"`
	KeyRe      string `json:"key_re,omitempty"` // optional: the same construct under another name of the enclosing function (anchored regular expression)
	What       string `json:"what"`
	Reproducer string `json:"reproducer,omitempty"`
	PinnedBy   string `json:"pinned_by,omitempty"`
}

type KnownFile struct {
	Findings []KnownFinding `json:"findings"`
	Fixed    []string       `json:"fixed"`
}

func loadKnown(path string) (*KnownFile, error) {
	kf := &KnownFile{}
	b, err := os.ReadFile(path)
	if err != nil {
		if os.IsNotExist(err) {
			return kf, nil
		}
		return nil, err
	}
	if err := json.Unmarshal(b, kf); err != nil {
		return nil, fmt.Errorf("known findings: %w", err)
	}
	return kf, nil
}

// match returns the known finding listing this obligation for this property.
func (kf *KnownFile) match(prop string, ob *Ob) *KnownFinding {
	for i := range kf.Findings {
		f := &kf.Findings[i]
		if f.Rule != ob.Rule || !(f.Property == prop || f.Property == "*") {
			continue
		}
		if f.Key == ob.Key {
			return f
		}
		if f.KeyRe != "" {
			if re, err := regexp.Compile(f.KeyRe); err == nil && re.MatchString(ob.Key) {
				return f
			}
		}
	}
	return nil
}

// Evidence ------------------------------------------------------------------

type Evidence struct {
	PropertyID  string         `json:"property_id"`
	Tier        string         `json:"tier"`
	Seed        int            `json:"seed"`
	Level       string         `json:"level"`
	Coverage    map[string]any `json:"coverage"`
	Assumptions []string       `json:"assumptions"`
	WallS       float64        `json:"wall_s"`
	Violations  int            `json:"violations"`
}

func writeJSON(path string, v any) error {
	if err := os.MkdirAll(filepath.Dir(path), 0o755); err != nil {
		return err
	}
	b, err := json.MarshalIndent(v, "", " ")
	if err != nil {
		return err
	}
	tmp := path + ".tmp"
	if err := os.WriteFile(tmp, append(b, '\n'), 0o644); err != nil {
		return err
	}
	return os.Rename(tmp, path)
}

func sortObs(obs []Ob) {
	sort.SliceStable(obs, func(i, j int) bool {
		if obs[i].Rule != obs[j].Rule {
			return obs[i].Rule < obs[j].Rule
		}
		if obs[i].Key != obs[j].Key {
			return obs[i].Key < obs[j].Key
		}
		return obs[i].Site < obs[j].Site
	})
}

func statusRank(s string) int {
	switch s {
	case "violation":
		return 0
	case "undecided":
		return 1
	case "known":
		return 2
	case "excepted":
		return 3
	}
	return 4
}

// sampleObs picks a bounded, representative list: every non-ok obligation and
// a few ok ones per rule.
func sampleObs(obs []Ob, perRule int) []Ob {
	var out []Ob
	seen := map[string]int{}
	for _, o := range obs {
		if o.Status != "ok" {
			out = append(out, o)
			continue
		}
		if seen[o.Rule] < perRule {
			seen[o.Rule]++
			out = append(out, o)
		}
	}
	return out
}

func shortList(ss []string, n int) string {
	if len(ss) > n {
		return strings.Join(ss[:n], ", ") + fmt.Sprintf(", … (%d more)", len(ss)-n)
	}
	return strings.Join(ss, ", ")
}
