package main

import (
	"fmt"
	"strings"
)

// notApplicable: properties not claimed, with the reason. Pending entries are
// removed as their rules are built.
var notApplicable = map[string]string{}

var allProps = []string{"C01", "C02", "C03", "C04", "C05", "C06", "C07", "C08", "C09", "C10", "C11", "C12", "C13", "C14", "C15", "C16", "C17", "C18", "C19", "C20"}

func manifest() map[string]any {
	setup := "cd /verif/checker && GOFLAGS=-mod=mod GOPROXY=off GOSUMDB=off GOTOOLCHAIN=local CGO_ENABLED=0 go build -o /verif/bin/sqljsonlint . && go build -o /verif/bin/goyacc golang.org/x/tools/cmd/goyacc"
	checks := []map[string]any{}
	na := []map[string]any{}
	for _, id := range allProps {
		s := props[id]
		if s == nil {
			reason, ok := notApplicable[id]
			if !ok {
				reason = "not claimed yet: the static rules planned for it in DESIGN.md §5 are not built; no verdict is given"
			}
			na = append(na, map[string]any{"property_id": id, "reason": reason})
			continue
		}
		checks = append(checks, map[string]any{
			"property_id":         id,
			"quick_cmd":           "bin/check " + id + " quick",
			"thorough_cmd":        "bin/check " + id + " thorough",
			"evidence_file":       "/verif/evidence/" + id + ".json",
			"replay_cmd_template": "bin/check --replay {path}",
			"engine":              "sqljsonlint",
			"technique":           "static analysis: " + strings.Join(s.Rules, ", ") + " over the type-checked program, go/ssa and a VTA call graph",
			"level_claimed": map[string]any{
				"category":   "other",
				"text":       s.Explanation + " Decided: " + strings.Join(decidedClauses(s), "; ") + ". Not decided: " + strings.Join(s.NotDecided, "; ") + ".",
				"design_ref": "DESIGN.md §5 " + id,
			},
			"level_note": "Trusted: " + strings.Join(s.Trusted, "; ") + ". Assumed: " + strings.Join(s.Assumptions, "; ") + ".",
		})
	}
	return map[string]any{
		"version":   1,
		"setup_cmd": setup,
		"hooks": map[string]any{
			"guard":            "verif",
			"enable":           "none needed: static analysis reads the source as built by default; no instrumentation exists",
			"baseline_off_cmd": "cd /repo && GOFLAGS=-mod=mod GOPROXY=off GOSUMDB=off go test -vet=off -count=1 ./...",
			"source_commits":   []string{},
			"add_only":         true,
		},
		"engines": []map[string]any{{
			"name": "sqljsonlint", "path": "/verif/checker",
			"serves_properties": propOrder,
			"kind_free_text":    "repository-specific static analyser (go/packages, go/types, go/ssa, VTA call graph, go/cfg, goyacc automaton, compiler prove pass)",
		}},
		"checks":         checks,
		"not_applicable": na,
		"notes":          fmt.Sprintf("%d properties claimed at level 'other' (structural necessary conditions decided statically; see DESIGN.md). Known findings: /verif/known_findings.json.", len(checks)),
	}
}
