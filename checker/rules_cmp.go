package main

// C12 tables: comparison operators, three-way helpers, the pairwise predicate
// loop, regex flag translation, numeric tower.

import (
	"fmt"
	"go/ast"
	"go/constant"
	"go/token"
	"go/types"
	"golang.org/x/tools/go/packages"
	"sort"
	"strings"

	"golang.org/x/tools/go/ssa"
)

// --- applyCompare and the three-way helpers -----------------------------------------

var ruleCmpTable = &Rule{
	Name: "R-CMPTABLE", NeedSSA: true,
	Doc: "decision tables of the comparison layer: the function applying an operator to a three-way result maps (op, sign) exactly as ==, !=, <, >, <=, >= do (duality and antisymmetry are properties of this finite table); the boolean three-way helper returns sign(left − right) with false < true; the numeric three-way helper returns −1/0/+1 exactly for </=/>",
	Run: func(p *Prog) *RuleOut {
		out := newOut("R-CMPTABLE")
		T, F, _, err := p.predTF()
		if err != nil {
			out.undecided("outcome constants", "-", "", err.Error())
			return out
		}
		ei := p.A.Enums["BinaryOperator"]
		// applyCompare: func(op BinaryOperator, cmp int) (predOutcome, error)
		var apply *ssa.Function
		for _, fn := range p.execFuncs() {
			sig := fn.Signature
			if sig.Recv() == nil && sig.Params().Len() == 2 && p.pairKind(sig) == "pred" && types.Identical(sig.Params().At(0).Type(), ei.Type) {
				if b, ok := sig.Params().At(1).Type().(*types.Basic); ok && b.Kind() == types.Int {
					apply = fn
				}
			}
		}
		if apply == nil {
			out.undecided("operator application function", "-", "", "anchor unresolved: func(BinaryOperator, int) (outcome, error)")
		} else {
			cmpP := apply.Params[1]
			tx, rows := p.extractTable(apply, nil, &TableCfg{IntDomain: func(v ssa.Value) []int64 {
				if v == ssa.Value(cmpP) {
					return []int64{-1, 0, 1}
				}
				return nil
			}})
			want := map[string]func(c int64) bool{
				"BinaryEqual": func(c int64) bool { return c == 0 }, "BinaryNotEqual": func(c int64) bool { return c != 0 },
				"BinaryLess": func(c int64) bool { return c < 0 }, "BinaryGreater": func(c int64) bool { return c > 0 },
				"BinaryLessOrEqual": func(c int64) bool { return c <= 0 }, "BinaryGreaterOrEqual": func(c int64) bool { return c >= 0 },
			}
			n := 0
			var probs []string
			for _, opName := range sortedKeys(boolKeys(want)) {
				oc := ei.byName(opName)
				if oc == nil {
					probs = append(probs, "constant "+opName+" missing")
					continue
				}
				for _, cv := range []int64{-1, 0, 1} {
					as := Assign{apply.Params[0].Name(): constOf(oc), cmpP.Name(): cv}
					hit := 0
					for _, r := range rows {
						if r.Loop != nil || len(r.Out) != 2 {
							continue
						}
						// make sure both atoms exist
						tx.term(apply.Params[0], r, 0)
						tx.term(cmpP, r, 0)
						if ok, _ := tx.satisfied(r, as); !ok {
							continue
						}
						hit++
						n++
						got, gerr := tx.eval(r.Out[0], as, 0), tx.eval(r.Out[1], as, 0)
						w := F
						if want[opName](cv) {
							w = T
						}
						if got.Kind != "int" || got.K != w || gerr.Kind != "nil" {
							probs = append(probs, fmt.Sprintf("%s with three-way result %d → (%v, %s), expected (%v, nil)", opName, cv, got.K, errValName(gerr), w == T))
						}
					}
					if hit != 1 {
						probs = append(probs, fmt.Sprintf("%s with three-way result %d is handled by %d paths", opName, cv, hit))
					}
				}
			}
			key := "operator × sign table"
			if len(probs) == 0 {
				out.ok(key, p.pos(apply.Pos()), fnName(apply), fmt.Sprintf("%d cells (6 operators × 3 signs) agree", n))
			} else {
				out.viol(key, p.pos(apply.Pos()), fnName(apply), "a comparison operator is applied wrongly: "+probs[0], probs...)
			}
			out.Counts["operator_sign_cells"] = n
			out.Floors["operator_sign_cells"] = 18
		}
		// boolean three-way: func(left bool, right any) (int, bool)
		for _, fn := range p.execFuncs() {
			sig := fn.Signature
			if sig.Recv() != nil || sig.Params().Len() != 2 || sig.Results().Len() != 2 {
				continue
			}
			b0, ok0 := sig.Params().At(0).Type().(*types.Basic)
			r0, ok1 := sig.Results().At(0).Type().(*types.Basic)
			r1, ok2 := sig.Results().At(1).Type().(*types.Basic)
			if !ok0 || !ok1 || !ok2 || b0.Kind() != types.Bool || r0.Kind() != types.Int || r1.Kind() != types.Bool {
				continue
			}
			tx, rows := p.extractTable(fn, nil, &TableCfg{})
			var probs []string
			n := 0
			for _, r := range rows {
				if r.Loop != nil || len(r.Out) != 2 {
					continue
				}
				names := tx.atomsOf(append(guardTerms(r), r.Out...)...)
				for _, as := range tx.assignments(names, nil) {
					if ok, _ := tx.satisfied(r, as); !ok {
						continue
					}
					n++
					got, gok := tx.eval(r.Out[0], as, 0), tx.eval(r.Out[1], as, 0)
					// find the assertion atoms
					var okAtom, valAtom string
					for k := range as {
						if strings.HasSuffix(k, ".(bool)ok") {
							okAtom = k
						} else if strings.HasSuffix(k, ".(bool)") {
							valAtom = k
						}
					}
					if okAtom != "" && as[okAtom] == 0 {
						if gok.Kind != "int" || gok.K != 0 {
							probs = append(probs, "a non-boolean right operand is reported comparable")
						}
						continue
					}
					if valAtom == "" {
						continue
					}
					l, rr := as[fn.Params[0].Name()], as[valAtom]
					w := int64(0)
					if l > rr {
						w = 1
					} else if l < rr {
						w = -1
					}
					if got.Kind != "int" || got.K != w || gok.Kind != "int" || gok.K != 1 {
						probs = append(probs, fmt.Sprintf("left=%v right=%v → (%d, %d), expected (%d, true)", l == 1, rr == 1, got.K, gok.K, w))
					}
				}
			}
			key := "boolean three-way comparison (" + fn.Name() + ")"
			if len(probs) == 0 && n >= 4 {
				out.ok(key, p.pos(fn.Pos()), fnName(fn), fmt.Sprintf("%d cells: false < true, equal ⇒ 0, non-boolean ⇒ not comparable", n))
			} else {
				sort.Strings(probs)
				out.viol(key, p.pos(fn.Pos()), fnName(fn), fmt.Sprintf("%d cells; %s", n, strings.Join(uniq(probs), "; ")))
			}
		}
		// numeric three-way: generic func(left, right T) int
		nnum := 0
		for fn := range p.AllFns {
			if fnPkgPath(fn) != pkgExec || fn.Blocks == nil || fn.Signature.Recv() != nil || len(fn.Params) != 2 || fn.Signature.Results().Len() != 1 {
				continue
			}
			if o := fn.Origin(); o == nil {
				continue // only instantiations of the generic helper
			}
			if b, ok := fn.Signature.Results().At(0).Type().(*types.Basic); !ok || b.Kind() != types.Int {
				continue
			}
			if !types.Identical(fn.Params[0].Type(), fn.Params[1].Type()) {
				continue
			}
			nnum++
			tx, rows := p.extractTable(fn, nil, &TableCfg{})
			var probs []string
			n := 0
			for _, r := range rows {
				if r.Loop != nil || len(r.Out) != 1 {
					continue
				}
				names := tx.atomsOf(append(guardTerms(r), r.Out...)...)
				for _, as := range tx.assignments(names, nil) {
					if ok, why := tx.satisfied(r, as); !ok {
						if why != "" {
							probs = append(probs, why)
						}
						continue
					}
					n++
					got := tx.eval(r.Out[0], as, 0)
					var rel int64
					for k, v := range as {
						if strings.HasPrefix(k, "rel(") {
							rel = v
						}
					}
					if got.Kind != "int" || got.K != rel {
						probs = append(probs, fmt.Sprintf("left %s right → %d", map[int64]string{-1: "<", 0: "=", 1: ">"}[rel], got.K))
					}
				}
			}
			key := "numeric three-way comparison " + fn.Name()
			if len(probs) == 0 && n == 3 {
				out.ok(key, p.pos(fn.Pos()), fnName(fn), "−1 / 0 / +1 exactly for < / = / >")
			} else {
				sort.Strings(probs)
				out.viol(key, p.pos(fn.Pos()), fnName(fn), fmt.Sprintf("%d cells; %s", n, strings.Join(uniq(probs), "; ")))
			}
		}
		out.Counts["numeric_three_way_instantiations"] = nnum
		out.Floors["numeric_three_way_instantiations"] = 2
		return out
	},
}

// --- the pairwise loop -----------------------------------------------------------------

var rulePredLoop = &Rule{
	Name: "R-PREDLOOP", NeedSSA: true,
	Doc: "decision table of the pairwise predicate loop over (mode, callback outcome, callback error): an error aborts with (unknown, err); unknown aborts with unknown in strict mode and is remembered in lax mode; true answers immediately in lax mode and is remembered in strict mode; false continues; after the loop: remembered-true ⇒ true, else remembered-unknown ⇒ unknown, else false",
	Run: func(p *Prog) *RuleOut {
		out := newOut("R-PREDLOOP")
		T, F, _, err := p.predTF()
		if err != nil {
			out.undecided("outcome constants", "-", "", err.Error())
			return out
		}
		U := constOf(p.A.PredUnknown)
		// the function with a dynamic call returning (outcome, error) inside a loop
		var fn *ssa.Function
		var cb *ssa.Call
		for _, f := range p.execFuncs() {
			for _, b := range f.Blocks {
				for _, ins := range b.Instrs {
					c, ok := ins.(*ssa.Call)
					if !ok || c.Call.IsInvoke() || c.Call.StaticCallee() != nil {
						continue
					}
					if sig := calleeSig(c); sig != nil && p.pairKind(sig) == "pred" {
						fn, cb = f, c
					}
				}
			}
		}
		if fn == nil {
			out.undecided("pairwise loop", "-", "", "anchor unresolved: dynamic callback returning (outcome, error)")
			return out
		}
		// innermost loop header around the callback: the closest dominator with
		// a predecessor that the callback's block dominates (the latch)
		var header *ssa.BasicBlock
		for h := cb.Block(); h != nil && header == nil; h = h.Idom() {
			for _, pr := range h.Preds {
				if cb.Block() == pr || cb.Block().Dominates(pr) {
					header = h
				}
			}
		}
		if header == nil {
			out.undecided("pairwise loop", p.pos(cb.Pos()), fnName(fn), "the callback is not inside a loop")
			return out
		}
		tx, allRows := p.extractTable(fn, header, &TableCfg{})
		var rows []*PathRow
		for _, r := range allRows {
			for _, c := range r.Calls {
				if c == cb {
					rows = append(rows, r)
					break
				}
			}
		}
		rA, eA := atomKey(cb, 0), atomKey(cb, 1)
		var probs []string
		n := 0
		flagTrue := map[string]ssa.Value{} // "unknown"/"true" → header phi that receives const true
		for _, r := range rows {
			// only paths that actually pass the callback's results
			names := tx.atomsOf(append(guardTerms(r), r.Out...)...)
			for _, must := range []string{rA, eA, "mode:strict"} {
				found := false
				for _, nm := range names {
					if nm == must {
						found = true
					}
				}
				if !found {
					names = append(names, must)
				}
			}
			if tx.atoms[rA] == nil || tx.atoms[eA] == nil {
				continue
			}
			if tx.atoms["mode:strict"] == nil {
				probs = append(probs, "the loop never consults the mode")
				break
			}
			for _, as := range tx.assignments(names, nil) {
				if ok, _ := tx.satisfied(r, as); !ok {
					continue
				}
				if as[eA] == 1 && as[rA] != U {
					continue
				}
				n++
				strict := as["mode:strict"] == 1
				desc := fmt.Sprintf("strict=%v outcome=%d err=%s", strict, as[rA], errName(as[eA]))
				ret, isRet := r.End.(*ssa.Return)
				_ = ret
				wantRet := as[eA] == 1 || (as[rA] == U && strict) || (as[rA] == T && !strict)
				if wantRet != (isRet && r.Loop == nil) {
					if wantRet {
						probs = append(probs, desc+": the loop continues, expected an immediate answer")
					} else {
						probs = append(probs, desc+": answers immediately, expected to examine the remaining pairs")
					}
					continue
				}
				if isRet && r.Loop == nil {
					got, gerr := tx.eval(r.Out[0], as, 0), tx.eval(r.Out[1], as, 0)
					switch {
					case as[eA] == 1:
						if got.Kind != "int" || got.K != U || gerr.Kind != "ref" || gerr.Ref != eA {
							probs = append(probs, desc+" → ("+fmt.Sprint(got.K)+", "+errValName(gerr)+"), expected (unknown, the callback's error)")
						}
					case as[rA] == U:
						if got.Kind != "int" || got.K != U || gerr.Kind != "nil" {
							probs = append(probs, desc+" → not (unknown, nil)")
						}
					default:
						if got.Kind != "int" || got.K != T || gerr.Kind != "nil" {
							probs = append(probs, desc+" → not (true, nil)")
						}
					}
					continue
				}
				// continue: which header phis receive const true?
				if r.Loop == nil {
					continue
				}
				var setTrue []ssa.Value
				i := 0
				for _, ins := range r.Loop.Instrs {
					ph, ok := ins.(*ssa.Phi)
					if !ok {
						break
					}
					if i < len(r.Out) {
						if b, ok := ph.Type().Underlying().(*types.Basic); ok && b.Kind() == types.Bool {
							if r.Out[i].Kind == "const" && r.Out[i].K == 1 {
								setTrue = append(setTrue, ph)
							}
						}
					}
					i++
				}
				switch {
				case as[rA] == U && !strict:
					if len(setTrue) != 1 {
						probs = append(probs, desc+": does not remember exactly one flag")
					} else {
						flagTrue["unknown"] = setTrue[0]
					}
				case as[rA] == T && strict:
					if len(setTrue) != 1 {
						probs = append(probs, desc+": does not remember exactly one flag")
					} else {
						flagTrue["true"] = setTrue[0]
					}
				default:
					if len(setTrue) != 0 {
						probs = append(probs, desc+": sets a flag although the pair is false")
					}
				}
			}
		}
		// after the loop
		if flagTrue["unknown"] != nil && flagTrue["true"] != nil {
			pn, pr := p.postLoop(fn, cb, flagTrue, T, F, U)
			n += pn
			probs = append(probs, pr...)
		} else if len(probs) == 0 {
			probs = append(probs, "the flags remembering an unknown pair (lax) and a true pair (strict) could not be identified")
		}
		// before the loop: the only way out is a failed operand, reported as unknown
		outer := header
		for h := header.Idom(); h != nil; h = h.Idom() {
			for _, pr := range h.Preds {
				if header == pr || header.Dominates(pr) {
					outer = h
				}
			}
		}
		npre := 0
		for _, r := range returnsOf(fn) {
			if r.Instr.Block() == fn.Recover || outer.Dominates(r.Instr.Block()) || len(r.Results) != 2 {
				continue
			}
			npre++
			if k, ok := constInt(stripConv(r.Results[0])); !ok || k != U {
				probs = append(probs, "return at "+p.pos(r.Instr.Pos())+" answers before the operand pairs are examined with an outcome other than unknown: an operand that was never evaluated cannot fail any more")
			}
		}
		n += npre
		sort.Strings(probs)
		probs = uniq(probs)
		key := "decision table of the pairwise loop"
		if len(probs) == 0 && n >= 10 {
			out.ok(key, p.pos(cb.Pos()), fnName(fn), fmt.Sprintf("%d cells: lax is existential, strict examines every pair and turns any unknown into unknown", n))
		} else {
			out.viol(key, p.pos(cb.Pos()), fnName(fn), fmt.Sprintf("%d cells; %s", n, strings.Join(probs, "; ")), probs...)
		}
		out.Counts["loop_cells"] = n
		out.Floors["loop_cells"] = 10
		return out
	},
}

// phiWeb: all phis connected to v through phi operands.
func phiWeb(v ssa.Value) map[ssa.Value]bool {
	web := map[ssa.Value]bool{}
	var rec func(x ssa.Value)
	rec = func(x ssa.Value) {
		ph, ok := x.(*ssa.Phi)
		if !ok || web[x] {
			return
		}
		web[x] = true
		for _, e := range ph.Edges {
			rec(e)
		}
		for _, r := range *ph.Referrers() {
			if q, ok := r.(*ssa.Phi); ok {
				rec(q)
			}
		}
	}
	rec(v)
	return web
}

// postLoop: returns of fn not dominated by the callback block test the two
// flags: true-flag ⇒ true; else unknown-flag ⇒ unknown; else false.
func (p *Prog) postLoop(fn *ssa.Function, cb *ssa.Call, flags map[string]ssa.Value, T, F, U int64) (int, []string) {
	webT, webU := phiWeb(flags["true"]), phiWeb(flags["unknown"])
	var probs []string
	// find the block where the outer loop exits: a block testing a phi of webT or webU
	var start *ssa.BasicBlock
	for _, b := range fn.Blocks {
		if iff, ok := b.Instrs[len(b.Instrs)-1].(*ssa.If); ok && (webT[iff.Cond] || webU[iff.Cond]) {
			if start == nil || b.Index < start.Index {
				start = b
			}
		}
	}
	if start == nil {
		return 0, []string{"after the loop the remembered flags are not tested"}
	}
	tx, rows := p.extractTable(fn, start, &TableCfg{})
	n := 0
	for _, r := range rows {
		if r.Loop != nil || len(r.Out) != 2 {
			continue
		}
		names := tx.atomsOf(append(guardTerms(r), r.Out...)...)
		for _, as := range tx.assignments(names, nil) {
			if ok, _ := tx.satisfied(r, as); !ok {
				continue
			}
			n++
			ft, fu := int64(0), int64(0)
			known := true
			for k, v := range as {
				ai := tx.atoms[k]
				switch {
				case ai != nil && webT[ai.Val]:
					ft = v
				case ai != nil && webU[ai.Val]:
					fu = v
				default:
					known = false
				}
			}
			if !known {
				probs = append(probs, "the final answer depends on something other than the two flags")
			}
			got, gerr := tx.eval(r.Out[0], as, 0), tx.eval(r.Out[1], as, 0)
			want := F
			if ft == 1 {
				want = T
			} else if fu == 1 {
				want = U
			}
			if got.Kind != "int" || got.K != want || gerr.Kind != "nil" {
				probs = append(probs, fmt.Sprintf("after the loop: sawTrue=%d sawUnknown=%d → %d, expected %d", ft, fu, got.K, want))
			}
		}
	}
	if n < 3 {
		probs = append(probs, fmt.Sprintf("only %d post-loop cells", n))
	}
	return n, probs
}

// --- regex flags ---------------------------------------------------------------------------

var ruleRegexFlags = &Rule{
	Name: "R-REGEXFLAGS", NeedSSA: true,
	Doc: "for each of the 32 sets of like_regex flags the flags the parse-time validator gives regexp/syntax agree with what the execution-time compiler will use: FoldCase ⇔ (?i), DotNL ⇔ (?s), ¬OneLine ⇔ (?m), Literal ⇔ QuoteMeta (and then no s/m), x is rejected; the validator's base flags differ from syntax.Perl only by flags that widen acceptance; the validated pattern and flags are the ones stored in the node and compiled",
	Run: func(p *Prog) *RuleOut {
		out := newOut("R-REGEXFLAGS")
		syn := p.Pkgs["regexp/syntax"]
		if syn == nil {
			out.undecided("regexp/syntax", "-", "", "package not loaded")
			return out
		}
		sc := func(name string) int64 {
			c, _ := syn.Types.Scope().Lookup(name).(*types.Const)
			if c == nil {
				return -1
			}
			v, _ := constant.Int64Val(c.Val())
			return v
		}
		fold, dotnl, oneline, literal, perl, ugroups := sc("FoldCase"), sc("DotNL"), sc("OneLine"), sc("Literal"), sc("Perl"), sc("UnicodeGroups")
		flagsT, _ := lookupNamed(p.Pkgs[pkgAST].Types, "regexFlags")
		if flagsT == nil || fold < 0 {
			out.undecided("regexFlags type", "-", "", "anchor unresolved")
			return out
		}
		// the three functions, by signature, among the methods of regexFlags
		var validator, prefix, quote *ssa.Function
		var cands []*ssa.Function
		for f := range p.AllFns {
			if fnPkgPath(f) == pkgAST && f.Blocks != nil && f.Synthetic == "" && f.Parent() == nil && takesOnly(f, flagsT) {
				cands = append(cands, f)
			}
		}
		sortFuncs(cands)
		for _, f := range cands {
			res := f.Signature.Results()
			switch {
			case res.Len() == 2 && isErrorType(res.At(1).Type()) && namedOf(res.At(0).Type()) != nil && namedOf(res.At(0).Type()).Obj().Name() == "Flags":
				validator = f
			case res.Len() == 1 && types.Identical(res.At(0).Type(), types.Typ[types.String]) && f.Name() != "String":
				prefix = f
			case res.Len() == 1 && types.Identical(res.At(0).Type(), types.Typ[types.Bool]):
				quote = f
			}
		}
		if validator == nil || prefix == nil || quote == nil {
			out.undecided("flag translation functions", "-", "", "anchor unresolved (validator/prefix/quote)")
			return out
		}
		dom32 := func(fn *ssa.Function) func(v ssa.Value) []int64 {
			return func(v ssa.Value) []int64 {
				if v == ssa.Value(fn.Params[0]) {
					d := make([]int64, 32)
					for i := range d {
						d[i] = int64(i)
					}
					return d
				}
				return nil
			}
		}
		// bit values of the five flags, from the constants of type regexFlag
		bit := map[string]int64{}
		for _, name := range p.Pkgs[pkgAST].Types.Scope().Names() {
			if c, ok := p.Pkgs[pkgAST].Types.Scope().Lookup(name).(*types.Const); ok {
				if n, ok := c.Type().(*types.Named); ok && n.Obj().Name() == "regexFlag" {
					v, _ := constant.Int64Val(c.Val())
					bit[name] = v
				}
			}
		}
		bi, bs, bm, bx, bq := bit["regexICase"], bit["regexDotAll"], bit["regexMLine"], bit["regexWSpace"], bit["regexQuote"]
		if bi == 0 || bs == 0 || bm == 0 || bx == 0 || bq == 0 {
			out.undecided("flag bits", "-", "", "anchor unresolved: the five regexFlag constants")
			return out
		}
		// validator table
		vtx, vrows := p.extractTable(validator, nil, &TableCfg{IntDomain: dom32(validator)})
		type vres struct {
			ok    bool
			flags int64
		}
		vtab := map[int64]vres{}
		var probs []string
		for f := int64(0); f < 32; f++ {
			as := Assign{validator.Params[0].Name(): f}
			hit := 0
			for _, r := range vrows {
				if r.Loop != nil || len(r.Out) != 2 {
					continue
				}
				vtx.term(validator.Params[0], r, 0)
				if ok, _ := vtx.satisfied(r, as); !ok {
					continue
				}
				hit++
				fl, e := vtx.eval(r.Out[0], as, 0), vtx.eval(r.Out[1], as, 0)
				vtab[f] = vres{ok: e.Kind == "nil", flags: fl.K}
				if e.Kind == "nil" && fl.Kind != "int" {
					probs = append(probs, fmt.Sprintf("validator flags for set %d not computable", f))
				}
			}
			if hit != 1 {
				probs = append(probs, fmt.Sprintf("flag set %d handled by %d validator paths", f, hit))
			}
		}
		// prefix table: letters appended on each path
		ptx, prows := p.extractTable(prefix, nil, &TableCfg{IntDomain: dom32(prefix)})
		ptab := map[int64]string{}
		for f := int64(0); f < 32; f++ {
			as := Assign{prefix.Params[0].Name(): f}
			hit := 0
			for _, r := range prows {
				if r.Loop != nil || len(r.Out) != 1 {
					continue
				}
				ptx.term(prefix.Params[0], r, 0)
				letters := pathLetters(r)
				// the len(flags) == 2 test: true iff nothing was appended
				feasible := true
				names := ptx.atomsOf(guardTerms(r)...)
				var free []string
				for _, nm := range names {
					if strings.HasPrefix(nm, "cond:") {
						free = append(free, nm)
					}
				}
				if len(free) > 1 {
					probs = append(probs, "prefix builder has more than one condition outside the flag bits")
					continue
				}
				empty := isEmptyStringConst(r)
				if len(free) == 1 {
					// len test: the "" return is taken iff no letter was appended
					want := int64(0)
					if letters == "" {
						want = 1
					}
					// polarity of the test: `len == start` is true when nothing
					// was appended, `len != start` / `len > start` when something was
					if bo, ok := ptx.atoms[free[0]].Val.(*ssa.BinOp); ok && (bo.Op == token.NEQ || bo.Op == token.GTR) {
						want = 1 - want
					}
					as[free[0]] = want
					if empty != (letters == "") {
						feasible = false
					}
				}
				if !feasible {
					delete(as, firstOr(free))
					continue
				}
				ok, _ := ptx.satisfied(r, as)
				delete(as, firstOr(free))
				if !ok {
					continue
				}
				hit++
				ptab[f] = letters
			}
			if hit != 1 {
				probs = append(probs, fmt.Sprintf("flag set %d handled by %d prefix paths", f, hit))
			}
		}
		// quote table
		qtx, qrows := p.extractTable(quote, nil, &TableCfg{IntDomain: dom32(quote)})
		qtab := map[int64]bool{}
		for f := int64(0); f < 32; f++ {
			as := Assign{quote.Params[0].Name(): f}
			for _, r := range qrows {
				if r.Loop != nil || len(r.Out) != 1 {
					continue
				}
				qtx.term(quote.Params[0], r, 0)
				if ok, _ := qtx.satisfied(r, as); ok {
					v := qtx.eval(r.Out[0], as, 0)
					qtab[f] = v.Kind == "int" && v.K == 1
				}
			}
		}
		n := 0
		for f := int64(0); f < 32; f++ {
			n++
			v := vtab[f]
			i, s, m, x, q := f&bi != 0, f&bs != 0, f&bm != 0, f&bx != 0, f&bq != 0
			name := flagSetName(i, s, m, x, q)
			if x && !q {
				if v.ok {
					probs = append(probs, name+": the unsupported x flag is accepted")
				}
				continue
			}
			if !v.ok {
				probs = append(probs, name+": rejected by the validator although supported")
				continue
			}
			letters := ptab[f]
			has := func(c string) bool { return strings.Contains(letters, c) }
			if (v.flags&fold != 0) != has("i") {
				probs = append(probs, fmt.Sprintf("%s: validator FoldCase=%v but compiled prefix %q", name, v.flags&fold != 0, letters))
			}
			if qtab[f] != q {
				probs = append(probs, fmt.Sprintf("%s: pattern quoting is %v", name, qtab[f]))
			}
			if q {
				if v.flags&literal == 0 {
					probs = append(probs, name+": validated as a regular expression but compiled as a literal")
				}
				if has("s") || has("m") {
					probs = append(probs, fmt.Sprintf("%s: prefix %q carries s/m although q makes the pattern literal", name, letters))
				}
				continue
			}
			if v.flags&literal != 0 {
				probs = append(probs, name+": validated as a literal but compiled as a regular expression")
			}
			if (v.flags&dotnl != 0) != has("s") {
				probs = append(probs, fmt.Sprintf("%s: validator DotNL=%v but compiled prefix %q", name, v.flags&dotnl != 0, letters))
			}
			if (v.flags&oneline == 0) != has("m") {
				probs = append(probs, fmt.Sprintf("%s: validator multi-line=%v but compiled prefix %q", name, v.flags&oneline == 0, letters))
			}
			// base flags: validator ⊆ Perl, Perl \ validator ⊆ {UnicodeGroups}
			base := v.flags &^ (fold | dotnl | literal)
			base |= oneline
			if base&^perl != 0 || (perl&^base)&^ugroups != 0 {
				probs = append(probs, fmt.Sprintf("%s: validator base flags %#x differ from syntax.Perl %#x by more than UnicodeGroups", name, base, perl))
			}
		}
		sort.Strings(probs)
		probs = uniq(probs)
		key := "flag translation agrees for all 32 flag sets"
		if len(probs) == 0 {
			out.ok(key, p.pos(validator.Pos()), fnName(validator)+" / "+fnName(prefix), "validator flags ⇔ inline prefix ⇔ quoting, x rejected")
		} else {
			out.viol(key, p.pos(prefix.Pos()), fnName(prefix), "a like_regex accepted at parse time can be compiled differently (or panic in MustCompile) at execution time: "+probs[0], probs...)
		}
		out.Counts["flag_sets"] = n
		out.Floors["flag_sets"] = 32
		// same pattern / flags validated, stored and compiled
		p.regexSameInputs(out, flagsT)
		p.regexAlwaysValidated(out, validator)
		return out
	},
}

func firstOr(ss []string) string {
	if len(ss) > 0 {
		return ss[0]
	}
	return ""
}

func flagSetName(i, s, m, x, q bool) string {
	n := ""
	for _, c := range []struct {
		b bool
		l string
	}{{i, "i"}, {s, "s"}, {m, "m"}, {x, "x"}, {q, "q"}} {
		if c.b {
			n += c.l
		}
	}
	if n == "" {
		return `flags ""`
	}
	return `flags "` + n + `"`
}

// pathLetters: constant bytes appended (other than the closing parenthesis) on
// the path, in order.
func pathLetters(r *PathRow) string {
	s := ""
	for _, b := range r.Blocks {
		for _, ins := range b.Instrs {
			c, ok := ins.(*ssa.Call)
			if !ok {
				continue
			}
			if bi, ok := c.Call.Value.(*ssa.Builtin); !ok || bi.Name() != "append" || len(c.Call.Args) != 2 {
				continue
			}
			for _, a := range variadicArgs(c.Call.Args[1]) {
				if k, ok := constInt(a); ok && k != ')' {
					s += string(rune(k))
				}
			}
		}
	}
	return s
}

func isEmptyStringConst(r *PathRow) bool {
	ret, ok := r.End.(*ssa.Return)
	if !ok || len(ret.Results) != 1 {
		return false
	}
	c, ok := ret.Results[0].(*ssa.Const)
	return ok && c.Value != nil && c.Value.Kind() == constant.String && constant.StringVal(c.Value) == ""
}

// regexSameInputs: the constructor validates exactly the pattern and flags it
// stores, and the compiler reads exactly those fields.
// regexAlwaysValidated: every success return of the constructor that calls
// the validator is reached through that call — no path hands out a node whose
// pattern the validator has not seen.
func (p *Prog) regexAlwaysValidated(out *RuleOut, _ *ssa.Function) {
	// the validator: the function of package ast that hands a pattern to
	// regexp/syntax.Parse
	var validator *ssa.Function
	for _, fn := range p.astFuncsSorted() {
		for _, c := range p.allCalls(fn) {
			if calleeQualified(&c.Call) == "regexp/syntax.Parse" {
				validator = fn
			}
		}
	}
	if validator == nil {
		out.undecided("pattern validator", "-", "", "anchor unresolved: no function of package ast calls regexp/syntax.Parse")
		return
	}
	n := 0
	defer func() {
		if n == 0 {
			out.viol("a constructor validates the pattern", p.pos(validator.Pos()), fnName(validator), "no constructor returning (node, error) calls "+validator.Name())
		}
	}()
	for _, fn := range p.astFuncsSorted() {
		calls := callsTo(fn, validator)
		if len(calls) == 0 || fn == validator || !lastIsError(fn.Signature) {
			continue
		}
		n++
		key := fnName(fn) + ": every node it returns has been validated"
		bad := ""
		for _, r := range expandedReturns(fn) {
			if !isNilConst(stripConv(r.Results[len(r.Results)-1])) {
				continue
			}
			if isNilConst(stripConv(r.Results[0])) {
				continue
			}
			// some call of the validator dominates the return, or the return is
			// behind `err == nil` for an error merged from the validator's on
			// every edge that can carry nil
			// (`if err == nil { err = validate(…) }; if err != nil { return … }`)
			covers := func(b *ssa.BasicBlock) bool {
				for _, c := range calls {
					if c.Block() == b || c.Block().Dominates(b) {
						return true
					}
				}
				return false
			}
			dominated := covers(r.Block)
			for cur := r.Block; cur != nil && !dominated; cur = cur.Idom() {
				for _, ins := range cur.Instrs {
					ph, ok := ins.(*ssa.Phi)
					if !ok {
						break
					}
					if !isErrorType(ph.Type()) {
						continue
					}
					if isNil, _ := nilFact(r.Facts, ph); !isNil {
						continue
					}
					all := true
					for i, pred := range cur.Preds {
						efs := edgeFacts(pred, succIndex(pred, cur))
						if _, nonNil := nilFact(efs, ph.Edges[i]); nonNil {
							continue // this edge cannot carry a nil error
						}
						if !covers(pred) {
							all = false
						}
					}
					if all {
						dominated = true
					}
				}
			}
			if !dominated && bad == "" {
				bad = p.pos(r.Instr.Pos())
			}
		}
		if bad == "" {
			out.ok(key, p.pos(fn.Pos()), fnName(fn), "the call to "+validator.Name()+" dominates every success return")
		} else {
			out.viol(key, p.pos(fn.Pos()), fnName(fn), "the success return at "+bad+" can be reached without the pattern having been handed to "+validator.Name()+": a pattern Go's regexp rejects is accepted at parse time and panics in MustCompile when the path is executed")
		}
	}
}

func (p *Prog) astFuncsSorted() []*ssa.Function {
	var fns []*ssa.Function
	for fn := range p.AllFns {
		if fnPkgPath(fn) == pkgAST && fn.Blocks != nil {
			fns = append(fns, fn)
		}
	}
	sortFuncs(fns)
	return fns
}

func (p *Prog) regexSameInputs(out *RuleOut, flagsT *types.Named) {
	ctor := p.ssaFunc(pkgAST, "NewRegex")
	comp := p.ssaFunc(pkgAST, "*RegexNode.Regexp")
	key := "the validated pattern and flags are the ones stored and compiled"
	if ctor == nil || comp == nil {
		out.undecided(key, "-", "", "anchor unresolved: NewRegex / (*RegexNode).Regexp")
		return
	}
	var patStored, flagsStored ssa.Value
	for _, b := range ctor.Blocks {
		for _, ins := range b.Instrs {
			st, ok := ins.(*ssa.Store)
			if !ok {
				continue
			}
			if fa, ok := st.Addr.(*ssa.FieldAddr); ok {
				switch {
				case types.Identical(st.Val.Type(), types.Typ[types.String]):
					patStored = st.Val
				case types.Identical(st.Val.Type(), flagsT):
					flagsStored = st.Val
				}
				_ = fa
			}
		}
	}
	good := patStored != nil && flagsStored != nil
	validated := false
	unguarded := ""
	for _, b := range ctor.Blocks {
		for _, ins := range b.Instrs {
			c, ok := ins.(*ssa.Call)
			if !ok || c.Call.StaticCallee() == nil || fnPkgPath(c.Call.StaticCallee()) != pkgAST || len(c.Call.Args) != 2 {
				continue
			}
			if c.Call.Args[0] == patStored && c.Call.Args[1] == flagsStored {
				// the callee must hand them to regexp/syntax.Parse
				vf := c.Call.StaticCallee()
				for _, b2 := range vf.Blocks {
					for _, i2 := range b2.Instrs {
						if c2, ok := i2.(*ssa.Call); ok && calleeQualified(&c2.Call) == "regexp/syntax.Parse" {
							if c2.Call.Args[0] == ssa.Value(vf.Params[0]) {
								validated = true
								// acceptance (a nil return) only where syntax.Parse succeeded
								errV := extractOf(c2, 1)
								for _, r := range returnsOf(vf) {
									if !isNilConst(stripConv(r.Results[len(r.Results)-1])) {
										continue
									}
									if isNil, _ := nilFact(factsAt(r.Instr.Block()), errV); !isNil {
										validated = false
										unguarded = p.pos(r.Instr.Pos())
									}
								}
							}
						}
					}
				}
			}
		}
	}
	// the compiler: every MustCompile argument is built from loads of the same two fields
	compiles := 0
	srcProblem := ""
	for _, cf := range moduleFuncs(p.reachFrom([]*ssa.Function{comp}).Set) {
		if fnPkgPath(cf) != pkgAST {
			continue
		}
		for _, b := range cf.Blocks {
			for _, ins := range b.Instrs {
				if c, ok := ins.(*ssa.Call); ok && calleeQualified(&c.Call) == "regexp.MustCompile" {
					compiles++
					if w := compiledSourceLeaves(c.Call.Args[0], 0); w != "" {
						srcProblem = "the compiled source at " + p.pos(c.Pos()) + " contains " + w + ": it is not the validated pattern (as it is, or through regexp.QuoteMeta) behind the flag prefix, so what syntax.Parse accepted is not what MustCompile receives"
					}
				}
			}
		}
	}
	if srcProblem != "" {
		out.viol(key, p.pos(comp.Pos()), fnName(comp), srcProblem)
		return
	}
	if good && validated && compiles > 0 {
		out.ok(key, p.pos(ctor.Pos()), fnName(ctor), "NewRegex hands regexp/syntax.Parse the very pattern and flags it stores in the node")
	} else {
		why := "the pattern/flags validated at parse time are not the ones stored in the node"
		if unguarded != "" {
			why = "the validator accepts a pattern on a path where regexp/syntax.Parse was not consulted or failed (return at " + unguarded + "): such a pattern panics in MustCompile at execution time"
		}
		out.viol(key, p.pos(ctor.Pos()), fnName(ctor), why)
	}
}

// --- numeric tower ---------------------------------------------------------------------------

var ruleTower = &Rule{
	Name: "R-TOWER", NeedSSA: true,
	Doc: "the three numeric representations are siblings: every type switch over an item value in packages exec and types that has a case for one of int64, float64, json.Number has cases for all three — unless the operand was assigned once, before the switch, from a helper of the module that cannot answer the missing representation (it has been normalised)",
	Run: func(p *Prog) *RuleOut {
		out := newOut("R-TOWER")
		n := 0
		for _, pkgPath := range []string{pkgExec} {
			pk := p.Pkgs[pkgPath]
			for _, f := range pk.Syntax {
				for _, d := range f.Decls {
					fd, ok := d.(*ast.FuncDecl)
					if !ok || fd.Body == nil {
						continue
					}
					ord := 0
					ast.Inspect(fd.Body, func(nd ast.Node) bool {
						ts, ok := nd.(*ast.TypeSwitchStmt)
						if !ok {
							return true
						}
						x := typeSwitchOperand(ts)
						if x == nil {
							return true
						}
						tv, ok := pk.TypesInfo.Types[x]
						if !ok {
							return true
						}
						if it, ok := tv.Type.Underlying().(*types.Interface); !ok || it.NumMethods() != 0 {
							return true
						}
						seen := map[string]bool{}
						for _, cl := range ts.Body.List {
							for _, e := range cl.(*ast.CaseClause).List {
								t := pk.TypesInfo.TypeOf(e)
								if t == nil {
									continue
								}
								switch typeStr(t) {
								case "int64", "float64", "encoding/json.Number":
									seen[typeStr(t)] = true
								}
							}
						}
						if len(seen) == 0 {
							return true
						}
						n++
						ord++
						fo, _ := pk.TypesInfo.Defs[fd.Name].(*types.Func)
						name := fd.Name.Name
						if sf := p.ssaOf(fo); sf != nil {
							name = fnName(sf)
						}
						key := fmt.Sprintf("%s: numeric type switch #%d", name, ord)
						// the operand was normalised first: assigned once, before
						// the switch, from a helper of the module none of whose
						// returns can hold the missing representation
						// (`left, ok := mathOperand(left)` answers int64 or float64)
						if len(seen) < 3 {
							if why := p.normalisedOperand(pk, fd, ts, x, seen); why != "" {
								out.ok(key, p.pos(ts.Pos()), name, why)
								return true
							}
							// … or the missing representation was dealt with before
							// the switch (`if num, ok := val.(json.Number); ok {
							// … return … }`) and cannot reach it
							if why := p.excludedBeforeSwitch(p.ssaOf(fo), ts, seen); why != "" {
								out.ok(key, p.pos(ts.Pos()), name, why)
								return true
							}
						}
						if len(seen) == 3 {
							out.ok(key, p.pos(ts.Pos()), name, "int64, float64 and json.Number are all handled")
						} else {
							var miss []string
							for _, t := range []string{"int64", "float64", "encoding/json.Number"} {
								if !seen[t] {
									miss = append(miss, t)
								}
							}
							out.viol(key, p.pos(ts.Pos()), name, "numeric representation(s) "+strings.Join(miss, ", ")+" not handled next to their siblings: the same number behaves differently depending on how the document was decoded")
						}
						return true
					})
				}
			}
		}
		out.Counts["numeric_type_switches"] = n
		out.Floors["numeric_type_switches"] = 3
		return out
	},
}

var _ = token.ADD

func init() {
	register(ruleCmpTable, rulePredLoop, ruleRegexFlags, ruleTower)
}

// --- string predicates -------------------------------------------------------------------------

var ruleStrPred = &Rule{
	Name: "R-STRPRED", NeedSSA: true,
	Doc: "decision tables of the two string predicate callbacks: `starts with` answers strings.HasPrefix(whole, initial) when both operands are strings and unknown otherwise; like_regex answers Regexp().MatchString(value) for a string and unknown otherwise; neither returns an error",
	Run: func(p *Prog) *RuleOut {
		out := newOut("R-STRPRED")
		T, F, _, err := p.predTF()
		if err != nil {
			out.undecided("outcome constants", "-", "", err.Error())
			return out
		}
		U := constOf(p.A.PredUnknown)
		n := 0
		for _, fn := range p.execFuncs() {
			if p.pairKind(fn.Signature) != "pred" {
				continue
			}
			// callbacks: (ctx, node, left any, right any)
			nAny := 0
			for _, q := range fn.Params {
				if it, ok := q.Type().Underlying().(*types.Interface); ok && it.NumMethods() == 0 {
					nAny++
				}
			}
			if nAny != 2 {
				continue
			}
			var matcher string
			for _, b := range fn.Blocks {
				for _, ins := range b.Instrs {
					if c, ok := ins.(*ssa.Call); ok {
						switch calleeQualified(&c.Call) {
						case "strings.HasPrefix":
							matcher = "strings.HasPrefix"
						case "regexp.MatchString":
							matcher = "regexp.MatchString"
						}
					}
				}
			}
			if matcher == "" {
				continue
			}
			n++
			tx, rows := p.extractTable(fn, nil, &TableCfg{})
			var probs []string
			cells := 0
			for _, r := range rows {
				if r.Loop != nil || len(r.Out) != 2 {
					continue
				}
				if _, isPanic := r.End.(*ssa.Panic); isPanic {
					continue
				}
				names := tx.atomsOf(append(guardTerms(r), r.Out...)...)
				for _, as := range tx.assignments(names, nil) {
					if ok, _ := tx.satisfied(r, as); !ok {
						continue
					}
					cells++
					got, gerr := tx.eval(r.Out[0], as, 0), tx.eval(r.Out[1], as, 0)
					if gerr.Kind != "nil" {
						probs = append(probs, "returns an error")
					}
					allStr := true
					nstr := 0
					var matchAtom string
					for k, v := range as {
						if strings.HasSuffix(k, ".(string)ok") {
							nstr++
							if v == 0 {
								allStr = false
							}
						}
						if ai := tx.atoms[k]; ai != nil && ai.Call != nil {
							q := calleeQualified(&ai.Call.Call)
							if q == matcher {
								matchAtom = k
							}
						}
					}
					// was the matcher called on this path?
					called := false
					for _, c := range r.Calls {
						if calleeQualified(&c.Call) == matcher {
							called = true
						}
					}
					switch {
					case !allStr:
						if got.Kind != "int" || got.K != U || called {
							probs = append(probs, "a non-string operand does not yield unknown")
						}
					case called && matchAtom != "":
						want := F
						if as[matchAtom] == 1 {
							want = T
						}
						if got.Kind != "int" || got.K != want {
							probs = append(probs, fmt.Sprintf("%s = %v → %d", matcher, as[matchAtom] == 1, got.K))
						}
					case called:
					default:
						if nstr > 0 {
							probs = append(probs, "string operands but the matcher is not consulted")
						}
					}
				}
			}
			key := "string predicate " + fn.Name() + " (" + matcher + ")"
			sort.Strings(probs)
			if len(probs) == 0 && cells >= 3 {
				out.ok(key, p.pos(fn.Pos()), fnName(fn), fmt.Sprintf("%d cells: strings → %s, anything else → unknown, never an error", cells, matcher))
			} else {
				out.viol(key, p.pos(fn.Pos()), fnName(fn), fmt.Sprintf("%d cells; %s", cells, strings.Join(uniq(probs), "; ")))
			}
		}
		out.Counts["string_predicates"] = n
		out.Floors["string_predicates"] = 2
		return out
	},
}

func init() { register(ruleStrPred) }

// compiledSourceLeaves: "" if v is a concatenation whose leaves are the
// node's pattern field, regexp.QuoteMeta of it, or the result of a method of
// the flags value (the inline flag prefix); otherwise the offending leaf.
func compiledSourceLeaves(v ssa.Value, depth int) string {
	if depth > 8 {
		return "an expression too deep to follow"
	}
	switch x := v.(type) {
	case *ssa.BinOp:
		if x.Op == token.ADD {
			if w := compiledSourceLeaves(x.X, depth+1); w != "" {
				return w
			}
			return compiledSourceLeaves(x.Y, depth+1)
		}
	case *ssa.Phi:
		for _, e := range x.Edges {
			if w := compiledSourceLeaves(e, depth+1); w != "" {
				return w
			}
		}
		return ""
	case *ssa.UnOp:
		if x.Op == token.MUL {
			if fa, ok := x.X.(*ssa.FieldAddr); ok && types.Identical(x.Type(), types.Typ[types.String]) {
				_ = fa
				return "" // the stored pattern
			}
		}
	case *ssa.Call:
		q := calleeQualified(&x.Call)
		if q == "regexp.QuoteMeta" && len(x.Call.Args) == 1 {
			return compiledSourceLeaves(x.Call.Args[0], depth+1)
		}
		if sc := x.Call.StaticCallee(); sc != nil && fnPkgPath(sc) == pkgAST && types.Identical(x.Type(), types.Typ[types.String]) {
			return "" // flag prefix computed from the stored flags
		}
		return "the result of " + q
	case *ssa.Const:
		if x.Value != nil && x.Value.Kind() == constant.String && constant.StringVal(x.Value) == "" {
			return ""
		}
		return "the constant " + trunc(x.String(), 30)
	}
	return trunc(v.String(), 40)
}

// --- R-CMPNORM: an integer json.Number is compared as the integer it denotes ----------------------

var ruleCmpNorm = &Rule{
	Name: "R-CMPNORM", NeedSSA: true,
	Doc: "the function that normalises a json.Number operand for comparison (func(any) (any, bool) in package exec that calls json.Number.Int64) reaches no int64→float64 conversion: a number that parses as an integer is compared as that integer, whatever its value, so json.Number, int64 and float64 operands order consistently",
	Run: func(p *Prog) *RuleOut {
		out := newOut("R-CMPNORM")
		n := 0
		for _, fn := range p.execFuncs() {
			sig := fn.Signature
			if sig.Recv() != nil || sig.Params().Len() != 1 || sig.Results().Len() != 2 {
				continue
			}
			if it, ok := sig.Params().At(0).Type().Underlying().(*types.Interface); !ok || it.NumMethods() != 0 {
				continue
			}
			// the second result says whether the number could be converted: a
			// flag, or the conversion's error
			if b, ok := sig.Results().At(1).Type().Underlying().(*types.Basic); (!ok || b.Kind() != types.Bool) && !isErrorType(sig.Results().At(1).Type()) {
				continue
			}
			reach := p.reachFrom([]*ssa.Function{fn})
			callsInt64 := false
			var conv []string
			for _, f := range moduleFuncs(reach.Set) {
				for _, b := range f.Blocks {
					for _, ins := range b.Instrs {
						switch x := ins.(type) {
						case *ssa.Call:
							if calleeQualified(&x.Call) == "encoding/json.Int64" {
								callsInt64 = true
							}
						case *ssa.Convert:
							if isInt64(x.X.Type()) && isFloat64(x.Type()) {
								conv = append(conv, fnName(f)+" at "+p.pos(x.Pos()))
							}
						}
					}
				}
			}
			if !callsInt64 {
				continue
			}
			n++
			key := fnName(fn) + " keeps integers integral"
			if len(conv) == 0 {
				out.ok(key, p.pos(fn.Pos()), fnName(fn), "no int64→float64 conversion reachable")
			} else {
				sort.Strings(conv)
				out.viol(key, p.pos(fn.Pos()), fnName(fn), "the comparison normaliser can turn an integer into a double ("+conv[0]+"): that integer then compares equal to its neighbours within the double's rounding, and differently from the same value given as int64", conv...)
			}
		}
		out.Counts["comparison_normalisers"] = n
		out.Floors["comparison_normalisers"] = 1
		return out
	},
}

func init() { register(ruleCmpNorm) }

// --- R-EXACTCMP: an integer operand is not compared through a double alone ------------------------

// intOperandOrigin: v is an integer operand of the comparison as it was given
// (a parameter, an asserted interface value, the result of a parse), not a
// value obtained by converting a double (which converts back exactly).
func intOperandOrigin(v ssa.Value, depth int) bool {
	if depth > 6 {
		return false
	}
	switch x := v.(type) {
	case *ssa.Parameter, *ssa.TypeAssert:
		return true
	case *ssa.Extract:
		switch x.Tuple.(type) {
		case *ssa.TypeAssert, *ssa.Call:
			return true
		}
	case *ssa.Call:
		return true
	case *ssa.Phi:
		for _, e := range x.Edges {
			if intOperandOrigin(e, depth+1) {
				return true
			}
		}
	case *ssa.ChangeType:
		return intOperandOrigin(x.X, depth+1)
	}
	return false
}

var ruleExactCmp = &Rule{
	Name: "R-EXACTCMP", NeedSSA: true,
	Doc: "in the numeric comparison (the func(any, any) int of package exec and the package functions it reaches), wherever an int64 operand is converted to float64, the region that conversion dominates uses the integer in some other way as well (an integer comparison, a call receiving it): an arm that only ever looks at float64(i) cannot tell 2^53 from 2^53+1, so the order is not by value and not transitive across int64, float64 and json.Number",
	Run: func(p *Prog) *RuleOut {
		out := newOut("R-EXACTCMP")
		n, ncmp := 0, 0
		isAny := func(t types.Type) bool {
			it, ok := t.Underlying().(*types.Interface)
			return ok && it.NumMethods() == 0
		}
		for _, fn := range p.execFuncs() {
			sig := fn.Signature
			if sig.Recv() != nil || sig.Params().Len() != 2 || sig.Results().Len() != 1 || !isAny(sig.Params().At(0).Type()) || !isAny(sig.Params().At(1).Type()) {
				continue
			}
			if b, ok := sig.Results().At(0).Type().Underlying().(*types.Basic); !ok || b.Kind() != types.Int {
				continue
			}
			reach := p.reachFrom([]*ssa.Function{fn})
			ncmp++
			ord := ordinals{}
			for _, f := range moduleFuncs(reach.Set) {
				if fnPkgPath(f) != pkgExec {
					continue
				}
				for _, b := range f.Blocks {
					for _, ins := range b.Instrs {
						cv, ok := ins.(*ssa.Convert)
						if !ok || !isInt64(cv.X.Type()) || !isFloat64(cv.Type()) || !intOperandOrigin(cv.X, 0) {
							continue
						}
						n++
						key := fmt.Sprintf("%s: int64 operand compared as a double #%d", fnName(f), ord.next(fnName(f)))
						other := ""
						for _, r := range *cv.X.Referrers() {
							if r == ssa.Instruction(cv) {
								continue
							}
							if _, dbg := r.(*ssa.DebugRef); dbg {
								continue
							}
							rb := r.Block()
							if rb == nil {
								continue
							}
							if (rb == b && instrIndex(b, r) > instrIndex(b, cv)) || (rb != b && b.Dominates(rb)) {
								other = p.pos(r.Pos())
							}
						}
						if other != "" {
							out.ok(key, p.pos(cv.Pos()), fnName(f), "the integer itself is also examined after the conversion (at "+other+")")
						} else {
							out.viol(key, p.pos(cv.Pos()), fnName(f), "from here on the integer is only seen as float64(i): 2^53 and 2^53+1 become the same operand, so an int64 compares equal to a double it differs from, and ==/< are not transitive across the numeric representations")
						}
					}
				}
			}
		}
		out.Counts["int_to_double_conversions_in_comparisons"] = n
		out.Counts["numeric_comparison_functions"] = ncmp
		out.Floors["numeric_comparison_functions"] = 1
		if n == 0 && ncmp > 0 {
			out.ok("no int64 operand is compared as a double", "path/exec", "", fmt.Sprintf("%d numeric comparison function(s) and what they reach: no int64 operand is converted to float64", ncmp))
		}
		return out
	},
}

func init() { register(ruleExactCmp) }

// normalisedOperand: the type-switch operand x (an identifier) is assigned
// exactly once in fd, before the switch, from result #i of a call of a module
// function h, and the dynamic types h can answer there (E2, each return
// refined by its branch facts) do not include a numeric representation the
// switch lacks. Returns the reason, or "".
func (p *Prog) normalisedOperand(pk *packages.Package, fd *ast.FuncDecl, ts *ast.TypeSwitchStmt, x ast.Expr, seen map[string]bool) string {
	id, ok := x.(*ast.Ident)
	if !ok {
		return ""
	}
	obj := pk.TypesInfo.Uses[id]
	if obj == nil {
		return ""
	}
	var asg *ast.AssignStmt
	idx, nasg := -1, 0
	ast.Inspect(fd.Body, func(nd ast.Node) bool {
		a, ok := nd.(*ast.AssignStmt)
		if !ok {
			return true
		}
		for i, l := range a.Lhs {
			li, ok := l.(*ast.Ident)
			if !ok {
				continue
			}
			if pk.TypesInfo.Uses[li] == obj || pk.TypesInfo.Defs[li] == obj {
				nasg++
				asg, idx = a, i
			}
		}
		return true
	})
	if nasg != 1 || asg == nil || asg.Pos() >= ts.Pos() || len(asg.Rhs) != 1 {
		return ""
	}
	call, ok := asg.Rhs[0].(*ast.CallExpr)
	if !ok {
		return ""
	}
	var fo *types.Func
	switch fx := call.Fun.(type) {
	case *ast.Ident:
		fo, _ = pk.TypesInfo.Uses[fx].(*types.Func)
	case *ast.SelectorExpr:
		fo, _ = pk.TypesInfo.Uses[fx.Sel].(*types.Func)
	}
	h := p.ssaOf(fo)
	if h == nil || h.Blocks == nil || !inModule(h) || idx >= h.Signature.Results().Len() {
		return ""
	}
	e, err := p.exhEngine()
	if err != nil {
		return ""
	}
	got := map[string]bool{}
	for _, r := range returnsOf(h) {
		if idx >= len(r.Results) {
			return ""
		}
		ctx := &Ctx{fn: h, bind: map[*ssa.Parameter]*AV{}}
		av := e.eval(r.Results[idx], ctx, r.Instr.Block(), 0)
		av = e.refineAt(av, r.Results[idx], r.Instr.Block(), ctx)
		if av == nil || av.Top || av.kind != "types" {
			return ""
		}
		for _, t := range av.Types {
			got[typeStr(t)] = true
		}
	}
	var reach []string
	for _, t := range []string{"int64", "float64", "encoding/json.Number"} {
		if got[t] {
			if !seen[t] {
				return ""
			}
			reach = append(reach, t)
		}
	}
	if len(reach) == 0 {
		return ""
	}
	return "the operand comes from " + fnName(h) + ", which answers only " + strings.Join(reach, ", ") + " among the numeric representations: all of those are handled"
}

// excludedBeforeSwitch: by the tests on the ways to the type switch ts (E2's
// forward refinement), the operand cannot hold any numeric representation the
// switch lacks. Returns the reason, or "".
func (p *Prog) excludedBeforeSwitch(sf *ssa.Function, ts *ast.TypeSwitchStmt, seen map[string]bool) string {
	if sf == nil || sf.Blocks == nil {
		return ""
	}
	e, err := p.exhEngine()
	if err != nil {
		return ""
	}
	var first *ssa.TypeAssert
	for _, b := range sf.Blocks {
		for _, ins := range b.Instrs {
			ta, ok := ins.(*ssa.TypeAssert)
			if !ok || !ta.CommaOk || ta.Pos() < ts.Pos() || ta.Pos() > ts.End() {
				continue
			}
			if it, ok := ta.X.Type().Underlying().(*types.Interface); !ok || it.NumMethods() != 0 {
				continue
			}
			if first == nil {
				first = ta
			}
		}
	}
	if first == nil {
		return ""
	}
	ctx := &Ctx{fn: sf, bind: map[*ssa.Parameter]*AV{}}
	av := e.top(first.X.Type())
	av = e.refineAt(av, first.X, first.Block(), ctx)
	if av == nil || av.Top || av.kind != "types" || len(av.Types) == 0 {
		return ""
	}
	var miss []string
	for _, t := range []string{"int64", "float64", "encoding/json.Number"} {
		if seen[t] {
			continue
		}
		for _, at := range av.Types {
			if typeStr(at) == t {
				return ""
			}
		}
		miss = append(miss, t)
	}
	if len(miss) == 0 {
		return ""
	}
	return strings.Join(miss, ", ") + " cannot reach the switch: dealt with by an assertion before it whose branch leaves the function"
}
