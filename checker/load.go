package main

// E0: loader. Loads every non-test package of the repository with full syntax
// and type information, builds SSA (generics instantiated) and a VTA call
// graph seeded by CHA. Any type error, missing anchor package or unresolved
// anchor is a hard failure.

import (
	"encoding/json"
	"fmt"
	"go/ast"
	"go/token"
	"go/types"
	"os"
	"path/filepath"
	"sort"
	"strings"

	"golang.org/x/tools/go/callgraph"
	"golang.org/x/tools/go/callgraph/cha"
	"golang.org/x/tools/go/callgraph/vta"
	"golang.org/x/tools/go/packages"
	"golang.org/x/tools/go/ssa"
	"golang.org/x/tools/go/ssa/ssautil"
)

const modPath = "github.com/theory/sqljson"

const (
	pkgPath   = modPath + "/path"
	pkgAST    = modPath + "/path/ast"
	pkgExec   = modPath + "/path/exec"
	pkgParser = modPath + "/path/parser"
	pkgTypes  = modPath + "/path/types"
)

var anchorPkgs = []string{pkgPath, pkgAST, pkgExec, pkgParser, pkgTypes}

// Subst is one in-memory source substitution (used for positive controls and
// for the self-validation sweep): in File (relative to the repo root) replace
// the N-th (1-based; 0 means "the only") occurrence of Old by New.
type Subst struct {
	File string `json:"file"`
	Old  string `json:"old"`
	New  string `json:"new"`
	Nth  int    `json:"nth,omitempty"`
}

// Prog is the loaded, resolved program.
type Prog struct {
	RepoDir string
	Env     []string
	Fset    *token.FileSet
	Pkgs    map[string]*packages.Package
	ModPkgs []*packages.Package // packages of the module, sorted by path
	SSA     *ssa.Program
	SSAPkg  map[string]*ssa.Package
	CG      *callgraph.Graph
	AllFns  map[*ssa.Function]bool

	fileOf  map[*ast.File]*packages.Package
	A       *Anchors
	Overlay map[string][]byte
	errEng  *errEngine
	gram    *Grammar
	gramErr error
	exhEng  *exh
	taint   map[ssa.Value]bool
}

// applyOverlay builds a go/packages overlay from substitutions. It fails if a
// substitution does not apply (stale), returning errStale.
type staleErr struct{ msg string }

func (e *staleErr) Error() string { return e.msg }

func buildOverlay(repo string, subs []Subst) (map[string][]byte, error) {
	if len(subs) == 0 {
		return nil, nil
	}
	ov := map[string][]byte{}
	for _, s := range subs {
		p := filepath.Join(repo, s.File)
		cur, ok := ov[p]
		if !ok {
			b, err := os.ReadFile(p)
			if err != nil {
				return nil, &staleErr{fmt.Sprintf("overlay: %v", err)}
			}
			cur = b
		}
		src := string(cur)
		n := strings.Count(src, s.Old)
		if n == 0 {
			return nil, &staleErr{fmt.Sprintf("overlay: text not found in %s: %q", s.File, trunc(s.Old, 60))}
		}
		if s.Nth == 0 {
			if n != 1 {
				return nil, &staleErr{fmt.Sprintf("overlay: text occurs %d times in %s: %q", n, s.File, trunc(s.Old, 60))}
			}
			src = strings.Replace(src, s.Old, s.New, 1)
		} else {
			if s.Nth > n {
				return nil, &staleErr{fmt.Sprintf("overlay: occurrence %d of %d missing in %s", s.Nth, n, s.File)}
			}
			idx := -1
			off := 0
			for i := 0; i < s.Nth; i++ {
				j := strings.Index(src[off:], s.Old)
				idx = off + j
				off = idx + len(s.Old)
			}
			src = src[:idx] + s.New + src[idx+len(s.Old):]
		}
		ov[p] = []byte(src)
	}
	return ov, nil
}

func trunc(s string, n int) string {
	if len(s) > n {
		return s[:n] + "…"
	}
	return s
}

// Load loads the repository. extraEnv may carry GOOS/GOARCH.
func Load(repo string, overlay map[string][]byte, extraEnv []string, needSSA bool) (*Prog, error) {
	env := []string{}
	for _, e := range os.Environ() {
		if strings.HasPrefix(e, "GOWORK=") || strings.HasPrefix(e, "GOFLAGS=") ||
			strings.HasPrefix(e, "GOOS=") || strings.HasPrefix(e, "GOARCH=") {
			continue
		}
		env = append(env, e)
	}
	env = append(env, "GOWORK=off", "GOFLAGS=-mod=readonly", "GOPROXY=off", "GOSUMDB=off", "GOTOOLCHAIN=local")
	env = append(env, extraEnv...)
	fset := token.NewFileSet()
	cfg := &packages.Config{
		Mode:    packages.LoadAllSyntax,
		Dir:     repo,
		Env:     env,
		Fset:    fset,
		Tests:   false,
		Overlay: overlay,
	}
	pkgs, err := packages.Load(cfg, "./...")
	if err != nil {
		return nil, fmt.Errorf("load: %w", err)
	}
	if len(pkgs) == 0 {
		return nil, fmt.Errorf("load: zero packages")
	}
	p := &Prog{RepoDir: repo, Env: env, Fset: fset, Overlay: overlay, Pkgs: map[string]*packages.Package{}, SSAPkg: map[string]*ssa.Package{},
		fileOf: map[*ast.File]*packages.Package{}}
	var errs []string
	packages.Visit(pkgs, nil, func(pk *packages.Package) {
		p.Pkgs[pk.PkgPath] = pk
		for _, e := range pk.Errors {
			errs = append(errs, e.Error())
		}
		if pk.IllTyped && strings.HasPrefix(pk.PkgPath, modPath) {
			errs = append(errs, "ill-typed: "+pk.PkgPath)
		}
	})
	if len(errs) > 0 {
		sort.Strings(errs)
		if len(errs) > 8 {
			errs = errs[:8]
		}
		return nil, fmt.Errorf("load: type/parse errors: %s", strings.Join(errs, "; "))
	}
	for _, pk := range pkgs {
		if strings.HasPrefix(pk.PkgPath, modPath) {
			p.ModPkgs = append(p.ModPkgs, pk)
			for _, f := range pk.Syntax {
				p.fileOf[f] = pk
			}
		}
	}
	sort.Slice(p.ModPkgs, func(i, j int) bool { return p.ModPkgs[i].PkgPath < p.ModPkgs[j].PkgPath })
	for _, ap := range anchorPkgs {
		if p.Pkgs[ap] == nil {
			return nil, fmt.Errorf("anchor unresolved: package %s not loaded", ap)
		}
	}
	if needSSA {
		prog, _ := ssautil.AllPackages(pkgs, ssa.InstantiateGenerics)
		prog.Build()
		p.SSA = prog
		for path, pk := range p.Pkgs {
			if sp := prog.Package(pk.Types); sp != nil {
				p.SSAPkg[path] = sp
			}
		}
		p.AllFns = ssautil.AllFunctions(prog)
		p.CG = vta.CallGraph(p.AllFns, cha.CallGraph(prog))
	}
	a, err := resolveAnchors(p)
	if err != nil {
		return nil, err
	}
	p.A = a
	return p, nil
}

// pos renders a position relative to the repo root.
func (p *Prog) pos(pos token.Pos) string {
	if !pos.IsValid() {
		return "-"
	}
	ps := p.Fset.Position(pos)
	f := ps.Filename
	if rel, err := filepath.Rel(p.RepoDir, f); err == nil && !strings.HasPrefix(rel, "..") {
		f = rel
	}
	return fmt.Sprintf("%s:%d", f, ps.Line)
}

// inModule reports whether fn belongs to the analysed module (origin package
// for instantiated generics).
func inModule(fn *ssa.Function) bool {
	pk := fnPkg(fn)
	return pk != nil && strings.HasPrefix(pk.Path(), modPath)
}

func fnPkg(fn *ssa.Function) *types.Package {
	if fn == nil {
		return nil
	}
	if fn.Pkg != nil {
		return fn.Pkg.Pkg
	}
	if o := fn.Origin(); o != nil && o.Pkg != nil {
		return o.Pkg.Pkg
	}
	if fn.Parent() != nil {
		return fnPkg(fn.Parent())
	}
	if obj := fn.Object(); obj != nil {
		return obj.Pkg()
	}
	return nil
}

func fnPkgPath(fn *ssa.Function) string {
	if pk := fnPkg(fn); pk != nil {
		return pk.Path()
	}
	return ""
}

// fnName is a stable, human-readable name: pkg-relative with receiver.
func fnName(fn *ssa.Function) string {
	if fn == nil {
		return "<nil>"
	}
	s := fn.String()
	s = strings.ReplaceAll(s, modPath+"/", "")
	return s
}

// lookupFunc finds a package-level function or method "T.m" / "(*T).m".
func (p *Prog) ssaFunc(pkg, name string) *ssa.Function {
	sp := p.SSAPkg[pkg]
	if sp == nil {
		return nil
	}
	if i := strings.Index(name, "."); i >= 0 {
		tn, mn := name[:i], name[i+1:]
		ptr := strings.HasPrefix(tn, "*")
		tn = strings.TrimPrefix(tn, "*")
		obj := sp.Pkg.Scope().Lookup(tn)
		if obj == nil {
			return nil
		}
		var t types.Type = obj.Type()
		if ptr {
			t = types.NewPointer(t)
		}
		ms := p.SSA.MethodSets.MethodSet(t)
		for i := 0; i < ms.Len(); i++ {
			if ms.At(i).Obj().Name() == mn {
				return p.SSA.MethodValue(ms.At(i))
			}
		}
		return nil
	}
	return sp.Func(name)
}

func mustJSON(v any) string {
	b, _ := json.MarshalIndent(v, "", " ")
	return string(b)
}
