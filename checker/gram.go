package main

// E7: the grammar. goyacc is run on grammar.y (rules, automaton, conflicts);
// the action code is taken from the type-checked grammar.go; an abstract
// interpretation of the actions gives, per nonterminal, the set of node shapes
// it can build, the shapes each operand slot of each node kind can hold, the
// shapes that can be linked as `next`, and the shapes of the root.

import (
	"bytes"
	"fmt"
	"go/ast"
	"go/constant"
	"go/token"
	"go/types"
	"os"
	"os/exec"
	"path/filepath"
	"regexp"
	"sort"
	"strconv"
	"strings"

	"golang.org/x/tools/go/ssa"
)

type GRule struct {
	N   int
	LHS string
	RHS []string
}

// NShape is an abstract node: concrete kind, enum constant (or -1), whether a
// next link may be attached. Nil stands for the nil Node.
type NShape struct {
	T    *types.Named
	Enum int64
	Next bool
	Nil  bool
}

var shapeKeyMemo = map[NShape]string{}

func (s NShape) key() string {
	if s.Nil {
		return "nil"
	}
	if k, ok := shapeKeyMemo[s]; ok {
		return k
	}
	k := fmt.Sprintf("%s/%d/%v", s.T.Obj().Name(), s.Enum, s.Next)
	shapeKeyMemo[s] = k
	return k
}

type ShapeSet map[string]NShape

func (a ShapeSet) add(s NShape) bool {
	k := s.key()
	if _, ok := a[k]; ok {
		return false
	}
	a[k] = s
	return true
}

func (a ShapeSet) addAll(b ShapeSet) bool {
	ch := false
	for _, s := range b {
		if a.add(s) {
			ch = true
		}
	}
	return ch
}

func (a ShapeSet) withNext(next bool) ShapeSet {
	o := ShapeSet{}
	for _, s := range a {
		if !s.Nil {
			s.Next = next
		}
		o.add(s)
	}
	return o
}

// AVal is an abstract semantic value of the parser.
type AVal struct {
	Nodes ShapeSet
	Head  ShapeSet
	Tail  ShapeSet
	Enums map[int64]bool
	Stale bool // may be an unset (zero) value
}

func newAVal() *AVal {
	return &AVal{Nodes: ShapeSet{}, Head: ShapeSet{}, Tail: ShapeSet{}, Enums: map[int64]bool{}}
}

func (a *AVal) merge(b *AVal) bool {
	if b == nil {
		return false
	}
	ch := a.Nodes.addAll(b.Nodes)
	if a.Head.addAll(b.Head) {
		ch = true
	}
	if a.Tail.addAll(b.Tail) {
		ch = true
	}
	for k := range b.Enums {
		if !a.Enums[k] {
			a.Enums[k] = true
			ch = true
		}
	}
	if b.Stale && !a.Stale {
		a.Stale = true
		ch = true
	}
	return ch
}

type slotKey struct {
	T     *types.Named
	Enum  int64
	Field *types.Var
}

// Grammar is the result of E7.
type Grammar struct {
	Rules       map[int]*GRule
	RuleOrder   []int
	SR, RR      int
	YOutput     string
	GenSrc      []byte // regenerated grammar.go
	Actions     map[int]*ast.CaseClause
	Vals        map[string]*AVal // per nonterminal
	Slots       map[slotKey]ShapeSet
	NextShapes  ShapeSet
	RootShapes  ShapeSet
	Built       ShapeSet // every shape any action constructs
	Unknown     []string // constructs the interpreter did not understand
	SetPredIn   []int    // rules whose action calls setPred
	SetResIn    []int    // rules whose action calls setResult
	Tokens      map[string]bool
	NilPaths    []string      // actions with a path that leaves a node-typed $$ unset without recording an error
	ProdVals    map[int]*AVal // what each production's action assigns to $$
	YSrc        string
	Prec        map[string]int    // token → precedence level (1 = lowest), from %left/%right/%nonassoc
	Assoc       map[string]string // token → left|right|nonassoc
	ProdPrec    map[int]string    // production → %prec token, if any
	ProdPrecErr string
	p           *Prog
	ctorMemo    map[string]*AVal
}

var itemRe = regexp.MustCompile(`^\t([A-Za-z_$][A-Za-z_0-9$]*):\s+(.*?)\.\s+\((\d+)\)\s*$`)
var conflRe = regexp.MustCompile(`(\d+) shift/reduce, (\d+) reduce/reduce conflicts reported`)

// grammar runs goyacc and the abstract interpretation (memoised).
func (p *Prog) grammar() (*Grammar, error) {
	if p.gram != nil || p.gramErr != nil {
		return p.gram, p.gramErr
	}
	g, err := p.buildGrammar()
	p.gram, p.gramErr = g, err
	return g, err
}

func (p *Prog) buildGrammar() (*Grammar, error) {
	g := &Grammar{ProdVals: map[int]*AVal{}, Prec: map[string]int{}, Assoc: map[string]string{}, ProdPrec: map[int]string{}, Rules: map[int]*GRule{}, Actions: map[int]*ast.CaseClause{}, Vals: map[string]*AVal{}, Slots: map[slotKey]ShapeSet{},
		NextShapes: ShapeSet{}, RootShapes: ShapeSet{}, Built: ShapeSet{}, Tokens: map[string]bool{}, p: p, ctorMemo: map[string]*AVal{}}
	tmp, err := os.MkdirTemp("", "sqljsonlint-yacc-")
	if err != nil {
		return nil, err
	}
	defer os.RemoveAll(tmp)
	ypath := filepath.Join(p.RepoDir, "path/parser/grammar.y")
	if ov, ok := p.Overlay[ypath]; ok {
		ypath = filepath.Join(tmp, "grammar.y")
		if err := os.WriteFile(ypath, ov, 0o644); err != nil {
			return nil, err
		}
	}
	if b, err := os.ReadFile(ypath); err == nil {
		g.YSrc = string(b)
	}
	self, _ := os.Executable()
	goyacc := filepath.Join(filepath.Dir(self), "goyacc")
	cmd := exec.Command(goyacc, "-v", filepath.Join(tmp, "y.output"), "-o", filepath.Join(tmp, "gen.go"), "-p", "path", ypath)
	cmd.Dir = tmp
	var out bytes.Buffer
	cmd.Stdout, cmd.Stderr = &out, &out
	if err := cmd.Run(); err != nil {
		return nil, fmt.Errorf("goyacc failed: %v: %s", err, trunc(out.String(), 300))
	}
	yo, err := os.ReadFile(filepath.Join(tmp, "y.output"))
	if err != nil {
		return nil, err
	}
	g.YOutput = string(yo)
	g.GenSrc, _ = os.ReadFile(filepath.Join(tmp, "gen.go"))
	m := conflRe.FindStringSubmatch(g.YOutput + "\n" + out.String())
	if m == nil {
		return nil, fmt.Errorf("goyacc: no conflict summary in y.output")
	}
	g.SR, _ = strconv.Atoi(m[1])
	g.RR, _ = strconv.Atoi(m[2])
	for _, ln := range strings.Split(g.YOutput, "\n") {
		mm := itemRe.FindStringSubmatch(ln)
		if mm == nil {
			continue
		}
		n, _ := strconv.Atoi(mm[3])
		if _, ok := g.Rules[n]; ok {
			continue
		}
		g.Rules[n] = &GRule{N: n, LHS: mm[1], RHS: strings.Fields(mm[2])}
	}
	for n := range g.Rules {
		g.RuleOrder = append(g.RuleOrder, n)
	}
	sort.Ints(g.RuleOrder)
	if len(g.RuleOrder) == 0 {
		return nil, fmt.Errorf("goyacc: no rules recovered from y.output")
	}
	for i, n := range g.RuleOrder {
		if n != i+1 {
			return nil, fmt.Errorf("goyacc: rule numbering has a gap at %d (rule never reduced?)", i+1)
		}
	}
	nts := map[string]bool{}
	for _, r := range g.Rules {
		nts[r.LHS] = true
	}
	for _, r := range g.Rules {
		for _, s := range r.RHS {
			if !nts[s] {
				g.Tokens[s] = true
			}
		}
	}
	// actions from the compiled grammar.go
	pk := p.Pkgs[pkgParser]
	var sw *ast.SwitchStmt
	for _, f := range pk.Syntax {
		ast.Inspect(f, func(n ast.Node) bool {
			s, ok := n.(*ast.SwitchStmt)
			if !ok {
				return true
			}
			if id, ok := s.Tag.(*ast.Ident); ok && id.Name == "pathnt" {
				sw = s
			}
			return true
		})
	}
	if sw == nil {
		return nil, fmt.Errorf("anchor unresolved: action switch (switch pathnt) in grammar.go")
	}
	for _, cl := range sw.Body.List {
		cc := cl.(*ast.CaseClause)
		for _, e := range cc.List {
			if bl, ok := e.(*ast.BasicLit); ok && bl.Kind == token.INT {
				n, _ := strconv.Atoi(bl.Value)
				g.Actions[n] = cc
			}
		}
	}
	g.interpret()
	g.parsePrec()
	g.parseProdPrec()
	return g, nil
}

var precRe = regexp.MustCompile(`^%(left|right|nonassoc)\s+(.*)$`)

// parsePrec reads the precedence declarations of grammar.y (declaration
// section, in order: later lines bind tighter).
func (g *Grammar) parsePrec() {
	level := 0
	for _, ln := range strings.Split(g.YSrc, "\n") {
		ln = strings.TrimSpace(ln)
		if ln == "%%" {
			break
		}
		m := precRe.FindStringSubmatch(ln)
		if m == nil {
			continue
		}
		level++
		for _, tok := range strings.Fields(m[2]) {
			g.Prec[tok] = level
			g.Assoc[tok] = m[1]
		}
	}
}

// parseProdPrec reads the rules section of grammar.y and records, for each
// production in goyacc's numbering (1-based, in file order), the token of its
// %prec annotation. The alternatives are cross-checked against the rules
// goyacc reports; a mismatch leaves ProdPrecErr set.
func (g *Grammar) parseProdPrec() {
	parts := strings.SplitN(g.YSrc, "\n%%", 3)
	if len(parts) < 2 {
		g.ProdPrecErr = "no rules section"
		return
	}
	src := parts[1]
	// strip actions {...} (nested), strings/char literals and comments
	var clean strings.Builder
	depth := 0
	for i := 0; i < len(src); i++ {
		c := src[i]
		switch {
		case depth == 0 && c == '/' && i+1 < len(src) && src[i+1] == '/':
			for i < len(src) && src[i] != '\n' {
				i++
			}
			clean.WriteByte('\n')
		case depth == 0 && c == '/' && i+1 < len(src) && src[i+1] == '*':
			for i+1 < len(src) && !(src[i] == '*' && src[i+1] == '/') {
				i++
			}
			i++
		case c == '\'' && i+2 < len(src) && depth == 0:
			j := i + 1
			for j < len(src) && src[j] != '\'' {
				if src[j] == '\\' {
					j++
				}
				j++
			}
			clean.WriteString(src[i : j+1])
			i = j
		case c == '\'' || c == '"' || c == '`':
			// inside an action: skip the literal
			q := c
			j := i + 1
			for j < len(src) && src[j] != q {
				if src[j] == '\\' && q != '`' {
					j++
				}
				j++
			}
			i = j
		case c == '{':
			depth++
		case c == '}':
			depth--
		case depth == 0:
			clean.WriteByte(c)
		}
	}
	n := 0
	for _, rule := range strings.Split(clean.String(), ";") {
		rule = strings.TrimSpace(rule)
		if rule == "" {
			continue
		}
		colon := strings.Index(rule, ":")
		if colon < 0 {
			continue
		}
		lhs := strings.TrimSpace(rule[:colon])
		for _, alt := range strings.Split(rule[colon+1:], "|") {
			n++
			f := strings.Fields(alt)
			var rhs []string
			prec := ""
			for i := 0; i < len(f); i++ {
				if f[i] == "%prec" && i+1 < len(f) {
					prec = f[i+1]
					i++
					continue
				}
				rhs = append(rhs, f[i])
			}
			r := g.Rules[n]
			if r == nil || r.LHS != lhs || len(r.RHS) != len(rhs) {
				g.ProdPrecErr = fmt.Sprintf("production %d of grammar.y (%s: %s) does not match goyacc's rule %d", n, lhs, strings.Join(rhs, " "), n)
				return
			}
			for i := range rhs {
				if r.RHS[i] != rhs[i] {
					g.ProdPrecErr = fmt.Sprintf("production %d of grammar.y (%s: %s) does not match goyacc's rule %d (%s)", n, lhs, strings.Join(rhs, " "), n, strings.Join(r.RHS, " "))
					return
				}
			}
			if prec != "" {
				g.ProdPrec[n] = prec
			}
		}
	}
}

// prodLevel: the precedence level yacc gives production n: its %prec token's,
// else that of its last terminal that has one; 0 if none.
func (g *Grammar) prodLevel(n int) int {
	l, _ := g.prodLevelTok(n)
	return l
}

func (g *Grammar) prodLevelTok(n int) (int, string) {
	if t, ok := g.ProdPrec[n]; ok {
		return g.Prec[t], t
	}
	lvl, tok := 0, ""
	if r := g.Rules[n]; r != nil {
		for _, s := range r.RHS {
			if g.Tokens[s] {
				if l, ok := g.Prec[s]; ok {
					lvl, tok = l, s
				}
			}
		}
	}
	return lvl, tok
}

func (g *Grammar) isNT(s string) bool { return !g.Tokens[s] }

func (g *Grammar) val(nt string) *AVal {
	if v, ok := g.Vals[nt]; ok {
		return v
	}
	v := newAVal()
	g.Vals[nt] = v
	return v
}

// interpret runs the actions to a fixpoint.
func (g *Grammar) interpret() {
	info := g.p.Pkgs[pkgParser].TypesInfo
	for iter := 0; iter < 50; iter++ {
		changed := false
		for _, n := range g.RuleOrder {
			r := g.Rules[n]
			cur := newAVal() // $$ default: $1
			if len(r.RHS) > 0 {
				if g.isNT(r.RHS[0]) {
					cur.merge(g.val(r.RHS[0]))
				}
			} else {
				cur.Stale = true
			}
			cc := g.Actions[n]
			if cc != nil {
				assigned := false
				for _, st := range cc.Body {
					ast.Inspect(st, func(nd ast.Node) bool {
						switch x := nd.(type) {
						case *ast.AssignStmt:
							for i, l := range x.Lhs {
								se, ok := l.(*ast.SelectorExpr)
								if !ok {
									continue
								}
								if id, ok := se.X.(*ast.Ident); !ok || id.Name != "pathVAL" {
									continue
								}
								var rv *AVal
								if len(x.Rhs) == len(x.Lhs) {
									rv = g.eval(info, x.Rhs[i], r, cur)
								} else if len(x.Rhs) == 1 && i == 0 {
									rv = g.eval(info, x.Rhs[0], r, cur)
									// `$$, err = ctor(...); if err != nil { pathlex.Error(...) }`:
									// the nil node comes with a recorded error, so no tree
									// is ever published with it (checked by R-NILNODE).
									if g.actionRecordsError(cc) {
										delete(rv.Nodes, "nil")
									}
								}
								if rv != nil {
									if !assigned {
										// first explicit assignment replaces the default
										cur = newAVal()
										assigned = true
									}
									cur.merge(rv)
								}
							}
						case *ast.ExprStmt:
							if call, ok := x.X.(*ast.CallExpr); ok {
								if se, ok := call.Fun.(*ast.SelectorExpr); ok {
									switch se.Sel.Name {
									case "setResult":
										if len(call.Args) == 2 {
											if g.RootShapes.addAll(g.eval(info, call.Args[1], r, cur).Nodes) {
												changed = true
											}
										}
										g.SetResIn = appendUnique(g.SetResIn, n)
									case "setPred":
										g.SetPredIn = appendUnique(g.SetPredIn, n)
									}
								}
							}
						}
						return true
					})
				}
			}
			if g.ProdVals[n] == nil {
				g.ProdVals[n] = newAVal()
			}
			g.ProdVals[n].merge(cur)
			if g.val(r.LHS).merge(cur) {
				changed = true
			}
		}
		if !changed {
			break
		}
	}
}

func appendUnique(s []int, n int) []int {
	for _, x := range s {
		if x == n {
			return s
		}
	}
	return append(s, n)
}

func (g *Grammar) unknown(f string, a ...any) {
	m := fmt.Sprintf(f, a...)
	for _, u := range g.Unknown {
		if u == m {
			return
		}
	}
	g.Unknown = append(g.Unknown, m)
}

// dollarIndex: e is pathDollar[i].<field>; returns i.
func dollarIndex(e ast.Expr) (int, bool) {
	se, ok := e.(*ast.SelectorExpr)
	if !ok {
		return 0, false
	}
	ix, ok := se.X.(*ast.IndexExpr)
	if !ok {
		return 0, false
	}
	id, ok := ix.X.(*ast.Ident)
	if !ok || id.Name != "pathDollar" {
		return 0, false
	}
	bl, ok := ix.Index.(*ast.BasicLit)
	if !ok {
		return 0, false
	}
	n, err := strconv.Atoi(bl.Value)
	return n, err == nil
}

func (g *Grammar) eval(info *types.Info, e ast.Expr, r *GRule, cur *AVal) *AVal {
	out := newAVal()
	e = ast.Unparen(e)
	if i, ok := dollarIndex(e); ok {
		if i >= 1 && i <= len(r.RHS) && g.isNT(r.RHS[i-1]) {
			out.merge(g.val(r.RHS[i-1]))
		}
		return out
	}
	switch x := e.(type) {
	case *ast.SelectorExpr:
		if id, ok := x.X.(*ast.Ident); ok && id.Name == "pathVAL" {
			out.merge(cur)
			return out
		}
		if c, ok := info.Uses[x.Sel].(*types.Const); ok && c.Val().Kind() == constant.Int {
			if v, ok := constant.Int64Val(c.Val()); ok {
				out.Enums[v] = true
			}
			return out
		}
	case *ast.Ident:
		if x.Name == "nil" {
			out.Nodes.add(NShape{Nil: true})
			return out
		}
		if c, ok := info.Uses[x].(*types.Const); ok && c.Val().Kind() == constant.Int {
			if v, ok := constant.Int64Val(c.Val()); ok {
				out.Enums[v] = true
			}
			return out
		}
		return out
	case *ast.BasicLit:
		return out
	case *ast.CompositeLit:
		for i, el := range x.Elts {
			v := g.eval(info, el, r, cur)
			if i == 0 {
				out.Head.addAll(v.Nodes)
			} else {
				out.Tail.addAll(v.Nodes)
			}
		}
		return out
	case *ast.IndexExpr:
		base := g.eval(info, x.X, r, cur)
		if bl, ok := x.Index.(*ast.BasicLit); ok && bl.Value == "0" {
			out.Nodes.addAll(base.Head)
		} else {
			out.Nodes.addAll(base.Tail)
			out.Nodes.addAll(base.Head)
		}
		return out
	case *ast.CallExpr:
		if id, ok := x.Fun.(*ast.Ident); ok && id.Name == "append" && len(x.Args) >= 1 {
			base := g.eval(info, x.Args[0], r, cur)
			out.Head.addAll(base.Head)
			out.Tail.addAll(base.Tail)
			for _, a := range x.Args[1:] {
				out.Tail.addAll(g.eval(info, a, r, cur).Nodes)
			}
			return out
		}
		var fo *types.Func
		switch f := x.Fun.(type) {
		case *ast.SelectorExpr:
			fo, _ = info.Uses[f.Sel].(*types.Func)
		case *ast.Ident:
			fo, _ = info.Uses[f].(*types.Func)
		}
		if fo == nil || fo.Pkg() == nil {
			return out
		}
		if fo.Pkg().Path() != pkgAST {
			return out // strconv.Atoi etc.: not node-valued
		}
		var args []*AVal
		for _, a := range x.Args {
			args = append(args, g.eval(info, a, r, cur))
		}
		return g.callCtor(g.p.ssaOf(fo), args, 0)
	}
	return out
}

// callCtor abstractly evaluates a function of package ast.
func (g *Grammar) callCtor(fn *ssa.Function, args []*AVal, depth int) *AVal {
	out := newAVal()
	if fn == nil || depth > 5 {
		g.unknown("constructor not resolved")
		return out
	}
	if fn.Object() != nil && fn.Object().Name() == "LinkNodes" && fnPkgPath(fn) == pkgAST && len(args) == 1 {
		// semantics of LinkNodes (trusted, see DESIGN): head of the list with
		// the remaining elements chained through next.
		l := args[0]
		if len(l.Tail) > 0 {
			out.Nodes.addAll(l.Head.withNext(true))
			g.NextShapes.addAll(l.Tail.withNext(true))
			g.NextShapes.addAll(l.Tail.withNext(false))
			// a single-element list is also possible when Tail is only
			// populated by later appends of the same nonterminal
			out.Nodes.addAll(l.Head)
		} else {
			out.Nodes.addAll(l.Head)
		}
		return out
	}
	for _, r := range returnsOf(fn) {
		if len(r.Results) == 0 {
			continue
		}
		// skip returns that sit on a type-switch arm no argument shape can take
		feasible := true
		for _, f := range factsAt(r.Instr.Block()) {
			ex, ok := f.Cond.(*ssa.Extract)
			if !ok || ex.Index != 1 || !f.Truth {
				continue
			}
			ta, ok := ex.Tuple.(*ssa.TypeAssert)
			if !ok {
				continue
			}
			if q, ok := ta.X.(*ssa.Parameter); ok {
				if i := paramIndex(q); i >= 0 && i < len(args) && args[i] != nil && len(args[i].Nodes) > 0 {
					if len(filterByType(args[i].Nodes, ta.AssertedType)) == 0 {
						feasible = false
					}
				}
			}
		}
		if !feasible {
			continue
		}
		rv := g.evalSSA(fn, r.Results[0], args, map[ssa.Value]bool{}, depth)
		// the parameter itself handed back after a type switch all of whose
		// ways to this return went through a successful assertion of it
		// (`switch node := node.(type) { case *A: …; case *B: …; default:
		// return … }; return node`): only those kinds come back
		if q, isP := r.Results[0].(*ssa.Parameter); isP {
			if ts := assertedOnAllPaths(fn, q, r.Instr.Block()); len(ts) > 0 {
				kept := ShapeSet{}
				for _, t := range ts {
					kept.addAll(filterByType(rv.Nodes, t))
				}
				rv.Nodes = kept
			}
		}
		out.merge(rv)
	}
	return out
}

// assertedOnAllPaths: every path from fn's entry to block b takes the success
// edge of a comma-ok type assertion of q; the asserted types (nil otherwise).
func assertedOnAllPaths(fn *ssa.Function, q *ssa.Parameter, b *ssa.BasicBlock) []types.Type {
	var ts []types.Type
	isAssertEdge := func(p *ssa.BasicBlock, si int) bool {
		iff, ok := p.Instrs[len(p.Instrs)-1].(*ssa.If)
		if !ok || si != 0 {
			return false
		}
		ex, ok := iff.Cond.(*ssa.Extract)
		if !ok || ex.Index != 1 {
			return false
		}
		ta, ok := ex.Tuple.(*ssa.TypeAssert)
		if !ok || !ta.CommaOk || ta.X != ssa.Value(q) {
			return false
		}
		ts = append(ts, ta.AssertedType)
		return true
	}
	seen := map[*ssa.BasicBlock]bool{fn.Blocks[0]: true}
	work := []*ssa.BasicBlock{fn.Blocks[0]}
	for len(work) > 0 {
		p := work[0]
		work = work[1:]
		if p == b {
			return nil // reachable without any successful assertion
		}
		for si, s := range p.Succs {
			if seen[s] || isAssertEdge(p, si) {
				continue
			}
			seen[s] = true
			work = append(work, s)
		}
	}
	return ts
}

func (g *Grammar) evalSSA(fn *ssa.Function, v ssa.Value, args []*AVal, seen map[ssa.Value]bool, depth int) *AVal {
	out := newAVal()
	if seen[v] {
		return out
	}
	seen[v] = true
	defer delete(seen, v)
	switch x := v.(type) {
	case *ssa.Parameter:
		if i := paramIndex(x); i >= 0 && i < len(args) && args[i] != nil {
			out.merge(args[i])
		}
	case *ssa.Const:
		if x.Value == nil {
			out.Nodes.add(NShape{Nil: true})
		} else if x.Value.Kind() == constant.Int {
			if iv, ok := constant.Int64Val(x.Value); ok {
				out.Enums[iv] = true
			}
		}
	case *ssa.MakeInterface:
		out.merge(g.evalSSA(fn, x.X, args, seen, depth))
	case *ssa.ChangeInterface:
		out.merge(g.evalSSA(fn, x.X, args, seen, depth))
	case *ssa.ChangeType:
		out.merge(g.evalSSA(fn, x.X, args, seen, depth))
	case *ssa.Phi:
		for _, e := range x.Edges {
			out.merge(g.evalSSA(fn, e, args, seen, depth))
		}
	case *ssa.TypeAssert:
		in := g.evalSSA(fn, x.X, args, seen, depth)
		out.Nodes.addAll(filterByType(in.Nodes, x.AssertedType))
	case *ssa.Extract:
		switch t := x.Tuple.(type) {
		case *ssa.TypeAssert:
			if x.Index == 0 {
				in := g.evalSSA(fn, t.X, args, seen, depth)
				out.Nodes.addAll(filterByType(in.Nodes, t.AssertedType))
			}
		case *ssa.Call:
			if x.Index == 0 {
				out.merge(g.evalCall(fn, t, args, seen, depth))
			}
		}
	case *ssa.Call:
		out.merge(g.evalCall(fn, x, args, seen, depth))
	case *ssa.Alloc:
		t := x.Type().(*types.Pointer).Elem()
		n, _ := t.(*types.Named)
		if n == nil || !g.p.A.ASTStructs[n] {
			return out
		}
		st := n.Underlying().(*types.Struct)
		enums := map[int64]bool{}
		type pend struct {
			f *types.Var
			v *AVal
		}
		var pends []pend
		for _, ref := range *x.Referrers() {
			fa, ok := ref.(*ssa.FieldAddr)
			if !ok {
				continue
			}
			f := st.Field(fa.Field)
			for _, r2 := range *fa.Referrers() {
				s, ok := r2.(*ssa.Store)
				if !ok || s.Addr != fa {
					continue
				}
				av := g.evalSSA(fn, s.Val, args, seen, depth)
				switch {
				case g.p.enumOf(f.Type()) != nil:
					for k := range av.Enums {
						enums[k] = true
					}
				case types.Identical(f.Type(), g.p.A.Node):
					pends = append(pends, pend{f, av})
				default:
					if sl, ok := f.Type().(*types.Slice); ok && types.Identical(sl.Elem(), g.p.A.Node) {
						el := newAVal()
						el.Nodes.addAll(av.Head)
						el.Nodes.addAll(av.Tail)
						pends = append(pends, pend{f, el})
					}
				}
			}
		}
		// embedded pointer structs (quotedString, numberNode) are not nodes of
		// their own: the outer named type is the node kind
		if !types.Implements(types.NewPointer(n), g.p.A.NodeIface) || !n.Obj().Exported() {
			return out
		}
		if len(enums) == 0 {
			enums[-1] = true
		}
		for e := range enums {
			sh := NShape{T: n, Enum: e}
			out.Nodes.add(sh)
			g.Built.add(sh)
			for _, pd := range pends {
				k := slotKey{n, e, pd.f}
				if g.Slots[k] == nil {
					g.Slots[k] = ShapeSet{}
				}
				g.Slots[k].addAll(pd.v.Nodes)
			}
		}
	default:
		// strings, numbers …: not node-valued
	}
	return out
}

func (g *Grammar) evalCall(fn *ssa.Function, c *ssa.Call, args []*AVal, seen map[ssa.Value]bool, depth int) *AVal {
	callee := c.Call.StaticCallee()
	if c.Call.IsInvoke() {
		// a method called through an interface (`num.negated()`): the method
		// of each node kind the receiver can be
		out := newAVal()
		if c.Call.Method.Pkg() == nil || c.Call.Method.Pkg().Path() != pkgAST || depth > 4 {
			return out
		}
		recv := g.evalSSA(fn, c.Call.Value, args, seen, depth)
		for _, sh := range recv.Nodes {
			if sh.Nil || sh.T == nil {
				continue
			}
			m := fn.Prog.LookupMethod(types.NewPointer(sh.T), c.Call.Method.Pkg(), c.Call.Method.Name())
			if m == nil || m.Blocks == nil {
				continue
			}
			one := newAVal()
			one.Nodes.add(sh)
			cargs := []*AVal{one}
			for _, a := range c.Call.Args {
				cargs = append(cargs, g.evalSSA(fn, a, args, seen, depth))
			}
			out.merge(g.callCtor(m, cargs, depth+1))
		}
		return out
	}
	if callee == nil || fnPkgPath(callee) != pkgAST {
		return newAVal()
	}
	var cargs []*AVal
	for _, a := range c.Call.Args {
		cargs = append(cargs, g.evalSSA(fn, a, args, seen, depth))
	}
	return g.callCtor(callee, cargs, depth+1)
}

func filterByType(in ShapeSet, t types.Type) ShapeSet {
	out := ShapeSet{}
	for _, s := range in {
		if s.Nil {
			continue
		}
		if it, ok := t.Underlying().(*types.Interface); ok {
			// an interface: the node kinds that implement it
			if s.T == nil || types.Implements(types.NewPointer(s.T), it) {
				out.add(s)
			}
			continue
		}
		if pt, ok := t.(*types.Pointer); ok && pt.Elem() == types.Type(s.T) {
			out.add(s)
		}
	}
	return out
}

// shapeString renders a shape with its enum constant name.
func (p *Prog) shapeString(s NShape) string {
	if s.Nil {
		return "nil"
	}
	name := s.T.Obj().Name()
	if s.Enum >= 0 {
		for _, ei := range p.A.Enums {
			// which enum belongs to this node kind: the type of one of its fields
			st := s.T.Underlying().(*types.Struct)
			for i := 0; i < st.NumFields(); i++ {
				if types.Identical(st.Field(i).Type(), ei.Type) {
					if c := ei.byVal(s.Enum); c != nil {
						name += "(" + c.Name() + ")"
					}
				}
			}
		}
	}
	if s.Next {
		name += "→next"
	}
	return name
}

func (p *Prog) shapeStrings(ss ShapeSet) []string {
	var out []string
	for _, s := range ss {
		out = append(out, p.shapeString(s))
	}
	sort.Strings(out)
	return out
}

// actionRecordsError: the action calls pathlex.Error somewhere, directly or
// through a function of the package that is handed pathlex and calls Error on
// that parameter.
func (g *Grammar) actionRecordsError(cc *ast.CaseClause) bool {
	found := false
	for _, st := range cc.Body {
		ast.Inspect(st, func(n ast.Node) bool {
			call, ok := n.(*ast.CallExpr)
			if !ok {
				return !found
			}
			if se, ok := call.Fun.(*ast.SelectorExpr); ok && se.Sel.Name == "Error" {
				if id, ok := se.X.(*ast.Ident); ok && id.Name == "pathlex" {
					found = true
				}
			}
			if id, ok := call.Fun.(*ast.Ident); ok {
				for i, a := range call.Args {
					if ai, ok := a.(*ast.Ident); ok && ai.Name == "pathlex" && g.helperRecordsError(id.Name, i) {
						found = true
					}
				}
			}
			return !found
		})
	}
	return found
}

// helperRecordsError: the package-level function name calls Error on its
// parameter number idx.
func (g *Grammar) helperRecordsError(name string, idx int) bool {
	if g.p == nil || g.p.Pkgs[pkgParser] == nil {
		return false
	}
	for _, f := range g.p.Pkgs[pkgParser].Syntax {
		for _, d := range f.Decls {
			fd, ok := d.(*ast.FuncDecl)
			if !ok || fd.Recv != nil || fd.Name.Name != name || fd.Body == nil {
				continue
			}
			var params []string
			for _, fl := range fd.Type.Params.List {
				for _, nm := range fl.Names {
					params = append(params, nm.Name)
				}
			}
			if idx >= len(params) {
				return false
			}
			found := false
			ast.Inspect(fd.Body, func(n ast.Node) bool {
				if call, ok := n.(*ast.CallExpr); ok {
					if se, ok := call.Fun.(*ast.SelectorExpr); ok && se.Sel.Name == "Error" {
						if id, ok := se.X.(*ast.Ident); ok && id.Name == params[idx] {
							found = true
						}
					}
				}
				return !found
			})
			return found
		}
	}
	return false
}
