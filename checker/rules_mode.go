package main

import (
	"fmt"
	"go/constant"
	"go/token"
	"go/types"
	"sort"

	"golang.org/x/tools/go/ssa"
)

// accessorTargets: the executor functions the dispatcher hands the accessor
// node kinds to (member, wildcard member, wildcard array, recursive descent,
// subscript).
func (p *Prog) accessorTargets() map[*ssa.Function]string {
	out := map[*ssa.Function]string{}
	disp := p.ssaOf(p.A.Dispatcher)
	if disp == nil {
		return out
	}
	kinds := map[string]bool{"KeyNode": true, "AnyNode": true, "ArrayIndexNode": true}
	var constFn *ssa.Function
	for _, b := range disp.Blocks {
		var is types.Type
		for _, f := range factsAt(b) {
			if ex, ok := f.Cond.(*ssa.Extract); ok && f.Truth {
				if ta, ok := ex.Tuple.(*ssa.TypeAssert); ok && ex.Index == 1 {
					is = ta.AssertedType
				}
			}
		}
		n := namedOf(is)
		if n == nil {
			continue
		}
		for _, ins := range b.Instrs {
			c, ok := ins.(*ssa.Call)
			if !ok || !isMethodOfExecutor(p, c.Call.StaticCallee()) {
				continue
			}
			if kinds[n.Obj().Name()] {
				out[c.Call.StaticCallee()] = n.Obj().Name()
			}
			if n.Obj().Name() == "ConstNode" {
				constFn = c.Call.StaticCallee()
			}
		}
	}
	if constFn != nil {
		ei := p.A.Enums["Constant"]
		for _, b := range constFn.Blocks {
			for _, f := range factsAt(b) {
				bo, ok := f.Cond.(*ssa.BinOp)
				if !ok || bo.Op != token.EQL || !f.Truth {
					continue
				}
				k, ok := constInt(bo.Y)
				if !ok {
					continue
				}
				c := ei.byVal(k)
				if c == nil || (c.Name() != "ConstAnyKey" && c.Name() != "ConstAnyArray") {
					continue
				}
				for _, ins := range b.Instrs {
					if call, ok := ins.(*ssa.Call); ok && isMethodOfExecutor(p, call.Call.StaticCallee()) {
						out[call.Call.StaticCallee()] = c.Name()
					}
				}
			}
		}
	}
	return out
}

// Tabled non-structural errors of accessors (one symbol each).
var modeGuardExceptions = map[string]string{
	"(*path/exec.Executor).getArrayIndex": "a subscript that does not evaluate to a single number is an error in both modes (C07/C14 say so); it is not a structural mismatch of the document",
	"path/exec.getJSONInt32":              "a subscript that is not a number within int32 range is an error in both modes; not a structural mismatch",
}

var ruleModeGuard = &Rule{
	Name: "R-MODEGUARD", NeedSSA: true,
	Doc: "every suppressible error raised by an accessor step itself (the dispatcher's targets for member, wildcard, recursive-descent and subscript nodes, and their non-evaluating helpers) is control-dependent on strictness: it sits on the branch where the structural-error flag is off, or where auto-wrapping (lax) is off; conversion errors of subscript values are the tabled exceptions; the subscript accessor does not raise its wrong-kind error through a helper that answers `not found` where the flag is on and that the member accessors raise through",
	Run: func(p *Prog) *RuleOut {
		out := newOut("R-MODEGUARD")
		targets := p.accessorTargets()
		out.Counts["accessor_targets"] = len(targets)
		out.Floors["accessor_targets"] = 2
		ignore := p.ignoreField()
		if ignore == nil {
			out.undecided("structural-error flag", "-", "", "anchor unresolved")
			return out
		}
		// scope: targets and their non-pair helpers (transitively)
		scope := map[*ssa.Function]bool{}
		var add func(fn *ssa.Function)
		add = func(fn *ssa.Function) {
			if scope[fn] {
				return
			}
			scope[fn] = true
			for _, b := range fn.Blocks {
				for _, ins := range b.Instrs {
					c, ok := ins.(*ssa.Call)
					if !ok {
						continue
					}
					sc := c.Call.StaticCallee()
					if sc == nil || fnPkgPath(sc) != pkgExec || sc.Blocks == nil {
						continue
					}
					if p.pairKind(sc.Signature) == "" && lastIsError(sc.Signature) {
						add(sc)
					}
					// a helper with the executors' result pair that is handed no
					// context evaluates nothing: it only words the outcome
					// (`exec.structuralError("…")`)
					if p.pairKind(sc.Signature) == "status" && !takesContext(sc) {
						add(sc)
					}
				}
			}
		}
		for t := range targets {
			add(t)
		}
		// helpers that only the tabled conversion functions reach inherit
		// their exception (the conversion may be split into helpers)
		inherited := map[*ssa.Function]string{}
		{
			direct := map[*ssa.Function]bool{}
			var walk func(fn *ssa.Function, set map[*ssa.Function]bool, stopAtTabled bool)
			walk = func(fn *ssa.Function, set map[*ssa.Function]bool, stopAtTabled bool) {
				if set[fn] {
					return
				}
				set[fn] = true
				if _, tabled := modeGuardExceptions[fnName(fn)]; tabled && stopAtTabled {
					return
				}
				for _, c := range p.allCalls(fn) {
					sc := c.Call.StaticCallee()
					if sc == nil || fnPkgPath(sc) != pkgExec || sc.Blocks == nil || !scope[sc] {
						continue
					}
					walk(sc, set, stopAtTabled)
				}
			}
			for t := range targets {
				walk(t, direct, true)
			}
			for fn := range scope {
				why, tabled := modeGuardExceptions[fnName(fn)]
				if !tabled {
					continue
				}
				below := map[*ssa.Function]bool{}
				walk(fn, below, false)
				for g := range below {
					if _, isTabled := modeGuardExceptions[fnName(g)]; !isTabled && !direct[g] {
						inherited[g] = why + " (helper reached only through " + fn.Name() + ")"
					}
				}
			}
		}
		e := p.errors()
		var srcs []*ErrSrc
		for _, s := range e.srcs {
			if s.Class == "Verbose" && s.Fn != nil && scope[s.Fn] && !p.isErrCtor(s.Fn) {
				srcs = append(srcs, s)
			}
		}
		// an error built by a constructor helper is raised where the helper is called
		for fn := range scope {
			for _, c := range p.allCalls(fn) {
				if sc := c.Call.StaticCallee(); sc != nil && p.isErrCtor(sc) {
					for s := range e.classify(c, nil, map[ssa.Value]bool{}) {
						if s.Class == "Verbose" {
							srcs = append(srcs, &ErrSrc{Class: "Verbose", Text: s.Text, Instr: c, Fn: fn})
						}
					}
				}
			}
		}
		// uses of initialised sentinel variables of class Verbose count as raise sites too
		var scopeFns []*ssa.Function
		for fn := range scope {
			scopeFns = append(scopeFns, fn)
		}
		sort.Slice(scopeFns, func(i, j int) bool { return scopeFns[i].String() < scopeFns[j].String() })
		for _, fn := range scopeFns {
			for _, b := range fn.Blocks {
				for _, ins := range b.Instrs {
					u, ok := ins.(*ssa.UnOp)
					if !ok || u.Op != token.MUL {
						continue
					}
					g, ok := u.X.(*ssa.Global)
					if !ok || g.Object() == types.Object(p.A.ErrVerbose) || !isErrorType(u.Type()) {
						continue
					}
					if e.sentinelClass(g) == "Verbose" {
						srcs = append(srcs, &ErrSrc{Class: "Verbose", Text: "sentinel " + g.Name(), Instr: u, Fn: fn})
					}
				}
			}
		}
		sort.Slice(srcs, func(i, j int) bool {
			if srcs[i].Fn.String() != srcs[j].Fn.String() {
				return srcs[i].Fn.String() < srcs[j].Fn.String()
			}
			return srcs[i].Instr.Pos() < srcs[j].Instr.Pos()
		})
		ord := ordinals{}
		nguard := 0
		flagHelpers := map[*ssa.Function]bool{} // helpers that raise only where the flag is off
		for _, s := range srcs {
			key := fmt.Sprintf("%s: suppressible error #%d", fnName(s.Fn), ord.next(fnName(s.Fn)))
			if why, ok := modeGuardExceptions[fnName(s.Fn)]; ok {
				out.excepted(key, p.pos(s.Instr.Pos()), fnName(s.Fn), why)
				continue
			}
			if why, ok := inherited[s.Fn]; ok {
				out.excepted(key, p.pos(s.Instr.Pos()), fnName(s.Fn), why)
				continue
			}
			fs := factsAt(s.Instr.Block())
			guard := ""
			byMode, byFlagSeen := false, false
			for _, f := range fs {
				if u, ok := f.Cond.(*ssa.UnOp); ok && u.Op == token.MUL && !f.Truth {
					if fld, _ := p.execFieldOf(u.X); fld == ignore {
						guard = "only where structural errors are not ignored (" + ignore.Name() + " == false)"
						byFlagSeen = true
					}
				}
				// the same test under a name (`exec.raiseStructuralErrors()`
				// returning !exec.ignoreStructuralErrors)
				if c, ok := f.Cond.(*ssa.Call); ok {
					if pol, isFlag := p.flagPredicate(c.Call.StaticCallee(), ignore); isFlag && f.Truth == pol {
						guard = "only where " + c.Call.StaticCallee().Name() + "() says structural errors are not ignored"
						byFlagSeen = true
					}
				}
				if c, ok := f.Cond.(*ssa.Call); ok && p.modePredicate(c.Call.StaticCallee()) == "lax" && !f.Truth {
					guard = "only where " + c.Call.StaticCallee().Name() + "() is false (strict mode)"
					byMode = true
				}
			}
			// built here but raised only through a helper that consults the
			// flag itself (`return exec.structuralError(fmt.Errorf(…))`)
			if guard == "" {
				if ev, ok := s.Instr.(ssa.Value); ok {
					if h := p.raisedOnlyThroughFlagGuard(ev, ignore); h != nil {
						guard = "raised only by " + h.Name() + ", which answers `not found` where structural errors are ignored (" + ignore.Name() + ")"
						byFlagSeen = true
					}
				}
			}
			byFlag := byFlagSeen
			if kind := targets[s.Fn]; guard != "" && !byFlag && (kind == "KeyNode" || kind == "ConstAnyKey") {
				out.viol(key, p.pos(s.Instr.Pos()), fnName(s.Fn), "a member accessor raises its structural error whenever the path is strict, without consulting "+ignore.Name()+": below `.**` member accessors must skip the nodes they do not apply to ("+s.Text+")")
				continue
			}
			if kind := targets[s.Fn]; guard != "" && byFlag && kind == "ArrayIndexNode" && !byMode {
				out.viol(key, p.pos(s.Instr.Pos()), fnName(s.Fn), "the subscript accessor raises its wrong-kind error only where "+ignore.Name()+" is off, so below `.**` a strict path silently skips values that are not arrays: only member accessors may skip there ("+s.Text+")")
				continue
			}
			if guard != "" {
				nguard++
				out.ok(key, p.pos(s.Instr.Pos()), fnName(s.Fn), guard)
				if byFlag && targets[s.Fn] == "" {
					flagHelpers[s.Fn] = true
				}
			} else {
				out.viol(key, p.pos(s.Instr.Pos()), fnName(s.Fn), "a structural error is raised regardless of the mode: lax paths built from accessors must never fail ("+s.Text+")")
			}
		}
		// a helper that raises only where the flag is off (`exec.structuralError(
		// "…")`) is for member accessors: the subscript accessor must fail on
		// a value that is not an array below `.**` too
		var tfs []*ssa.Function
		for fn := range targets {
			tfs = append(tfs, fn)
		}
		// (a helper of the subscript executor's own, such as the one that
		// raises the out-of-range error behind the flag, is not meant: only
		// one the member accessors raise through as well)
		memberHelper := func(h *ssa.Function) bool {
			for fn, kind := range targets {
				if kind != "KeyNode" && kind != "ConstAnyKey" {
					continue
				}
				for _, c := range p.allCalls(fn) {
					if c.Call.StaticCallee() == h {
						return true
					}
				}
			}
			return false
		}
		sort.Slice(tfs, func(i, j int) bool { return tfs[i].String() < tfs[j].String() })
		for _, fn := range tfs {
			if targets[fn] != "ArrayIndexNode" {
				continue
			}
			n := 0
			for _, c := range p.allCalls(fn) {
				if sc := c.Call.StaticCallee(); sc != nil && flagHelpers[sc] && memberHelper(sc) {
					n++
					out.viol(fmt.Sprintf("%s: structural error raised through %s #%d", fnName(fn), sc.Name(), n), p.pos(c.Pos()), fnName(fn),
						"the subscript accessor raises its wrong-kind error through a helper that answers `not found` where "+ignore.Name()+" is on, so below `.**` a strict path silently skips values that are not arrays: only member accessors may skip there")
				}
			}
		}
		// the converse: an error of the non-suppressible class raised only where
		// structural errors are reported (behind the flag or the strict-mode
		// predicate) is a structural error with the wrong class
		hord := ordinals{}
		for _, s := range e.srcs {
			if s.Class != "Hard" || s.Fn == nil || !scope[s.Fn] || s.Instr == nil || s.Instr.Block() == nil || p.isErrCtor(s.Fn) {
				continue
			}
			structural := false
			for _, f := range factsAt(s.Instr.Block()) {
				if u, ok := f.Cond.(*ssa.UnOp); ok && u.Op == token.MUL && !f.Truth {
					if fld, _ := p.execFieldOf(u.X); fld == ignore {
						structural = true
					}
				}
				if c, ok := f.Cond.(*ssa.Call); ok {
					if pol, isFlag := p.flagPredicate(c.Call.StaticCallee(), ignore); isFlag && f.Truth == pol {
						structural = true
					}
				}
				if c, ok := f.Cond.(*ssa.Call); ok && p.modePredicate(c.Call.StaticCallee()) == "lax" && !f.Truth {
					structural = true
				}
				if c, ok := f.Cond.(*ssa.Call); ok && p.modePredicate(c.Call.StaticCallee()) == "strict" && f.Truth {
					structural = true
				}
			}
			if structural {
				out.viol(fmt.Sprintf("%s: structural error of the non-suppressible class #%d", fnName(s.Fn), hord.next(fnName(s.Fn))), p.pos(s.Instr.Pos()), fnName(s.Fn),
					"an error raised only where structural errors are reported (behind "+ignore.Name()+" / the strict-mode test) wraps ErrExecution directly: WithSilent and filters no longer suppress it, although every structural error of an accessor is suppressible ("+s.Text+")")
			}
		}
		out.Counts["guarded_structural_errors"] = nguard
		out.Floors["guarded_structural_errors"] = 2
		return out
	},
}

// raisedOnlyThroughFlagGuard: every use of the error value ev is as an
// argument of one helper of package exec in which every use of that parameter
// lies where the structural-error flag is known to be off. Returns the helper.
func (p *Prog) raisedOnlyThroughFlagGuard(ev ssa.Value, ignore *types.Var) *ssa.Function {
	var h *ssa.Function
	refs := ev.Referrers()
	if refs == nil {
		return nil
	}
	n := 0
	for _, r := range *refs {
		switch x := r.(type) {
		case *ssa.DebugRef:
		case *ssa.Call:
			g := x.Call.StaticCallee()
			if g == nil || x.Call.IsInvoke() || fnPkgPath(g) != pkgExec || g.Blocks == nil || (h != nil && h != g) {
				return nil
			}
			k := -1
			for i, a := range x.Call.Args {
				if a == ev {
					k = i
				}
			}
			if k < 0 || k >= len(g.Params) {
				return nil
			}
			q := g.Params[k]
			uses := 0
			for _, qr := range *q.Referrers() {
				ins, ok := qr.(ssa.Instruction)
				if !ok || ins.Block() == nil {
					return nil
				}
				if _, dbg := qr.(*ssa.DebugRef); dbg {
					continue
				}
				uses++
				off := false
				for _, f := range factsAt(ins.Block()) {
					if u, ok := f.Cond.(*ssa.UnOp); ok && u.Op == token.MUL && !f.Truth {
						if fld, _ := p.execFieldOf(u.X); fld == ignore {
							off = true
						}
					}
				}
				if !off {
					return nil
				}
			}
			if uses == 0 {
				return nil
			}
			h = g
			n++
		default:
			return nil
		}
	}
	if n == 0 {
		return nil
	}
	return h
}

func init() {
	register(ruleModeGuard)
	addProp(&PropSpec{
		ID:          "C06",
		Rules:       []string{"R-ENTRY", "R-PAIR-P", "R-PAIR-C", "R-EARLYEXIT", "R-STATUSFLOW", "R-COLLBLIND", "R-TWINRAISE", "R-FOUNDKEPT", "R-COLLGUARD", "R-VARSIDENT", "R-SCRATCHSTATUS", "R-STATE-VERBOSE"},
		Explanation: "Agreement of the entry points as sibling agreement: Query, First and Match provably obtain their list from the same internal call and differ only in a post-processing table that is matched case by case; Exists runs the same core with a nil collector, which is only legal where strict mode re-collects; an error can never be turned into 'not found' on the way up (pair coherence and propagation).",
		Decided: []string{"R-ENTRY: shared adapter/core and argument identity; post-processing tables of Query/First/Exists/Match; ExistsOrMatch dispatch; nil collectors only where strict re-collects or strictness is refuted; decision table of the evaluation core (strict re-collection answers from the emptiness of the complete list, failures propagate); no entry point writes Executor state its siblings do not",
			"R-PAIR-P / R-PAIR-C: error ⇒ failed at every return; no error lost at a call site"},
		NotDecided:  []string{"D9 (lax `-\"a\"`: the unary operator accepts a non-numeric operand when nobody collects; not a shortcut site, invisible to these rules)", "value equality of First and Query[0]"},
		Assumptions: []string{},
	})
	addProp(&PropSpec{
		ID:          "C07",
		Rules:       []string{"R-MODEGUARD", "R-MODEPRED", "R-ONELEVEL", "R-STATE", "R-PAIR-C", "R-FAILSTOP", "R-TRUNC", "R-LAST", "R-COLLMONO", "R-SUBBOUNDS", "R-TRAVERSAL", "R-UNWRAPTHREAD", "R-SCRATCHSTATUS"},
		Explanation: "Lax absorbs / strict reports as control dependence: every structural error an accessor step raises is on a branch where strictness is established, the mode predicates depend on the path's flag only, the temporary override below .** is restored on every exit, and a failed (status, error) pair is returned from whatever position of a subscript list or array it arises at.",
		Decided: []string{"R-FAILSTOP: a failed status, with or without an error value, is returned from whatever position of a list, array or recursive descent it arises at", "R-MODEGUARD: structural errors of accessor steps are guarded by strictness (tabled exceptions: subscript value conversion)",
			"R-MODEPRED: autoWrap/autoUnwrap/strict predicates and the initial flag are functions of IsLax only",
			"R-STATE: the .** override of the structural-error flag is restored on all exits",
			"R-PAIR-C: a failure is not overwritten by later elements/subscripts"},
		NotDecided:  []string{"'exactly one level' of unwrapping", "which items each step yields"},
		Assumptions: []string{},
	})
}

// --- R-ONELEVEL: lax unwrapping goes exactly one level -----------------------------------------

var ruleOneLevel = &Rule{
	Name: "R-ONELEVEL", NeedSSA: true,
	Doc: "the function that applies a node to every element of a slice hands a flag to the dispatcher telling it whether an element that is itself an array may be unwrapped again; wherever a step re-applies its own node to the elements of the array it has just unwrapped, that flag is the constant false (a second unwrap would open nested arrays: more than one level); only callers that move on to the next node may pass the mode's auto-unwrap",
	Run: func(p *Prog) *RuleOut {
		out := newOut("R-ONELEVEL")
		disp := p.ssaOf(p.A.Dispatcher)
		if disp == nil {
			out.undecided("dispatcher", "-", "", "anchor unresolved")
			return out
		}
		// the dispatcher's unwrap parameter: its last bool parameter
		dIdx := -1
		for i, q := range disp.Params {
			if b, ok := q.Type().Underlying().(*types.Basic); ok && b.Kind() == types.Bool {
				dIdx = i
			}
		}
		if dIdx < 0 {
			out.undecided("dispatcher", p.pos(disp.Pos()), fnName(disp), "no bool parameter")
			return out
		}
		// element appliers: a []any parameter and a bool parameter handed to the dispatcher's unwrap
		type applier struct {
			fn           *ssa.Function
			flagI, nodeI int
		}
		var apps []applier
		for _, fn := range p.execFuncs() {
			hasSlice := false
			for _, q := range fn.Params {
				if s, ok := q.Type().Underlying().(*types.Slice); ok && types.IsInterface(s.Elem()) {
					hasSlice = true
				}
			}
			if !hasSlice {
				continue
			}
			for _, c := range callsTo(fn, disp) {
				if q, ok := c.Call.Args[dIdx].(*ssa.Parameter); ok {
					fi, ni := -1, -1
					for i, fq := range fn.Params {
						if fq == q {
							fi = i
						}
						if types.Identical(fq.Type(), types.Type(p.A.Node)) {
							ni = i
						}
					}
					if fi >= 0 && ni >= 0 {
						apps = append(apps, applier{fn, fi, ni})
					}
				}
			}
		}
		// a function that hands its own slice, node and flag parameters on to an
		// applier is an applier itself (`executeEachItem` in front of
		// `executeAnyItem`)
		isApp := map[*ssa.Function]bool{}
		for _, a := range apps {
			isApp[a.fn] = true
		}
		forwards := map[*ssa.Call]bool{}
		for changed := true; changed; {
			changed = false
			for _, fn := range p.execFuncs() {
				if isApp[fn] {
					continue
				}
				for _, ap := range apps {
					for _, c := range callsTo(fn, ap.fn) {
						fq, ok1 := c.Call.Args[ap.flagI].(*ssa.Parameter)
						nq, ok2 := c.Call.Args[ap.nodeI].(*ssa.Parameter)
						if !ok1 || !ok2 || fq.Parent() != fn || nq.Parent() != fn || !types.Identical(nq.Type(), types.Type(p.A.Node)) {
							continue
						}
						hasSlice := false
						for _, a := range c.Call.Args {
							if sq, ok := a.(*ssa.Parameter); ok {
								if st, ok := sq.Type().Underlying().(*types.Slice); ok && types.IsInterface(st.Elem()) {
									hasSlice = true
								}
							}
						}
						if !hasSlice || isApp[fn] {
							continue
						}
						apps = append(apps, applier{fn, paramIndex(fq), paramIndex(nq)})
						isApp[fn] = true
						forwards[c] = true
						changed = true
					}
				}
			}
		}
		out.Counts["element_appliers"] = len(apps)
		out.Floors["element_appliers"] = 1
		n, nnext := 0, 0
		ord := ordinals{}
		for _, ap := range apps {
			for _, caller := range p.execFuncs() {
				for _, c := range callsTo(caller, ap.fn) {
					if forwards[c] {
						continue // the forwarder is judged at its own call sites
					}
					if q := p.ownNodeParam(c.Call.Args[ap.nodeI], 0); q == nil {
						// moves on to another node: the mode alone decides
						nnext++
						key := fmt.Sprintf("%s applies the next node through %s #%d", fnName(caller), ap.fn.Name(), ord.next(fnName(caller)+"/next"))
						flag := c.Call.Args[ap.flagI]
						fc, isCall := flag.(*ssa.Call)
						switch {
						case isCall && p.modePredicate(fc.Call.StaticCallee()) == "lax":
							out.ok(key, p.pos(c.Pos()), fnName(caller), "elements are unwrapped for the next step exactly in lax mode ("+fc.Call.StaticCallee().Name()+")")
						case isNilConst(c.Call.Args[ap.nodeI]):
							out.ok(key, p.pos(c.Pos()), fnName(caller), "no next node: nothing is applied")
						default:
							out.viol(key, p.pos(c.Pos()), fnName(caller), "whether the next step may unwrap the elements it is applied to depends on "+trunc(flag.String(), 50)+" instead of the path's mode alone: in lax mode array-valued members are no longer unwrapped for a following accessor or filter (or in strict mode they are)")
						}
						continue
					}
					n++
					key := fmt.Sprintf("%s re-applies its own node through %s #%d", fnName(caller), ap.fn.Name(), ord.next(fnName(caller)))
					flag := c.Call.Args[ap.flagI]
					switch {
					case isConstBool(flag, false):
						out.ok(key, p.pos(c.Pos()), fnName(caller), "elements are not unwrapped again")
					case caller == ap.fn && flag == ssa.Value(caller.Params[ap.flagI]):
						out.ok(key, p.pos(c.Pos()), fnName(caller), "recursion hands its own flag on")
					default:
						out.viol(key, p.pos(c.Pos()), fnName(caller), "the step is re-applied to the elements of the array it unwrapped with element unwrapping enabled ("+flag.String()+"): nested arrays are opened to any depth instead of exactly one level")
					}
				}
			}
		}
		// a helper that applies the node it is handed to the elements itself,
		// with the flag hard-coded false (`executeItemUnwrapTargetArray` with a
		// loop of its own): a step that hands it its own node re-applies it
		// without a second unwrap
		dNode := -1
		for i, q := range disp.Params {
			if types.Identical(q.Type(), types.Type(p.A.Node)) {
				dNode = i
			}
		}
		for _, h := range p.execFuncs() {
			if isApp[h] || h == disp || dNode < 0 {
				continue
			}
			var hq *ssa.Parameter
			fixed := true
			for _, c := range callsTo(h, disp) {
				q, ok := c.Call.Args[dNode].(*ssa.Parameter)
				if !ok || q.Parent() != h {
					continue
				}
				hq = q
				if !isConstBool(c.Call.Args[dIdx], false) {
					fixed = false
				}
			}
			if hq == nil || !fixed {
				continue
			}
			for _, caller := range p.execFuncs() {
				for _, c := range callsTo(caller, h) {
					if pi := paramIndex(hq); pi < len(c.Call.Args) && p.ownNodeParam(c.Call.Args[pi], 0) != nil {
						n++
						out.ok(fmt.Sprintf("%s re-applies its own node through %s #%d", fnName(caller), h.Name(), ord.next(fnName(caller))), p.pos(c.Pos()), fnName(caller),
							"the helper hands the dispatcher the constant false: elements are not unwrapped again")
					}
				}
			}
		}
		out.Counts["own_node_reapplications"] = n
		out.Floors["own_node_reapplications"] = 2
		out.Counts["next_node_applications"] = nnext
		out.Floors["next_node_applications"] = 2
		return out
	},
}

func isConstBool(v ssa.Value, want bool) bool {
	c, ok := v.(*ssa.Const)
	if !ok || c.Value == nil || c.Value.Kind() != constant.Bool {
		return false
	}
	return constant.BoolVal(c.Value) == want
}

func init() { register(ruleOneLevel) }

// flagPredicate: g is a method of the Executor without further parameters
// whose only return is the structural-error flag or its negation. pol is the
// answer that means "structural errors are reported" (the flag is off).
func (p *Prog) flagPredicate(g *ssa.Function, ignore *types.Var) (pol bool, ok bool) {
	if g == nil || g.Blocks == nil || len(g.Blocks) != 1 || !isMethodOfExecutor(p, g) || len(g.Params) != 1 || g.Signature.Results().Len() != 1 {
		return false, false
	}
	ret, isRet := g.Blocks[0].Instrs[len(g.Blocks[0].Instrs)-1].(*ssa.Return)
	if !isRet || len(ret.Results) != 1 {
		return false, false
	}
	v := ret.Results[0]
	neg := false
	if u, isU := v.(*ssa.UnOp); isU && u.Op == token.NOT {
		neg = true
		v = u.X
	}
	u, isU := v.(*ssa.UnOp)
	if !isU || u.Op != token.MUL {
		return false, false
	}
	if fld, _ := p.execFieldOf(u.X); fld != ignore {
		return false, false
	}
	return neg, true
}
