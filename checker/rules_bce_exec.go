package main

// R-BCE-EXEC (C05): index safety of the executor. The Go compiler's prove pass
// is the first decision procedure: every index or slice operation of package
// exec it proves in bounds is discharged. Each remaining one needs one of
// three structural arguments, decided here on the SSA form:
//
//   list      a constant index into the list of a value list, dominated by a
//             test of that list's length (the argument of R-LISTINDEX);
//   clamp     the induction variable of a loop `for i := lo; i <= hi; i++`
//             whose bounds come from one call F(..., len(s)) indexing s, where
//             every return of F with a possibly nil error returns lo ≥ 0 and
//             hi ≤ size-1 (shown from the branch facts on each path);
//   stringer  x.String()[k:] where String is a stringer-generated method whose
//             index table is increasing by at least k and whose fallback
//             branch starts with a constant of length ≥ k.
//
// Anything else is a violation: a hostile document or path could panic.

import (
	"fmt"
	"go/ast"
	"go/constant"
	"go/token"
	"go/types"
	"path/filepath"
	"sort"
	"strconv"
	"strings"

	"golang.org/x/tools/go/ssa"
)

// intFactHolds: do the facts establish `v op k`-style bounds?
// geZero: v >= 0.  ltSize: v < size (equivalently v <= size-1).
func geZero(v ssa.Value, fs []Fact) bool {
	for _, f := range fs {
		bo, ok := f.Cond.(*ssa.BinOp)
		if !ok {
			continue
		}
		if sameValue(bo.X, v) {
			if k, ok := constInt(bo.Y); ok {
				switch {
				case bo.Op == token.LSS && !f.Truth && k >= 0, // !(v < k), k ≥ 0  ⇒ v ≥ 0
					bo.Op == token.GEQ && f.Truth && k >= 0,   // v >= k, k ≥ 0
					bo.Op == token.GTR && f.Truth && k >= -1,  // v > k, k ≥ −1
					bo.Op == token.LEQ && !f.Truth && k >= -1: // !(v <= k), k ≥ −1
					return true
				}
			}
		}
		if sameValue(bo.Y, v) {
			if k, ok := constInt(bo.X); ok {
				switch {
				case bo.Op == token.GTR && !f.Truth && k >= 0, // !(k > v), k ≥ 0 ⇒ v ≥ 0
					bo.Op == token.LEQ && f.Truth && k >= 0,   // k <= v, k ≥ 0
					bo.Op == token.LSS && f.Truth && k >= -1,  // k < v, k ≥ −1
					bo.Op == token.GEQ && !f.Truth && k >= -1: // !(k >= v), k ≥ −1
					return true
				}
			}
		}
	}
	return false
}

func ltSize(v, size ssa.Value, fs []Fact) bool {
	for _, f := range fs {
		bo, ok := f.Cond.(*ssa.BinOp)
		if !ok {
			continue
		}
		switch {
		case sameValue(bo.X, v) && sameValue(bo.Y, size):
			if (bo.Op == token.GEQ && !f.Truth) || (bo.Op == token.LSS && f.Truth) {
				return true
			}
		case sameValue(bo.X, size) && sameValue(bo.Y, v):
			if (bo.Op == token.LEQ && !f.Truth) || (bo.Op == token.GTR && f.Truth) {
				return true
			}
		}
	}
	return false
}

// shortCircuitFacts: facts valid on entry to b even when b has several
// predecessors, provided they hold on every incoming edge.
func factsOnAllEdges(b *ssa.BasicBlock, holds func(fs []Fact) bool) bool {
	if len(b.Preds) == 0 {
		return false
	}
	for _, pr := range b.Preds {
		if !holds(edgeFacts(pr, succIndex(pr, b))) {
			return false
		}
	}
	return true
}

func (p *Prog) provesGE0(v ssa.Value, at *ssa.BasicBlock, fs []Fact, depth int) bool {
	if depth > 6 {
		return false
	}
	v = stripConv(v)
	if k, ok := constInt(v); ok {
		return k >= 0
	}
	if geZero(v, fs) {
		return true
	}
	if c, ok := v.(*ssa.Call); ok {
		if bi, ok := c.Call.Value.(*ssa.Builtin); ok && bi.Name() == "max" {
			for _, a := range c.Call.Args {
				if p.provesGE0(a, nil, fs, depth+1) {
					return true
				}
			}
		}
		if bi, ok := c.Call.Value.(*ssa.Builtin); ok && bi.Name() == "min" {
			all := true
			for _, a := range c.Call.Args {
				if !p.provesGE0(a, nil, fs, depth+1) {
					all = false
				}
			}
			if all {
				return true
			}
		}
	}
	// the induction variable of a range loop: i' = phi(-1, i', …) + 1
	if bo, ok := v.(*ssa.BinOp); ok && bo.Op == token.ADD {
		if k, isC := constInt(bo.Y); isC && k >= 1 {
			if ph, ok := bo.X.(*ssa.Phi); ok {
				all := true
				for _, e := range ph.Edges {
					if e == ssa.Value(bo) {
						continue
					}
					if c, isC := constInt(e); !isC || c < -k {
						all = false
					}
				}
				if all {
					return true
				}
			}
		}
	}
	if ph, ok := v.(*ssa.Phi); ok {
		for i, e := range ph.Edges {
			pr := ph.Block().Preds[i]
			if !p.provesGE0(e, pr, edgeFacts(pr, succIndex(pr, ph.Block())), depth+1) {
				return false
			}
		}
		return true
	}
	// a field of a struct returned by a small module function (bounds bundled
	// in a struct and clamped by a method)
	if call, k, ok := structFieldOfCall(v); ok {
		return p.fieldBoundInCallee(call, k, func(fv ssa.Value, fs []Fact, callee *ssa.Function) bool {
			return p.provesGE0(fv, nil, fs, depth+1)
		})
	}
	// several predecessors: the bound may hold on each incoming edge separately
	if at != nil && len(at.Preds) > 1 {
		return factsOnAllEdges(at, func(efs []Fact) bool { return geZero(v, efs) })
	}
	return false
}

func (p *Prog) provesLTSize(v, size ssa.Value, at *ssa.BasicBlock, fs []Fact, depth int) bool {
	if depth > 6 {
		return false
	}
	v = stripConv(v)
	if bo, ok := v.(*ssa.BinOp); ok && bo.Op == token.SUB && sameValue(bo.X, size) {
		if k, ok := constInt(bo.Y); ok && k >= 1 {
			return true
		}
	}
	if ltSize(v, size, fs) {
		return true
	}
	if c, ok := v.(*ssa.Call); ok {
		if bi, ok := c.Call.Value.(*ssa.Builtin); ok && bi.Name() == "min" {
			for _, a := range c.Call.Args {
				if p.provesLTSize(a, size, nil, fs, depth+1) {
					return true
				}
			}
		}
		if bi, ok := c.Call.Value.(*ssa.Builtin); ok && bi.Name() == "max" {
			all := true
			for _, a := range c.Call.Args {
				if !p.provesLTSize(a, size, nil, fs, depth+1) {
					all = false
				}
			}
			if all {
				return true
			}
		}
	}
	if ph, ok := v.(*ssa.Phi); ok {
		for i, e := range ph.Edges {
			pr := ph.Block().Preds[i]
			if !p.provesLTSize(e, size, pr, edgeFacts(pr, succIndex(pr, ph.Block())), depth+1) {
				return false
			}
		}
		return true
	}
	if call, k, ok := structFieldOfCall(v); ok {
		// the callee's own size parameter must be bound to `size` at this call
		callee := call.Call.StaticCallee()
		var calleeSize *ssa.Parameter
		for i, a := range call.Call.Args {
			if sameValue(a, size) && i < len(callee.Params) {
				calleeSize = callee.Params[i]
			}
		}
		if calleeSize == nil {
			return false
		}
		return p.fieldBoundInCallee(call, k, func(fv ssa.Value, fs []Fact, _ *ssa.Function) bool {
			return p.provesLTSize(fv, calleeSize, nil, fs, depth+1)
		})
	}
	if at != nil && len(at.Preds) > 1 {
		return factsOnAllEdges(at, func(efs []Fact) bool { return ltSize(v, size, efs) })
	}
	return false
}

// clampedBounds: every return of f with a possibly nil error returns
// (lo ≥ 0, hi < sizeParam). Returns problems.
func (p *Prog) clampedBounds(f *ssa.Function, sizeParam *ssa.Parameter) []string {
	var probs []string
	for _, r := range returnsOf(f) {
		if len(r.Results) != 3 {
			return []string{"unexpected result arity"}
		}
		e := r.Results[2]
		sh := p.shapeOf(e)
		if sh.Kind == "errorf" || sh.Kind == "global" {
			continue
		}
		fs := factsAt(r.Instr.Block())
		if _, nn := nilFact(fs, stripConv(e)); nn {
			continue
		}
		if !p.provesGE0(r.Results[0], r.Instr.Block(), fs, 0) {
			probs = append(probs, "return at "+p.pos(r.Instr.Pos())+": the lower bound is not shown to be ≥ 0 on every path")
		}
		if !p.provesLTSize(r.Results[1], sizeParam, r.Instr.Block(), fs, 0) {
			probs = append(probs, "return at "+p.pos(r.Instr.Pos())+": the upper bound is not shown to be ≤ "+sizeParam.Name()+"-1 on every path")
		}
	}
	return probs
}

// clampArgument decides the loop-between-clamped-bounds argument for ia.
func (p *Prog) clampArgument(ia *ssa.IndexAddr) (string, bool) {
	idx, ok := stripConv(ia.Index).(*ssa.Phi)
	if !ok || len(idx.Edges) != 2 {
		return "the index is not a loop induction variable", false
	}
	var lo ssa.Value
	step := false
	for _, e := range idx.Edges {
		if bo, ok := e.(*ssa.BinOp); ok && bo.Op == token.ADD && bo.X == ssa.Value(idx) {
			if k, ok := constInt(bo.Y); ok && k == 1 {
				step = true
				continue
			}
		}
		lo = e
	}
	if !step || lo == nil {
		return "the index does not advance by exactly one", false
	}
	// the upper bound of the loop guard idx <= hi (true edge) that dominates the access
	var hi ssa.Value
	for _, f := range factsAt(ia.Block()) {
		bo, ok := f.Cond.(*ssa.BinOp)
		if !ok {
			continue
		}
		if bo.X == ssa.Value(idx) && ((bo.Op == token.LEQ && f.Truth) || (bo.Op == token.GTR && !f.Truth)) {
			hi = bo.Y
		}
	}
	if hi == nil {
		return "the access is not guarded by index ≤ upper bound", false
	}
	return p.boundsFrom(lo, hi, ia.X, ia.Block(), 0)
}

// boundsFrom: lo and hi are the two bounds a module function returned for
// len(slice), seen at block at on the branch where that call succeeded — or
// they and the slice are parameters of an unexported helper every call site
// of which hands it such a triple (the loop moved into `execRange(…, array,
// from, to, …)`).
func (p *Prog) boundsFrom(lo, hi, slice ssa.Value, at *ssa.BasicBlock, depth int) (string, bool) {
	if loP, ok := lo.(*ssa.Parameter); ok && depth < 2 {
		hiP, ok1 := hi.(*ssa.Parameter)
		slP, ok2 := slice.(*ssa.Parameter)
		fn := loP.Parent()
		if !ok1 || !ok2 || hiP.Parent() != fn || slP.Parent() != fn {
			return "the bounds and the indexed slice are not all parameters of the helper", false
		}
		if fn.Object() == nil || fn.Object().Exported() {
			return "the bounds are parameters of an exported function", false
		}
		nd := p.CG.Nodes[fn]
		if nd == nil || len(nd.In) == 0 {
			return "the helper holding the loop is never called", false
		}
		why := ""
		for _, e := range nd.In {
			c, ok := e.Site.(*ssa.Call)
			if !ok || c.Call.StaticCallee() != fn || c.Block() == nil {
				return "the helper holding the loop is called other than by a plain call", false
			}
			li, hiI, si := paramIndex(loP), paramIndex(hiP), paramIndex(slP)
			if li >= len(c.Call.Args) || hiI >= len(c.Call.Args) || si >= len(c.Call.Args) {
				return "argument positions", false
			}
			w, ok := p.boundsFrom(c.Call.Args[li], c.Call.Args[hiI], c.Call.Args[si], c.Block(), depth+1)
			if !ok {
				return "at the call in " + fnName(e.Caller.Func) + ": " + w, false
			}
			why = w
		}
		return why + " (handed to " + fn.Name() + " at each of its call sites)", true
	}
	loX, ok := lo.(*ssa.Extract)
	if !ok || loX.Index != 0 {
		return "the initial index is not the first result of a bounds call", false
	}
	call, ok := loX.Tuple.(*ssa.Call)
	if !ok || call.Call.StaticCallee() == nil || !inModule(call.Call.StaticCallee()) {
		return "the bounds do not come from a module function", false
	}
	hiX, errX := extractOf(call, 1), extractOf(call, 2)
	if hiX == nil || errX == nil {
		return "the bounds call's upper bound or error is unused", false
	}
	if hi != hiX {
		return "the access is not guarded by index ≤ upper bound", false
	}
	if isNil, _ := nilFact(factsAt(at), errX); !isNil {
		return "the access is not on the branch where the bounds call succeeded", false
	}
	// the size handed to the bounds call is len(indexed slice)
	f := call.Call.StaticCallee()
	var sizeParam *ssa.Parameter
	for i, a := range call.Call.Args {
		lc, ok := stripConv(a).(*ssa.Call)
		if !ok {
			continue
		}
		if bi, ok := lc.Call.Value.(*ssa.Builtin); ok && bi.Name() == "len" && lc.Call.Args[0] == slice {
			if i < len(f.Params) {
				sizeParam = f.Params[i]
			}
		}
	}
	if sizeParam == nil {
		return "the bounds call does not receive len() of the indexed slice", false
	}
	if probs := p.clampedBounds(f, sizeParam); len(probs) > 0 {
		return fnName(f) + " can return unclamped bounds: " + probs[0], false
	}
	return fmt.Sprintf("loop over [lo, hi] returned by %s(…, len(s)); every successful return has lo ≥ 0 and hi ≤ %s-1", f.Name(), sizeParam.Name()), true
}

// clampedSliceArgument decides s[lo : hi+1] where (lo, hi) are the bounds a
// module function returned for len(s), on the branch where that call
// succeeded and lo ≤ hi is known: 0 ≤ lo ≤ hi+1 ≤ len(s).
func (p *Prog) clampedSliceArgument(sl *ssa.Slice) (string, bool) {
	if sl.Low == nil || sl.High == nil || sl.Max != nil || sl.Block() == nil {
		return "", false
	}
	hb, ok := stripConv(sl.High).(*ssa.BinOp)
	if !ok || hb.Op != token.ADD {
		return "", false
	}
	if k, isC := constInt(hb.Y); !isC || k != 1 {
		return "", false
	}
	lo, hi := stripConv(sl.Low), stripConv(hb.X)
	// lo ≤ hi on the way here
	ordered := false
	for _, f := range factsAt(sl.Block()) {
		bo, ok := f.Cond.(*ssa.BinOp)
		if !ok {
			continue
		}
		x, y := stripConv(bo.X), stripConv(bo.Y)
		switch {
		case x == lo && y == hi && ((bo.Op == token.LEQ && f.Truth) || (bo.Op == token.GTR && !f.Truth)):
			ordered = true
		case x == hi && y == lo && ((bo.Op == token.GEQ && f.Truth) || (bo.Op == token.LSS && !f.Truth)):
			ordered = true
		}
	}
	if !ordered {
		return "the slice bounds are not known to be ordered (lo ≤ hi) where the slice is taken", false
	}
	why, good := p.boundsFrom(lo, hi, sl.X, sl.Block(), 0)
	if !good {
		return why, false
	}
	return "s[lo:hi+1] with lo ≤ hi on this branch; " + why, true
}

// stringerArgument decides x.String()[k:] for a stringer-generated method.
func (p *Prog) stringerArgument(sl *ssa.Slice) (string, bool) {
	if sl.High != nil || sl.Max != nil {
		return "", false
	}
	k, ok := constInt(sl.Low)
	if !ok || k < 0 {
		return "", false
	}
	call, ok := sl.X.(*ssa.Call)
	if !ok || call.Call.StaticCallee() == nil || call.Call.StaticCallee().Name() != "String" || !inModule(call.Call.StaticCallee()) {
		return "", false
	}
	fn := call.Call.StaticCallee()
	n := 0
	for _, r := range returnsOf(fn) {
		n++
		switch v := r.Results[0].(type) {
		case *ssa.BinOp:
			// "Type(" + ... : leftmost constant operand
			var left ssa.Value = v
			for {
				bo, ok := left.(*ssa.BinOp)
				if !ok || bo.Op != token.ADD {
					break
				}
				left = bo.X
			}
			c, ok := left.(*ssa.Const)
			if !ok || c.Value == nil || c.Value.Kind() != constant.String || int64(len(constant.StringVal(c.Value))) < k {
				return "the fallback of " + fnName(fn) + " may be shorter than the slice offset", false
			}
		case *ssa.Slice:
			lowL, ok1 := tableLoad(v.Low)
			highL, ok2 := tableLoad(v.High)
			if !ok1 || !ok2 || lowL.g != highL.g {
				return "String() does not slice its name table by consecutive entries of one index table", false
			}
			// high index = low index + 1
			hb, ok := highL.idx.(*ssa.BinOp)
			if !ok || hb.Op != token.ADD || stripConv(hb.X) != stripConv(lowL.idx) {
				return "String() does not slice by consecutive entries", false
			}
			if one, ok := constInt(hb.Y); !ok || one != 1 {
				return "String() does not slice by consecutive entries", false
			}
			vals, ok := p.intTable(lowL.g)
			if !ok || len(vals) < 2 {
				return "the index table of " + fnName(fn) + " cannot be read", false
			}
			for i := 1; i < len(vals); i++ {
				if vals[i]-vals[i-1] < k {
					return fmt.Sprintf("entry %d of the name table of %s is shorter than %d", i-1, fnName(fn), k), false
				}
			}
		default:
			if c, ok := v.(*ssa.Const); ok && c.Value != nil && c.Value.Kind() == constant.String && int64(len(constant.StringVal(c.Value))) >= k {
				continue
			}
			return "a return of " + fnName(fn) + " is not understood", false
		}
	}
	if n == 0 {
		return "", false
	}
	return fmt.Sprintf("%s returns a name of length ≥ %d for every value (index table increasing, fallback prefixed by a constant)", fnName(fn), k), true
}

type tblLoad struct {
	g   *ssa.Global
	idx ssa.Value
}

// tableLoad: v is (a conversion of) a load of G[idx] for a package-level array G.
func tableLoad(v ssa.Value) (tblLoad, bool) {
	for {
		switch x := v.(type) {
		case *ssa.Convert:
			v = x.X
			continue
		case *ssa.ChangeType:
			v = x.X
			continue
		}
		break
	}
	u, ok := v.(*ssa.UnOp)
	if !ok || u.Op != token.MUL {
		return tblLoad{}, false
	}
	ia, ok := u.X.(*ssa.IndexAddr)
	if !ok {
		return tblLoad{}, false
	}
	g, ok := ia.X.(*ssa.Global)
	if !ok {
		return tblLoad{}, false
	}
	return tblLoad{g, ia.Index}, true
}

// intTable reads the integer literals a package-level array variable is
// initialised with, and checks that nothing in the module stores into it.
func (p *Prog) intTable(g *ssa.Global) ([]int64, bool) {
	pk := p.Pkgs[g.Pkg.Pkg.Path()]
	if pk == nil {
		return nil, false
	}
	for fn := range p.AllFns {
		if !inModule(fn) || fn.Name() == "init" && fn.Synthetic != "" {
			continue
		}
		for _, b := range fn.Blocks {
			for _, ins := range b.Instrs {
				if st, ok := ins.(*ssa.Store); ok {
					if ia, ok := st.Addr.(*ssa.IndexAddr); ok && ia.X == ssa.Value(g) {
						return nil, false
					}
					if st.Addr == ssa.Value(g) {
						return nil, false
					}
				}
			}
		}
	}
	for _, f := range pk.Syntax {
		for _, d := range f.Decls {
			gd, ok := d.(*ast.GenDecl)
			if !ok || gd.Tok != token.VAR {
				continue
			}
			for _, sp := range gd.Specs {
				vs := sp.(*ast.ValueSpec)
				for i, nm := range vs.Names {
					if pk.TypesInfo.Defs[nm] != g.Object() || i >= len(vs.Values) {
						continue
					}
					cl, ok := vs.Values[i].(*ast.CompositeLit)
					if !ok {
						return nil, false
					}
					var out []int64
					for _, e := range cl.Elts {
						tv, ok := pk.TypesInfo.Types[e]
						if !ok || tv.Value == nil {
							return nil, false
						}
						k, ok := constant.Int64Val(constant.ToInt(tv.Value))
						if !ok {
							return nil, false
						}
						out = append(out, k)
					}
					return out, true
				}
			}
		}
	}
	return nil, false
}

var ruleBCEExec = &Rule{
	Name: "R-BCE-EXEC", NeedSSA: true,
	Doc: "every index or slice operation of package exec is either proven in bounds by the compiler's prove pass or discharged by one of five structural arguments (length-tested constant index into an item sequence; loop between bounds clamped by the callee on every successful return; stringer name sliced by less than its shortest entry; index bounded by len of the same function-local list that nothing in the loop can change; s[len(s)-k] under len(s) >= k with k a positive constant at every call site)",
	Run: func(p *Prog) *RuleOut {
		out := newOut("R-BCE-EXEC")
		nidx := 0
		type site struct {
			ins ssa.Instruction
			fn  *ssa.Function
		}
		byPos := map[string][]site{}
		stdCalls := map[string]string{}
		for _, fn := range p.execFuncs() {
			for _, b := range fn.Blocks {
				for _, ins := range b.Instrs {
					switch x := ins.(type) {
					case *ssa.Call:
						if c := x.Call.StaticCallee(); c != nil && !inModule(c) && c.Pkg != nil {
							pos := p.Fset.Position(ins.Pos())
							stdCalls[fmt.Sprintf("%s:%d:%d", pos.Filename, pos.Line, pos.Column)] = c.Pkg.Pkg.Path() + "." + c.Name()
						}
					case *ssa.IndexAddr, *ssa.Index, *ssa.Slice:
						nidx++
						pos := p.Fset.Position(ins.Pos())
						k := fmt.Sprintf("%s:%d:%d", pos.Filename, pos.Line, pos.Column)
						byPos[k] = append(byPos[k], site{ins, fn})
					}
				}
			}
		}
		out.Counts["index_and_slice_operations"] = nidx
		out.Floors["index_and_slice_operations"] = 3
		fs, err := p.compilerBCE("./path/exec")
		if err != nil {
			out.undecided("compiler prove pass", "-", "", err.Error())
			return out
		}
		out.Counts["compiler_sentinel_confirmed"] = 1 // compilerBCE fails unless the sentinel function was reported as expected
		out.Floors["compiler_sentinel_confirmed"] = 1
		sort.Slice(fs, func(i, j int) bool {
			if fs[i].File != fs[j].File {
				return fs[i].File < fs[j].File
			}
			if fs[i].Line != fs[j].Line {
				return fs[i].Line < fs[j].Line
			}
			return fs[i].Col < fs[j].Col
		})
		execDir := filepath.Join(p.RepoDir, "path", "exec")
		n := 0
		ord := map[string]int{}
		for _, f := range fs {
			if filepath.Dir(f.File) != execDir {
				continue // instantiated generic code of the standard library
			}
			n++
			rel, _ := filepath.Rel(p.RepoDir, f.File)
			where := fmt.Sprintf("%s:%d", rel, f.Line)
			ss := byPos[fmt.Sprintf("%s:%d:%d", f.File, f.Line, f.Col)]
			if callee, ok := stdCalls[fmt.Sprintf("%s:%d:%d", f.File, f.Line, f.Col)]; ok && len(ss) == 0 {
				out.ok(fmt.Sprintf("unproven %s inside inlined %s at %s", f.Kind, callee, filepath.Base(f.File)), where, "", "the check belongs to the body of a standard-library function the compiler inlined at this call (trusted: standard library)")
				continue
			}
			if len(ss) == 0 {
				out.undecided(fmt.Sprintf("unproven %s at %s:%d:%d", f.Kind, filepath.Base(f.File), f.Line, f.Col), where, "", "cannot map the compiler's position to an SSA instruction")
				continue
			}
			// several operations at one position (`for … range s[lo:hi]`: the
			// slice expression and the element load of the loop): the one of
			// the kind the compiler names
			if len(ss) > 1 {
				var same []site
				for _, s := range ss {
					_, isSlice := s.ins.(*ssa.Slice)
					if isSlice == strings.Contains(f.Kind, "Slice") {
						same = append(same, s)
					}
				}
				if len(same) > 0 {
					ss = same
				}
			}
			for _, s := range ss {
				name := fnName(s.fn)
				ord[name+f.Kind]++
				key := fmt.Sprintf("%s: unproven %s #%d", name, f.Kind, ord[name+f.Kind])
				why, good := "", false
				switch x := s.ins.(type) {
				case *ssa.IndexAddr:
					if k, isC := constInt(x.Index); isC {
						if base, ok := loadOfField(x.X, "list"); ok && namedOf(base.Type()) == p.A.ValueList {
							why, good = fmt.Sprintf("constant index %d into an item sequence: the dominating length test is decided by R-LISTINDEX", k), true
						}
					} else {
						why, good = p.clampArgument(x)
						if !good {
							if w2, g2 := p.rangeOverLocalList(x); g2 {
								why, good = w2, true
							} else if w3, g3 := p.lenMinusPositive(x); g3 {
								why, good = w3, true
							}
						}
					}
				case *ssa.Slice:
					why, good = p.stringerArgument(x)
					if !good {
						if w2, g2 := p.clampedSliceArgument(x); g2 {
							why, good = w2, true
						}
					}
				}
				if good {
					out.ok(key, where, name, why)
				} else {
					if why == "" {
						why = "no structural argument applies"
					}
					out.viol(key, where, name, "the compiler cannot prove this index/slice in bounds and "+why+": a document or path can make the executor panic")
				}
			}
		}
		out.Counts["unproven_checks_in_exec"] = n
		_ = strconv.Itoa
		_ = types.Typ
		return out
	},
}

func init() { register(ruleBCEExec) }

// structFieldOfCall: v is a load of field #k of a local struct variable whose
// only whole-struct store is the result of a static call to a module function.
func structFieldOfCall(v ssa.Value) (*ssa.Call, int, bool) {
	u, ok := v.(*ssa.UnOp)
	if !ok || u.Op != token.MUL {
		return nil, 0, false
	}
	fa, ok := u.X.(*ssa.FieldAddr)
	if !ok {
		return nil, 0, false
	}
	a, ok := fa.X.(*ssa.Alloc)
	if !ok {
		return nil, 0, false
	}
	// the last whole-struct store before the load, in the same block
	var last *ssa.Store
	for _, ins := range u.Block().Instrs {
		if ins == ssa.Instruction(u) {
			break
		}
		if st, ok := ins.(*ssa.Store); ok {
			if st.Addr == ssa.Value(a) {
				last = st
			} else if f2, ok := st.Addr.(*ssa.FieldAddr); ok && f2.X == ssa.Value(a) && f2.Field == fa.Field {
				last = nil // the field is overwritten afterwards
			}
		}
	}
	if last == nil {
		return nil, 0, false
	}
	c, ok := last.Val.(*ssa.Call)
	if !ok || c.Call.StaticCallee() == nil || !inModule(c.Call.StaticCallee()) || c.Call.StaticCallee().Blocks == nil {
		return nil, 0, false
	}
	return c, fa.Field, true
}

// fieldBoundInCallee enumerates the acyclic paths of the callee to its returns.
// The callee must return (a load of) one local struct variable; on each path
// field #k of it is either the value last stored into it on the path, or, if
// nothing was stored, the field of the incoming struct, about which the
// path's branch conditions speak. holds is asked about that value under the
// path's facts; all paths must pass.
func (p *Prog) fieldBoundInCallee(call *ssa.Call, k int, holds func(v ssa.Value, fs []Fact, callee *ssa.Function) bool) bool {
	callee := call.Call.StaticCallee()
	paths := 0
	okAll := true
	var walk func(b *ssa.BasicBlock, fs []Fact, lastStore ssa.Value, seen map[*ssa.BasicBlock]bool)
	walk = func(b *ssa.BasicBlock, fs []Fact, lastStore ssa.Value, seen map[*ssa.BasicBlock]bool) {
		if !okAll || seen[b] || paths > 256 {
			if seen[b] || paths > 256 {
				okAll = false // a loop or too many paths: not decided
			}
			return
		}
		seen[b] = true
		defer delete(seen, b)
		for _, ins := range b.Instrs {
			switch x := ins.(type) {
			case *ssa.Store:
				if fa, ok := x.Addr.(*ssa.FieldAddr); ok && fa.Field == k {
					if _, isLocal := fa.X.(*ssa.Alloc); isLocal {
						lastStore = x.Val
					}
				}
			case *ssa.Return:
				paths++
				if len(x.Results) != 1 {
					okAll = false
					return
				}
				ld, ok := x.Results[0].(*ssa.UnOp)
				if !ok {
					okAll = false
					return
				}
				al, ok := ld.X.(*ssa.Alloc)
				if !ok {
					okAll = false
					return
				}
				v := lastStore
				if v == nil {
					// untouched: any load of the same field of the same local stands for it
					v = fieldLoadOf(callee, al, k)
					if v == nil {
						okAll = false
						return
					}
				}
				if !holds(v, fs, callee) {
					okAll = false
				}
				return
			case *ssa.If:
				for si, s := range b.Succs {
					nfs := appendFact(append([]Fact{}, fs...), Fact{Cond: x.Cond, Truth: si == 0}, 0)
					walk(s, nfs, lastStore, seen)
				}
				return
			case *ssa.Jump:
				walk(b.Succs[0], fs, lastStore, seen)
				return
			case *ssa.Panic:
				return
			}
		}
	}
	walk(callee.Blocks[0], nil, nil, map[*ssa.BasicBlock]bool{})
	return okAll && paths > 0
}

// fieldLoadOf: some load of field #k of the local struct al in fn (all such
// loads denote the same value on a path that does not store the field).
func fieldLoadOf(fn *ssa.Function, al *ssa.Alloc, k int) ssa.Value {
	for _, b := range fn.Blocks {
		for _, ins := range b.Instrs {
			if u, ok := ins.(*ssa.UnOp); ok && u.Op == token.MUL {
				if fa, ok := u.X.(*ssa.FieldAddr); ok && fa.X == ssa.Value(al) && fa.Field == k {
					return u
				}
			}
		}
	}
	return nil
}

// --- two more structural arguments -------------------------------------------------------------

// collectorsNeverRetained: nowhere in package exec is a *valueList stored to
// memory, bound into a closure or converted to an interface: a callee that
// receives a list cannot keep it, so a list local to a function is only
// modified by the calls that receive it.
func (p *Prog) collectorsNeverRetained() (bool, string) {
	isList := func(t types.Type) bool {
		pt, ok := t.(*types.Pointer)
		return ok && pt.Elem() == types.Type(p.A.ValueList)
	}
	for _, fn := range p.execFuncs() {
		for _, b := range fn.Blocks {
			for _, ins := range b.Instrs {
				switch x := ins.(type) {
				case *ssa.Store:
					if isList(x.Val.Type()) {
						if _, local := x.Addr.(*ssa.Alloc); local && !x.Addr.(*ssa.Alloc).Heap {
							continue
						}
						return false, p.pos(x.Pos())
					}
				case *ssa.MakeInterface:
					if isList(x.X.Type()) {
						return false, p.pos(x.Pos())
					}
				case *ssa.MakeClosure:
					for _, bv := range x.Bindings {
						if isList(bv.Type()) {
							return false, p.pos(x.Pos())
						}
					}
				}
			}
		}
	}
	return true, ""
}

// rangeOverLocalList: ia indexes P.list with an index the branch facts bound
// by len of an earlier load of the same field of the same local list P, and
// nothing inside the loop can change P.list: no store to it in the function,
// no call in the blocks the loop header dominates receives P, and no callee
// can have retained P.
func (p *Prog) rangeOverLocalList(ia *ssa.IndexAddr) (string, bool) {
	ld, ok := ia.X.(*ssa.UnOp)
	if !ok || ld.Op != token.MUL {
		return "", false
	}
	fa, ok := ld.X.(*ssa.FieldAddr)
	if !ok {
		return "", false
	}
	P := fa.X
	switch P.(type) {
	case *ssa.Call, *ssa.Alloc:
	default:
		return "the indexed list is not local to the function", false
	}
	fn := ia.Parent()
	sameField := func(v ssa.Value) bool {
		u, ok := v.(*ssa.UnOp)
		if !ok || u.Op != token.MUL {
			return false
		}
		f2, ok := u.X.(*ssa.FieldAddr)
		return ok && f2.X == P && f2.Field == fa.Field
	}
	// upper bound: index < len(earlier load of P.f)
	var header *ssa.BasicBlock
	bounded := false
	for _, f := range factsAt(ia.Block()) {
		bo, ok := f.Cond.(*ssa.BinOp)
		if !ok || !(bo.Op == token.LSS && f.Truth || bo.Op == token.GEQ && !f.Truth) || bo.X != ia.Index {
			continue
		}
		lc, ok := bo.Y.(*ssa.Call)
		if !ok {
			continue
		}
		if bi, ok := lc.Call.Value.(*ssa.Builtin); ok && bi.Name() == "len" && sameField(lc.Call.Args[0]) {
			bounded = true
			header = bo.Block()
		}
	}
	if !bounded {
		return "the index is not bounded by the length of the same list", false
	}
	if !p.provesGE0(ia.Index, ia.Block(), factsAt(ia.Block()), 0) {
		return "the index is not shown to be non-negative", false
	}
	for _, b := range fn.Blocks {
		for _, ins := range b.Instrs {
			switch x := ins.(type) {
			case *ssa.Store:
				if f2, ok := x.Addr.(*ssa.FieldAddr); ok && f2.X == P && f2.Field == fa.Field {
					return "the list is assigned in this function (" + p.pos(x.Pos()) + ")", false
				}
			case ssa.CallInstruction:
				if header != nil && (b == header || header.Dominates(b)) {
					for _, a := range x.Common().Args {
						if a == P {
							return "a call inside the loop receives the list (" + p.pos(x.Pos()) + ")", false
						}
					}
				}
			}
		}
	}
	if ok, where := p.collectorsNeverRetained(); !ok {
		return "a list pointer is retained somewhere in the package (" + where + "), so a callee could modify it", false
	}
	return "index bounded by len of the same function-local list, which nothing inside the loop can change (no store, no call receives it, lists are never retained)", true
}

// lenMinusPositive: ia indexes s at len(s)-k where len(s) >= k holds and k is
// positive: a positive constant, or a parameter for which every caller passes
// a positive constant.
func (p *Prog) lenMinusPositive(ia *ssa.IndexAddr) (string, bool) {
	bo, ok := stripConv(ia.Index).(*ssa.BinOp)
	if !ok || bo.Op != token.SUB {
		return "", false
	}
	isLenOf := func(v ssa.Value) bool {
		c, ok := v.(*ssa.Call)
		if !ok {
			return false
		}
		bi, ok := c.Call.Value.(*ssa.Builtin)
		return ok && bi.Name() == "len" && sameValue(c.Call.Args[0], ia.X)
	}
	if !isLenOf(bo.X) {
		return "", false
	}
	k := bo.Y
	// len(s) >= k on the way here
	ge := false
	for _, f := range factsAt(ia.Block()) {
		c, ok := f.Cond.(*ssa.BinOp)
		if !ok {
			continue
		}
		if isLenOf(c.X) && sameValue(c.Y, k) && (c.Op == token.GEQ && f.Truth || c.Op == token.LSS && !f.Truth) {
			ge = true
		}
		if isLenOf(c.Y) && sameValue(c.X, k) && (c.Op == token.LEQ && f.Truth || c.Op == token.GTR && !f.Truth) {
			ge = true
		}
	}
	if !ge {
		return "len(s) >= k is not established before s[len(s)-k]", false
	}
	if c, ok := constInt(k); ok {
		if c > 0 {
			return fmt.Sprintf("s[len(s)-%d] under len(s) >= %d", c, c), true
		}
		return "", false
	}
	q, ok := k.(*ssa.Parameter)
	if !ok {
		return "the offset from the end is neither a constant nor a parameter", false
	}
	fn := q.Parent()
	idx := -1
	for i, pp := range fn.Params {
		if pp == q {
			idx = i
		}
	}
	node := p.CG.Nodes[fn]
	if idx < 0 || node == nil || len(node.In) == 0 {
		return "the callers of " + fn.Name() + " are not known", false
	}
	n := 0
	for _, e := range node.In {
		if e.Site == nil || e.Site.Common().StaticCallee() != fn || idx >= len(e.Site.Common().Args) {
			return "a caller of " + fn.Name() + " is not a static call", false
		}
		c, ok := constInt(e.Site.Common().Args[idx])
		if !ok || c <= 0 {
			return "a caller passes an offset that is not a positive constant (" + p.pos(e.Site.Pos()) + ")", false
		}
		n++
	}
	if fn.Object() != nil && fn.Object().Exported() {
		return "the function is exported: other callers may pass anything", false
	}
	return fmt.Sprintf("s[len(s)-%s] under len(s) >= %s, and all %d callers pass a positive constant for %s", q.Name(), q.Name(), n, q.Name()), true
}
